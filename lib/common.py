"""Small helpers shared by the per-property plans in lib/checks."""
TRUSTED = ["TLC 2026.09.04 + CommunityModules (Json, IOUtils, Bitwise)",
           "harness/src/enc projections (exercised by the canary on every run)",
           "driver: counting and mapping TLC verdicts to exit codes"]


def first_with(evs, pred, start=5):
    """index of the first event (searching from `start`, wrapping) satisfying pred, or None"""
    for i in list(range(min(start, len(evs)), len(evs))) + list(range(0, min(start, len(evs)))):
        if pred(evs[i]):
            return i
    return None
