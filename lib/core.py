"""Driver core: builds the harness from /repo's working tree, runs generators, runs TLC, maps TLC's
verdicts to exit codes, writes evidence.  It counts and reports; the TLA+ specification evaluated by
TLC is the only oracle."""
import concurrent.futures as cf
import hashlib
import json
import os
import re
import shutil
import subprocess
import sys
import time

ROOT = os.path.dirname(os.path.dirname(os.path.abspath(__file__)))
BUILD = os.path.join(ROOT, ".build")
SPEC = os.path.join(ROOT, "spec")
HARNESS = os.path.join(ROOT, "harness")
BIN = os.path.join(BUILD, "target", "debug", "cwe_conf")
CLI_TARGET = os.path.join(BUILD, "target_cli")
CLI_BIN = os.path.join(CLI_TARGET, "debug", "cwe_checker")
REPO = os.path.realpath(os.path.join(ROOT, "repo"))   # symlink to /repo (scratch clones of /verif may re-point it)
GUARD = "cwe_checker_verif"


class ToolError(Exception):
    pass


def log(*a):
    print(*a, file=sys.stderr, flush=True)


def sh(cmd, cwd=None, env=None, timeout=None, check=True):
    e = dict(os.environ)
    e.update({"CARGO_NET_OFFLINE": "true"})
    if env:
        e.update(env)
    try:
        p = subprocess.run(cmd, cwd=cwd, env=e, timeout=timeout, stdout=subprocess.PIPE, stderr=subprocess.STDOUT, text=True)
    except subprocess.TimeoutExpired as ex:
        raise ToolError("timeout: %s" % " ".join(cmd)) from ex
    if check and p.returncode != 0:
        raise ToolError("command failed (%d): %s\n%s" % (p.returncode, " ".join(cmd), p.stdout[-4000:]))
    return p


def _source_hash():
    """Content hash of the code under test (everything cargo compiles from the repository)."""
    h = hashlib.sha256()
    h.update(REPO.encode())
    for root in (os.path.join(REPO, "src", "cwe_checker_lib"), os.path.join(REPO, "src", "caller")):
        for d, dirs, files in sorted(os.walk(root)):
            dirs.sort()
            if "target" in dirs:
                dirs.remove("target")
            for f in sorted(files):
                if f.endswith((".rs", ".toml", ".json", ".lock")):
                    fp = os.path.join(d, f)
                    h.update(fp.encode())
                    with open(fp, "rb") as fh:
                        h.update(fh.read())
    for f in ("Cargo.toml", "Cargo.lock"):
        with open(os.path.join(REPO, f), "rb") as fh:
            h.update(fh.read())
    return h.hexdigest()


def _clean_if_sources_changed(stamp, cwd, packages, target_dir, extra):
    """cargo's freshness check is mtime based: a source file restored with an OLD mtime (rsync -a, a
    re-pointed `repo` symlink, some checkouts) would silently keep the previous build.  Whenever the
    CONTENT of the code under test differs from what was built last, forget its artefacts."""
    os.makedirs(BUILD, exist_ok=True)
    cur = _source_hash()
    old = open(stamp).read() if os.path.exists(stamp) else None
    if old != cur:
        if old is not None and os.path.exists(target_dir):
            cmd = ["cargo", "clean", "--offline"] + [x for p in packages for x in ("-p", p)] + (extra or [])
            sh(cmd, cwd=cwd, timeout=600, check=False)
        open(stamp, "w").write(cur)


def build_harness():
    """cargo build of the harness crate; its path dependency is /repo's working tree, so every check
    rebuilds the code under test as it is now."""
    lock_src = os.path.join(REPO, "Cargo.lock")
    lock_dst = os.path.join(HARNESS, "Cargo.lock")
    if not os.path.exists(lock_dst):
        shutil.copy(lock_src, lock_dst)
    _clean_if_sources_changed(os.path.join(BUILD, "src_hash_harness"), HARNESS, ["cwe_checker_lib"], os.path.join(BUILD, "target"), None)
    t = time.time()
    p = sh(["cargo", "build", "--offline", "--bin", "cwe_conf"], cwd=HARNESS, timeout=3600, check=False)
    if p.returncode != 0:
        # a stale lock file is the usual reason; retry once from the repo's lock
        shutil.copy(lock_src, lock_dst)
        p = sh(["cargo", "build", "--offline", "--bin", "cwe_conf"], cwd=HARNESS, timeout=3600, check=False)
    if p.returncode != 0:
        raise ToolError("harness build failed:\n" + p.stdout[-6000:])
    log("[build] harness ok (%.1fs)" % (time.time() - t))


def build_cli():
    """Build the real cwe_checker binary (caller crate) with the hook guard enabled."""
    _clean_if_sources_changed(os.path.join(BUILD, "src_hash_cli"), REPO, ["cwe_checker_lib", "cwe_checker"], CLI_TARGET,
                              ["--target-dir", CLI_TARGET])
    t = time.time()
    flags = "--cfg %s --check-cfg cfg(%s)" % (GUARD, GUARD)
    p = sh(["cargo", "build", "--offline", "-p", "cwe_checker", "--target-dir", CLI_TARGET,
            "--config", "profile.dev.opt-level=1", "--config", "profile.dev.debug=false"],
           cwd=REPO, env={"RUSTFLAGS": flags}, timeout=3600, check=False)
    if p.returncode != 0:
        raise ToolError("cli build failed:\n" + p.stdout[-6000:])
    log("[build] cwe_checker cli ok (%.1fs)" % (time.time() - t))


# --------------------------------------------------------------------------------------------
# TLC
# --------------------------------------------------------------------------------------------
class TlcResult:
    def __init__(self, out, rc, wall):
        self.out = out
        self.rc = rc
        self.wall = wall
        m = re.findall(r"(\d[\d,]*) states generated, (\d[\d,]*) distinct states found", out)
        self.generated = int(m[-1][0].replace(",", "")) if m else 0
        self.distinct = int(m[-1][1].replace(",", "")) if m else 0
        self.bad = [int(x) for x in re.findall(r'<<"BAD", (\d+)', out)]
        self.badlines = re.findall(r'^<<"BAD".*$', out, re.M)
        self.printed = re.findall(r'^<<"(?!BAD)[A-Z]+".*>>$', out, re.M)
        self.unconsumed = re.findall(r'<<"UNCONSUMED", (\d+)', out)
        self.invariant = re.findall(r"Invariant (\S+) is violated", out)
        self.property_violated = re.findall(r"(?:Temporal properties were violated|Action property \S+ is violated|property (\S+) is violated)", out)
        self.deadlock = "Deadlock reached" in out
        self.finished_ok = "Model checking completed. No error has been found." in out or \
            ("Finished in" in out and "Error:" not in out and "is violated" not in out)
        self.error = None
        if not self.invariant and not self.property_violated and not self.deadlock:
            m = re.search(r"Error: (.*)", out)
            if m and "POSTCONDITION" not in m.group(0) and "Postcondition" not in m.group(0):
                self.error = out[m.start():m.start() + 3000]
        self.post_failed = bool(re.search(r"[Pp]ost.?condition", out) and "violated" in out or self.unconsumed)
        self.coverage = {}

    def cex(self):
        """TLC's printed counterexample (state dump) if any."""
        i = self.out.find("Error: Invariant")
        if i < 0:
            i = self.out.find("Error:")
        return self.out[i:i + 20000] if i >= 0 else ""


def tlc(module, cfg=None, trace=None, workers=1, extra=None, timeout=1800, xmx="3g", deque=False, env=None):
    """Run TLC on spec/<...>/module.tla in its own directory."""
    path = module if os.path.isabs(module) else os.path.join(SPEC, module)
    d, base = os.path.split(path)
    meta = os.path.join(BUILD, "tlc", "%d_%s_%s" % (os.getpid(), base.replace(".tla", ""), hashlib.md5((str(trace) + str(time.time())).encode()).hexdigest()[:8]))
    os.makedirs(meta, exist_ok=True)
    # few GC threads: many single-worker validators run side by side
    jopts = "-DTLA-Library=%s:%s/mc:%s/trace -Xss1g -Xmx%s -XX:ParallelGCThreads=%d" % (SPEC, SPEC, SPEC, xmx, max(2, min(int(workers), 8)))
    if deque:
        jopts += " -Dtlc2.tool.queue.IStateQueue=StateDeque"
    e = dict(os.environ)
    e["JAVA_TOOL_OPTIONS"] = jopts
    if trace:
        e["TRACE"] = os.path.abspath(trace)
    if env:
        e.update(env)
    cmd = ["tlc", "-metadir", meta, "-cleanup", "-noGenerateSpecTE", "-workers", str(workers)]
    if cfg:
        cmd += ["-config", cfg]
    cmd += (extra or []) + [base]
    t = time.time()
    try:
        p = subprocess.run(cmd, cwd=d, env=e, timeout=timeout, stdout=subprocess.PIPE, stderr=subprocess.STDOUT, text=True, errors="replace")
        out, rc = p.stdout, p.returncode
    except subprocess.TimeoutExpired as ex:
        shutil.rmtree(meta, ignore_errors=True)
        raise ToolError("TLC timeout after %ds: %s %s" % (timeout, base, trace or "")) from ex
    shutil.rmtree(meta, ignore_errors=True)
    out = "\n".join(x for x in out.splitlines() if not x.startswith("Picked up JAVA_TOOL_OPTIONS"))
    return TlcResult(out, rc, time.time() - t)


def tlc_many(jobs, parallel=8):
    """jobs: list of kwargs for tlc(); run in parallel, keep order."""
    with cf.ThreadPoolExecutor(max_workers=parallel) as ex:
        futs = [ex.submit(tlc, **j) for j in jobs]
        return [f.result() for f in futs]


# --------------------------------------------------------------------------------------------
# traces
# --------------------------------------------------------------------------------------------
def gen(prop, seed, tier, shards=8, sub=None, extra=None):
    out = os.path.join(BUILD, "traces", prop + ("_" + sub if sub else ""))
    shutil.rmtree(out, ignore_errors=True)
    os.makedirs(out, exist_ok=True)
    t = time.time()
    cmd = [BIN, "gen", prop if not sub else prop + ":" + sub, "--seed", str(seed), "--tier", tier, "--out", out, "--shards", str(shards)] + (extra or [])
    genv = {"CWE_CHECKER_BIN": CLI_BIN, "CWE_CHECKER_SRC": os.path.join(REPO, "src"),
            "VERIF_SCRATCH": os.path.join(BUILD, "cli_inputs", prop)}
    p = sh(cmd, cwd=ROOT, timeout=7200, check=False, env=genv)
    if p.returncode != 0:
        raise ToolError("generator failed (%d): %s\n%s" % (p.returncode, " ".join(cmd), p.stdout[-4000:]))
    meta = json.load(open(os.path.join(out, "meta.json")))
    meta["dir"] = out
    meta["files"] = [os.path.join(out, "shard%02d.ndjson" % i) for i in range(meta["shards"])]
    meta["files"] = [f for f in meta["files"] if os.path.getsize(f) > 0]
    meta["gen_wall"] = time.time() - t
    log("[gen] %s: %d cases, %d events in %.1fs" % (prop, meta["cases"], meta["events"], meta["gen_wall"]))
    return meta


def read_lines(path):
    with open(path) as f:
        return f.read().splitlines()


def run_of(lines, idx):
    """Events of the case that contains 1-based event index idx: from the preceding reset to the next."""
    i = idx - 1
    if not any('"ev":"reset"' in x for x in lines[max(0, i - 400):i + 1]):
        return [json.loads(lines[i])], 0
    s = i
    while s > 0 and '"ev":"reset"' not in lines[s]:
        s -= 1
    e = i + 1
    while e < len(lines) and '"ev":"reset"' not in lines[e]:
        e += 1
    return [json.loads(x) for x in lines[s:e]], i - s


# --------------------------------------------------------------------------------------------
# known findings
# --------------------------------------------------------------------------------------------
def load_known(prop):
    p = os.path.join(ROOT, "known_findings.json")
    if not os.path.exists(p):
        return []
    return [f for f in json.load(open(p)).get("findings", []) if f["property"] == prop]


def _match_val(ev, key, want):
    if key.endswith("~"):   # substring match on a string field
        return isinstance(ev.get(key[:-1]), str) and want in ev.get(key[:-1])
    return ev.get(key) == want


def match_known(known, run, k):
    """A finding matches when all its `match` fields equal the failing event's fields."""
    ev = run[k]
    for f in known:
        if all(_match_val(ev, key, want) for key, want in f["match"].items()):
            return f
    return None


CURRENT_REPORT = None


class Report:
    """Collects violations / known findings for one check invocation."""

    def __init__(self, prop, seed, tier):
        global CURRENT_REPORT
        CURRENT_REPORT = self
        self.prop, self.seed, self.tier = prop, seed, tier
        self.known = load_known(prop)
        self.violations = []
        self.known_hits = {}
        self.t0 = time.time()
        self.states = 0
        self.transitions = 0
        self.traces = 0
        self.events = 0
        self.notes = []
        self.cov = {}

    def add_tlc(self, r):
        self.states += r.distinct
        self.transitions += r.generated

    def violation(self, what, run=None, k=0, tlc_out="", extra=None):
        if run is not None:
            f = match_known(self.known, run, k)
            if f:
                self.known_hits[f["what"]] = self.known_hits.get(f["what"], 0) + 1
                return
        n = len(self.violations)
        if n < 5:
            os.makedirs(os.path.join(ROOT, "replays"), exist_ok=True)
            path = os.path.join(ROOT, "replays", "%s-%d-%d.json" % (self.prop, self.seed, n))
            json.dump({"property": self.prop, "seed": self.seed, "tier": self.tier, "what": what,
                       "run": run or [], "index_in_run": k, "tlc": tlc_out[-8000:], "extra": extra,
                       "howto": "bin/check %s --replay %s" % (self.prop, path)}, open(path, "w"), indent=1)
        else:
            path = self.violations[-1][1]
        self.violations.append((what, path))

    def finish_after_tool_error(self, err):
        """A tool error (e.g. a canary that needs a clean prefix) after TLC has already rejected real events must not
        hide them: report the violations found so far (exit 1); the evidence says that the run is incomplete."""
        return self.finish("other", {"explanation": "run aborted by a tool error AFTER violations had been found: %s" % str(err)[:500],
                                     "evaluations": max(self.events, 1), "distinct_nontrivial": 0, "samples": []},
                           ["incomplete run: " + str(err)[:300]])

    def finish(self, level, coverage, assumptions):
        for what, n in self.known_hits.items():
            print("KNOWN-FINDING: property=%s %s (%d events)" % (self.prop, what, n))
        seen = set()
        for what, path in self.violations:
            if path not in seen:
                print("VIOLATION property=%s replay=%s" % (self.prop, path))
                log("   " + what[:300])
                seen.add(path)
        cov = dict(coverage)
        cov.setdefault("states", max(self.states, 0))
        cov.setdefault("transitions", max(self.transitions, 0))
        cov.setdefault("traces_validated_against_impl", self.traces)
        cov.setdefault("evaluations", self.events)
        ev = {"property_id": self.prop, "tier": self.tier, "seed": self.seed, "level": level,
              "coverage": cov, "assumptions": assumptions + self.notes,
              "wall_s": round(time.time() - self.t0, 1), "violations": len(self.violations),
              "known_findings_hit": self.known_hits}
        os.makedirs(os.path.join(ROOT, "evidence"), exist_ok=True)
        json.dump(ev, open(os.path.join(ROOT, "evidence", self.prop + ".json"), "w"), indent=1)
        sys.stdout.flush()
        return 1 if self.violations else 0


# --------------------------------------------------------------------------------------------
# generic steps
# --------------------------------------------------------------------------------------------
def validate_traces(rep, module, files, cfg=None, parallel=8, timeout=1800, deque=False, xmx="3g"):
    """Run the trace specification over every shard.  BAD lines and unconsumed traces become
    violations (or known findings); TLC errors are tool errors."""
    cfg = cfg or os.path.basename(module).replace(".tla", ".cfg")
    jobs = [dict(module=module, cfg=cfg, trace=f, workers=1, timeout=timeout, deque=deque, xmx=xmx) for f in files]
    results = tlc_many(jobs, parallel)
    for f, r in zip(files, results):
        rep.add_tlc(r)
        if r.error:
            raise ToolError("TLC error on %s:\n%s" % (f, r.error))
        lines = None
        if r.bad or r.unconsumed or r.invariant:
            lines = read_lines(f)
        for line in r.badlines:
            idx = int(re.search(r'<<"BAD", (\d+)', line).group(1))
            run, k = run_of(lines, idx)
            rep.violation("trace event %d of %s rejected by %s: %s" % (idx, os.path.basename(f), os.path.basename(module), line), run, k, line)
        if r.unconsumed and not r.bad:
            idx = int(r.unconsumed[0])
            run, k = run_of(lines, min(idx, len(lines)))
            rep.violation("trace %s not accepted by %s: first unmatched event %d" % (os.path.basename(f), os.path.basename(module), idx), run, k, r.out[-3000:])
        if r.invariant:
            rep.violation("invariant %s violated while validating %s" % (r.invariant[0], f), None, 0, r.cex())
        if not (r.bad or r.unconsumed or r.invariant) and not r.finished_ok:
            raise ToolError("TLC did not finish cleanly on %s:\n%s" % (f, r.out[-3000:]))
    return results


def canary(rep, module, src_file, mutate, n=60, cfg=None, deque=False, stateful=False):
    """Binding demonstration: corrupt one recorded output field; the trace spec must reject it."""
    if rep.violations:
        rep.notes.append("canary skipped: this run already found violations (the canary needs an accepted prefix)")
        return False
    lines = read_lines(src_file)
    if stateful:
        # take whole cases up to ~n events
        cut = 0
        for i, x in enumerate(lines):
            if '"ev":"reset"' in x and i >= n:
                cut = i
                break
        lines = lines[:cut or len(lines)]
    else:
        lines = lines[:n]
    evs = [json.loads(x) for x in lines]
    idx = mutate(evs)
    if idx is None:
        raise ToolError("canary: no event suitable for corruption in the first %d events of %s" % (n, src_file))
    path = os.path.join(BUILD, "traces", "canary_%s.ndjson" % rep.prop)
    with open(path, "w") as f:
        for e in evs:
            f.write(json.dumps(e) + "\n")
    cfg = cfg or os.path.basename(module).replace(".tla", ".cfg")
    r = tlc(module, cfg=cfg, trace=path, workers=1, timeout=600, deque=deque)
    if r.error:
        raise ToolError("canary: TLC error:\n" + r.error)
    rejected = bool(r.bad or r.unconsumed or r.invariant)
    if not rejected:
        raise ToolError("canary: corrupted trace (event %d) was ACCEPTED by %s - the specification is vacuous for this event kind" % (idx + 1, module))
    rep.notes.append("canary: corrupted output of event %d of an accepted shard was rejected by %s" % (idx + 1, os.path.basename(module)))
    return True


def mc(rep, module, cfg, workers=8, extra=None, timeout=3600, xmx="8g", coverage=False, env=None, label=None):
    """Model-check a bounded instance of the specification itself (mode M)."""
    ex = list(extra or [])
    if coverage:
        ex += ["-coverage", "1"]
    r = tlc(module, cfg=cfg, workers=workers, extra=ex, timeout=timeout, xmx=xmx, env=env)
    rep.add_tlc(r)
    name = label or os.path.basename(module).replace(".tla", "")
    if r.error:
        raise ToolError("TLC error in %s:\n%s" % (name, r.error))
    if r.invariant or r.property_violated or r.deadlock:
        rep.violation("model checking %s: %s violated" % (name, (r.invariant or r.property_violated or ["deadlock"])[0]), None, 0, r.cex())
    elif not r.finished_ok:
        raise ToolError("TLC did not finish cleanly in %s:\n%s" % (name, r.out[-3000:]))
    log("[mc] %s: %d states generated, %d distinct, %.1fs" % (name, r.generated, r.distinct, r.wall))
    rep.cov.setdefault("mc_runs", []).append({"instance": name, "states_generated": r.generated, "distinct_states": r.distinct, "wall_s": round(r.wall, 1)})
    if coverage:
        acts = {}
        for m in re.finditer(r"<(\w+) line \d+, col \d+ to line \d+, col \d+ of module (\w+)>: (\d+):(\d+)", r.out):
            acts[m.group(1)] = [int(m.group(3)), int(m.group(4))]
        rep.cov["mc_runs"][-1]["action_coverage"] = acts
        holes = [a for a, (d, t) in acts.items() if t == 0 and a not in ("Init",)]
        if holes:
            rep.notes.append("coverage hole in %s: actions never taken: %s" % (name, ", ".join(holes)))
    return r


def keep_cli_inputs(rep):
    """CLI properties: make replay files self-contained.  The generated input files (P-Code project + ELF) of every
    violating case are copied next to the replay file and the recorded paths are redirected to the copies, so that a
    replay does not depend on the generator version that produced them."""
    done = set()
    for _, path in rep.violations:
        if path in done or not os.path.exists(path):
            continue
        done.add(path)
        r = json.load(open(path))
        keep = path.replace(".json", ".inputs")
        os.makedirs(keep, exist_ok=True)
        for e in r.get("run", []):
            if "dir" in e and "id" in e:
                for ext in (".pcode.json", ".elf"):
                    src = os.path.join(e["dir"], e["id"] + ext)
                    if os.path.exists(src):
                        shutil.copy(src, keep)
                e["dir"] = keep
                e["use_files"] = True
            for k in ("pcode", "binary"):
                if isinstance(e.get(k), str) and os.path.exists(e[k]):
                    shutil.copy(e[k], keep)
                    e[k] = os.path.join(keep, os.path.basename(e[k]))
        json.dump(r, open(path, "w"), indent=1)
