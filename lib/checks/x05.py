"""X05 (extended coverage, not a listed property) - the memory model of the pointer inference
(AbstractObject / AbstractObjectList) over-approximates every concrete memory; strong updates replace exactly.

Statement: top of spec/AbsObject.tla.

M: mc/MC_AbsObject - the product of the reference machine (abstract object lists over MemRegion.tla's cell store)
   with a concrete memory (instances of typed concrete cells): Sound (concrete in gamma(abstract)) in every
   reachable state, ReadSound, RefAccepted (the step relations accept the reference results) and, for every
   one-change variant of a reference result that the step relations accept, soundness w.r.t. every concrete
   successor (the relations T_X05 evaluates are not too weak).
T: trace/T_X05 over random histories recorded from the real AbstractObjectList (two lists; set_value,
   merge_value, get_value, add_abstract_object / insert, merge, clone, assume_arbitrary_writes, mark_as_not_unique;
   the full projected contents of both lists after every mutator).
Python only shards, counts and maps TLC's verdicts to exit codes."""
import concurrent.futures as cf
import json
import os
import re

import core
from core import Report, ToolError, log
from common import TRUSTED

TRACE_SPEC = "trace/T_X05.tla"
TRACE_CFG = "T_X05.cfg"

MC_QUICK = ["MC_AbsObject_var1.cfg", "MC_AbsObject_var2.cfg", "MC_AbsObject_lists.cfg", "MC_AbsObject_ref.cfg"]
MC_THOROUGH = ["MC_AbsObject_var1_thorough.cfg", "MC_AbsObject_var2_thorough.cfg", "MC_AbsObject_lists_thorough.cfg",
               "MC_AbsObject_ref_thorough.cfg"]
ACTIONS = ["DoInsert", "DoStrongWrite", "DoWeakWrite", "DoMergeValue", "DoArbitrary", "DoNonUnique", "DoMerge", "DoCopy"]
WITNESSES = ["unique object with an unflagged cell", "NON-unique object with an unflagged cell",
             "two instances of one identifier differ", "unflagged cell listing several possibilities",
             "accepted one-change variants judged against the concrete successors"]


def _classified(rep, f, r):
    """TLC's verdicts on shard f -> violations / known findings.  T_X05 prints <<"BAD", index, kind, class>>; the class
    the SPECIFICATION computed is attached to the event as `bad_class` so that known_findings.json can key on it."""
    rep.add_tlc(r)
    if r.error:
        raise ToolError("TLC error on %s:\n%s" % (f, r.error))
    lines = core.read_lines(f) if (r.badlines or r.unconsumed) else None
    details = {}
    for m in re.finditer(r'^<<"DETAIL", (\d+), (.*)$', r.out, re.M):
        details[int(m.group(1))] = m.group(2)[:1500]
    for line in r.badlines:
        m = re.search(r'<<"BAD", (\d+), "([^"]*)", "([^"]*)"', line)
        if not m:
            raise ToolError("unparsable BAD line: " + line)
        idx, cls = int(m.group(1)), m.group(3)
        run, k = core.run_of(lines, idx)
        run[k]["bad_class"] = cls
        rep.violation("trace event %d of %s rejected by T_X05.tla: %s %s" % (idx, os.path.basename(f), line, details.get(idx, "")),
                      run, k, line + "\n" + details.get(idx, ""))
    if r.unconsumed and not r.bad:
        idx = int(r.unconsumed[0])
        run, k = core.run_of(lines, min(idx, len(lines)))
        rep.violation("trace %s not accepted by T_X05.tla: first unmatched event %d" % (os.path.basename(f), idx), run, k, r.out[-3000:])
    if not (r.bad or r.unconsumed or r.invariant) and not r.finished_ok:
        raise ToolError("TLC did not finish cleanly on %s:\n%s" % (f, r.out[-3000:]))


def _validate(rep, files, parallel):
    """-> {shard file: 1-based indices of the events TLC rejected}"""
    jobs = [dict(module=TRACE_SPEC, cfg=TRACE_CFG, trace=f, workers=1, timeout=3600) for f in files]
    bad = {}
    for f, r in zip(files, core.tlc_many(jobs, parallel)):
        _classified(rep, f, r)
        bad[f] = set(r.bad)
    return bad


def _self_checks(rep, tier):
    """Mode M: the bounded instances side by side (4 JVMs x 2 workers).  No -coverage (it doubles the run time): the
    instance counts the transitions per action and the witness states itself (ACTIONS / WITNESS lines)."""
    cfgs = MC_QUICK if tier == "quick" else MC_THOROUGH
    with cf.ThreadPoolExecutor(max_workers=4) as ex:
        futs = [(c, ex.submit(core.mc, rep, "mc/MC_AbsObject.tla", c, workers=2, coverage=False, timeout=3000, xmx="5g",
                              label=c.replace(".cfg", ""))) for c in cfgs]
        results = [(c, f.result()) for c, f in futs]
    taken, seen = [0] * len(ACTIONS), [0] * len(WITNESSES)
    for c, r in results:
        entry = [e for e in rep.cov["mc_runs"] if e["instance"] == c.replace(".cfg", "")][-1]
        m = re.search(r'<<"ACTIONS", <<([\d, ]+)>>>>', r.out)
        if m:
            a = [int(x) for x in m.group(1).split(",")]
            entry["transitions_per_action"] = dict(zip(ACTIONS, a))
            taken = [x + y for x, y in zip(taken, a)]
        m = re.search(r'<<"WITNESS", <<([\d, ]+)>>>>', r.out)
        if m:
            w = [int(x) for x in m.group(1).split(",")]
            entry["witness_states"] = dict(zip(WITNESSES, w))
            seen = [x + y for x, y in zip(seen, w)]
    rep.cov["mc_runs"].sort(key=lambda e: cfgs.index(e["instance"] + ".cfg"))
    if 0 in taken:
        raise ToolError("coverage hole: actions never taken in any instance: %s" % [n for n, k in zip(ACTIONS, taken) if k == 0])
    if 0 in seen:
        raise ToolError("coverage hole: witness never seen: %s" % [n for n, k in zip(WITNESSES, seen) if k == 0])


# ------------------------------------------------------------------------------------------------ canary
def _is_strong(e, before):
    """a recorded set_value that is a strong update storing a plain value (for the canary only)"""
    if e["ev"] != "set" or e["panic"] or e["err"]:
        return None
    p = e["ptr"]
    if len(p["tg"]) != 1 or p["abs"] or p["top"] or p["tg"][0]["k"] != "iv" or p["tg"][0]["lo"] != p["tg"][0]["hi"]:
        return None
    x = 0 if e["x"] == "A" else 1
    t = p["tg"][0]
    ob = [o for o in before[x] if o["id"] == t["id"]]
    if not ob or not ob[0]["uniq"] or e["val"][1] < 0 or e["val"][2] != 0:
        return None
    return x, t["id"], t["lo"]


def _corrupt_exact(e, state):
    """strong update: the stored absolute value is changed"""
    s = _is_strong(e, state)
    if s:
        x, oid, off = s
        for o in e["state"][x]:
            for c in (o["cells"] if o["id"] == oid else []):
                if c[0] == off and c[1] == e["val"][0]:
                    c[2] = (c[2] + 1) % 4
                    return True
    return False


def _corrupt_weak(e, state):
    """a write that is NOT a strong update left an unflagged cell at an exactly addressed offset whose old content was
    another plain value: the cell keeps only the OLD content (the write is not covered)"""
    if e["ev"] not in ("set", "wmerge") or e["panic"] or e.get("err") or e["val"][1] < 0 or e["val"][2] != 0 or _is_strong(e, state):
        return False
    x = 0 if e["x"] == "A" else 1
    for t in e["ptr"]["tg"]:
        if t["k"] != "iv" or t["lo"] != t["hi"]:
            continue
        old = [c for ob in state[x] if ob["id"] == t["id"] for c in ob["cells"] if c[0] == t["lo"] and c[1] == e["val"][0]]
        if not old or old[0][3] != 0 or old[0][2] < 0 or old[0][2] == e["val"][1]:
            continue
        for o in e["state"][x]:
            for c in (o["cells"] if o["id"] == t["id"] else []):
                if c[0] == t["lo"] and c[1] == e["val"][0] and c[3] == 0:
                    c[2:] = old[0][2:]
                    return True
    return False


def _corrupt_get(e, state):
    """get_value: an unflagged result with an exact absolute part is replaced by one that excludes the recorded content"""
    if e["ev"] == "get" and not e["panic"] and e["res"][2] == 0 and e["res"][1] >= 0:
        e["res"][1] = (e["res"][1] + 1) % 4
        return True
    return False


def _canary(rep, shard, rejected):
    """Binding demonstration on ACCEPTED events of this run (the cases of a shard without any rejected event): for
    each of three corruptions of a recorded OUTPUT that is certainly a violation, the events of a case up to the first
    event it applies to are copied and that event is corrupted; TLC must reject exactly these three events, with the
    classes exact / unsound / unsound."""
    import copy
    lines = core.read_lines(shard)
    evs, case, clean = [], [], True
    for i, x in enumerate(lines + ['{"ev":"reset"}']):
        if '"ev":"reset"' in x:
            if case and clean:
                evs += case                      # a case without any rejected event
            case, clean = [], True
            if i == len(lines):
                break
        case.append(json.loads(x))
        clean = clean and (i + 1) not in rejected
    out, want = [], {}
    for cls, fn in (("exact", _corrupt_exact), ("unsound", _corrupt_weak), ("unsound", _corrupt_get)):
        state, start, found = [[], []], 0, False
        for i, e in enumerate(evs):
            if e["ev"] == "reset":
                state, start = [[], []], i
                continue
            e2 = copy.deepcopy(e)
            if fn(e2, state):
                out += evs[start:i] + [e2]
                want[len(out)] = cls
                found = True
                break
            if "state" in e:
                state = e["state"]
        if not found:
            raise ToolError("canary: the accepted cases of %s (%d events) have no event for corruption %s" % (shard, len(evs), fn.__name__))
    path = os.path.join(core.BUILD, "traces", "canary_X05.ndjson")
    with open(path, "w") as g:
        for e in out:
            g.write(json.dumps(e) + "\n")
    r = core.tlc(TRACE_SPEC, cfg=TRACE_CFG, trace=path, workers=1, timeout=900)
    if r.error:
        raise ToolError("canary: TLC error:\n" + r.error)
    rep.add_tlc(r)
    cls = dict((int(a), c) for a, b, c in re.findall(r'<<"BAD", (\d+), "([^"]*)", "([^"]*)"', r.out))
    if cls != want or r.unconsumed:
        raise ToolError("canary: corrupted outputs of events %s must be rejected as %s and nothing else, TLC rejected %s - the "
                        "specification is vacuous for this event kind" % (sorted(want), want, cls))
    rep.notes.append("canary: %d accepted events re-validated with three corrupted outputs (a strong update stores another value; a weak "
                     "write keeps only the old content; a precise read result excludes the recorded content): exactly the events %s "
                     "were rejected, as %s" % (len(out), sorted(want), [want[k] for k in sorted(want)]))


def replay(path, seed, tier):
    """Re-execute the recorded operations on the real code and re-validate; recorded defects are reported as
    KNOWN-FINDING, anything else as VIOLATION."""
    core.build_harness()
    out = os.path.join(core.BUILD, "traces", "X05_replay")
    p = core.sh([core.BIN, "replay", "X05", path, "--out", out], cwd=core.ROOT, check=False)
    if p.returncode != 0:
        raise ToolError("replay failed: " + p.stdout[-2000:])
    f = os.path.join(out, "shard00.ndjson")
    rep = Report("X05", seed, tier)
    _classified(rep, f, core.tlc(TRACE_SPEC, cfg=TRACE_CFG, trace=f, workers=1))
    for what, n in rep.known_hits.items():
        print("KNOWN-FINDING: property=X05 %s (%d events)" % (what, n))
    if rep.violations:
        print("VIOLATION property=X05 replay=%s" % path)
        log(rep.violations[0][0][:600])
        return 1
    if not rep.known_hits:
        print("replay accepted: the recorded operations no longer violate X05")
    return 0


def check(seed, tier):
    rep = Report("X05", seed, tier)
    core.build_harness()
    quick = tier == "quick"
    meta = core.gen("X05", seed, tier, shards=4 if quick else 8)
    # mode M and mode T side by side: 4 model-checking JVMs (2 workers each) + the trace validators
    skip_m = bool(os.environ.get("VERIF_X05_SKIP_M"))     # seeded-change experiments only: mode M does not depend on the code
    with cf.ThreadPoolExecutor(max_workers=2) as ex:
        fm = None if skip_m else ex.submit(_self_checks, rep, tier)
        ft = ex.submit(_validate, rep, meta["files"], 4)
        bad = ft.result()
        if fm:
            fm.result()
    if skip_m:
        rep.notes.append("mode M skipped (VERIF_X05_SKIP_M): this run shows the trace validation only")
    first = meta["files"][0]
    if rep.violations:
        rep.notes.append("canary skipped: this run already found violations")
    else:
        _canary(rep, first, bad[first])     # on the cases of the first shard without any rejected event
    rep.traces, rep.events = meta["cases"], meta["events"]
    x = meta["extra"]
    return rep.finish("model_checking", {
        "distinct_nontrivial": meta["distinct_nontrivial"],
        "rule": "a case is one operation history on two real AbstractObjectLists (reset, then one event per call; every mutator logs the "
                "full projected contents of both lists); non-trivial = the history contains a write that is not a strong update and "
                "left an unflagged cell at an exactly addressed offset, or a get_value through several targets / an interval that "
                "returned a value without the top flag; distinct = distinct case hashes",
        "events_by_kind": x.get("events_by_kind"),
        "strong_updates": x.get("strong_updates"),
        "weak_writes_keeping_an_unflagged_cell": x.get("weak_writes_keeping_an_unflagged_cell"),
        "multi_target_or_interval_reads_without_top_flag": x.get("multi_target_or_interval_reads_without_top_flag"),
        "samples": [str(s)[:1500] for s in meta["samples"][:2]], "exhaustive": False, "mc_runs": rep.cov.get("mc_runs"),
        "trusted_base": TRUSTED,
    }, ["extended coverage (not a listed property): statement at the top of spec/AbsObject.tla",
        "input class: non-empty values; pointers with 0-3 relative targets (identifiers 1..3, some not keys of the list), exact / "
        "interval (stride 1, 2, 4, 8 or the access size) / Top / extreme ([a, i64::MAX], [i64::MIN, a], [-2^40, 2^40]) offsets, optional "
        "absolute part or top flag; offsets in windows of 8-32 bytes around 0 (negative included); sizes 1, 2, 4, 8; histories of 12-40 operations",
        "interval-valued cell contents are projected to 'exact value 0..99' or 'any value' (monotone: no sound result is rejected; a "
        "wrong interval bound inside a merged value is C02/C03's subject, not seen here)",
        "the absolute part and the top flag of a POINTER denote memory outside the list (the code handles global memory in "
        "State::load_value / store_value); an identifier that is not a key of the list denotes no object",
        "whether set_value reports an error is not judged; the object type, remove_ids / replace_ids / overwrite_with / "
        "add_offset_to_all_indices are not covered",
        "mode M bounds: see mc_runs (1-2 objects, offsets 0..2, sizes 1/2, 2 absolute values + a pointer value + Top, histories of 1-4 operations "
        "from empty lists or from every preset)"])
