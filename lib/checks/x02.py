"""X02 (extended coverage) - expression-level rewriting preserves the value, size and variables of an expression.

Statement (spec/ExprRewrite.tla): for every well-sized expression e over variables and constants and every admissible
valuation, substitute_trivial_operations(e) evaluates to the same value as e, has the same byte size, mentions no new
variable and is idempotent up to semantic equality; substitute_input_var(e, v, w) evaluates like e with v bound to the
value of w; plus / plus_const add; bytesize / input_vars / recursion_depth agree with the term.

(M) mc/MC_ExprRewrite: the algebraic identities the rules rely on (and the refutability of their near-misses) on all
    1-byte values, directly in TLA+ - validates the specification side independently of the code.
(T) trace/T_X02: every recorded call of the real code on the systematically enumerated expression shapes; TLC
    evaluates both sides with IR!EvalExpr on ALL valuations of 1-byte variables and on boundary/relational/random
    valuations at wider sizes.
Python only shards, counts and maps TLC's verdicts to exit codes."""
import json
import os
import re

import core
from core import Report, ToolError, log
from common import TRUSTED

TRACE_SPEC = "trace/T_X02.tla"
PAR = int(os.environ.get("VERIF_PAR", "8"))


def show(e):
    """compact rendering of an expression term (for messages only)"""
    k = e.get("k")
    if k == "var":
        return "%s:%d" % (e["v"]["n"], e["v"]["s"])
    if k == "const":
        return "0x%s:%d" % ("".join("%02x" % b for b in reversed(e["c"])), len(e["c"]))
    if k == "bin":
        return "(%s %s %s)" % (show(e["l"]), e["op"], show(e["r"]))
    if k == "un":
        return "%s(%s)" % (e["op"], show(e["a"]))
    if k == "cast":
        return "%s:%d(%s)" % (e["op"], e["s"], show(e["a"]))
    if k == "sub":
        return "Subpiece[%d..%d](%s)" % (e["low"], e["low"] + e["s"] - 1, show(e["a"]))
    return "?"


def describe(ev):
    if ev["ev"] == "rw":
        return "substitute_trivial_operations: %s  ==>  %s" % (show(ev["e"]), show(ev["r"]))
    if ev["ev"] == "subst":
        return "substitute_input_var: %s [%s := %s]  ==>  %s" % (show(ev["e"]), ev["v"]["n"], show(ev["w"]), show(ev["out"]))
    if ev["ev"] == "plus":
        return "plus: %s + %s  ==>  %s" % (show(ev["e"]), show(ev["w"]), show(ev["out"]))
    return "plus_const: %s + %s  ==>  %s" % (show(ev["e"]), ev.get("ci"), show(ev["out"]))


def _validate(rep, files):
    jobs = [dict(module=TRACE_SPEC, cfg="T_X02.cfg", trace=f, workers=1, timeout=3400, xmx="3g") for f in files]
    results = core.tlc_many(jobs, PAR)
    log("[T] T_X02 over %d shards: %s s per shard" % (len(files), [round(r.wall) for r in results]))
    for f, r in zip(files, results):
        rep.add_tlc(r)
        if r.error:
            raise ToolError("TLC error on %s:\n%s" % (f, r.error))
        if not (r.bad or r.unconsumed) and not r.finished_ok:
            raise ToolError("TLC did not finish cleanly on %s:\n%s" % (f, r.out[-3000:]))
        if not (r.bad or r.unconsumed):
            continue
        lines = core.read_lines(f)
        diag = {int(m.group(1)): m.group(0) for m in re.finditer(r'<<"DIAG", (\d+),.*?>>$', r.out, re.M | re.S)}
        for line in r.badlines:
            m = re.match(r'<<"BAD", (\d+), "([^"]*)"', line)
            idx, reason = int(m.group(1)), m.group(2)
            ev = json.loads(lines[idx - 1])
            what = "X02 clause '%s' violated by %s  [family %s, valuations %s; %s event %d] %s" % (
                reason, describe(ev), ev["fam"], ev["mode"], os.path.basename(f), idx, " ".join(diag.get(idx, "").split())[:300])
            rep.violation(what, [ev], 0, line + "\n" + diag.get(idx, ""),
                          extra={"clause": reason, "shape": show(ev["e"]), "result": show(ev.get("r", ev.get("out"))), "family": ev["fam"]})
        if r.unconsumed and not r.bad:
            idx = min(int(r.unconsumed[0]), len(lines))
            ev = json.loads(lines[idx - 1])
            rep.violation("trace %s not consumed by T_X02: first unmatched event %d: %s" % (os.path.basename(f), idx, describe(ev)), [ev], 0, r.out[-3000:])
    return results


def _canary(rep, shard):
    """Binding demonstration: corrupt one recorded OUTPUT field of three accepted events, each in a different way;
    TLC must reject exactly those three, each for the expected clause."""
    if rep.violations:
        rep.notes.append("canary skipped: this run already found violations (the canary needs accepted events)")
        return
    evs = [json.loads(x) for x in core.read_lines(shard)[:400]]
    pick = {}
    for i, e in enumerate(evs):
        if e["ev"] != "rw" or e["e"] == e["r"] or e["panic"]:
            continue
        if "value" not in pick and e["r"]["k"] == "const" and e["mode"] == "exhaustive1":
            pick["value"] = i
        elif "bytesize" not in pick and i not in pick.values():
            pick["bytesize"] = i
        elif "vars" not in pick and i not in pick.values() and e["r"]["k"] == "bin" and e["r"]["l"]["k"] == "var":
            pick["vars"] = i
    if len(pick) < 3:
        raise ToolError("canary: no suitable rewritten events among the first %d events of %s" % (len(evs), shard))
    lo, hi = min(pick.values()), max(pick.values())
    evs = evs[max(0, lo - 3):hi + 3]
    off = max(0, lo - 3)
    e = evs[pick["value"] - off]
    e["r"]["c"][0] ^= 1                                   # the constant result is wrong for every valuation
    e = evs[pick["bytesize"] - off]
    e["rsize"] += 1                                       # the recorded bytesize() of the result
    e = evs[pick["vars"] - off]
    v = dict(e["r"]["l"]["v"])
    v["n"] = "w_canary"
    e["r"]["l"] = {"k": "var", "v": v}                    # the result mentions a variable the input does not
    e["rvars"] = e["rvars"] + [v]
    path = os.path.join(core.BUILD, "traces", "canary_X02.ndjson")
    with open(path, "w") as f:
        for x in evs:
            f.write(json.dumps(x) + "\n")
    r = core.tlc(TRACE_SPEC, cfg="T_X02.cfg", trace=path, workers=1, timeout=900)
    if r.error:
        raise ToolError("canary: TLC error:\n" + r.error)
    got = {int(m.group(1)): m.group(2) for m in (re.match(r'<<"BAD", (\d+), "([^"]*)"', x) for x in r.badlines) if m}
    want = {pick["value"] - off + 1: "value", pick["bytesize"] - off + 1: "bytesize"}
    ok = all(got.get(k) == v for k, v in want.items()) and got.get(pick["vars"] - off + 1) in ("vars", "input_vars") and len(got) == 3
    if not ok:
        raise ToolError("canary: corrupted outputs were not rejected as expected (rejected %s, expected %s + vars at %d) - "
                        "the trace specification does not bind" % (got, want, pick["vars"] - off + 1))
    rep.add_tlc(r)
    rep.notes.append("canary: of %d accepted events, a flipped constant result, a wrong recorded bytesize and a result with a new variable "
                     "were rejected by T_X02 (clauses %s), every other event was accepted" % (len(evs), sorted(got.values())))


def check(seed, tier):
    rep = Report("X02", seed, tier)
    core.build_harness()
    core.mc(rep, "mc/MC_ExprRewrite.tla", "MC_ExprRewrite.cfg" if tier == "thorough" else "MC_ExprRewrite_quick.cfg",
            workers=min(PAR, 8), label="MC_ExprRewrite")
    meta = core.gen("X02", seed, tier, shards=8 if tier == "quick" else 16)
    _validate(rep, meta["files"])
    _canary(rep, meta["files"][0])
    rep.traces, rep.events = meta["cases"], meta["events"]
    x = meta["extra"]
    return rep.finish("model_checking", {
        "distinct_nontrivial": meta["distinct_nontrivial"],
        "rule": "one case = one call of the real code on one expression shape: substitute_trivial_operations (with bytesize / input_vars / "
                "recursion_depth of input and result and the second application), substitute_input_var, plus, plus_const.  Shapes are "
                "enumerated per rule of trivial_operation_substitution.rs (families core, same, const, constconst, cmpsub, boolcmp, borrow, "
                "arith, unop, subpiece, cast: all operator combinations a rule matches and its near-misses, constants 0/1/-1/2/max/min, "
                "both operand orders, sizes 1/2/4/8 and mixed-size chains up to 32 bytes), nested (identity / near-identity wrappers "
                "around the leaves, parent operations) and random typed expressions; the thorough tier emits every systematic shape, "
                "the quick tier all core shapes and a seeded sample of each family.  non-trivial = the real code changed the expression "
                "(rw: r != e; subst: out != e; plus_const: c != 0); distinct = distinct event hashes.  TLC evaluates both sides on ALL "
                "valuations when every variable is one byte wide (exhaustive_1byte_valuations valuations in total) and on the recorded "
                "boundary x boundary / relational / random valuations otherwise",
        "samples": meta["samples"], "exhaustive": False,
        "systematic_shapes_in_families": x.get("systematic_shapes_total"), "systematic_families_complete": x.get("systematic_all"),
        "families": x.get("families"), "rewritten": x.get("rewritten"),
        "events_with_all_1byte_valuations": x.get("exhaustive_events"), "exhaustive_1byte_valuations": x.get("exhaustive_valuations"),
        "events_with_listed_valuations": x.get("list_events"),
        "mc_runs": rep.cov.get("mc_runs"), "trusted_base": TRUSTED,
    }, ["input class: well-sized expressions over variables and constants with the integer / boolean operations (no Unknown, no floating "
        "point), boolean connectives on 1-byte operands; valuations under which an operand of BoolAnd/BoolOr/BoolXOr/BoolNegate is not 0 or 1 "
        "are outside the statement (P-Code booleans; Bitvector::un_op asserts it)",
        "reference semantics: IR!EvalExpr over BV.tla (total division: x/0 = all ones, x%%0 = x; self-checked by MC_BV / MC_IR); the identities "
        "behind the rules are model-checked on all 1-byte values by MC_ExprRewrite in the same run (%s)" %
        ("all 65536 value pairs" if tier == "thorough" else "quick tier: 6 x 256 value pairs; thorough: all 65536"),
        "nothing is demanded about which rewrites happen or about syntactic idempotence; wider sizes are sampled (boundary, relational, random)"])
