"""C13 - pointer inference never excludes values that can occur at runtime (model checking by TLC).

The harness generates single-function loop-and-branch programs, runs the REAL pipeline
(compute_function_signatures + pointer_inference::run with the shipped "Memory" configuration) and
records, per program, the abstract register file at every BlkStart node, whether BlkEnd has a state,
the identifier environment and 12 initial register files.  TLC model-checks the monitor machine
spec/PiMonitor.tla (the IR reference semantics spec/IR.tla + the recorded result): Init picks
(program, initial state); in every state at a block start every register must be a member of the
concretisation of its abstract value (Sound), and completing a block's defs requires the analysis to
have a BlkEnd state (NullDerefHalts).  Python only shards, counts and maps TLC's verdicts to exit codes."""
import concurrent.futures as cf
import json
import os
import re

import core
from core import Report, ToolError, log
from common import TRUSTED

TRACE_SPEC = "trace/T_C13.tla"
TRACE_CFG = "T_C13.cfg"
CEX_CFG = "T_C13_cex.cfg"

MANIFEST = {
    "category": "model_checking",
    "text": "For every generated single-function program (loops with/without comparable bounds, branches on signed/unsigned/equality "
            "comparisons, compound conditions (&&, ||, !) with one operand decided by constants of the block, register arithmetic incl. subpiece/extension, stack stores/loads at constant offsets incl. partial and "
            "overlapping ones, parameter registers, accesses to small absolute addresses) the REAL compute_function_signatures + "
            "pointer_inference::run result is recorded at every BlkStart/BlkEnd node; TLC model-checks the monitor machine PiMonitor.tla "
            "(IR.tla reference semantics + recorded abstraction) from 12 initial states per program and checks in every state the "
            "invariants Sound (analysis state exists at every reached block start and every register's concrete value is in the "
            "concretisation of its DataDomain value, identifiers read as entry SP / entry register / entry stack memory) and "
            "NullDerefHalts (defs of a block complete only if the analysis has a BlkEnd state); bounded: <= ~12 blocks per function, "
            "48 blocks executed per behaviour, programs whose fixpoint did not stabilise are skipped and counted.",
    "note": "Trusted: TLC + CommunityModules Json/IOUtils, the projections harness/src/irenc.rs + domenc.rs and the identifier "
            "classification in harness/src/props/c13.rs (canary-checked every run), IR.tla as transcription of the IR semantics "
            "(self-checked by MC_IR), Interval.tla/DataDom.tla as definition of gamma; the monitor itself is self-checked by "
            "MC_PiMonitor on hand-written sound/unsound abstractions and its fast membership predicate against the reference definition.",
    "technique": "TLA+ monitor machine (concrete IR semantics vs. recorded abstract states) model-checked by TLC over recorded analysis results",
    "design_ref": "DESIGN.md section 6, C13",
}

EXPECTED_MC = {2: "escape", 4: "escape", 5: "nostate", 8: "nullderef", 10: "escape", 12: "escape", 14: "nullderef", 17: "escape"}


def _bad_by_case(r):
    """{case index: [(init, kind, block index, register, steps), ...]} from <<"BAD", case, init, kind, blk, reg, steps>>"""
    out = {}
    for line in r.badlines:
        m = re.match(r'<<"BAD", (\d+), (\d+), "([^"]*)", (\d+), "([^"]*)", (\d+)>>', line)
        if m:
            out.setdefault(int(m.group(1)), []).append((int(m.group(2)), m.group(3), int(m.group(4)), m.group(5), int(m.group(6))))
    return out


def _self_checks(rep, tier):
    r = core.tlc("mc/MC_PiMonitor.tla", cfg="MC_PiMonitor.cfg", workers=2, timeout=1800, extra=["-coverage", "1"])
    rep.add_tlc(r)
    if r.error or not r.finished_ok:
        raise ToolError("MC_PiMonitor: TLC error:\n" + (r.error or r.out[-2000:]))
    got = {c: sorted(set(k for _, k, _, _, _ in v)) for c, v in _bad_by_case(r).items()}
    want = {c: [k] for c, k in EXPECTED_MC.items()}
    if got != want:
        raise ToolError("MC_PiMonitor: the monitor reported the hand-written cases %s, expected %s - the monitor is broken" % (got, want))
    acts = {}
    for m in re.finditer(r"<(\w+) line \d+, col \d+ to line \d+, col \d+ of module (\w+)>: (\d+):(\d+)", r.out):
        acts[m.group(1)] = [int(m.group(3)), int(m.group(4))]
    rep.cov.setdefault("mc_runs", []).append({"instance": "MC_PiMonitor", "states_generated": r.generated, "distinct_states": r.distinct,
                                             "wall_s": round(r.wall, 1), "reported_cases": {str(c): k for c, k in EXPECTED_MC.items()},
                                             "fast_membership_agrees_with_reference": True, "action_coverage": acts})
    log("[mc] MC_PiMonitor: %d states, reported hand-written cases %s as expected, %.1fs" % (r.distinct, sorted(got), r.wall))
    if tier == "thorough":
        core.mc(rep, "mc/MC_IR.tla", "MC_IR_quick.cfg", workers=4, label="MC_IR")


# ---------------------------------------------------------------------------------------------
# readable rendering of a case (evidence samples, violation messages); decides nothing
# ---------------------------------------------------------------------------------------------
def _num(b):
    x = 0
    for i, v in enumerate(b):
        x |= v << (8 * i)
    w = 8 * len(b)
    if w and x >= (1 << (w - 1)) and x >= (1 << w) - (1 << 20):
        x -= 1 << w
    return str(x) if abs(x) < 65536 else hex(x)


def _ex(e):
    k = e["k"]
    if k == "var":
        return e["v"]["n"]
    if k == "const":
        return "%s:%d" % (_num(e["c"]), len(e["c"]))
    if k == "bin":
        return "(%s %s %s)" % (_ex(e["l"]), e["op"], _ex(e["r"]))
    if k == "un":
        return "%s(%s)" % (e["op"], _ex(e["a"]))
    if k == "cast":
        return "%s%d(%s)" % (e["op"], e["s"], _ex(e["a"]))
    if k == "sub":
        return "sub[%d,%d](%s)" % (e["low"], e["s"], _ex(e["a"]))
    return "?"


def _iv(i):
    s, e = _num(i["s"]), _num(i["e"])
    return s if s == e else "[%s,+%s,%s]" % (s, _num(i["st"]), e)


def _dd(d):
    parts = ["%s+%s" % (r["id"].split("@")[-1].strip(), _iv(r["off"])) for r in d["rel"]] + [_iv(a) for a in d["abs"]]
    if d["top"]:
        parts.append("Top")
    return "{" + ", ".join(parts) + "}"


def render(case, max_blocks=99):
    out = []
    for bi, b in enumerate(case["blocks"][:max_blocks]):
        a = case["abs"][bi]
        head = "%s: " % b["tid"]
        if a["has"]:
            regs = ["%s=%s" % (case["physregs"][i]["n"], _dd(d)) for i, d in enumerate(a["regs"]) if d["rel"] or d["abs"] or not d["top"]]
            head += "BlkStart state: " + " ".join(regs)
        else:
            head += "NO BlkStart state"
        head += "" if case["endstate"][bi] else "  [NO BlkEnd state]"
        out.append(head)
        for d in b["defs"]:
            if d["k"] == "assign":
                out.append("    %s := %s" % (d["v"]["n"], _ex(d["e"])))
            elif d["k"] == "load":
                out.append("    %s:%d := [%s]" % (d["v"]["n"], d["v"]["s"], _ex(d["a"])))
            else:
                out.append("    [%s] := %s" % (_ex(d["a"]), _ex(d["e"])))
        for j in b["jmps"]:
            if j["k"] == "cbranch":
                out.append("    if %s goto %s" % (_ex(j["c"]), j["t"]))
            elif j["k"] == "branch":
                out.append("    goto %s" % j["t"])
            else:
                out.append("    %s %s" % (j["k"], _ex(j["e"]) if "e" in j else ""))
    return out


def _sample(case):
    return {"fn": case["fn"], "program_and_recorded_analysis": render(case, 6),
            "ids": [{"id": i["id"], "k": i["k"], "off": i["off"]} for i in case["ids"]],
            "first_init": {r["n"]: _num(r["v"]) for r in case["inits"][0]}, "inits": len(case["inits"])}


def _strip(ev):
    return {k: v for k, v in ev.items() if not k.startswith("viol")}


def _counterexample(ev, init, tag):
    """TLC's counterexample (INVARIANTS TSound / TNullDerefHalts) for one case and one initial state: the concrete path."""
    path = os.path.join(core.BUILD, "traces", "C13_cex_%s.ndjson" % tag)
    e = _strip(ev)
    e["inits"] = [ev["inits"][init - 1]]
    with open(path, "w") as f:
        f.write(json.dumps(e) + "\n")
    r = core.tlc(TRACE_SPEC, cfg=CEX_CFG, trace=path, workers=1, timeout=900)
    if not r.invariant:
        return r.out[-3000:]
    i = r.out.find("Error: Invariant")
    return _clean_cex(r.out[i:])[:24000]


def _clean_cex(text):
    """TLC prints every action with its (huge) parameter, the sequence of cases: drop it; keep the states."""
    text = re.sub(r"<Next\(.*?\)( line \d+, col \d+)", r"<Next\1", text, flags=re.S)
    text = re.sub(r"\n/\\ rho = \(.*?\)\n(?=/\\ )", "\n", text, flags=re.S)      # constant along the behaviour: shown by state 1 only
    return text


def _violation_event(case, bad):
    """The case plus the fields of TLC's first BAD line for it (used to match known findings)."""
    init, kind, blk, reg, steps = sorted(bad, key=lambda b: (b[4], b[0]))[0]
    ev = dict(case)
    ev.update({"viol": kind, "viol_block": case["blocks"][blk - 1]["tid"], "viol_reg": reg, "viol_init": init, "viol_steps": steps,
               "viol_block_after_sameid_cmp": bool(case["sameid_succ"][blk - 1]),
               "viol_block_after_negstride_cmp": bool(case["negstride_succ"][blk - 1]),
               "viol_block_after_wide_subpiece_test": bool(case["widesub_succ"][blk - 1]),
               "viol_kinds": sorted(set(b[1] for b in bad))})
    return ev


def _canary(rep, src_file, mutate, n, tag, exclude=()):
    """Binding demonstration (as core.canary, with its own scratch file so that two can run concurrently): corrupt ONE recorded
    output of one of the first n cases; TLC must report that case.  Returns the 1-based case index that was corrupted."""
    evs = [json.loads(x) for x in core.read_lines(src_file)[:n]]
    idx = mutate(evs, exclude)
    if idx is None:
        raise ToolError("canary %s: no case suitable for corruption in the first %d cases of %s" % (tag, n, src_file))
    path = os.path.join(core.BUILD, "traces", "canary_C13_%s.ndjson" % tag)
    with open(path, "w") as f:
        for e in evs:
            f.write(json.dumps(e) + "\n")
    r = core.tlc(TRACE_SPEC, cfg=TRACE_CFG, trace=path, workers=1, timeout=900)
    if r.error:
        raise ToolError("canary %s: TLC error:\n%s" % (tag, r.error))
    return idx + 1, _bad_by_case(r), r


def shrink_sp(evs, exclude):
    """the entry state's abstract stack pointer (stack id + 0) is shrunk to the absolute singleton {0}: the concrete entry SP (!= 0) escapes"""
    for i, e in enumerate(evs):
        if (i + 1) in exclude or not e["abs"][0]["has"]:
            continue
        spi = [r["n"] for r in e["physregs"]].index(e["sp"]["n"])
        zero = [0] * e["sp"]["s"]
        e["abs"][0]["regs"][spi] = {"w": e["sp"]["s"], "rel": [], "top": False,
                                    "abs": [{"w": e["sp"]["s"], "s": zero, "e": zero, "st": [0] * 8, "lo": [], "hi": [], "d": [0] * 8}]}
        return i
    return None


def drop_end(evs, exclude):
    """the BlkEnd state of an entry block without any memory access is removed: the defs of that block certainly complete"""
    for i, e in enumerate(evs):
        if (i + 1) in exclude or not e["endstate"][0] or any(d["k"] != "assign" for d in e["blocks"][0]["defs"]):
            continue
        e["endstate"][0] = False
        return i
    return None


CANARIES = [("sp", shrink_sp, "escape", 16), ("end", drop_end, "nullderef", 24)]


def check(seed, tier):
    rep = Report("C13", seed, tier)
    core.build_harness()
    shards = 2 if tier == "quick" else 8
    meta = core.gen("C13", seed, tier, shards=shards)
    jobs = [dict(module=TRACE_SPEC, cfg=TRACE_CFG, trace=f, workers=3 if tier == "quick" else 2, timeout=6000, xmx="4g") for f in meta["files"]]
    # everything TLC has to do runs side by side: the monitor's self-check (M), the shards (T) and the two canaries
    with cf.ThreadPoolExecutor(max_workers=4 if tier == "quick" else 5) as ex:
        f_mc = ex.submit(_self_checks, rep, tier)
        f_can = [ex.submit(_canary, rep, meta["files"][0], mut, n, tag) for tag, mut, _, n in CANARIES]
        f_shards = [ex.submit(core.tlc, **j) for j in jobs]
        f_mc.result()
        results = [f.result() for f in f_shards]
        canaries = [f.result() for f in f_can]
    behaviours = 0
    violating = 0
    cex_budget = {"known": 3, "new": 3}
    seen_known = set()
    first_case = None
    bad_first_shard = {}
    for f, r in zip(meta["files"], results):
        rep.add_tlc(r)
        if r.error:
            raise ToolError("TLC error on %s:\n%s" % (f, r.error))
        if not r.finished_ok:
            raise ToolError("TLC did not finish cleanly on %s:\n%s" % (f, r.out[-3000:]))
        m = re.search(r"Finished computing initial states: (\d+) distinct", r.out)
        behaviours += int(m.group(1)) if m else 0
        bad = _bad_by_case(r)
        lines = core.read_lines(f)
        if first_case is None and lines:
            first_case = json.loads(lines[min(len(lines), 9) - 1])       # (the first few cases are the hand-written programs)
            bad_first_shard = bad
        for idx in sorted(bad):
            case = json.loads(lines[idx - 1])
            ev = _violation_event(case, bad[idx])
            violating += len(bad[idx])
            what = "C13 function %d: %s at %s%s from %d of %d initial states [%s case %d]" % (
                case["fn"], {"nostate": "execution reaches a block that has no analysis state", "escape": "register value escapes its abstraction",
                             "nullderef": "defs complete although the analysis has no BlkEnd state"}[ev["viol"]],
                ev["viol_block"], (" register " + ev["viol_reg"]) if ev["viol_reg"] else "", len(bad[idx]), len(case["inits"]), os.path.basename(f), idx)
            known = core.match_known(rep.known, [ev], 0)
            cex = ""
            if known:
                if known["what"] not in seen_known and cex_budget["known"] > 0:
                    seen_known.add(known["what"])
                    cex_budget["known"] -= 1
                    cex = _counterexample(ev, ev["viol_init"], "k%d" % cex_budget["known"])
                    kp = os.path.join(core.BUILD, "traces", "C13_known_%d.json" % len(seen_known))
                    json.dump({"property": "C13", "seed": seed, "tier": tier, "what": what, "known": known["what"], "run": [ev], "index_in_run": 0,
                               "program": render(case), "tlc": cex[-12000:]}, open(kp, "w"), indent=1)
                    log("[known] %s\n        replay/counterexample: %s" % (what, kp))
            elif cex_budget["new"] > 0:
                cex_budget["new"] -= 1
                cex = _counterexample(ev, ev["viol_init"], "n%d" % cex_budget["new"])
            rep.violation(what, [ev], 0, cex, extra={"violating_inits": bad[idx], "program": render(case)})

    # canaries: the corrupted case (accepted in the real run) must be reported with the expected kind
    for (tag, mut, kind, n), (idx, cbad, r) in zip(CANARIES, canaries):
        if idx in bad_first_shard:       # the case picked for corruption was itself a violation: pick another accepted one
            idx, cbad, r = _canary(rep, meta["files"][0], mut, n, tag, exclude=set(bad_first_shard))
        rep.add_tlc(r)
        if kind not in [k for _, k, _, _, _ in cbad.get(idx, [])]:
            raise ToolError("canary %s: corrupted case %d was ACCEPTED by %s (reported: %s) - the specification is vacuous for this invariant"
                            % (tag, idx, TRACE_SPEC, cbad.get(idx)))
        rep.notes.append("canary '%s': %s - case %d of an accepted shard was then rejected by TLC with kind '%s'" % (tag, mut.__doc__, idx, kind))

    rep.traces, rep.events = meta["cases"], behaviours
    x = meta["extra"]
    return rep.finish("model_checking", {
        "programs": meta["cases"], "behaviours_explored": behaviours, "violating_behaviours": violating,
        "programs_generated": x.get("programs_generated"), "programs_directed": x.get("programs_directed"),
        "skipped_not_stabilized": x.get("skipped_not_stabilized"),
        "pi_panics": x.get("pi_panics"), "pi_panic_samples": x.get("pi_panic_samples"),
        "blocks_total": x.get("blocks_total"), "blocks_without_state": x.get("blocks_without_state"),
        "blocks_with_state_dropped_at_a_def": x.get("blocks_state_dropped"),
        "distinct_nontrivial": meta["distinct_nontrivial"],
        "rule": "one case = one single-function program (a few hand-written ones first, then generated ones) together with the result of the real "
                "compute_function_signatures + pointer_inference::run on it; programs whose pointer-inference log contains 'Fixpoint did not "
                "stabilize' are skipped (counted in skipped_not_stabilized; the property's precondition), a panic of the analysis is counted in "
                "pi_panics and skipped (C21's subject); non-trivial = besides the stack pointer at least one register at some block start has an "
                "abstract value WITHOUT the Top flag (the analysis makes a claim that can be wrong); distinct = distinct hashes of the case; "
                "evaluations = (program, initial state) behaviours TLC explored to their end (return, NULL-window halt, repeated state, or the "
                "fuel of 48 blocks); states = concrete machine states at BlkStart/BlkEnd nodes, each judged against the recorded abstraction",
        "samples": [_sample(first_case)] if first_case else meta["samples"][:1],
        "mc_runs": rep.cov.get("mc_runs"), "trusted_base": TRUSTED,
    }, ["input class (harness/src/pigen.rs): one function, no calls/indirect jumps; 8-byte registers, 1-byte flags holding 0/1; well-sized "
        "integer expressions; memory accesses only to the stack at constant offsets from the stack pointer (directly or through a register "
        "assigned SP+c in the same straight-line code / the reserved pointer of a stack-walk loop) and to small absolute addresses; "
        "parameter registers are never dereferenced; entry SP = 0x7ff0_0000_0000 + random page, far from every absolute address used",
        "abstract identifiers are read as: stack id = entry SP, register parameter id = entry value of the register, stack parameter id = "
        "entry memory at SP+offset; every other identifier is unknown and excludes nothing; a register with the Top flag excludes nothing",
        "the concrete machine halts at a load/store whose address lies in (-1024, 1024) - the analysis' NULL window",
        "initial memory is an arbitrary but fixed function of the address (IR!InitMem); little endian",
        "bounded: 12 initial register files per program (random, boundary, constants of the program +-1 - every second file places a register at a constant it is compared with, so both edges of a test run -, NULL-window edges, equal registers), "
        "48 blocks per behaviour"])


def replay(path, seed, tier):
    """Re-run the real pipeline on the recorded program, re-check with TLC (and print TLC's counterexample)."""
    core.build_harness()
    out = os.path.join(core.BUILD, "traces", "C13_replay")
    p = core.sh([core.BIN, "replay", "C13", path, "--out", out], cwd=core.ROOT, check=False,
                env={"CWE_CHECKER_SRC": os.path.join(core.REPO, "src")})
    if p.returncode != 0:
        raise ToolError("replay failed: " + p.stdout[-2000:])
    f = os.path.join(out, "shard00.ndjson")
    if os.path.getsize(f) == 0:
        raise ToolError("replay produced no case (raw input missing in %s, or the analysis no longer stabilises): %s" % (path, p.stdout[-500:]))
    r = core.tlc(TRACE_SPEC, cfg=TRACE_CFG, trace=f, workers=2, timeout=1800)
    if r.error:
        raise ToolError(r.error)
    if r.bad:
        print("VIOLATION property=C13 replay=%s" % path)
        log("\n".join(r.badlines[:6]))
        case = json.loads(core.read_lines(f)[0])
        log("\n".join(render(case)))
        bad = _bad_by_case(r)
        first = sorted(bad[1], key=lambda b: (b[4], b[0]))[0] if 1 in bad else None
        if first:
            log(_counterexample(case, first[0], "replay")[:8000])
        return 1
    print("replay accepted: the recorded inputs no longer violate C13")
    return 0
