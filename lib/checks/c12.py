"""C12 - lifted and normalised IR is size-consistent."""
import json

import core
from core import Report
from common import TRUSTED

TRACE_SPEC = "trace/T_C12.tla"

MANIFEST = {
    "category": "model_checking",
    "text": "TLC evaluates the typing specification WellSized.tla (Size, WellSized, DefOK, JmpOK) on every Def and Jmp of generated "
            "P-Code projects after each stage of the real pipeline: lifting (pcode::Project::normalize + into_ir_project), "
            "Project::normalize_basic, Project::normalize_optimize; bounded: random projects (1-3 functions, sub-register / RAM / cast / "
            "piece heavy instruction groups), a panic of a stage is a rejection.",
    "note": "Trusted: TLC + CommunityModules, the mechanical projection harness/src/irenc.rs (canary-checked every run).  WellSized.tla "
            "encodes exactly the four clauses of the property (same-size operands, piece/subpiece/extension consistency, assignment size, "
            "pointer-sized load/store addresses) and nothing more (shift amounts, boolean operand sizes, jump target sizes are free).",
    "technique": "TLA+ typing predicate + TLC trace validation of the recorded programs after each pipeline stage",
    "design_ref": "DESIGN.md section 6, C12",
}


def _count_defs(ev):
    return sum(len(b["defs"]) + len(b["jmps"]) for s in ev["project"]["program"]["subs"] for b in s["blocks"])


def check(seed, tier):
    rep = Report("C12", seed, tier)
    core.build_harness()
    meta = core.gen("C12", seed, tier, shards=8 if tier == "quick" else 16)
    core.validate_traces(rep, TRACE_SPEC, meta["files"], parallel=8, timeout=3600)

    def mutate(evs):
        # make one assignment ill-sized: the assigned variable gets one byte more than the value
        for i, e in enumerate(evs):
            if e["ev"] != "stage" or e["panic"] != "":
                continue
            for s in e["project"]["program"]["subs"]:
                for b in s["blocks"]:
                    for d in b["defs"]:
                        if d["k"] == "assign":
                            d["v"]["s"] += 1
                            return i
        return None
    core.canary(rep, TRACE_SPEC, meta["files"][0], mutate, n=12, stateful=True)

    # counts and a readable sample (decide nothing)
    lines = core.read_lines(meta["files"][0])
    terms = 0
    sample = None
    for x in lines[:40]:
        e = json.loads(x)
        if e["ev"] == "stage":
            terms += _count_defs(e)
            if sample is None and e["stage"] == "optimized" and e["project"]["program"]["subs"]:
                b = e["project"]["program"]["subs"][0]["blocks"][0]
                sample = {"idx": e["idx"], "stage": e["stage"], "first_block": {"tid": b["tid"], "defs": b["defs"][:6], "jmps": b["jmps"]}}
    rep.traces, rep.events = meta["cases"], meta["events"]
    return rep.finish("model_checking", {
        "distinct_nontrivial": meta["distinct_nontrivial"],
        "rule": "one case = one generated P-Code project (reset event) + the program after the stages lifted / basic / optimized (3 events); "
                "every Def and Jmp of every recorded program is checked with DefOK / JmpOK; non-trivial = the lifted program contains at "
                "least one size-changing expression (cast, subpiece or piece); distinct = distinct case hashes",
        "samples": [sample] if sample else meta["samples"],
        "stage_panics": meta["extra"].get("stage_panics"),
        "defs_and_jmps_in_first_40_events": terms,
        "trusted_base": TRUSTED,
    }, ["projects from harness/src/pcodegen.rs (functions with loops, calls, stack and global accesses) enriched with the instruction groups "
        "of harness/src/pblockgen.rs (sub-register writes with cast-to-base idioms, same-name smaller registers, RAM operands, casts, "
        "PIECE / SUBPIECE, float operations) over an x86-64-like register table; operand sizes consistent per mnemonic as the P-Code manual demands",
        "pointer size = size of the stack pointer register",
        "a panic of a pipeline stage (e.g. a debug assertion on sizes) is a rejection"])
