"""C01 - constant folding agrees with P-Code semantics."""
import core
from core import Report
from common import TRUSTED, first_with

TRACE_SPEC = "trace/T_C01.tla"

MANIFEST = {
    "category": "model_checking",
    "text": "TLC evaluates the TLA+ reference semantics BV.tla on every recorded call of the real constant-folding code "
            "(exhaustive over all 1-byte operand pairs in the thorough tier, boundary-crossed and random operands at 2/4/8/16 bytes) "
            "and model-checks BV.tla against the independent integer transcription BVInt.tla on all 65536 1-byte pairs; "
            "bounded: wider widths are sampled.",
    "note": "Trusted: TLC + CommunityModules Json/IOUtils/Bitwise, the byte-array projection in harness/src/enc (canary-checked every run), "
            "BV.tla as transcription of the P-Code manual (cross-checked against BVInt.tla).",
    "technique": "TLA+ reference semantics + TLC trace validation of recorded calls",
    "design_ref": "DESIGN.md section 6, C01",
}


def check(seed, tier):
    rep = Report("C01", seed, tier)
    core.build_harness()
    core.mc(rep, "mc/MC_BV.tla", "MC_BV.cfg", workers=8)
    meta = core.gen("C01", seed, tier, shards=8 if tier == "quick" else 16)
    core.validate_traces(rep, "trace/T_C01.tla", meta["files"], parallel=8, timeout=3600)

    def mutate(evs):
        i = first_with(evs, lambda e: e["res"])
        if i is not None:
            evs[i]["res"][0] ^= 1
        return i
    core.canary(rep, "trace/T_C01.tla", meta["files"][0], mutate)
    rep.traces, rep.events = meta["cases"], meta["events"]
    return rep.finish("model_checking", {
        "distinct_nontrivial": meta["distinct_nontrivial"],
        "rule": "every Bitvector::bin_op/un_op/cast/subpiece call is one event (operands, result, BitvectorDomain result, "
                "Expression::bytesize); non-trivial = the result is a value different from both operands and from zero; "
                "distinct = distinct event hashes",
        "samples": meta["samples"], "exhaustive": bool(meta["extra"].get("width1_exhaustive")),
        "width1_pairs_per_op": meta["extra"].get("width1_pairs_per_op"),
        "mc_runs": rep.cov.get("mc_runs"), "trusted_base": TRUSTED,
    }, ["widths 1,2,4,8,16 bytes; width 1 %s; wider widths boundary x boundary plus random operands" %
        ("exhaustive over all 65536 pairs of every binary operation" if tier == "thorough" else "33x33 boundary/random grid per operation (thorough tier: all 65536 pairs)"),
        "BV.tla is the reference; it is cross-checked against BVInt.tla on all 1-byte operands by MC_BV in the same run",
        "shift amounts wider than 8 bytes and BoolNegate of non-boolean inputs are outside the input class (the code asserts)"])
