"""C11 - lifting P-Code to the IR preserves behaviour (translation validation by TLC)."""
import json
import os
import re

import core
from core import Report, ToolError
from common import TRUSTED

TRACE_SPEC = "trace/T_C11.tla"

MANIFEST = {
    "category": "translation_validation",
    "text": "For every generated P-Code block the real lifter (pcode::Project::normalize + into_ir_project) is run and TLC model-checks the "
            "monitor LiftMonitor.tla, which executes the reference P-Code interpreter Pcode.tla (sub-registers alias bytes of their base "
            "register, RAM varnodes are implicit memory accesses) and the IR interpreter IR.tla on the lifted block from the same initial "
            "states and requires equal base registers, equal memory writes/reads (address, size, value), equal branch decisions and "
            "jump/call/return target values; bounded: random blocks (<= 7 instruction groups) and 4 initial states per block, float "
            "operations are opaque.",
    "note": "Trusted: TLC + CommunityModules, BV.tla (cross-checked by MC_BV), IR.tla, the mechanical projections harness/src/penc.rs "
            "(extractor JSON -> Pcode.tla terms) and irenc.rs (canary-checked every run).  Per-block semantics; temporaries are not "
            "observable; reads between two writes are compared as a set.",
    "technique": "TLA+ reference interpreters for P-Code and IR + TLC model checking of a per-block monitor over recorded lifter outputs",
    "design_ref": "DESIGN.md section 6, C11",
}

CEX_CFG = "T_C11_cex.cfg"


def _jenv(xmx="3g"):
    """JVM options for the monitor runs: as core.tlc, plus few GC threads (one JVM per shard runs in parallel; with the
    default of one GC thread per core the collectors of the JVMs starve each other on a loaded machine)."""
    return {"JAVA_TOOL_OPTIONS": "-DTLA-Library=%s:%s/mc:%s/trace -Xss1g -Xmx%s -XX:ParallelGCThreads=2" % (core.SPEC, core.SPEC, core.SPEC, xmx)}


def _vn(v):
    k = v["k"]
    if k in ("reg", "uniq"):
        return "%s:%d" % (v["n"], v["s"])
    if k == "const":
        return "0x%s:%d" % (bytes(reversed(v["c"])).hex(), v["s"])
    if k == "ram":
        return "ram[%s]:%d" % (bytes(reversed(v["a"])).hex(), v["s"])
    return "-"


def _ex(e):
    k = e["k"]
    if k == "var":
        return "%s:%d" % (e["v"]["n"], e["v"]["s"])
    if k == "const":
        return "0x%s:%d" % (bytes(reversed(e["c"])).hex(), len(e["c"]))
    if k == "bin":
        return "(%s %s %s)" % (_ex(e["l"]), e["op"], _ex(e["r"]))
    if k == "un":
        return "%s(%s)" % (e["op"], _ex(e["a"]))
    if k == "cast":
        return "%s:%d(%s)" % (e["op"], e["s"], _ex(e["a"]))
    if k == "sub":
        return "Subpiece[low %d, size %d](%s)" % (e["low"], e["s"], _ex(e["a"]))
    return "Unknown:%d" % e.get("s", 0)


def pretty(c):
    """human-readable rendering of a case (evidence samples, violation messages); decides nothing"""
    pc = ["%s = %s %s" % (_vn(d["out"]), d["m"], " ".join(_vn(d[i]) for i in ("in0", "in1", "in2") if d[i]["k"] != "none")) for d in c["pblock"]["defs"]]
    pc += ["%s %s" % (j["m"], " ".join(x for x in (j["t"], _vn(j["v"]) if j["v"]["k"] != "none" else "", "cond " + _vn(j["c"]) if j["c"]["k"] != "none" else "",
                                                   "ret " + j["ret"] if j["ret"] else "") if x)) for j in c["pblock"]["jmps"]]
    ir = []
    for d in c["irblock"]["defs"]:
        if d["k"] == "assign":
            ir.append("%s:%d := %s" % (d["v"]["n"], d["v"]["s"], _ex(d["e"])))
        elif d["k"] == "load":
            ir.append("%s:%d := Load %s" % (d["v"]["n"], d["v"]["s"], _ex(d["a"])))
        else:
            ir.append("Store %s <- %s" % (_ex(d["a"]), _ex(d["e"])))
    for j in c["irblock"]["jmps"]:
        ir.append(" ".join(str(x) for x in (j["k"], j.get("t", ""), _ex(j["e"]) if "e" in j else "", "if " + _ex(j["c"]) if "c" in j else "",
                                            "ret " + j["ret"] if j.get("ret") else "") if x))
    return {"idx": c["idx"], "arch": c["arch"], "features": c["feat"], "pcode": pc, "lifted_ir": ir, "panic": c["panic"],
            "initial_states": len(c["inits"]), "first_initial_state": {n: bytes(reversed(v)).hex() for n, v in c["inits"][0].items()}}


def _bad_pairs(r):
    """(case, init, what) triples printed by the monitor"""
    out = []
    for line in r.badlines:
        m = re.match(r'<<"BAD", (\d+), (\d+), <<(.*)>>>>', line)
        if m:
            out.append((int(m.group(1)), int(m.group(2)), m.group(3).replace('"', "")))
    return out


def _cex(case_line, tag):
    """TLC's counterexample for a single failing case (the concrete execution of both blocks)."""
    path = os.path.join(core.BUILD, "traces", "C11_cex_%s.ndjson" % tag)
    with open(path, "w") as f:
        f.write(case_line + "\n")
    r = core.tlc(TRACE_SPEC, cfg=CEX_CFG, trace=path, workers=1, timeout=600, env=_jenv())
    if r.error:
        raise ToolError("TLC error while computing the counterexample:\n" + r.error)
    return r


def _validate(rep, files, parallel, timeout):
    jobs = [dict(module=TRACE_SPEC, cfg="T_C11.cfg", trace=f, workers=1, timeout=timeout, env=_jenv()) for f in files]
    results = core.tlc_many(jobs, parallel)
    ncex = 0
    for f, r in zip(files, results):
        rep.add_tlc(r)
        if r.error:
            raise ToolError("TLC error on %s:\n%s" % (f, r.error))
        if not r.finished_ok:
            raise ToolError("TLC did not finish cleanly on %s:\n%s" % (f, r.out[-3000:]))
        bad = _bad_pairs(r)
        if not bad:
            continue
        lines = core.read_lines(f)
        by_case = {}
        for c, i, what in bad:
            by_case.setdefault(c, []).append((i, what))
        for c in sorted(by_case):
            ev = json.loads(lines[c - 1])
            inits = sorted(by_case[c])
            # the verdict of TLC is attached to the (copy of the) event
            verdict = inits[0][1]
            ev["bad_what"] = verdict.split(",")[0].strip()
            ev["bad_regs"] = sorted(x.strip() for x in re.findall(r"\{(.*)\}", verdict)[0].split(",")) if "{" in verdict else []
            ev["bad_inits"] = [i for i, _ in inits]
            what = "case idx=%s of %s: lifted block disagrees with the P-Code reference semantics (%s) for initial states %s" % (
                ev.get("idx"), os.path.basename(f), inits[0][1], [i for i, _ in inits])
            cex = ""
            if core.match_known(rep.known, [ev], 0) is None and ncex < 3:
                ncex += 1
                cex = _cex(lines[c - 1], "%d_%d" % (rep.seed, ncex)).cex()
            rep.violation(what, [ev], 0, cex, extra=pretty(ev))
    return results


def check(seed, tier):
    rep = Report("C11", seed, tier)
    core.build_harness()
    quick = tier == "quick"
    # (M) self-check of the reference interpreter: Pcode.tla against BVInt.tla on 1-byte operand pairs, aliasing laws of the
    # register views, poison discipline, implicit memory operands, a hand-written block
    core.mc(rep, "mc/MC_Pcode.tla", "MC_Pcode.cfg" if quick else "MC_Pcode_thorough.cfg", workers=4 if quick else 8, env=_jenv("4g"))
    meta = core.gen("C11", seed, tier, shards=8 if quick else 16)
    _validate(rep, meta["files"], parallel=8, timeout=1800 if quick else 7200)

    # canary: corrupt the recorded lifter output (append `R := R + 1` for the first base register) -> must be rejected
    lines = core.read_lines(meta["files"][0])
    ev = None
    for x in lines[:60]:
        e = json.loads(x)
        if e["panic"] == "" and not any(w in e["feat"] for w in ("float",)):
            ev = e
            break
    if ev is None:
        raise ToolError("canary: no suitable case")
    r0 = ev["physregs"][0]
    var = {"k": "var", "v": r0}
    one = {"k": "const", "c": [1] + [0] * (r0["s"] - 1)}
    ev["irblock"]["defs"].append({"tid": "canary", "k": "assign", "v": r0, "e": {"k": "bin", "op": "IntAdd", "l": var, "r": one}})
    cpath = os.path.join(core.BUILD, "traces", "canary_C11.ndjson")
    with open(cpath, "w") as f:
        f.write(json.dumps(ev) + "\n")
    r = core.tlc(TRACE_SPEC, cfg="T_C11.cfg", trace=cpath, workers=1, timeout=600, env=_jenv())
    if r.error:
        raise ToolError("canary: TLC error:\n" + r.error)
    if not _bad_pairs(r):
        raise ToolError("canary: a corrupted lifter output was ACCEPTED by LiftMonitor - the monitor is vacuous")
    rep.notes.append("canary: an extra Def `%s := %s + 1` appended to a recorded lifted block was rejected by LiftMonitor" % (r0["n"], r0["n"]))

    rep.traces, rep.events = meta["cases"], meta["events"]
    ninit = meta["extra"].get("inits_per_case", 4)
    return rep.finish("translation_validation", {
        "programs": meta["cases"],
        "disagreements_checked": meta["cases"] * ninit,
        "distinct_nontrivial": meta["distinct_nontrivial"],
        "rule": "one case = one generated P-Code block + the block the real lifter produced from it; every (case, initial state) is one "
                "deterministic behaviour of LiftMonitor checked against Agree in every state; non-trivial = the block writes a "
                "sub-register / same-name smaller register, loads into a sub-register or has a RAM operand",
        "feature_counts": meta["extra"].get("feature_counts"),
        "lifter_panics": meta["extra"].get("lifter_panics"),
        "mc_runs": rep.cov.get("mc_runs"),
        "samples": [pretty(json.loads(x)) for x in lines[:3]], "trusted_base": TRUSTED,
    }, ["blocks of 1-7 instruction groups over an x86-64-like and an x86-32-like register table (nested sub-registers, lsb > 0, middle pieces, "
        "same-name smaller registers); operand sizes consistent per mnemonic as the P-Code manual demands",
        "every base register is initialised (flags 0/1); memory is an arbitrary fixed function of the address (seeded), little and big endian",
        "floating point operations are opaque (Poison): what depends on them is not compared",
        "temporaries are read with the size they were written with and are not observable after the block",
        "reads between two writes are compared as a set (the lifter may order its explicit loads freely)",
        "jump lists as the extractor emits them: one jump, or CBRANCH followed by BRANCH"])


def replay(path, seed, tier):
    """Re-run the real lifter on the recorded extractor JSON and let TLC check the monitor again (with counterexample)."""
    core.build_harness()
    out = os.path.join(core.BUILD, "traces", "C11_replay")
    p = core.sh([core.BIN, "replay", "C11", path, "--out", out], cwd=core.ROOT, check=False)
    if p.returncode != 0:
        raise ToolError("replay failed: " + p.stdout[-2000:])
    f = os.path.join(out, "shard00.ndjson")
    r = core.tlc(TRACE_SPEC, cfg=CEX_CFG, trace=f, workers=1, timeout=900, env=_jenv())
    if r.error:
        raise ToolError(r.error)
    if r.invariant or r.badlines:
        print("VIOLATION property=C11 replay=%s" % path)
        core.log(r.cex()[:6000])
        return 1
    if not r.finished_ok:
        raise ToolError("TLC did not finish cleanly:\n" + r.out[-3000:])
    print("replay accepted: the recorded inputs no longer violate C11")
    return 0
