"""C08 - the interprocedural CFG represents exactly the program's control flow."""
import core
from core import Report
from common import TRUSTED, first_with

TRACE_SPEC = "trace/T_C08.tla"

MANIFEST = {
    "category": "model_checking",
    "text": "TLC evaluates the TLA+ specification Cfg.tla (the CFG as an exact function of the program: node bag, edge bag, entry nodes) "
            "on every recorded call of get_program_cfg/get_entry_nodes_of_subs for randomly generated well-formed normalised multi-function "
            "programs (direct from the generator and as produced by normalize_basic on raw programs) and, in the thorough tier, for all "
            "programs with <= 2 functions x <= 2 blocks over a 12-shape jump alphabet; Cfg.tla itself is model-checked against hand-derived "
            "graphs (among them the three programs of the repository's graph tests) and for internal consistency on all tiny programs; "
            "bounded: programs have at most 5 functions x 6 blocks.",
    "note": "Trusted: TLC + CommunityModules Json/IOUtils, the projections harness/src/irenc.rs and cfgenc.rs (canary-checked every run), "
            "Cfg.tla as formalisation of the property statement (cross-checked by MC_Cfg).",
    "technique": "TLA+ reference function + TLC trace validation of recorded calls; bounded model checking of the specification",
    "design_ref": "DESIGN.md section 6, C08",
}


def check(seed, tier):
    rep = Report("C08", seed, tier)
    core.build_harness()
    core.mc(rep, "mc/MC_Cfg.tla", "MC_Cfg.cfg" if tier == "quick" else "MC_Cfg_thorough.cfg", workers=4 if tier == "quick" else 8)
    meta = core.gen("C08", seed, tier, shards=8)
    results = core.validate_traces(rep, TRACE_SPEC, meta["files"], parallel=8, timeout=3600)
    skipped = sum(len([p for p in r.printed if p.startswith('<<"SKIP"')]) for r in results)
    if skipped * 20 > meta["events"]:
        raise core.ToolError("C08: %d of %d generated programs are not well-formed (outside the property's quantifier); generator broken "
                             "or normalize_basic fails C09" % (skipped, meta["events"]))

    def mutate(evs):
        i = first_with(evs, lambda e: len(e["edges"]) > 3 and e["panic"] == "")
        if i is not None:
            evs[i]["edges"].pop()          # drop one edge of the recorded graph
        return i
    core.canary(rep, TRACE_SPEC, meta["files"][0], mutate)
    rep.traces, rep.events = meta["cases"], meta["events"]
    return rep.finish("model_checking", {
        "distinct_nontrivial": meta["distinct_nontrivial"],
        "rule": "one event per program (program, nodes, edges, entry nodes of the graph the real code built); non-trivial = the graph has "
                "a CallReturn node and a Jump edge carrying an untaken conditional; distinct = distinct event hashes",
        "samples": [str(s)[:1500] for s in meta["samples"]][:2],
        "exhaustive": bool(meta["extra"].get("enumerated_small_programs")),
        "enumerated_small_programs": meta["extra"].get("enumerated_small_programs", 0),
        "direct_programs": meta["extra"].get("direct_programs"), "normalized_programs": meta["extra"].get("normalized_programs"),
        "skipped_not_wellformed": skipped,
        "mc_runs": rep.cov.get("mc_runs"), "trusted_base": TRUSTED,
    }, ["programs: 1-5 functions x 0-6 blocks, blocks end in 0/1/2 jumps (two = CBranch + Branch/BranchInd/Return/Call/CallInd/CallOther); "
        "well-formed normalised = unique TIDs, intraprocedural targets in the same function, call targets exist",
        "nodes and edges are compared as bags of records built from TIDs; petgraph indices are not compared",
        "thorough tier: exhaustive over all programs with <= 2 functions x <= 2 blocks over a 12-shape alphabet" if tier == "thorough"
        else "quick tier: random programs only (thorough adds the exhaustive small-program enumeration)"])
