"""C25 - log collection delivers every message sent before collection (utils/log.rs, LogThread)."""
import concurrent.futures as cf
import json
import os
import re

import core
from core import Report, ToolError, log
from common import TRUSTED

TRACE_SPEC = "trace/T_C25.tla"
TRACE_DEQUE = True

MANIFEST = {
    "category": "model_checking",
    "text": "TLC model-checks the TLA+ state machine LogThread.tla (senders with three-step sends, FIFO channel, collector thread, "
            "owner with collect/drop) over ALL interleavings of 2 senders x 3 messages and 3 senders x 2 messages on 2 addresses (thorough tier; quick tier: 2 senders, 3 + 2 messages): "
            "the three clauses of the property, the refinement to the folded machine LogThreadAbs.tla and termination of the collector; "
            "executions of the real LogThread (2-4 OS threads with seeded yields, events ordered by one process-wide atomic tick taken before/after "
            "each call) are accepted iff TLC finds SOME placement of the unlogged enqueue steps that explains the returned vectors; "
            "TLC-enumerated sequential schedules are executed against the real code and validated the same way. Bounded: histories <= 30 messages, <= 4 senders.",
    "note": "Trusted: TLC + CommunityModules Json/IOUtils; the harness' projection of LogMessage/CweWarning to (kind, text, addresses) and the "
            "sort of a run's events by tick (canary-checked every run); linearisability of crossbeam's unbounded channel is an assumption of the binding "
            "(the enqueue is an internal step between the ticks around send()). A warning without any address makes the collector panic by design and is outside the input class.",
    "technique": "TLA+ concurrent state machine + refinement, TLC model checking; trace validation with TLC-inferred linearisation points; TLC-generated schedules replayed on the real code",
    "design_ref": "DESIGN.md section 6, C25",
}

def tlc_schedules(rep, quick):
    """spec -> impl: TLC enumerates all sequential schedules of the specification; returns the file."""
    path = os.path.join(core.BUILD, "traces", "C25_schedules.ndjson")
    os.makedirs(os.path.dirname(path), exist_ok=True)
    name = "MC_LogSched_%s" % ("Quick" if quick else "Thorough")
    r = core.tlc("mc/MC_LogSched.tla", cfg=name + ".cfg", workers=1, timeout=1800)
    rep.add_tlc(r)
    if r.error or not r.finished_ok:
        raise ToolError("%s: %s" % (name, r.error or r.out[-2000:]))
    lines = sorted(set(re.findall(r'^<<"SCHED", <<[-\d, ]*>>, <<[-\d, ]*>>>>$', r.out, re.M)))
    if not lines:
        raise ToolError("%s printed no schedule" % name)
    with open(path, "w") as f:
        for x in lines:
            m = re.match(r'<<"SCHED", <<([-\d, ]*)>>, <<([-\d, ]*)>>>>', x)
            f.write(json.dumps({"counts": [int(v) for v in m.group(1).split(",")],
                                "hist": [int(v) for v in m.group(2).split(",")]}) + "\n")
    rep.cov.setdefault("mc_runs", []).append({"instance": name, "states_generated": r.generated, "distinct_states": r.distinct,
                                              "schedules": len(lines), "wall_s": round(r.wall, 1)})
    log("[mc] %s: %d schedules, %d states, %.1fs" % (name, len(lines), r.distinct, r.wall))
    return path, len(lines)


def validate(rep, files, parallel=4, timeout=3000):
    """T_C25 accepts a shard iff every run has a placement of the internal steps.  A rejected run
    stops that pass at its furthest matched event; it is reported and the rest of the shard is
    validated by a further pass, so that every bad run of a shard is found (at most 5 per shard)."""
    jobs = [dict(module=TRACE_SPEC, cfg="T_C25.cfg", trace=f, workers=1, timeout=timeout, deque=True) for f in files]
    results = core.tlc_many(jobs, parallel)
    for f, r in zip(files, results):
        lines, offset, rounds = None, 0, 0
        while True:
            rep.add_tlc(r)
            if r.error:
                raise ToolError("TLC error on %s:\n%s" % (f, r.error))
            if r.invariant or r.deadlock:
                raise ToolError("unexpected TLC verdict on %s:\n%s" % (f, r.out[-2000:]))
            if not r.unconsumed:
                if not r.finished_ok:
                    raise ToolError("TLC did not finish cleanly on %s:\n%s" % (f, r.out[-3000:]))
                break
            if lines is None:
                lines = core.read_lines(f)
            idx = offset + min(int(r.unconsumed[0]), len(lines) - offset)      # 1-based in the shard
            run, k = core.run_of(lines, idx)
            ce = next((i for i, e in enumerate(run) if e["ev"] in ("ce", "de")), k)
            rep.violation("no placement of the enqueue steps explains run (events %d..) of %s: furthest matched event %d (%s); returned %s"
                          % (idx - k, os.path.basename(f), idx, json.dumps(run[k])[:200], json.dumps(run[ce])[:400]), run, ce,
                          r.out[-3000:], extra={"furthest_event_in_run": k})
            rounds += 1
            end = idx - k + len(run) - 1                                       # last line (1-based) of the rejected run
            if rounds >= 5 or end >= len(lines):
                break
            rest = os.path.join(core.BUILD, "traces", "C25_rest_%s" % os.path.basename(f))
            with open(rest, "w") as g:
                g.write("\n".join(lines[end:]) + "\n")
            offset = end
            r = core.tlc(TRACE_SPEC, cfg="T_C25.cfg", trace=rest, workers=1, timeout=timeout, deque=True)


# ---- canaries: one per clause; each corruption is CERTAINLY a violation -----------------------
def _runs(evs):
    """[(start, end)] index ranges of the runs in evs"""
    starts = [i for i, e in enumerate(evs) if e["ev"] == "reset"] + [len(evs)]
    return [(starts[i], starts[i + 1]) for i in range(len(starts) - 1)]


def _completed_before_cs(evs, a, b):
    """messages (dicts) of the run evs[a:b] whose `se` precedes `cs`"""
    cur, done = {}, []
    for e in evs[a:b]:
        if e["ev"] == "ss":
            cur[e["s"]] = e["m"]
        elif e["ev"] == "se":
            done.append(cur.pop(e["s"]))
        elif e["ev"] in ("cs", "ds"):
            break
    return done


def _payload(m):
    return {"kind": m["kind"], "txt": m["txt"], "addrs": m["addrs"]}


def canary_delivered(evs):
    """drop from the result an address-less log whose send had completed before collect() was called"""
    for a, b in _runs(evs):
        ce = next((i for i in range(a, b) if evs[i]["ev"] == "ce"), None)
        if ce is None:
            continue
        for m in _completed_before_cs(evs, a, b):
            if m["kind"] == "log" and _payload(m) in evs[ce]["logs"]:
                evs[ce]["logs"].remove(_payload(m))
                return ce
    return None


def canary_order(evs):
    """swap two different address-less logs that the same sender sent one after the other"""
    for a, b in _runs(evs):
        ce = next((i for i in range(a, b) if evs[i]["ev"] == "ce"), None)
        if ce is None:
            continue
        script = evs[a]["script"]
        logs = evs[ce]["logs"]
        for s in script:
            pl = [_payload(m) for m in s if m["kind"] == "log"]
            for x, y in zip(pl, pl[1:]):
                if x != y and logs.count(x) == 1 and logs.count(y) == 1:
                    i, j = logs.index(x), logs.index(y)
                    logs[i], logs[j] = logs[j], logs[i]
                    return ce
    return None


def canary_lastwins(evs):
    """replace a returned warning by an EARLIER warning of the same sender for the same first address"""
    for a, b in _runs(evs):
        ce = next((i for i in range(a, b) if evs[i]["ev"] == "ce"), None)
        if ce is None:
            continue
        done = _completed_before_cs(evs, a, b)
        for s in evs[a]["script"]:
            cw = [m for m in s if m["kind"] == "cwe" and m in done]
            for i, y in enumerate(cw):
                for x in cw[:i]:
                    if x["addrs"][0] == y["addrs"][0] and _payload(x) != _payload(y) and _payload(y) in evs[ce]["cwes"] \
                            and _payload(x) not in evs[ce]["cwes"]:
                        k = evs[ce]["cwes"].index(_payload(y))
                        evs[ce]["cwes"][k] = _payload(x)
                        return ce
    return None


def check(seed, tier):
    rep = Report("C25", seed, tier)
    quick = tier != "thorough"
    core.build_harness()

    # (M) the specification itself, all interleavings - runs in the background while (T) proceeds
    def model_check():
        if quick:   # every action must be covered (small instance), then 2 senders with 3 + 2 messages without the coverage overhead
            core.mc(rep, "mc/MC_LogThread.tla", "MC_LogThread_cov.cfg", workers=2, coverage=True, label="MC_LogThread_cov", timeout=3000)
            core.mc(rep, "mc/MC_LogThread.tla", "MC_LogThread_32.cfg", workers=4, label="MC_LogThread_32", timeout=3000)
            core.mc(rep, "mc/MC_LogThreadLive.tla", "MC_LogThreadLive_21.cfg", workers=2, label="MC_LogThreadLive_21", timeout=3000)
        else:
            core.mc(rep, "mc/MC_LogThread.tla", "MC_LogThread_2x3.cfg", workers=4, coverage=True, label="MC_LogThread_2x3", timeout=6000)
            core.mc(rep, "mc/MC_LogThread.tla", "MC_LogThread_3x2.cfg", workers=4, label="MC_LogThread_3x2", timeout=6000)
            core.mc(rep, "mc/MC_LogThreadLive.tla", "MC_LogThreadLive_2x3.cfg", workers=4, label="MC_LogThreadLive_2x3", timeout=6000)
    pool = cf.ThreadPoolExecutor(max_workers=1)
    mc_job = pool.submit(model_check)

    try:
        # (T) spec -> impl: schedules enumerated by TLC, executed by one driver thread on the real code
        sched_file, nsched = tlc_schedules(rep, quick)
        os.environ["C25_SCHED"] = sched_file
        meta_s = core.gen("C25", seed, tier, shards=2 if quick else 6, sub="sched")
        # (T) impl -> spec: real threads
        meta_t = core.gen("C25", seed, tier, shards=2 if quick else 6, sub="threads")
        validate(rep, meta_s["files"] + meta_t["files"], parallel=4)

        # canaries on the deterministic (sched) shard: one certain violation per clause
        for name, mut in (("Delivered", canary_delivered), ("GeneralOrder", canary_order), ("LastWins", canary_lastwins)):
            core.canary(rep, TRACE_SPEC, meta_s["files"][0], mut, n=1500, deque=True, stateful=True)
            rep.notes[-1] += " [clause %s]" % name
    finally:
        mc_job.result()      # re-raises a ToolError of the model-checking runs
        pool.shutdown()

    rep.traces = meta_s["cases"] + meta_t["cases"]
    rep.events = meta_s["events"] + meta_t["events"]
    return rep.finish("model_checking", {
        "distinct_nontrivial": meta_t["distinct_nontrivial"] + meta_s["distinct_nontrivial"],
        "rule": "a case is one history of the real LogThread (reset, then ss/se per send, cs/ce or ds/de, in tick order); thread histories: "
                "2-4 sender threads, 1-10 messages each (<= 30), 1-3 reporting addresses, seeded yields/spins, collect() or drop after a seeded number "
                "of completed sends; non-trivial = at least one operation started while another one was in progress (real overlap); schedule "
                "histories: every TLC-enumerated sequential schedule with a seeded script; non-trivial = the collect/drop is neither first nor last; "
                "distinct = distinct event sequences (hash)",
        "samples": meta_t["samples"][:2] + meta_s["samples"][:1],
        "thread_histories": meta_t["cases"], "thread_histories_with_overlap": meta_t["extra"].get("runs_with_overlap"),
        "tlc_schedules": nsched, "schedule_histories": meta_s["cases"],
        "exhaustive": False,
        "mc_runs": rep.cov.get("mc_runs"), "trusted_base": TRUSTED,
    }, ["model checking is exhaustive for the stated instances only (%s, 2 addresses); liveness under weak fairness of the collector "
        "and the owner, on %s" % (("2 senders with 3 + 2 messages; the thorough tier does 2 x 3 and 3 x 2", "2 senders with 2 + 1 messages") if quick
                                  else ("2 senders x 3 messages and 3 senders x 2 messages", "2 senders x 3 messages")),
        "the enqueue of a send is an internal step between the ticks taken before and after Sender::send (crossbeam's unbounded channel is linearisable); "
        "ticks come from one AtomicU64 with SeqCst, so tick order is consistent with real time; no wall-clock ordering is used",
        "the order among returned warnings / among returned addressed logs is not part of the property and is not checked (the code returns key order; "
        "Returned() in LogMsg.tla models it)",
        "warnings with an empty address list (collector panics by design) and disconnected senders are outside the input class",
        "a collector that has not terminated %d s after collect()/drop is recorded as a hang (liveness clause)" % 120])
