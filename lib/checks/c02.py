"""C02 - interval transfer functions are sound (IntervalDomain::bin_op/un_op/cast/subpiece)."""
import concurrent.futures as cf

import core
from core import Report
import strict_canary
from common import TRUSTED

TRACE_SPEC = "trace/T_C02.tla"

MANIFEST = {
    "category": "model_checking",
    "text": "TLC evaluates the soundness relation of Interval.tla (gamma as a predicate; SoundBin/SoundUn/SoundCast/SoundSubpiece + WellFormed) "
            "on every recorded call of the real IntervalDomain::bin_op/un_op/cast/subpiece: for operands of 1 byte (and unary operations on "
            "2-byte intervals) gamma is enumerated completely and every concrete result (BVInt.tla/BV.tla reference semantics) must be a member "
            "of the returned interval; for 2/4/8-byte operands the members are sampled inside the specification (both ends, sign boundary, "
            "pseudo-random). MC_Interval model-checks gamma itself (bit-vector predicate = integer predicate = explicit enumeration, "
            "WellFormed, top, sampling only yields members, byte-wise division fast paths = BV.tla) on all 1-byte starts x strides 0..9. "
            "Bounded: the interval pairs are generated, wide widths are sampled.",
    "note": "Trusted: TLC + CommunityModules Json/IOUtils/Bitwise, harness/src/domenc.rs (serde-based projection of the private interval fields; "
            "canary-checked every run), BV.tla/BVInt.tla as reference semantics (cross-checked by MC_BV, C01).",
    "technique": "TLA+ soundness relation over a concretisation predicate + TLC trace validation of recorded calls",
    "design_ref": "DESIGN.md section 6, C02",
}


def check(seed, tier):
    rep = Report("C02", seed, tier)
    core.build_harness()
    # mode M (gamma sanity) runs concurrently with the trace validation (4 + 8 JVM threads)
    pool = cf.ThreadPoolExecutor(max_workers=1)
    mc_job = pool.submit(core.mc, rep, "mc/MC_Interval.tla", "MC_Interval.cfg" if tier == "thorough" else "MC_Interval_quick.cfg", 4)
    meta = core.gen("C02", seed, tier, shards=8 if tier == "quick" else 16)
    core.validate_traces(rep, TRACE_SPEC, meta["files"], parallel=8, timeout=5400)
    mc_job.result()

    def eligible(e):
        # an IntAdd result with more than one member must contain xs+ys and xe+ye, two different values
        return (e["kind"] == "bin" and e["op"] == "IntAdd" and e["panic"] == "" and e["cls"] == "" and e["x"]["w"] == 1
                and e["x"]["s"] != e["x"]["e"] and e["r"]["s"] != e["r"]["e"])

    def mutate(evs):
        # shrink the recorded result to the singleton {start}: one of the two sums is certainly lost
        i = min(3, len(evs) - 1)
        evs[i]["r"]["e"] = list(evs[i]["r"]["s"])
        evs[i]["r"]["st"] = [0] * 8
        return i
    strict_canary.run(rep, TRACE_SPEC, meta["files"][0], eligible, mutate, n=12)
    rep.traces, rep.events = meta["cases"], meta["events"]
    return rep.finish("model_checking", {
        "distinct_nontrivial": meta["distinct_nontrivial"],
        "rule": "one event per call of IntervalDomain::bin_op/un_op/cast/subpiece on generated well-formed intervals (singletons, full range, "
                "ranges straddling -1/0 and min/max, strides 1,2,3,4,8,2^k,..., widening hints outside the interval on/off the stride, delays; "
                "partners whose sums/differences/products overflow by one); non-trivial = the result is neither Top nor a singleton or the operands "
                "have more than one member pair; distinct = distinct event hashes",
        "samples": meta["samples"], "mc_runs": rep.cov.get("mc_runs"), "trusted_base": TRUSTED,
    }, ["1-byte x 1-byte binary operations and unary/cast/subpiece operations on 1- and 2-byte intervals: gamma enumerated completely; "
        "2/4/8-byte operands: members sampled by Interval!Members (2 members at each end, 2 around the sign boundary, 6 pseudo-random)",
        "all 26 integer binary operations in both operand orders, Piece with mixed widths, shifts with 1-byte and same-width amounts, "
        "Int2Comp/IntNegate/BoolNegate, IntZExt/IntSExt up to 16 bytes, PopCount/LzCount, all (low,size) subpieces; float operations only for width/shape",
        "input class: well-formed intervals with widening hints the public API can produce (lower hint < start, upper hint > end)"])
