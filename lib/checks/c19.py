"""C19 - global memory queries agree with the loaded image."""
import json

import core
from core import Report
from common import TRUSTED, first_with

TRACE_SPEC = "trace/T_C19.tla"

MANIFEST = {
    "category": "model_checking",
    "text": "TLC evaluates the TLA+ reference semantics MemImage.tla (Seg(a), ReadSpec, StringSpec, IsWritable, IntervalSpecs, RoPointer) on every "
            "recorded call of the real RuntimeMemoryImage query functions: random layouts of 0-4 disjoint segments (half of the gaps are 0 = adjacent "
            "segments, shuffled list order, empty segments, bases from 0 to the top of the 64-bit space), every address from base-2 to base+len+2 of "
            "every segment, read sizes 1/2/4/8 (+3/5/6/7/16), both byte orders, images built through struct/serde, new_from_bare_metal and "
            "RuntimeMemoryImage::new on generated ELF32/ELF64 LE/BE files (PT_LOAD segments; ET_REL sections incl. the kernel-module case); "
            "MC_MemImage model-checks the oracle against BV.tla and against itself on small layouts.  Bounded: sampled layouts.",
    "note": "Trusted: TLC + CommunityModules, the projection of memory_segments/is_little_endian in harness/src/props/c19.rs (canary-checked), "
            "MemImage.tla as transcription of the property (cross-checked by MC_MemImage).  The image logged is the one the real code holds; "
            "loader correctness (ELF -> segments) is not part of the property.",
    "technique": "TLA+ reference semantics + TLC trace validation of recorded calls (reset/query events)",
    "design_ref": "DESIGN.md section 6, C19",
}


CANARY_N = 3000


def pick_file(files, pred):
    """first shard whose first CANARY_N events contain one the canary can corrupt (images whose segments are all
    writeable - e.g. bare-metal ones - have no successful read)"""
    for f in files:
        with open(f) as fh:
            for i, line in enumerate(fh):
                if i >= CANARY_N:
                    break
                if i >= 5 and pred(json.loads(line)):
                    return f
    raise core.ToolError("canary: no shard starts with a suitable event")


def check(seed, tier):
    rep = Report("C19", seed, tier)
    core.build_harness()
    core.mc(rep, "mc/MC_MemImage.tla", "MC_MemImage.cfg", workers=4)
    meta = core.gen("C19", seed, tier, shards=8 if tier == "quick" else 16)
    core.validate_traces(rep, TRACE_SPEC, meta["files"], parallel=8, timeout=3600)

    def is_read(e):
        return e.get("q") == "read" and e["k"] == "value"

    def mutate(evs):
        # a successful read: flip one bit of the returned value
        i = first_with(evs, is_read)
        if i is not None:
            evs[i]["v"][0] ^= 1
        return i
    core.canary(rep, TRACE_SPEC, pick_file(meta["files"], is_read), mutate, n=CANARY_N, stateful=True)

    def is_flag(e):
        return e.get("q") == "writable" and e["k"] == "ok"

    def mutate2(evs):
        # a flag query on a mapped address: report the opposite flag
        i = first_with(evs, is_flag)
        if i is not None:
            evs[i]["b"] = not evs[i]["b"]
        return i
    core.canary(rep, TRACE_SPEC, pick_file(meta["files"], is_flag), mutate2, n=CANARY_N, stateful=True)
    rep.traces, rep.events = meta["cases"], meta["events"]
    ex = meta["extra"]
    return rep.finish("model_checking", {
        "distinct_nontrivial": meta["distinct_nontrivial"],
        "rule": "a case is one image (reset event = projection of the image the real code holds) plus one event per query call "
                "(read / is_global_memory_address / read_string_until_null_terminator / is_address_writeable / is_interval_readable / "
                "is_interval_writeable / get_ro_data_pointer_at_address); non-trivial = the image contains two adjacent non-empty segments; "
                "distinct = distinct case hashes",
        "samples": meta["samples"], "routes": ex.get("routes"),
        "layouts_with_adjacent_segments": ex.get("layouts_with_adjacent_segments"),
        "mc_runs": rep.cov.get("mc_runs"), "trusted_base": TRUSTED,
    }, ["segments are disjoint, shorter than 2^20 bytes and end below 2^64 (a segment containing the last byte of the address space makes "
        "base+len overflow in the implementation; outside the generated class)",
        "string reads are constrained only for addresses inside a non-writeable segment (the property is silent elsewhere); a stored string "
        "that is not well-formed UTF-8, or a segment tail without NUL, must be an error",
        "interval queries: start <= end, end exclusive; when end is exactly the first address behind the segment both the flag and a failure "
        "are accepted (the call sites use both readings)",
        "addresses are given as 4-byte constants (when below 2^32) or 8-byte constants; is_global_memory_address with 1/2/4/8-byte constants",
        "the image logged is the one held by the real code after construction; ELF/bare-metal loading itself is not judged"])
