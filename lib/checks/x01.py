"""X01 (extended coverage) - the interprocedural fixpoint wrappers compute the least solution of the
edge equations their documentation defines, for every monotone user analysis, in both directions.

(M) TLC model-checks spec/InterprocFix.tla on hand-written programs (mc/MC_InterprocFix): hand-derived
    least solutions in both directions, and chaotic iteration of the equation system in EVERY order
    for a family of monotone analyses (BelowLFP, FixpointIsLFP, LfpSolves, InClass).
(T) impl -> spec: the real create_computation / .._bottom_up.. / .._top_down.. + compute() of the
    forward and the backward wrapper on random well-formed programs (harness/src/irgen.rs) with random
    monotone table-driven Context implementations; every call-back invocation and the final node
    values are recorded and validated by trace/T_X01.tla (least solution recomputed by TLC from the
    PROGRAM through Cfg!Graph, nothing the code built is trusted).
Nothing here decides: TLC does."""
import json
import os
import re

import core
from core import Report, ToolError
from common import TRUSTED

TRACE_SPEC = "trace/T_X01.tla"
INVARIANTS = "InClass LfpSolves BelowLFP FixpointIsLFP"


def _outside(results):
    for r in results:
        if '"OUTSIDE"' in r.out:
            bad = [x for x in r.out.splitlines() if "OUTSIDE" in x]
            raise ToolError("harness produced an input outside the statement's quantifier (or a broken table-driven Context): %s" % bad[:3])
        # TLC wraps long tuples over several lines; the driver's pattern would then miss a rejection
        if r.out.count('"BAD"') != len(r.bad):
            raise ToolError("a BAD line of T_X01 was wrapped by TLC and not recognised by the driver:\n" + r.out[-1500:])


def _canary(rep, shard):
    """Binding demonstration, one TLC run: in three different recorded runs of an accepted shard corrupt one recorded OUTPUT each
    so that it certainly violates the statement - (a) a final node value of a node that has one is replaced by another
    lattice element, (b) the value of a node WITHOUT value is invented, (c) the input of the second Def of a
    Def chain is changed (or, if the prefix has no such chain, a stabilized flag is cleared).  T_X01 must reject exactly those."""
    lines = core.read_lines(shard)
    evs, starts = [], []
    for x in lines:
        e = json.loads(x)
        if e["ev"] == "reset":
            if len(evs) > 500 and len(starts) >= 12:
                break
            starts.append(len(evs))
        evs.append(e)
    else:
        starts.append(len(evs))          # sentinel: every run is whole
    if len(starts) < 2:
        raise ToolError("canary: too few runs in %s" % shard)
    if len(evs) > starts[-1]:
        evs = evs[:starts[-1]]
    runs = list(zip(starts, starts[1:]))
    want, kinds = [], ["value", "absent", "chain"]
    notes = []
    for a, b in runs:
        if not kinds:
            break
        end = evs[b - 1]
        if end["ev"] != "end" or end["panic"] != "" or evs[a]["default"] != 0:
            continue
        if any(e.get("tag") for e in evs[a:b]):
            continue      # a run with a tagged (known-finding) event is rejected there and skipped from then on
        k = kinds[0]
        if k == "value":
            i = next((i for i, v in enumerate(end["vals"]) if v[0] == 1), None)
            if i is None:
                continue
            end["vals"][i][1] = 2 if end["vals"][i][1] != 2 else 1          # every lattice has >= 3 elements
            want.append(b)
            notes.append("final value of a node changed")
        elif k == "absent":
            i = next((i for i, v in enumerate(end["vals"]) if v[0] == 0 and end["nodes"][i]["k"] in ("BlkStart", "BlkEnd")), None)
            if i is None:
                continue
            end["vals"][i] = [1, 1, 0]
            want.append(b)
            notes.append("value invented for an unreached node")
        else:
            # second Def of a chain: its input must be the answer of the first
            # (forward runs; the def TIDs instr_<addr>_<n> of one block are numbered consecutively)
            def follows(p, q):
                pa, pn = p["a"].rsplit("_", 1)
                qa, qn = q["a"].rsplit("_", 1)
                return pa == qa and int(qn) == int(pn) + 1
            j = next((j for j in range(a + 2, b - 1) if evs[a]["dir"] == "fwd" and evs[j]["f"] == "def" and evs[j - 1]["f"] == "def"
                      and evs[j - 1]["o"] == evs[j]["x"] and evs[j]["x"] != 0 and follows(evs[j - 1], evs[j])), None)
            if j is None:
                continue
            evs[j]["x"] = 2 if evs[j]["x"] != 2 else 1
            want.append(j + 1)
            notes.append("input of a continued Def chain changed")
        kinds.pop(0)
    if kinds == ["chain"]:
        # no continued Def chain in the prefix: clear the stabilized flag of a run not used yet instead
        for a, b in runs:
            end = evs[b - 1]
            if end["ev"] == "end" and end["panic"] == "" and evs[a]["default"] == 0 and b not in want and end["stabilized"] \
                    and not any(e.get("tag") for e in evs[a:b]):
                end["stabilized"] = False
                want.append(b)
                notes.append("stabilized flag cleared")
                kinds.pop(0)
                break
    if kinds:
        raise ToolError("canary: no suitable runs in the first events of %s (left: %s)" % (shard, kinds))
    path = os.path.join(core.BUILD, "traces", "canary_X01.ndjson")
    with open(path, "w") as f:
        for e in evs:
            f.write(json.dumps(e) + "\n")
    r = core.tlc(TRACE_SPEC, cfg="T_X01.cfg", trace=path, workers=1, timeout=900)
    if r.error:
        raise ToolError("canary: TLC error:\n" + r.error)
    # known findings inside the canary prefix are rejected as well; they are not the canary's business
    known = set()
    for idx in r.bad:
        if idx not in want:
            run, k = core.run_of([json.dumps(e, separators=(",", ":")) for e in evs], idx)
            if core.match_known(rep.known, run, k):
                known.add(idx)
    got = sorted(set(r.bad) - known)
    if got != sorted(want):
        raise ToolError("canary: corrupted events %s, but T_X01 rejected %s - the trace specification is vacuous or over-strict" % (sorted(want), got))
    rep.notes.append("canary: %s (events %s of an accepted shard) were rejected by T_X01.tla, and nothing else was" % ("; ".join(notes), want))


def check(seed, tier):
    rep = Report("X01", seed, tier)
    core.build_harness()
    cfg = "MC_InterprocFix.cfg" if tier == "quick" else "MC_InterprocFix_thorough.cfg"
    # (no -coverage: its per-expression cost accounting of the recursive Kleene / graph operators exhausts the heap)
    r = core.mc(rep, "mc/MC_InterprocFix.tla", cfg, workers=4, timeout=3000, label="MC_InterprocFix (%s)" % tier)
    m = re.search(r"Finished computing initial states: (\d+) distinct state", r.out)
    depth = re.search(r"The depth of the complete state graph search is (\d+)", r.out)
    if not rep.violations:
        if not m or not depth or r.distinct <= int(m.group(1)) or int(depth.group(1)) < 5:
            raise ToolError("model checking: the equations are never applied (vacuous instance):\n" + r.out[-1500:])
        rep.cov["mc_runs"][-1].update({"configurations": int(m.group(1)), "depth": int(depth.group(1))})

    meta = core.gen("X01", seed, tier, shards=3 if tier == "quick" else 8)
    results = core.validate_traces(rep, TRACE_SPEC, meta["files"], parallel=4, timeout=3000)
    _outside(results)
    if not rep.violations:
        _canary(rep, meta["files"][0])
    else:
        rep.notes.append("canary skipped: this run already found violations")
    rep.traces, rep.events = meta["cases"], meta["events"]
    return rep.finish("model_checking", {
        "distinct_nontrivial": meta["distinct_nontrivial"],
        "rule": "a case is one run of the real wrappers (reset: program, analysis tables, start values; every call-back invocation; "
                "final node values); distinct = distinct hashes of the whole run; non-trivial = some CallFlowCombinator node ends with BOTH "
                "components present (a call-site value and an interprocedural value met at a CallReturn / CallSource node)",
        "samples": [str(s)[:1500] for s in meta["samples"]][:2],
        "exhaustive": False,
        "exhaustive_parts": "model checking: every order of applying the equations, for all configurations of the instance constants "
                            "(spec/mc/MC_InterprocFix*.cfg); programs / analyses of the trace part are sampled",
        "generator": meta["extra"],
        "mc_runs": rep.cov.get("mc_runs"),
        "invariants": INVARIANTS,
        "trusted_base": TRUSTED + ["Cfg.tla as definition of the graph (property C08 checks it against get_program_cfg)"],
    }, ["programs: irgen::gen_program, 1-4 functions x 1-8 blocks, <= 3 defs per block, graphs up to ~45 nodes (well-formed normalised: Cfg!WellFormed, checked by TLC per run)",
        "user analyses: six lattices (pow2, pow3, chain4, M3, N5, vee), one random monotone table per call-back and argument combination; "
        "monotone in the order extended by None (checked by TLC per run: InterprocFix!AnalysisInClass)",
        "start values on value-carrying nodes only (NodeValue::Value); a default value is given to the value-carrying nodes only",
        "statement part (S) (call-back sequence) does not fix an evaluation order or evaluation counts",
        "backward specialize_conditional is never invoked by the wrapper and its documentation names no edge for it: implemented as the "
        "identity and not checked",
        "compute() only; a non-terminating computation is cut off by the harness after 200000 call-backs and recorded as a panic"])
