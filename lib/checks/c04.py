"""C04 - conditional refinement never removes feasible values."""
import core
from core import Report
import strict_canary
from common import TRUSTED

TRACE_SPEC = "trace/T_C04.tla"

MANIFEST = {
    "category": "model_checking",
    "text": "TLC evaluates Interval!Refine / RefineBatch / Intersect and DataDom!RefineD / IntersectD on every recorded call of "
            "add_signed/unsigned_less/greater_equal_bound, add_not_equal_bound and intersect of IntervalDomain and DataDomain<IntervalDomain>: "
            "every member of the input that satisfies the comparison (BV.tla / BVInt.tla) must be a member of the result, 'unsatisfiable' only "
            "if no member satisfies it, results well-formed. 1-byte intervals are refined with ALL 256 bounds per event with gamma enumerated "
            "completely (thorough: the whole boundary-grid family with every admissible stride); 2/4/8-byte values use sampled members plus all "
            "members within 48 of the bound / within 300 of the intersection ends. Bounded: generated values.",
    "note": "Trusted: TLC + CommunityModules, harness/src/domenc.rs projections (canary-checked), BV.tla/BVInt.tla comparisons (MC_BV). "
            "DataDomain::intersect (DataDom!IntersectD): a relative target or a Top member can denote any absolute value, so kept must be: common absolute members, ALL absolute members of one side when the other has a relative target or the Top flag, relative members common to both sides; members under different identifiers may be dropped (documented deviation of that function).",
    "technique": "TLA+ soundness relation over a concretisation predicate + TLC trace validation of recorded refinements",
    "design_ref": "DESIGN.md section 6, C04",
}


def check(seed, tier):
    rep = Report("C04", seed, tier)
    core.build_harness()
    meta = core.gen("C04", seed, tier, shards=8 if tier == "quick" else 16)
    core.validate_traces(rep, TRACE_SPEC, meta["files"], parallel=8, timeout=5400)

    def eligible(e):
        return e["ev"] == "batch" and e["kind"] == "sle" and e["panic"] == "" and e["cls"] == "" and e["x"]["s"] != e["x"]["e"]

    def mutate(evs):
        # x <=s 127 holds for every member: the result for bound 127 must contain all of x.
        # Shrink it to the singleton {start}: the end of x is lost.
        i = min(2, len(evs) - 1)
        r = evs[i]["results"][127]
        r["ok"] = True
        r["v"] = dict(evs[i]["x"])
        r["v"]["e"] = list(evs[i]["x"]["s"])
        r["v"]["st"] = [0] * 8
        return i
    strict_canary.run(rep, TRACE_SPEC, meta["files"][0], eligible, mutate, n=6)
    rep.traces, rep.events = meta["cases"], meta["events"]
    batches = sum(1 for f in meta["files"] for line in open(f) if '"ev":"batch"' in line[:80])
    return rep.finish("model_checking", {
        "distinct_nontrivial": meta["distinct_nontrivial"],
        "rule": "batch events: one 1-byte interval x one comparison kind x all 256 bounds (grid family start,end in {-128,-127,-65,-64,-2,-1,0,1,2,63,64,"
                "126,127} with every admissible stride, plus random intervals with widening hints); single events: 2/4/8-byte intervals and data domains "
                "with bounds around start/end/stride multiples/hints/extremes; intersections of related intervals (overlapping ranges, strides with "
                "common factors, shifted residue classes) and data domains; non-trivial = the refinement changed the value or answered unsatisfiable; "
                "distinct = distinct event hashes",
        "samples": meta["samples"], "batch_events": batches, "refinements_in_batches": 256 * batches,
        "grid_intervals": meta["extra"].get("grid_intervals"), "exhaustive": bool(meta["extra"].get("grid_exhaustive")),
        "trusted_base": TRUSTED,
    }, ["1 byte: gamma(x) enumerated completely for all 256 bounds; thorough tier: the grid family is enumerated completely (exhaustive refers to it)",
        "2/4/8 bytes: sampled members (Interval!Members) plus the members of x within distance 48 of the bound; intersections: plus all integers "
        "within 300 above the larger start / below the smaller end",
        "DataDomain: only the absolute part is refined, relative and Top members must be preserved; intersect: absolute members of one side are feasible as soon as the other side has a relative target or the Top flag (all environments); (id1,o1) against (id2,o2) with id1 # id2 is not demanded", "DataDomain intersections include all shape pairs (absolute-only / pointer-carrying / mixed, with and without Top flag) in both receiver/argument orders"])
