"""C07 - the worklist fixpoint solver computes the least solution for any order.

(M) TLC model-checks spec/Fixpoint.tla (mc/MC_Fixpoint): every problem of a small scope, every
    schedule (any worklist node may be popped, any pending out-edge updated), safety invariants,
    the oracle's self-check (Kleene LFP = least closed assignment above the start values) and
    liveness (Termination under weak fairness).
(T) impl -> spec: runs of the real solver on random problems under many priority orders, recorded
    through a logging fixpoint::Context, validated by trace/T_C07.tla (TLC infers Pop/FinishNode).
    spec -> impl: problems exported by TLC from the model-checking instance are replayed on the
    real solver under every priority permutation and validated the same way.
Nothing here decides the property: TLC does."""
import concurrent.futures as cf
import json
import os
import re

import core
from core import Report, ToolError
from common import TRUSTED, first_with

TRACE_SPEC = "trace/T_C07.tla"
ACTIONS = ["MCSetup", "Start", "PopVisit", "PopDefer", "Requeue", "UpdateEdgeWith", "FinishNode", "Finish"]
INVARIANTS = "ConfigInClass LfpIsLeast TypeOK StepBound BelowLFP AboveStart WorklistInv Result HonestStabilized StabilizedIsLeast"

MANIFEST = {
    "category": "model_checking",
    "text": "TLC model-checks the TLA+ machine of fixpoint.rs (spec/Fixpoint.tla: Pop of ANY worklist node, UpdateEdge of ANY pending "
            "out-edge, FinishNode, Finish, step bound as an upper bound, default value, environment action Requeue for needless re-visits) against an independently defined Kleene least fixpoint on all "
            "problems with 2 nodes (quick) / 3 nodes (thorough; 4 nodes by simulation) over a 4-element lattice with a monotone transfer "
            "family incl. blocking and non-distributive functions, all schedules, plus liveness; and validates recorded runs of the real "
            "solver (random graphs up to 12 nodes and CFG-shaped graphs, six lattices, all priority permutations up to 6 nodes, "
            "Computation::new / from_node_priority_list / bottom-up / top-down orders, compute and compute_with_max_steps) against the "
            "same machine, in both directions (TLC-exported problems replayed on the solver); bounded: small scopes and sampled graphs.",
    "note": "Trusted: TLC + CommunityModules Json/IOUtils, the table-driven logging Context in harness/src/props/c07.rs (its problems are "
            "checked by TLC to be inside the property's class: semilattice, monotone transfers; canary-checked every run). The trace "
            "specification binds the solver to the chaotic-iteration machine: the order of pops and of out-edges is free.",
    "technique": "TLA+ state machine + TLC model checking (safety, liveness) + TLC trace validation with inferred internal steps",
    "design_ref": "DESIGN.md section 6, C07",
}


def _check_coverage(rep, label):
    """-coverage must show every action of the machine taken; a vacuous action is a broken check."""
    run = [r for r in rep.cov.get("mc_runs", []) if r["instance"] == label][-1]
    acts = run.get("action_coverage", {})
    missing = [a for a in ACTIONS if a not in acts]
    never = [a for a in ACTIONS if a in acts and acts[a][1] == 0]
    if missing or never:
        raise ToolError("model checking %s: actions not covered: missing from coverage output %s, never taken %s" % (label, missing, never))


def _mc(rep, tier):
    M = "mc/MC_Fixpoint.tla"
    jobs = [("MC_Fixpoint quick (2 nodes, BFS)", M, "MC_Fixpoint.cfg", dict(workers=8, coverage=True)),
            ("MC_Fixpoint liveness (2 nodes, 2 edges)", M, "MC_Fixpoint_live.cfg", dict(workers=2))]
    if tier == "thorough":
        jobs = [("MC_Fixpoint quick (2 nodes, BFS)", M, "MC_Fixpoint.cfg", dict(workers=3, coverage=True)),
                ("MC_Fixpoint liveness (2 nodes, 3 edges)", M, "MC_Fixpoint_live3.cfg", dict(workers=2)),
                ("MC_Fixpoint liveness (3 nodes, cyclic graphs)", M, "MC_Fixpoint_cyc3.cfg", dict(workers=3)),
                ("MC_Fixpoint thorough (2 nodes, 4 edges, BFS)", M, "MC_Fixpoint_t2.cfg", dict(workers=3)),
                ("MC_Fixpoint thorough (3 nodes, BFS)", M, "MC_Fixpoint_t3.cfg", dict(workers=4)),
                ("MC_FixpointSim simulation (4 nodes, 5 edges)", "mc/MC_FixpointSim.tla", "MC_FixpointSim.cfg",
                 dict(workers=2, extra=["-simulate", "num=20000", "-depth", "100", "-seed", str(rep.seed)]))]
    with cf.ThreadPoolExecutor(max_workers=len(jobs)) as ex:
        futs = [ex.submit(core.mc, rep, mod, cfg, label=label, timeout=3000,
                          env={"_JAVA_OPTIONS": "-XX:ParallelGCThreads=4"}, **kw) for label, mod, cfg, kw in jobs]
        res = [f.result() for f in futs]
    for (label, _, _, _), r in zip(jobs, res):
        m = re.findall(r"Progress: (\d+) states checked, (\d+) traces generated", r.out)
        if m:   # simulation mode reports its counts differently (the last progress line is the total)
            run = [x for x in rep.cov["mc_runs"] if x["instance"] == label][-1]
            run["simulated_states"], run["simulated_behaviours"] = int(m[-1][0]), int(m[-1][1])
            rep.states += int(m[-1][0])
            rep.transitions += int(m[-1][0])
    _check_coverage(rep, jobs[0][0])


def _dump(rep, tier):
    """TLC writes the problems of the model-checking instances (spec -> impl direction)."""
    d = os.path.join(core.BUILD, "traces", "C07_dump")
    os.makedirs(d, exist_ok=True)
    out = os.path.join(d, "configs.ndjson")
    parts = []
    for cfg in ["MC_FixpointDump.cfg"] + (["MC_FixpointDump_t3.cfg"] if tier == "thorough" else []):
        p = os.path.join(d, cfg.replace(".cfg", ".ndjson"))
        if os.path.exists(p):
            os.remove(p)
        r = core.tlc("mc/MC_FixpointDump.tla", cfg=cfg, workers=1, timeout=1800, xmx="6g",
                     env={"C07_DUMP": p, "_JAVA_OPTIONS": "-XX:ParallelGCThreads=4"})
        if r.error or not os.path.exists(p) or "DUMPED" not in r.out:
            raise ToolError("config dump %s failed:\n%s" % (cfg, r.error or r.out[-2000:]))
        parts.append(p)
    with open(out, "w") as f:
        for p in parts:
            f.write(open(p).read())
    return out


def _outside(results):
    for r in results:
        bad = [x for x in r.printed if "OUTSIDE" in x]
        if bad or '"OUTSIDE"' in r.out:
            raise ToolError("harness generated a problem outside the class of C07 (not a semilattice / not monotone): %s" % bad[:3])


def _canaries(rep, shard):
    """Binding demonstration: in three different recorded runs of an accepted shard corrupt one OUTPUT
    each so that it certainly is a violation (a final node value; the stabilized flag; the input value
    of the first call-back of a run, where the node's value when popped = its current value); T_C07
    must reject exactly these three events.  One TLC run for all three."""
    lines = core.read_lines(shard)[:600]
    evs = [json.loads(x) for x in lines]
    starts = [i for i, e in enumerate(evs) if e["ev"] == "reset"]
    evs = evs[:starts[-1]]                      # whole runs only
    runs = [(a, b) for a, b in zip(starts, starts[1:])]
    want, kinds = [], ["final_value", "stabilized_flag", "first_input"]
    for a, b in runs[1:]:
        if not kinds:
            break
        end = evs[b - 1]
        if end["ev"] != "end" or end["panic"] != "":
            continue
        k = kinds[0]
        if k == "final_value":
            end["vals"][0] = 2 if end["vals"][0] != 2 else 1      # every lattice has >= 3 elements
            want.append(b)                                         # 1-based index of the end event
        elif k == "stabilized_flag":
            end["stabilized"] = not end["stabilized"]
            want.append(b)
        else:
            if evs[a + 1]["ev"] != "edge":
                continue
            evs[a + 1]["in"] = 2 if evs[a + 1]["in"] != 2 else 1
            want.append(a + 2)
        kinds.pop(0)
    if kinds:
        raise ToolError("canary: no suitable runs in the first events of %s" % shard)
    path = os.path.join(core.BUILD, "traces", "canary_C07.ndjson")
    with open(path, "w") as f:
        for e in evs:
            f.write(json.dumps(e) + "\n")
    r = core.tlc(TRACE_SPEC, cfg="T_C07.cfg", trace=path, workers=1, timeout=900)
    if r.error:
        raise ToolError("canary: TLC error:\n" + r.error)
    if sorted(r.bad) != sorted(want):
        raise ToolError("canary: corrupted events %s, but T_C07 rejected %s - the trace specification is vacuous or over-strict" % (want, r.bad))
    rep.notes.append("canary: a corrupted final value, a flipped stabilized flag and a corrupted update_edge input (events %s of an "
                     "accepted shard) were rejected by T_C07.tla, and nothing else was" % want)


def trace_part(rep, seed, tier, dump):
    """(T) both directions: random problems, and the problems TLC exported, on the real solver."""
    meta = core.gen("C07", seed, tier, shards=6 if tier == "quick" else 8)
    os.environ["C07_CONFIGS"] = dump
    os.environ["C07_MC_SAMPLE"] = "1500" if tier == "quick" else "15000"
    meta_mc = core.gen("C07", seed, tier, shards=2 if tier == "quick" else 8, sub="mc")
    results = core.validate_traces(rep, TRACE_SPEC, meta["files"] + meta_mc["files"], parallel=8, timeout=3000)
    _outside(results)
    _canaries(rep, meta["files"][0])
    return meta, meta_mc


def check(seed, tier):
    rep = Report("C07", seed, tier)
    core.build_harness()
    with cf.ThreadPoolExecutor(max_workers=2) as ex:
        fd = ex.submit(_dump, rep, tier)
        fm = ex.submit(_mc, rep, tier)
        dump = fd.result()
        fm.result()
    meta, meta_mc = trace_part(rep, seed, tier, dump)

    rep.traces = meta["cases"] + meta_mc["cases"]
    rep.events = meta["events"] + meta_mc["events"]
    bfs = [r for r in rep.cov.get("mc_runs", []) if "simulation" not in r["instance"]]
    return rep.finish("model_checking", {
        "distinct_nontrivial": meta["distinct_nontrivial"] + meta_mc["distinct_nontrivial"],
        "rule": "a case is one run of the real solver (reset, every update_edge / merge call-back, end state); distinct = distinct "
                "hashes of the whole run; non-trivial = some node was processed more than once (more update_edge calls than edges) "
                "or the step bound left nodes in the final worklist. Random part: graphs with 1..12 nodes (chains with back edges, "
                "sparse, dense, self-loops, parallel edges) and CFG-shaped graphs of small programs, six lattices (pow2, pow3, chain4, "
                "M3, N5, vee), random monotone transfers with up-closed enabled sets (blocking edges); all n! priority lists for "
                "n <= 6, random ones beyond, Computation::new, bottom-up/top-down; compute() and compute_with_max_steps(1,2,3,100). "
                "spec->impl part: problems exported by TLC from the model-checking instance, under Computation::new and all permutations.",
        "samples": meta["samples"][:2] + meta_mc["samples"][:1],
        "exhaustive": False,
        "exhaustive_parts": "model checking: all problems of the instance constants (see spec/mc/MC_Fixpoint*.cfg) and all schedules; "
                            "trace validation: all priority permutations for every generated problem with <= 6 nodes; "
                            "graphs/transfers themselves are sampled",
        "generator": dict(meta["extra"], **meta_mc["extra"]),
        "mc_runs": rep.cov.get("mc_runs"),
        "mc_bfs_distinct_states": sum(r["distinct_states"] for r in bfs),
        "invariants": INVARIANTS, "liveness": "Termination == <>(phase = \"done\") under WF_vars(Next)",
        "trusted_base": TRUSTED,
    }, ["lattices are finite (3..8 elements); transfers monotone in the order extended by None (checked by TLC per run: Fixpoint!InClass)",
        "a start value replaces the default value of its node (set_node_value), as in fixpoint.rs",
        "the priority list is a permutation of all nodes (what Computation::new and the bottom-up/top-down constructors produce)",
        "never stricter than the statement: needless re-visits (machine action Requeue) and giving up on a node before the bound "
        "(PopDefer for any queued node when there is a bound) are accepted; the bound is an upper bound; compute() must reach the LFP",
        "visits of nodes without out-edges make no call-back; such a node is visited once before Finish unless the solver reports it "
        "in its final worklist (look-ahead to the end event)",
        "a non-terminating solver is cut off by the harness after %d call-backs and recorded as a panic" % 5000])


def replay(path, seed, tier):
    """Recorded run -> re-executed on the real solver and re-validated; model-checking violations
    (no recorded run) -> the instance is model-checked again."""
    rec = json.load(open(path))
    if rec.get("run"):
        core.build_harness()
        out = os.path.join(core.BUILD, "traces", "C07_replay")
        p = core.sh([core.BIN, "replay", "C07", path, "--out", out], cwd=core.ROOT, check=False)
        if p.returncode != 0:
            raise ToolError("replay failed: " + p.stdout[-2000:])
        r = core.tlc(TRACE_SPEC, cfg="T_C07.cfg", trace=os.path.join(out, "shard00.ndjson"), workers=1)
        if r.error:
            raise ToolError(r.error)
        if r.bad or r.unconsumed or r.invariant:
            print("VIOLATION property=C07 replay=%s" % path)
            core.log("\n".join(r.badlines[:5]) or r.out[-1500:])
            return 1
        print("replay accepted: the recorded inputs no longer violate C07")
        return 0
    rep = Report("C07", seed, tier)
    core.mc(rep, "mc/MC_Fixpoint.tla", "MC_Fixpoint.cfg", workers=6, label="MC_Fixpoint quick (2 nodes, BFS)")
    if rep.violations:
        print("VIOLATION property=C07 replay=%s" % path)
        return 1
    print("replay accepted: the model-checking instance no longer violates C07")
    return 0
