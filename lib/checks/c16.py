"""C16 - call-site checkers CWE676/782/426/332 report exactly the specified call sites."""
import os

import core
from core import Report
from common import TRUSTED, first_with

TRACE_SPEC = "trace/T_C16.tla"

MANIFEST = {
    "category": "model_checking",
    "text": "TLC evaluates the exact warning bags W676/W782/W426/W332 of spec/Checkers.tla (set/bag comprehensions over the recorded "
            "program and configuration) against the warnings returned by the real check_cwe functions on seeded random multi-function "
            "programs with random extern tables (subsets of a 20-name vocabulary) and random configurations; bag equality per event; "
            "bounded: programs of at most 3 functions x 5 blocks.",
    "note": "Trusted: TLC + CommunityModules Json/IOUtils, the IR/warning projections in harness/src/irenc.rs and walkrun.rs (canary-checked "
            "every run).  Input class: well-formed normalised programs with pairwise different extern names (checked by the spec; events "
            "outside are accepted vacuously and none is generated).  CWE332 carries its symbols only in the description text, which is "
            "compared as the set of configured names occurring in it.",
    "technique": "TLA+ reference specification (exact set comprehension) + TLC trace validation of recorded checker runs",
    "design_ref": "DESIGN.md section 6, C16",
}


def check(seed, tier):
    rep = Report("C16", seed, tier)
    core.build_harness()
    # mode M: the specification modules against hand-derived expectations on hand-written projects
    core.mc(rep, "mc/MC_Walk.tla", "MC_Walk.cfg", workers=1)
    meta = core.gen("C16", seed, tier, shards=8)
    core.validate_traces(rep, TRACE_SPEC, meta["files"], parallel=int(os.environ.get("VERIF_PAR", 4 if tier == "quick" else 8)), timeout=3600)

    def mutate(evs):
        # drop one reported warning: the recorded bag is then certainly not the specified one
        i = first_with(evs, lambda e: e.get("warnings") and e["panic"] == "")
        if i is not None:
            evs[i]["warnings"] = evs[i]["warnings"][1:]
        return i
    core.canary(rep, TRACE_SPEC, meta["files"][0], mutate, n=150, stateful=True)
    rep.traces, rep.events = meta["cases"], meta["events"]
    return rep.finish("model_checking", {
        "distinct_nontrivial": meta["distinct_nontrivial"],
        "rule": "a case is one random program run through the four real checkers (4 events: checker, project, configuration, warnings); "
                "non-trivial = the program has at least two direct calls and at least one of the four checkers reports a warning; "
                "distinct = distinct case hashes",
        "samples": [str(s)[:1500] for s in meta["samples"][:2]], "exhaustive": False, "mc_runs": rep.cov.get("mc_runs"), "trusted_base": TRUSTED,
    }, ["programs: 1-3 functions, 1-5 blocks each, extern tables = random subsets of a 20-name vocabulary containing every configured name",
        "configurations: random symbol lists incl. duplicates, names absent from the binary and empty lists; CWE332 pairs without duplicate pairs",
        "extern symbol names are pairwise different (find_symbol's first-match rule is not exercised)"])
