"""C17 - reachability-based checkers CWE367/CWE243 follow their path specification."""
import os

import core
from core import Report
from common import TRUSTED, first_with

TRACE_SPEC = "trace/T_C17.tla"

MANIFEST = {
    "category": "model_checking",
    "text": "TLC evaluates IntraReach / W367sites / W243 of spec/Checkers.tla on the graph spec/Cfg.tla defines for each recorded program and "
            "compares with the warnings (or panic) of the real cwe_367/cwe_243 check_cwe on seeded random programs with branches, loops, "
            "internal calls to returning and non-returning functions, repeated source calls and calls with and without return site; "
            "CWE367: set of check sites with a reachable use (reported use must be one of the reachable ones), CWE243: exact bag, no panic; "
            "bounded: at most 3 functions x 8 blocks.",
    "note": "Trusted: TLC + CommunityModules, Cfg.tla (validated against the real graph builder by C08), projections in harness/src/irenc.rs "
            "and walkrun.rs (canary-checked).  Reachability is over the graph's edges: a use call without return site has no stub edge and is "
            "not a reachable use (DESIGN C17).  A CWE367 check site may be named by the call TID or by its return-site block TID.",
    "technique": "TLA+ reference specification (reachability fixpoint over Cfg edges) + TLC trace validation of recorded checker runs",
    "design_ref": "DESIGN.md section 6, C17",
}


def check(seed, tier):
    rep = Report("C17", seed, tier)
    core.build_harness()
    # mode M: the specification modules against hand-derived expectations on hand-written projects
    core.mc(rep, "mc/MC_Walk.tla", "MC_Walk.cfg", workers=1)
    meta = core.gen("C17", seed, tier, shards=8)
    core.validate_traces(rep, TRACE_SPEC, meta["files"], parallel=int(os.environ.get("VERIF_PAR", 4 if tier == "quick" else 8)), timeout=3600)

    def mutate(evs):
        # drop one reported warning of an accepted event: a flagged site is then missing
        i = first_with(evs, lambda e: e.get("warnings") and e["panic"] == "")
        if i is not None:
            evs[i]["warnings"] = evs[i]["warnings"][1:]
        return i
    core.canary(rep, TRACE_SPEC, meta["files"][0], mutate, n=150, stateful=True)
    rep.traces, rep.events = meta["cases"], meta["events"]
    return rep.finish("model_checking", {
        "distinct_nontrivial": meta["distinct_nontrivial"],
        "rule": "a case is one random program run through cwe_367 and cwe_243 (2 events: checker, project, configuration, warnings, panic); "
                "non-trivial = at least one of the two checkers reports a warning; distinct = distinct case hashes",
        "samples": [str(s)[:1500] for s in meta["samples"][:2]], "exhaustive": False, "mc_runs": rep.cov.get("mc_runs"), "trusted_base": TRUSTED,
    }, ["programs: 1-3 functions with 2-8 blocks, extern calls biased to access/open/chroot/chdir, 12% of the calls without return site",
        "CWE367 pairs: check != use; names absent from the binary occur",
        "extern symbol names are pairwise different"])
