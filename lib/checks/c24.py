"""C24 - call-sequence queries return exactly the calls on source-to-target paths."""
import core
from core import Report
from common import TRUSTED, first_with

TRACE_SPEC = "trace/T_C24.tla"

MANIFEST = {
    "category": "model_checking",
    "text": "TLC evaluates the TLA+ reference Callgraph.tla (OnPath = calls u->v with u reachable from the source and the target reachable "
            "from v, closures computed as least fixpoints) on every recorded result of find_call_sequences_to_target for all ordered pairs of "
            "functions of randomly generated programs (cycles, self-calls, parallel calls, extern, indirect and dangling calls; up to 8 "
            "functions) and, in the thorough tier, of all 512 call graphs on 3 functions; Callgraph.tla itself is model-checked against a "
            "definition by explicit enumeration of walks on all call graphs with 2 (quick) / 3 (thorough) functions.",
    "note": "Trusted: TLC + CommunityModules Json/IOUtils, the projection harness/src/irenc.rs (canary-checked every run).",
    "technique": "TLA+ reference function + TLC trace validation of recorded calls; bounded model checking of the specification",
    "design_ref": "DESIGN.md section 6, C24",
}


def check(seed, tier):
    rep = Report("C24", seed, tier)
    core.build_harness()
    core.mc(rep, "mc/MC_Callgraph.tla", "MC_Callgraph_quick.cfg" if tier == "quick" else "MC_Callgraph.cfg", workers=8)
    meta = core.gen("C24", seed, tier, shards=8)
    core.validate_traces(rep, TRACE_SPEC, meta["files"], parallel=8, timeout=3600)

    def mutate(evs):
        i = first_with(evs, lambda e: any(q["calls"] for q in e["queries"]))
        if i is not None:
            q = [q for q in evs[i]["queries"] if q["calls"]][0]
            q["calls"].pop()              # drop one call from a recorded result
        return i
    core.canary(rep, TRACE_SPEC, meta["files"][0], mutate)
    rep.traces = meta["cases"]
    rep.events = meta["events"]
    return rep.finish("model_checking", {
        "distinct_nontrivial": meta["distinct_nontrivial"],
        "rule": "one event per program with the results of all ordered (source, target) pairs; non-trivial = the queries of the program have "
                "at least three different result sizes; distinct = distinct event hashes",
        "samples": [str(s)[:1500] for s in meta["samples"]][:2],
        "exhaustive": bool(meta["extra"].get("exhaustive_3_function_graphs")),
        "exhaustive_3_function_graphs": meta["extra"].get("exhaustive_3_function_graphs", 0),
        "queries": meta["extra"].get("queries"),
        "mc_runs": rep.cov.get("mc_runs"), "trusted_base": TRUSTED,
    }, ["programs with unique TIDs, 2-8 functions; all ordered pairs (s, t) of functions are queried, including s = t",
        "only the query results are compared; the shape of the petgraph call graph is not constrained",
        "thorough tier: all 2^9 call graphs on 3 functions x 9 pairs" if tier == "thorough" else
        "quick tier: random programs only (thorough adds all call graphs on 3 functions)"])
