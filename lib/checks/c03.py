"""C03 - merge over-approximates both inputs and is stable."""
import concurrent.futures as cf

import core
from core import Report
import strict_canary
from common import TRUSTED

TRACE_SPEC = "trace/T_C03.tla"

MANIFEST = {
    "category": "model_checking",
    "text": "TLC evaluates the gamma-based merge laws Upper (gamma(x) u gamma(y) <= gamma(merge)), Idem (merge(x,x) = x as sets) and Absorb "
            "(merge(merge(x,y),y) and merge(merge(x,y),x) do not enlarge) on every recorded pair, for merge AND merge_with, of: BitvectorDomain, "
            "IntervalDomain with widening (1 byte: all members enumerated; 2/4/8 bytes sampled), DataDomain<IntervalDomain> (tagged members), "
            "Taint, DomainMap under Union/Intersect/MergeTop (key-wise, absent key = bottom / everything / V::top()), and MemRegion (every cell of "
            "the larger region must be implied by the smaller one). Specifications: Interval.tla, DataDom.tla, Taint.tla, AbsValue.tla, "
            "DomainMap.tla, MemRegionGamma.tla; MC_Interval model-checks gamma/Subset/GammaEq themselves. Bounded: generated pairs.",
    "note": "Trusted: TLC + CommunityModules, harness/src/domenc.rs projections (canary-checked), the reading of an absent map key / memory cell "
            "stated in DomainMap.tla / MemRegionGamma.tla (taken from the documentation of the strategies and of MemRegion::get).",
    "technique": "TLA+ concretisation predicates + TLC trace validation of recorded merges",
    "design_ref": "DESIGN.md section 6, C03",
}


def check(seed, tier):
    rep = Report("C03", seed, tier)
    core.build_harness()
    # mode M (gamma sanity) runs concurrently with the trace validation (4 + 8 JVM threads)
    pool = cf.ThreadPoolExecutor(max_workers=1)
    mc_job = pool.submit(core.mc, rep, "mc/MC_Interval.tla", "MC_Interval.cfg" if tier == "thorough" else "MC_Interval_quick.cfg", 4)
    meta = core.gen("C03", seed, tier, shards=8 if tier == "quick" else 16)
    core.validate_traces(rep, TRACE_SPEC, meta["files"], parallel=8, timeout=5400)
    mc_job.result()

    def eligible(e):
        return e["dom"] == "val" and e["vk"] == "iv" and e["panic"] == "" and e["x"]["iv"]["w"] == 1 and e["x"]["iv"]["s"] != e["x"]["iv"]["e"]

    def mutate(evs):
        # shrink the merge of an interval pair to the singleton {start of x}: x's end is lost
        i = min(3, len(evs) - 1)
        m = evs[i]["m"]["iv"]
        m["s"] = list(evs[i]["x"]["iv"]["s"])
        m["e"] = list(evs[i]["x"]["iv"]["s"])
        m["st"] = [0] * 8
        return i
    strict_canary.run(rep, TRACE_SPEC, meta["files"][0], eligible, mutate, n=12)
    rep.traces, rep.events = meta["cases"], meta["events"]
    return rep.finish("model_checking", {
        "distinct_nontrivial": meta["distinct_nontrivial"],
        "rule": "one event per pair (x, y): the four merges m=x.merge(y), x.merge(x), m.merge(y), m.merge(x) and the same four through merge_with; "
                "pairs: 1-byte intervals incl. loop-style partners (same start/end grown by a few strides, kept/new widening hints, delays), wider "
                "intervals, bit-vector values, all taint pairs, data domains over 3 identifiers, maps over 4 keys per strategy and value domain, "
                "regions over offsets -8..28 with cell sizes 1/2/4/8 sharing part of their layout; non-trivial = the merge differs from both "
                "inputs; distinct = distinct event hashes",
        "samples": meta["samples"], "mc_runs": rep.cov.get("mc_runs"), "trusted_base": TRUSTED,
    }, ["1-byte intervals: gamma enumerated completely; wider intervals: sampled members (Interval!Members)",
        "DomainMap value domains: IntervalDomain, BitvectorDomain, Taint under all three strategies; DataDomain<IntervalDomain> under Union and MergeTop "
        "(IntersectMergeStrategy documents that it needs a greatest Top element)",
        "MemRegion: gamma inclusion is checked cell-wise (sufficient condition; an implementation that re-splits cells would need a finer relation)",
        "the custom MemoryTaintMergeStrategy of the taint analysis is not one of the three listed strategies and is not exercised"])
