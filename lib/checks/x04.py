"""X04 (extended coverage) - parameter locations of variadic calls: calculate_parameter_locations /
get_variable_parameters return, for every variadic argument, the location the calling convention assigns to it."""
import json
import os

import core
from core import Report, ToolError, log
from common import TRUSTED

TRACE_SPEC = "trace/T_X04.tla"


def behaviours(rep, seed, tier):
    """Mode M: model-check the allocation machine; collect the behaviours TLC printed."""
    cfg = "MC_ParamLoc_quick.cfg" if tier == "quick" else "MC_ParamLoc.cfg"
    r = core.mc(rep, "mc/MC_ParamLoc.tla", cfg, workers=4, coverage=True, label=cfg.replace(".cfg", ""), timeout=3000)
    lines = set()
    n = 0
    for x in r.out.splitlines():
        if x.startswith('"{'):
            try:
                b = json.loads(json.loads(x))
            except ValueError as e:
                raise ToolError("unparsable behaviour line printed by TLC: %r" % x[:200]) from e
            lines.add(json.dumps(b, sort_keys=True))
            n += 1
    inits = len(set((json.loads(x)["arch"], json.loads(x)["ni"], json.loads(x)["nf"], json.loads(x)["k"]) for x in lines))
    # every state except the initial ones (empty argument list) is printed exactly once
    if n == 0 or n != r.distinct - inits or len(lines) != n:
        raise ToolError("MC_ParamLoc: %d behaviours printed (%d distinct) but %d states / %d configurations found" % (n, len(lines), r.distinct, inits))
    path = os.path.join(core.BUILD, "traces", "X04_behaviours.ndjson")
    os.makedirs(os.path.dirname(path), exist_ok=True)
    with open(path, "w") as f:
        for x in sorted(lines):
            f.write(x + "\n")
    log("[mc] %d behaviours of ParamLoc.tla (%d call configurations) handed to the harness" % (len(lines), inits))
    return path, len(lines), inits


def _corruptions():
    """(name, eligible(event), corrupt(event)) - each corrupts ONE recorded output so that it certainly violates the statement."""
    def stack_items(e):
        return [r for r in e["result"] if r["k"] == "stack" and r["x"]["k"] == "bin"]

    def regs(e):
        return [r for r in e["result"] if r["k"] == "reg"]

    def c_stack(e):      # move the last stack argument of a direct call by four bytes
        r = stack_items(e)[-1]
        r["x"]["r"]["c"][0] = (r["x"]["r"]["c"][0] + 4) % 256

    def c_reg(e):        # hand the first two register arguments each other's register
        rs = regs(e)
        rs[0]["x"], rs[1]["x"] = rs[1]["x"], rs[0]["x"]

    def c_fmt(e):        # drop the last reported argument of a format string read from the memory image
        e["result"].pop()

    def c_err(e):        # pretend that a format string behind a non-constant pointer was located
        e["ok"] = True

    def c_dt(e):         # a replayed TLC behaviour: tag the first argument with another data type
        e["result"][0]["dt"] = "Pointer" if e["result"][0]["dt"] != "Pointer" else "Integer"
    return [
        ("stack offset", lambda e: e["src"] == "gen" and e["ev"] == "loc" and e["ok"] and stack_items(e), c_stack),
        ("register order", lambda e: e["src"] == "gen" and e["ev"] == "loc" and e["ok"] and len(regs(e)) >= 2 and regs(e)[0]["x"] != regs(e)[1]["x"], c_reg),
        ("format arguments", lambda e: e["ev"] == "fmt" and e["ok"] and len(e["result"]) >= 1, c_fmt),
        ("non-constant pointer", lambda e: e["ev"] == "fmt" and not e["ok"] and e["ptr"]["k"] == "other" and e["panic"] == "", c_err),
        ("data type of a TLC behaviour", lambda e: e["src"] == "tlc" and e["ok"] and len(e["result"]) >= 1, c_dt),
    ]


def canary(rep, gen_shard, tlc_shard, n=300):
    """Binding demonstration (every run, ONE TLC run): the first events of an accepted generator shard and of an accepted shard of
    replayed TLC behaviours; five recorded outputs of different kinds are corrupted; TLC must reject exactly those five events."""
    if rep.violations:
        rep.notes.append("canary skipped: this run already found violations (the canary needs accepted events)")
        return
    evs = [json.loads(x) for x in core.read_lines(gen_shard)[:n]] + [json.loads(x) for x in core.read_lines(tlc_shard)[:n // 3]]
    want, used = [], set()
    for name, eligible, corrupt in _corruptions():
        i = next((i for i, e in enumerate(evs) if i not in used and eligible(e)), None)
        if i is None:
            raise ToolError("canary: no event suitable for the corruption '%s' in the first events of %s / %s" % (name, gen_shard, tlc_shard))
        corrupt(evs[i])
        used.add(i)
        want.append(i + 1)
    path = os.path.join(core.BUILD, "traces", "canary_X04.ndjson")
    with open(path, "w") as f:
        for e in evs:
            f.write(json.dumps(e) + "\n")
    r = core.tlc(TRACE_SPEC, cfg="T_X04.cfg", trace=path, workers=1, timeout=900)
    if r.error:
        raise ToolError("canary: TLC error:\n" + r.error)
    extra = sorted(set(r.bad) - set(want))
    if not set(want) <= set(r.bad) or r.unconsumed or (extra and not rep.known_hits):
        raise ToolError("canary: corrupted events %s, but T_X04 rejected %s - the specification is vacuous or over-strict for an event kind"
                        % (sorted(want), sorted(r.bad)))
    rep.add_tlc(r)
    rep.notes.append("canary: %d accepted events; five recorded outputs corrupted (stack offset, register order, dropped format argument, "
                     "located format behind a non-constant pointer, data type of a replayed TLC behaviour: events %s); T_X04 rejected exactly those"
                     % (len(evs), sorted(want)))


def check(seed, tier):
    rep = Report("X04", seed, tier)
    core.build_harness()
    path, nbeh, ncfg = behaviours(rep, seed, tier)
    os.environ["VERIF_X04_BEHAVIOURS"] = path
    shards = 8 if tier == "quick" else 16
    meta_t = core.gen("X04", seed, tier, shards=shards, sub="tlc")          # spec -> impl
    if meta_t["events"] != nbeh:
        raise ToolError("harness replayed %d of %d TLC behaviours" % (meta_t["events"], nbeh))
    core.validate_traces(rep, TRACE_SPEC, meta_t["files"], parallel=4, timeout=3600)
    meta_g = core.gen("X04", seed, tier, shards=shards)                     # impl -> spec
    core.validate_traces(rep, TRACE_SPEC, meta_g["files"], parallel=4, timeout=3600)

    canary(rep, meta_g["files"][0], meta_t["files"][0])

    rep.traces = meta_t["cases"] + meta_g["cases"]
    rep.events = meta_t["events"] + meta_g["events"]
    return rep.finish("model_checking", {
        "distinct_nontrivial": meta_t["distinct_nontrivial"] + meta_g["distinct_nontrivial"],
        "rule": "one event per call of calculate_parameter_locations (convention, architecture, fixed parameters, argument list, result) or of "
                "get_variable_parameters (additionally memory image, format tokens, pointer state); non-trivial = at least two variadic arguments "
                "and the result mixes register and stack locations; distinct = distinct event hashes",
        "samples": meta_g["samples"][:2] + meta_t["samples"][:1],
        "exhaustive": True,
        "exhaustive_what": "mc/MC_ParamLoc (%s): all argument-type sequences up to length 4 over {Integer, Pointer, Double, Char} for %d call configurations "
                           "(data model x integer registers x float registers x fixed parameters); every behaviour replayed on the real function"
                           % ("quick instance" if tier == "quick" else "full instance: 4 data models x 0..6 integer x 0..8 float registers x 0..3 fixed parameters", ncfg),
        "tlc_behaviours_replayed_into_impl": nbeh, "call_configurations": ncfg, "generated_calls": meta_g["events"],
        "mc_runs": rep.cov.get("mc_runs"), "trusted_base": TRUSTED,
    }, ["input class (ParamLoc!Conforming): the k fixed parameters are integer-class parameters placed as the convention places them - the first "
        "min(k, NI) in the integer parameter registers in order, the others in ascending non-overlapping stack slots behind the return address",
        "documented rule: integer and float parameter registers are counted separately; a stack argument occupies exactly its passed size (char "
        "promoted to int by the parser), NO rounding to pointer size / stack alignment; the first stack slot is SP + pointer size on x86 "
        "(return address), SP + 0 elsewhere, or behind the last fixed stack parameter",
        "ABI facts the code does not document and the spec therefore does not demand: 8-byte stack slots for 4-byte variadic arguments on "
        "x86-64 / AArch64, 8-byte alignment of doubles on 32-bit RISC stacks, variadic doubles passed in integer registers (AAPCS, MIPS o32)",
        "format-string route: ASCII format strings over the grammar of FormatString.tla stored NUL-terminated in a read-only segment; pointer "
        "state as reported by State::eval_parameter_arg (constant / not constant); an error is demanded for a missing parameter index, a "
        "non-constant pointer, an unmapped address and a string without NUL; writable segments are left open",
        "random conventions: 0..8 integer and 0..9 float parameter registers, 1..3 conventions per project, symbols with and without annotated "
        "convention (standard convention __stdcall / __cdecl / __thiscall), 9 architecture / pointer-size combinations, 0..5 fixed parameters, "
        "argument lists up to 12 with model sizes or random sizes 1..16"])
