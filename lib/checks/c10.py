"""C10 - optimising normalisation preserves behaviour (translation validation by TLC).

The harness runs the REAL normalize_basic and then every pass of Project::normalize_optimize (and the
whole of it) on generated functions and records (before, after) pairs.  TLC model-checks the product
machine spec/EquivMonitor.tla (two copies of the IR reference semantics spec/IR.tla) over the recorded
pairs x initial states and checks ObsPrefix in every state.  Python only shards, counts and maps TLC's
verdicts to exit codes."""
import json
import os
import re

import core
from core import Report, ToolError, log
from common import TRUSTED

TRACE_SPEC = "trace/T_C10.tla"
TRACE_CFG = "T_C10.cfg"

MANIFEST = {
    "category": "translation_validation",
    "text": "For every generated function and every pass of Project::normalize_optimize (expression propagation, trivial-operation "
            "substitution, dead-variable elimination, control-flow propagation, stack-alignment substitution, and the whole pipeline) "
            "TLC runs the function before and after the REAL pass in the TLA+ reference semantics of the IR (IR.tla) from 6 initial "
            "states and checks in every state of the product machine (EquivMonitor.tla) that the observation sequences (memory reads/"
            "writes, calls, indirect jumps, returns, dead ends with physical registers and memory) are prefixes of each other; "
            "bounded: functions of <= 11 blocks, 32 block steps per copy, generated input class stated in the evidence.",
    "note": "Trusted: TLC + CommunityModules Json/IOUtils, the IR projection harness/src/irenc.rs (canary-checked every run), IR.tla "
            "as transcription of the IR semantics (self-checked by MC_IR against BV.tla/BVInt.tla and by MC_Equiv on hand-written pairs).",
    "technique": "TLA+ product machine over recorded transformer outputs, model-checked by TLC (translation validation)",
    "design_ref": "DESIGN.md section 6, C10",
}

EXPECTED_MC_EQUIV = {3, 4, 5, 8}      # MC_Equiv.tla: the hand-written pairs that must be reported


def _bad_by_case(r):
    """{case index: [(init, kind1, kind2), ...]} from the <<"BAD", case, init, k1, k2>> lines"""
    out = {}
    for line in r.badlines:
        m = re.match(r'<<"BAD", (\d+), (\d+), "([^"]*)", "([^"]*)">>', line)
        if m:
            out.setdefault(int(m.group(1)), []).append((int(m.group(2)), m.group(3), m.group(4)))
    return out


def _self_checks(rep, tier):
    cfg = "MC_IR.cfg" if tier == "thorough" else "MC_IR_quick.cfg"
    core.mc(rep, "mc/MC_IR.tla", cfg, workers=4, label="MC_IR")
    r = core.tlc("mc/MC_Equiv.tla", cfg="MC_Equiv.cfg", workers=2, timeout=1200)
    rep.add_tlc(r)
    if r.error or not r.finished_ok:
        raise ToolError("MC_Equiv: TLC error:\n" + (r.error or r.out[-2000:]))
    got = set(_bad_by_case(r))
    if got != EXPECTED_MC_EQUIV:
        raise ToolError("MC_Equiv: the monitor reported the hand-written pairs %s, expected %s - the monitor is broken" % (sorted(got), sorted(EXPECTED_MC_EQUIV)))
    rep.cov.setdefault("mc_runs", []).append({"instance": "MC_Equiv", "states_generated": r.generated, "distinct_states": r.distinct,
                                             "wall_s": round(r.wall, 1), "reported_pairs": sorted(got)})
    log("[mc] MC_Equiv: %d states, reported pairs %s as expected, %.1fs" % (r.distinct, sorted(got), r.wall))


def _embed_raw(ev):
    ev = dict(ev)
    try:
        ev["raw_serde"] = open(ev.get("raw_file", "")).read()
    except OSError:
        pass
    return ev


def _counterexample(ev, tag):
    """TLC's counterexample trace for one case (INVARIANT ObsPrefix): the diverging concrete execution."""
    path = os.path.join(core.BUILD, "traces", "C10_cex_%s.ndjson" % tag)
    e = {k: v for k, v in ev.items() if k != "raw_serde"}
    with open(path, "w") as f:
        f.write(json.dumps(e) + "\n")
    r = core.tlc(TRACE_SPEC, cfg="T_C10_cex.cfg", trace=path, workers=1, timeout=900)
    text = r.cex() if r.invariant else r.out[-3000:]
    # (TLC labels every state with the action and its parameter - the whole case list; cut those lines)
    return "\n".join(x[:240] for x in text.splitlines())


def check(seed, tier):
    rep = Report("C10", seed, tier)
    core.build_harness()
    _self_checks(rep, tier)
    shards = 4 if tier == "quick" else 8
    meta = core.gen("C10", seed, tier, shards=shards)
    jobs = [dict(module=TRACE_SPEC, cfg=TRACE_CFG, trace=f, workers=2, timeout=3000, xmx="4g") for f in meta["files"]]
    results = core.tlc_many(jobs, parallel=4)
    behaviours = 0
    diverging = 0
    cex_budget = {"known": 3, "new": 3}
    seen_known = set()
    for f, r in zip(meta["files"], results):
        rep.add_tlc(r)
        if r.error:
            raise ToolError("TLC error on %s:\n%s" % (f, r.error))
        if not r.finished_ok:
            raise ToolError("TLC did not finish cleanly on %s:\n%s" % (f, r.out[-3000:]))
        m = re.search(r"Finished computing initial states: (\d+) distinct", r.out)
        behaviours += int(m.group(1)) if m else 0
        bad = _bad_by_case(r)
        if not bad:
            continue
        lines = core.read_lines(f)
        for idx in sorted(bad):
            ev = json.loads(lines[idx - 1])
            diverging += len(bad[idx])
            what = "C10 pass=%s function=%d: behaviour differs from %d of %d initial states (first unmatched observations %s) [%s case %d]" % (
                ev["pass"], ev["fn"], len(bad[idx]), len(ev["inits"]), sorted(set((a, b) for _, a, b in bad[idx]))[:3], os.path.basename(f), idx)
            known = core.match_known(rep.known, [ev], 0)
            cex = ""
            if known:
                if known["what"] not in seen_known and cex_budget["known"] > 0:
                    seen_known.add(known["what"])
                    cex_budget["known"] -= 1
                    cex = _counterexample(ev, "k%d" % cex_budget["known"])
                    kp = os.path.join(core.BUILD, "traces", "C10_known_%d.json" % len(seen_known))
                    json.dump({"property": "C10", "seed": seed, "tier": tier, "what": what, "known": known["what"],
                               "run": [_embed_raw(ev)], "index_in_run": 0, "tlc": cex[-12000:]}, open(kp, "w"), indent=1)
                    log("[known] %s\n        replay/counterexample: %s" % (what, kp))
            elif cex_budget["new"] > 0:
                cex_budget["new"] -= 1
                cex = _counterexample(ev, "n%d" % cex_budget["new"])
            rep.violation(what, [_embed_raw(ev)], 0, cex, extra={"diverging_inits": bad[idx]})

    # canary: corrupt the recorded OUTPUT (p2) of an accepted case: an extra store in its entry block
    bad0 = _bad_by_case(results[0])

    def mutate(evs):
        for i, e in enumerate(evs):
            if (i + 1) in bad0 or not e["p2"]["blocks"]:
                continue
            sp = {"k": "var", "v": e["sp"]}
            store = {"tid": "canary", "k": "store",
                     "a": {"k": "bin", "op": "IntSub", "l": sp, "r": {"k": "const", "c": [0x78, 0x56, 0x34, 0x12, 0, 0, 0, 0]}},
                     "e": {"k": "const", "c": [0xEF, 0xBE, 0xAD, 0xDE]}}
            e["p2"]["blocks"][0]["defs"].insert(0, store)
            return i
        return None
    core.canary(rep, TRACE_SPEC, meta["files"][0], mutate, n=8, cfg=TRACE_CFG)

    rep.traces, rep.events = meta["cases"], behaviours
    x = meta["extra"]
    return rep.finish("translation_validation", {
        "programs": meta["cases"], "disagreements_checked": behaviours,
        "functions_generated": x.get("functions"), "pairs_per_pass": x.get("pairs_per_pass"),
        "unchanged_pairs_skipped": x.get("unchanged_pairs_skipped"), "diverging_behaviours": diverging,
        "distinct_nontrivial": meta["distinct_nontrivial"],
        "rule": "one program = one (function before pass, function after pass) pair produced by the real code, for each of the 5 passes of "
                "normalize_optimize applied in pipeline order to a generated function after normalize_basic, plus the whole normalize_optimize; "
                "pairs the pass left unchanged are skipped (counted in unchanged_pairs_skipped), so every counted pair is non-trivial "
                "(the pass rewrote the function); distinct = distinct hashes of the pair; disagreements_checked = number of "
                "(pair, initial state) behaviours TLC explored completely (up to the fuel of 32 block steps per copy)",
        "samples": meta["samples"][:2], "mc_runs": rep.cov.get("mc_runs"), "trusted_base": TRUSTED,
    }, ["input class (generator): well-sized integer expressions, no float/Unknown; temporaries defined before use within their block and "
        "not live across calls; 1-byte registers are flags holding 0/1 at entry and after calls and are only assigned boolean expressions; "
        "the only masks on the stack pointer are alignment masks SP & -2^k, at most one per function, in a prologue executed once; "
        "entry SP aligned to 4096",
        "reference semantics (IR.tla): calls are observed with all physical registers and written memory, then havoc every physical "
        "register except SP and the 16 bytes around SP; division by zero does not trap; IntSBorrow etc. are BV.tla's (correct) operations",
        "an indirect jump continues only at a known indirect target whose address equals the runtime value, otherwise the behaviour ends",
        "bounded: <= 11 blocks per function, 32 block steps per copy (loops are cut there), 6 initial states per pair; termination "
        "differences without a differing observation are not observable"])


def replay(path, seed, tier):
    """Re-run the real passes on the recorded raw function, re-check with TLC (and print TLC's counterexample)."""
    core.build_harness()
    out = os.path.join(core.BUILD, "traces", "C10_replay")
    p = core.sh([core.BIN, "replay", "C10", path, "--out", out], cwd=core.ROOT, check=False)
    if p.returncode != 0:
        raise ToolError("replay failed: " + p.stdout[-2000:])
    f = os.path.join(out, "shard00.ndjson")
    if os.path.getsize(f) == 0:
        raise ToolError("replay produced no case (raw input missing in %s)" % path)
    r = core.tlc(TRACE_SPEC, cfg=TRACE_CFG, trace=f, workers=2, timeout=1800)
    if r.error:
        raise ToolError(r.error)
    if r.bad:
        print("VIOLATION property=C10 replay=%s" % path)
        log("\n".join(r.badlines[:6]))
        c = core.tlc(TRACE_SPEC, cfg="T_C10_cex.cfg", trace=f, workers=1, timeout=900)
        log("\n".join(x[:240] for x in c.cex().splitlines())[:8000])
        return 1
    print("replay accepted: the recorded inputs no longer violate C10")
    return 0
