"""C22 - check selection runs exactly the requested checks."""
import os
import shutil
import core
from core import Report
from common import TRUSTED

TRACE_SPEC = "trace/T_C22.tla"
NEEDS_CLI = True

MANIFEST = {
    "category": "model_checking",
    "text": "TLC model-checks the selection/scheduling machine Cli.tla (all selections of <= 2 checks, default, kernel-module, all; "
            "all run orders for small selections) and validates real CLI runs: the `run` hook events of every invocation must be exactly "
            "Select(command line, input kind), analyses scheduled iff needed, warnings only of selected checks, and the output of each "
            "selection must equal the all-checks output of the same input restricted to the selected checks (metamorphic exactness); "
            "--module-versions must list every known check once. Bounded by the generated inputs and sampled selections.",
    "note": "Trusted: TLC, the hook in main.rs (add-only, cfg-guarded), generators, digest/key projections in harness/src/cli.rs. "
            "Unknown check names are not exercised (the property does not say what must happen).",
    "technique": "TLA+ selection state machine: TLC model checking + trace validation of hook events of the real binary",
    "design_ref": "DESIGN.md section 6, C22",
}


def check(seed, tier):
    rep = Report("C22", seed, tier)
    core.build_harness()
    core.build_cli()
    core.mc(rep, "mc/MC_Cli.tla", "MC_Cli.cfg", workers=4)
    meta = core.gen("C22", seed, tier, shards=8)
    core.validate_traces(rep, TRACE_SPEC, meta["files"], parallel=8, timeout=3600)

    def mutate(evs):
        # an extra check executed that was not selected
        for i, e in enumerate(evs):
            if e["ev"] == "cli" and e["has_partial"] and "CWE782" not in e["partial"]:
                for j, h in enumerate(e["hook"]):
                    if h["ev"] == "run":
                        extra = dict(h)
                        extra["module"] = "CWE782"
                        extra["n"] = 0
                        e["hook"].insert(j, extra)
                        return i
        return None
    core.canary(rep, TRACE_SPEC, meta["files"][0], mutate, n=20, stateful=True)

    def mutate2(evs):
        # a warning disappears from a partial run although its check was selected
        for i, e in enumerate(evs):
            if e["ev"] == "cli" and e["warnings"]:
                del e["warnings"][0]
                for h in e["hook"]:
                    if h["ev"] == "sorted":
                        h["n"] -= 1
                return i
        return None
    core.canary(rep, TRACE_SPEC, meta["files"][0], mutate2, n=20, stateful=True)
    rep.traces, rep.events = meta["cases"], meta["events"]
    core.keep_cli_inputs(rep)
    shutil.rmtree(os.path.join(core.BUILD, "cli_inputs", "C22"), ignore_errors=True)
    return rep.finish("model_checking", {
        "distinct_nontrivial": meta["distinct_nontrivial"],
        "rule": "one case = one generated input that calls all trigger symbols (malloc/free/printf/system/umask/chroot/access/open/rand/"
                "ioctl/strcpy/setuid/memcpy/scanf): the all-checks baseline + default run + single checks + random subsets (duplicate and "
                "empty names included); kernel-module inputs get default + subsets of the LKM checks; non-trivial = the baseline output "
                "contains warnings of >= 3 different checks",
        "samples": [str(s)[:1500] for s in meta["samples"][:1]],
        "mc_runs": rep.cov.get("mc_runs"), "trusted_base": TRUSTED,
    }, ["metamorphic exactness assumes a check's warnings do not depend on which other checks run (analyses are computed once either way)"])
