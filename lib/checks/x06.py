"""X06 (extended coverage, not a listed property) - the use-after-free / double-free checker (checkers/cwe_416) as an
object-state machine.

Statement (spec/UafWalk.tla): for every one- or two-function program of the input class (heap objects created by
allocation symbols, flowing only through registers and stack slots at constant offsets, released by configured
deallocation symbols) and every configuration:  Must  <=  reported (name, TID) set of cwe_416::check_cwe  <=  May,
where May = the accesses / call parameters / frees at which a target of the pointer (pointer inference's target
set) is dangling on SOME path (freed by this function or by the callee that received it, not yet flagged) and
Must = those of May at which it is already flagged on NO path; Must = May wherever no flagged and unflagged paths
join, so "nothing after a free" means nothing reported.

M: mc/MC_UafWalk - UafWalk.tla on hand-written programs with HAND-DERIVED expectations (use after free, double free,
   free in the callee, dangling parameter, re-allocation, one-sided branch, loops, de-duplication at a join, stack
   slots under the x86-64 call discipline, clean program), each with the configuration {free} and with none; TLC
   prints every scenario and the harness runs the real checker on them (spec -> impl).
T: trace/T_X06 over events {project, config, reported (name, TID) set} recorded from the real cwe_416::check_cwe run
   as the pipeline runs it (graph -> function signatures -> pointer inference -> check).
Python only shards, counts and maps TLC's verdicts to exit codes."""
import json
import os
import re

import core
from core import Report, ToolError, log
from common import TRUSTED

TRACE_SPEC = "trace/T_X06.tla"
TRACE_CFG = "T_X06.cfg"


def scenarios(rep):
    """Mode M: check the hand-derived expectations; collect the scenarios TLC printed."""
    r = core.mc(rep, "mc/MC_UafWalk.tla", "MC_UafWalk.cfg", workers=1, timeout=900)
    lines = {}
    for x in r.out.splitlines():
        if x.startswith('"{'):
            try:
                b = json.loads(json.loads(x))
            except ValueError as e:
                raise ToolError("unparsable scenario line printed by TLC: %r" % x[:200]) from e
            lines[(b["name"], json.dumps(b["config"], sort_keys=True))] = json.dumps(b, sort_keys=True)
    if not lines or len(lines) != r.distinct:
        raise ToolError("MC_UafWalk: %d scenarios printed but %d states found" % (len(lines), r.distinct))
    path = os.path.join(core.BUILD, "traces", "X06_scenarios.ndjson")
    os.makedirs(os.path.dirname(path), exist_ok=True)
    with open(path, "w") as f:
        for k in sorted(lines):
            f.write(lines[k] + "\n")
    log("[mc] %d hand-written scenarios of MC_UafWalk handed to the harness" % len(lines))
    return path, len(lines)


def _validate(rep, files, parallel):
    jobs = [dict(module=TRACE_SPEC, cfg=TRACE_CFG, trace=f, workers=1, timeout=3600) for f in files]
    outclass, outidx = {}, {}
    for f, r in zip(files, core.tlc_many(jobs, parallel)):
        rep.cov["events_with_must_less_than_may"] = rep.cov.get("events_with_must_less_than_may", 0) + len(re.findall(r'^<<"GAP", \d+>>', r.out, re.M))
        outidx[f] = set(int(x) for x in re.findall(r'^<<"OUTCLASS", (\d+)', r.out, re.M))
        rep.add_tlc(r)
        if r.error:
            raise ToolError("TLC error on %s:\n%s" % (f, r.error))
        for m in re.finditer(r'^<<"OUTCLASS", \d+, \{(.*)\}>>$', r.out, re.M):
            for reason in re.findall(r'"([^"]*)"', m.group(1))[:1]:
                outclass[reason] = outclass.get(reason, 0) + 1
        lines = core.read_lines(f) if (r.badlines or r.unconsumed) else None
        details = {}
        for m in re.finditer(r'^<<"DETAIL", (\d+), (.*)$', r.out, re.M):
            details[int(m.group(1))] = m.group(2)[:2000]
        for line in r.badlines:
            m = re.search(r'<<"BAD", (\d+), "([^"]*)"', line)
            if not m:
                raise ToolError("unparsable BAD line: " + line)
            idx, cls = int(m.group(1)), m.group(2)
            run, k = core.run_of(lines, idx)
            run[k]["bad_class"] = cls
            rep.violation("trace event %d of %s rejected by T_X06.tla (%s): %s" % (idx, os.path.basename(f), cls, details.get(idx, "")),
                          run, k, line + "\n" + details.get(idx, ""))
        if r.unconsumed and not r.bad:
            idx = int(r.unconsumed[0])
            run, k = core.run_of(lines, min(idx, len(lines)))
            rep.violation("trace %s not accepted by T_X06.tla: first unmatched event %d" % (os.path.basename(f), idx), run, k, r.out[-3000:])
        if not (r.bad or r.unconsumed or r.invariant) and not r.finished_ok:
            raise ToolError("TLC did not finish cleanly on %s:\n%s" % (f, r.out[-3000:]))
    return outclass, outidx


def canary(rep, gen_shard, mc_shard, skip_gen, skip_mc, n=400):
    """Binding demonstration (every run, ONE TLC run): accepted events of a generator shard and the replayed scenarios; three
    recorded outputs are corrupted - a warning of a replayed scenario dropped (reported < Must), a warning invented at a
    store that is no warning site (reported > May), a reported CWE416 renamed to CWE415 - and TLC must reject exactly those."""
    if rep.violations:
        rep.notes.append("canary skipped: this run already found violations (the canary needs accepted events)")
        return
    # events outside the input class are accepted vacuously (a corruption there proves nothing): leave them out
    evs = [json.loads(x) for i, x in enumerate(core.read_lines(mc_shard)) if i + 1 not in skip_mc] + \
          [json.loads(x) for i, x in enumerate(core.read_lines(gen_shard)[:n]) if i + 1 not in skip_gen]

    def first_store(e):
        for s in e["project"]["program"]["subs"]:
            for b in s["blocks"]:
                for d in b["defs"]:
                    if d["k"] == "store" and not any(w["tid"] == d["tid"] for w in e["reported"]):
                        return d["tid"]
        return None

    def c_drop(e):
        e["reported"] = e["reported"][1:]

    def c_invent(e):
        e["reported"] = e["reported"] + [{"name": "CWE415", "tid": first_store(e)}]

    def c_rename(e):
        e["reported"][0]["name"] = "CWE415"
    plans = [
        ("warning of a hand-written scenario dropped", lambda e: "expect" in e and e.get("exact") and e["reported"], c_drop),
        ("warning invented at a store", lambda e: "expect" not in e and e["panic"] == "" and e["stage"] == "" and first_store(e), c_invent),
        ("CWE416 renamed to CWE415", lambda e: "expect" not in e and e["reported"] and e["reported"][0]["name"] == "CWE416", c_rename),
    ]
    want, used = [], set()
    for name, eligible, corrupt in plans:
        i = next((i for i, e in enumerate(evs) if i not in used and eligible(e)), None)
        if i is None:
            raise ToolError("canary: no event suitable for the corruption '%s'" % name)
        corrupt(evs[i])
        used.add(i)
        want.append(i + 1)
    path = os.path.join(core.BUILD, "traces", "canary_X06.ndjson")
    with open(path, "w") as f:
        for e in evs:
            f.write(json.dumps(e) + "\n")
    r = core.tlc(TRACE_SPEC, cfg=TRACE_CFG, trace=path, workers=1, timeout=900)
    if r.error:
        raise ToolError("canary: TLC error:\n" + r.error)
    # an event outside the input class is accepted vacuously: a corruption there proves nothing -> it must not have been chosen
    out = set(int(x) for x in re.findall(r'^<<"OUTCLASS", (\d+)', r.out, re.M))
    if out & set(want):
        raise ToolError("canary: a corrupted event (%s) lies outside the input class; choose others" % sorted(out & set(want)))
    if set(r.bad) != set(want) or r.unconsumed:
        raise ToolError("canary: corrupted events %s, but T_X06 rejected %s - the specification is vacuous or over-strict for an event kind"
                        % (sorted(want), sorted(r.bad)))
    rep.add_tlc(r)
    rep.notes.append("canary: %d accepted events; three recorded outputs corrupted (warning of a hand-written scenario dropped, warning invented at a "
                     "store, CWE416 renamed to CWE415: events %s); T_X06 rejected exactly those" % (len(evs), sorted(want)))


def check(seed, tier):
    rep = Report("X06", seed, tier)
    core.build_harness()
    path, nsc = scenarios(rep)
    os.environ["VERIF_X06_SCENARIOS"] = path
    par = int(os.environ.get("VERIF_PAR", 4 if tier == "quick" else 8))
    meta_m = core.gen("X06", seed, tier, shards=1, sub="mc")                 # spec -> impl
    if meta_m["events"] != nsc:
        raise ToolError("harness replayed %d of %d scenarios" % (meta_m["events"], nsc))
    oc_m, oi_m = _validate(rep, meta_m["files"], 1)
    meta_g = core.gen("X06", seed, tier, shards=par)                          # impl -> spec
    oc_g, oi_g = _validate(rep, meta_g["files"], par)
    canary(rep, meta_g["files"][0], meta_m["files"][0], oi_g[meta_g["files"][0]], oi_m[meta_m["files"][0]])
    rep.traces = meta_m["cases"] + meta_g["cases"]
    rep.events = meta_m["events"] + meta_g["events"]
    nout = sum(oc_g.values())
    skipped = meta_g["extra"].get("prerequisite_analysis_panics", 0)
    if skipped:
        rep.notes.append("%d generated programs carry no observation: function-signature / pointer-inference computation panicked before the check ran" % skipped)
    return rep.finish("model_checking", {
        "distinct_nontrivial": meta_g["distinct_nontrivial"] + meta_m["distinct_nontrivial"],
        "rule": "a case is one project run through the real cwe_416 check (event: project, configuration, reported (name, TID) set); non-trivial = at "
                "least one warning is reported; distinct = distinct case hashes",
        "generated_programs": meta_g["events"], "reported_cwe416": meta_g["extra"].get("reported_cwe416"), "reported_cwe415": meta_g["extra"].get("reported_cwe415"),
        "events_with_must_less_than_may": rep.cov.get("events_with_must_less_than_may", 0),
        "out_of_class_events": nout, "out_of_class_reasons": oc_g, "in_class_events": meta_g["events"] - nout,
        "hand_written_scenarios_replayed_into_impl": nsc, "out_of_class_scenarios": sum(oc_m.values()),
        "prerequisite_analysis_panics": skipped,
        "samples": [str(s)[:1500] for s in (meta_m["samples"][:1] + meta_g["samples"][:1])], "exhaustive": False,
        "mc_runs": rep.cov.get("mc_runs"), "trusted_base": TRUSTED,
    }, ["input class (spec/UafWalk.tla, checked per event by the specification; events outside are accepted vacuously and counted): one function "
        "and optionally one callee only it calls; pointers in 8-byte registers and aligned 8-byte stack slots below the frame base; no pointer "
        "stored through a pointer, nothing freed or accessed through a value loaded from the heap or a constant; conditional branches test a "
        "flag set to an unknown value; stack pointer adjusted by constants only and balanced; libc extern symbols with function-signature stubs; "
        "one calling convention; no deallocation of an object whose id is not unique or that the releasing call itself names",
        "the target set of a pointer is the pointer inference's union over all paths (documented path-insensitivity is part of the rule)",
        "between Must and May the statement does not decide: de-duplication at a join of a flagged and an unflagged path depends on the "
        "fixpoint algorithm's visiting order",
        "pointer inference allocation symbols: malloc, calloc, realloc, xmalloc, strdup (walkrun.rs); programs use malloc, calloc, strdup",
        "bounds: f <= 6 blocks, g <= 4 blocks, <= 4 actions per block"])
