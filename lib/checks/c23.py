"""C23 - results do not depend on hashing or scheduling nondeterminism."""
import os
import shutil
import core
from core import Report
from common import TRUSTED

TRACE_SPEC = "trace/T_C23.tla"
NEEDS_CLI = True

MANIFEST = {
    "category": "exploration",
    "text": "Each generated input is analysed repeatedly by the real binary in fresh processes (fresh hash seeds; alternating check "
            "order) with all checks enabled; TLC validates the runs against the observation machine Determinism.tla (every run must "
            "reproduce the first run's complete output) and model-checks why sorting suffices (all arrival orders of all bags of <= 4 "
            "records) and that last-wins de-duplication is order-dependent. Nondeterminism that needs rarer schedules is only sampled.",
    "note": "Trusted: TLC, generators, stdout digest (FNV-1a over the raw bytes) in harness/src/cli.rs.",
    "technique": "TLA+ observation machine; TLC trace validation of repeated real CLI runs + model checking of order-insensitivity",
    "design_ref": "DESIGN.md section 6, C23",
}


def check(seed, tier):
    rep = Report("C23", seed, tier)
    core.build_harness()
    core.build_cli()
    core.mc(rep, "mc/MC_Determinism.tla", "MC_Determinism.cfg", workers=4)
    # the order-dependence of last-wins de-duplication is part of the specification: TLC must find it
    r = core.tlc("mc/MC_Determinism.tla", cfg="MC_Determinism_lastwins.cfg", workers=1)
    if r.error:
        raise core.ToolError(r.error)
    if not r.invariant:
        raise core.ToolError("MC_Determinism_lastwins: expected TLC to show that last-wins de-duplication is order dependent")
    rep.add_tlc(r)
    meta = core.gen("C23", seed, tier, shards=8)
    core.validate_traces(rep, TRACE_SPEC, meta["files"], parallel=8, timeout=3600)

    def mutate(evs):
        # one run prints a different byte stream
        seen = False
        for i, e in enumerate(evs):
            if e["ev"] == "cli":
                if seen:
                    e["stdout_digest"] = "0" * 16
                    return i
                seen = True
        return None
    core.canary(rep, TRACE_SPEC, meta["files"][0], mutate, n=10, stateful=True)
    rep.traces, rep.events = meta["cases"], meta["events"]
    core.keep_cli_inputs(rep)
    shutil.rmtree(os.path.join(core.BUILD, "cli_inputs", "C23"), ignore_errors=True)
    return rep.finish("exploration", {
        "distinct_nontrivial": meta["distinct_nontrivial"],
        "rule": "one case = one generated input (2-6 functions calling all trigger symbols) analysed N times in fresh processes, all 19 "
                "checks, odd runs with reversed --partial order; non-trivial = the output has >= 4 warnings; distinct by case hash",
        "samples": [str(s)[:1200] for s in meta["samples"][:1]],
        "runs_per_input": 10 if tier == "quick" else 16,
        "mc_runs": rep.cov.get("mc_runs"), "trusted_base": TRUSTED,
    }, ["fresh processes give fresh RandomState seeds; thread scheduling of the log collector is whatever the OS does during the runs"])
