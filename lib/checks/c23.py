"""C23 - results do not depend on hashing or scheduling nondeterminism."""
import os
import shutil
import core
from core import Report
from common import TRUSTED

TRACE_SPEC = "trace/T_C23.tla"
NEEDS_CLI = True

MANIFEST = {
    "category": "exploration",
    "text": "Each generated input is analysed repeatedly by the real binary in fresh processes (fresh hash seeds; alternating check "
            "order) with all checks enabled; TLC validates the runs against the observation machine Determinism.tla (every run must "
            "reproduce the first run's complete output) and model-checks why sorting suffices (all arrival orders of all bags of <= 4 "
            "records) and that last-wins de-duplication is order-dependent. Inputs whose optimised IR (--debug ir-opt) differs between fresh "
            "processes get 8x as many full runs (search heuristic; the verdict is on the warning output only). Nondeterminism that "
            "needs rarer schedules is only sampled.",
    "note": "Trusted: TLC, generators, stdout digest (FNV-1a over the raw bytes) in harness/src/cli.rs.",
    "technique": "TLA+ observation machine; TLC trace validation of repeated real CLI runs + model checking of order-insensitivity",
    "design_ref": "DESIGN.md section 6, C23",
}


def check(seed, tier):
    rep = Report("C23", seed, tier)
    core.build_harness()
    core.build_cli()
    core.mc(rep, "mc/MC_Determinism.tla", "MC_Determinism.cfg", workers=4)
    # the order-dependence of last-wins de-duplication is part of the specification: TLC must find it
    r = core.tlc("mc/MC_Determinism.tla", cfg="MC_Determinism_lastwins.cfg", workers=1)
    if r.error:
        raise core.ToolError(r.error)
    if not r.invariant:
        raise core.ToolError("MC_Determinism_lastwins: expected TLC to show that last-wins de-duplication is order dependent")
    rep.add_tlc(r)
    meta = core.gen("C23", seed, tier, shards=8)
    # search heuristic statistics (not a verdict): inputs whose optimised IR differed between fresh processes got boosted runs
    import json as _json
    ir_unstable = boosted_runs = 0
    for f in meta["files"]:
        with open(f) as fh:
            for line in fh:
                if line.startswith('{"boost"') or '"ev":"reset"' in line[:400]:
                    try:
                        e = _json.loads(line)
                    except ValueError:
                        continue
                    if e.get("ev") == "reset" and e.get("ir_distinct", 0) > 1:
                        ir_unstable += 1
                        boosted_runs += e.get("runs_done", 0)
    core.validate_traces(rep, TRACE_SPEC, meta["files"], parallel=8, timeout=3600)

    def mutate(evs):
        # one run prints a different byte stream
        seen = False
        for i, e in enumerate(evs):
            if e["ev"] == "cli":
                if seen:
                    e["stdout_digest"] = "0" * 16
                    return i
                seen = True
        return None
    core.canary(rep, TRACE_SPEC, meta["files"][0], mutate, n=10, stateful=True)
    rep.traces, rep.events = meta["cases"], meta["events"]
    core.keep_cli_inputs(rep)
    shutil.rmtree(os.path.join(core.BUILD, "cli_inputs", "C23"), ignore_errors=True)
    return rep.finish("exploration", {
        "distinct_nontrivial": meta["distinct_nontrivial"],
        "rule": "one case = one generated input (2-6 functions calling all trigger symbols) analysed N times in fresh processes, all 19 "
                "checks, odd runs with reversed --partial order; non-trivial = the output has >= 4 warnings; distinct by case hash",
        "samples": [str(s)[:1200] for s in meta["samples"][:1]],
        "runs_per_input": 8 if tier == "quick" else 16,
        "ir_probe": {"probes_per_input": 6, "boost_factor": 8, "inputs_with_hash_dependent_ir": ir_unstable, "boosted_runs": boosted_runs,
                     "role": "search heuristic only: `--debug ir-opt` output compared across fresh processes selects inputs for 8x as many "
                             "full runs; the verdict is on the warning output alone"},
        "mc_runs": rep.cov.get("mc_runs"), "trusted_base": TRUSTED,
    }, ["fresh processes give fresh RandomState seeds; thread scheduling of the log collector is whatever the OS does during the runs"])
