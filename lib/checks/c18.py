"""C18 - constant-argument checkers decide on the argument's actual value."""
import core
from core import Report
from common import TRUSTED, first_with

TRACE_SPEC = "trace/T_C18.tla"

MANIFEST = {
    "category": "model_checking",
    "text": "For every generated one-call block (parameters computed from constants through add/sub/and/or/xor/shift/extension/"
            "subpiece chains, register copies, stack spill and reload; register and stack parameter conventions) TLC runs the "
            "block in the TLA+ reference semantics of the IR (IR.tla) from two unrelated initial states to obtain the concrete "
            "parameter value and requires the real cwe_560 / cwe_467 checker to emit a warning exactly when the specification "
            "(CheckersConstArg.tla: v > 0o177 and v # 0o777; some parameter = pointer size) says so; bounded: generated blocks of <= ~25 defs.",
    "note": "Trusted: TLC + CommunityModules Json/IOUtils, the IR projection harness/src/irenc.rs (canary-checked every run), IR.tla "
            "(self-checked by MC_IR, which the C10 check runs).",
    "technique": "TLA+ reference semantics + TLC trace validation of recorded checker runs",
    "design_ref": "DESIGN.md section 6, C18",
}


def check(seed, tier):
    rep = Report("C18", seed, tier)
    core.build_harness()
    shards = 8
    meta = core.gen("C18", seed, tier, shards=shards)
    core.validate_traces(rep, TRACE_SPEC, meta["files"], parallel=4 if tier == "quick" else 8, timeout=3000)

    def mutate(evs):
        i = first_with(evs, lambda e: e["panic"] == "" and e["warned"] in (0, 1), start=2)
        if i is not None:
            evs[i]["warned"] = 1 - evs[i]["warned"]
        return i
    core.canary(rep, TRACE_SPEC, meta["files"][0], mutate, n=30)
    rep.traces, rep.events = meta["cases"], meta["events"]
    return rep.finish("model_checking", {
        "distinct_nontrivial": meta["distinct_nontrivial"],
        "rule": "one event = one run of the real cwe_560::check_cwe or cwe_467::check_cwe on a generated project whose only call "
                "block computes the parameter(s) of umask / malloc / memmove from constants; non-trivial = the block has at least 3 "
                "defs (a computation chain, not a literal); distinct = distinct event hashes",
        "samples": [s if isinstance(s, str) else [{k: v for k, v in e.items() if k != "input"} for e in s][:1] for s in meta["samples"][:2]],
        "trusted_base": TRUSTED,
    }, ["input class: parameters computed in the call block from constants alone by add/sub/and/or/xor/shift/zero-/sign-extension/"
        "subpiece steps, copies through registers and temporaries and a stack store followed by a load of the same slot and size; "
        "values around 0o177/0o200/0o777 and the pointer size; parameters in a register, in the low half of a register or on the stack; "
        "a parameter that the block does not compute is not a constant (semantically: its value differs between two unrelated initial states)",
        "stack-slot shapes: several locals at different offsets, a later store that starts strictly inside / partially overlaps an "
        "earlier larger slot, loads of the original slot and of sub-ranges; every byte is a constant, so the specification judges the "
        "parameter by its true concrete value; the generator steers the constants so that a reloaded, partially overwritten slot (which the "
        "analyzer can only report as unknown) has a true value that needs no warning while the stale element's value would need one",
        "about 1 in 10 single-parameter chains contains an add/sub/mult/shift-left step that overflows the signed range of its width "
        "(event tag ovf_chain, computed from the inputs alone); the analyzer's interval domain returns Top there, the missed warnings are the "
        "known finding {ovf_chain: true, warned: 0}; all other chains are kept free of signed overflow",
        "exactly one warning is expected per flagged call, none otherwise; a panic is a violation"])
