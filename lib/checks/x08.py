"""X08 - end-to-end translation validation of the front end (extended coverage, not in MANIFEST.json).

P-Code function -> pcode::Project::normalize + into_ir_project -> normalize_basic -> normalize_optimize: the harness runs the
REAL pipeline on generated P-Code projects and records (P-Code function, fully normalised IR function, initial states with an
aligned stack pointer).  TLC model-checks the product machine spec/FrontEndMonitor.tla (P-Code reference semantics
spec/Pcode.tla + spec/PcodeFn.tla against the IR reference semantics spec/IR.tla) over the recorded cases x initial states and
evaluates the observation-prefix invariant in every state.  Python only shards, counts and maps TLC's verdicts to exit codes."""
import concurrent.futures as cf
import json
import os
import re

import core
from core import Report, ToolError, log
from common import TRUSTED

TRACE_SPEC = "trace/T_X08.tla"
TRACE_CFG = "T_X08.cfg"
CEX_CFG = "T_X08_cex.cfg"

EXPECTED_MC_BAD = {4, 5, 6, 7, 9, 13, 16, 19}        # MC_FrontEnd.tla: hand-written pairs that must be reported ...
EXPECTED_MC_OUTCLASS = {14, 17, 18}                  # ... and those outside the input class (never BAD)
STAGES = [("ir_lifted", "lifting (pcode::Project::normalize + into_ir_project)"), ("ir_basic", "normalize_basic"),
          ("irfn", "normalize_optimize")]


def _jenv(xmx="3g"):
    return {"JAVA_TOOL_OPTIONS": "-DTLA-Library=%s:%s/mc:%s/trace -Xss1g -Xmx%s -XX:ParallelGCThreads=2" % (core.SPEC, core.SPEC, core.SPEC, xmx)}


def _lines(r, tag):
    """{case: [(init, rest of the tuple), ...]} for the printed tuples <<"TAG", case, init, ...>>"""
    out = {}
    for m in re.finditer(r'^<<"%s", (\d+), (\d+)(?:, (.*))?>>$' % tag, r.out, re.M):
        out.setdefault(int(m.group(1)), []).append((int(m.group(2)), (m.group(3) or "").replace('"', "")))
    return out


def _self_check(rep):
    r = core.tlc("mc/MC_FrontEnd.tla", cfg="MC_FrontEnd.cfg", workers=2, timeout=1200, env=_jenv())
    rep.add_tlc(r)
    if r.error:
        raise ToolError("MC_FrontEnd: TLC error:\n" + r.error)
    if r.invariant:
        raise ToolError("MC_FrontEnd: invariant %s violated - the monitor's step operators do not refine IR!StepBlock / Pcode!RunBlock (specification "
                        "modules inconsistent):\n%s" % (r.invariant[0], r.cex()[:3000]))
    if not r.finished_ok:
        raise ToolError("MC_FrontEnd: TLC did not finish cleanly:\n" + r.out[-3000:])
    bad, oc = set(_lines(r, "BAD")), set(_lines(r, "OUTCLASS"))
    if bad != EXPECTED_MC_BAD or oc != EXPECTED_MC_OUTCLASS:
        raise ToolError("MC_FrontEnd: the monitor reported the hand-written pairs BAD=%s OUTCLASS=%s, expected %s / %s - the monitor is broken"
                        % (sorted(bad), sorted(oc), sorted(EXPECTED_MC_BAD), sorted(EXPECTED_MC_OUTCLASS)))
    rep.cov.setdefault("mc_runs", []).append({"instance": "MC_FrontEnd", "states_generated": r.generated, "distinct_states": r.distinct,
                                             "wall_s": round(r.wall, 1), "reported_bad": sorted(bad), "reported_outclass": sorted(oc),
                                             "invariants": ["IStepOK", "PStepOK"]})
    log("[mc] MC_FrontEnd: %d states, BAD %s / OUTCLASS %s as expected, %.1fs" % (r.distinct, sorted(bad), sorted(oc), r.wall))


# ------------------------------------------------------------------------------------------------
# rendering (evidence samples, violation messages); decides nothing
# ------------------------------------------------------------------------------------------------
def _vn(v):
    k = v["k"]
    if k in ("reg", "uniq"):
        return "%s:%d" % (v["n"], v["s"])
    if k == "const":
        return "0x%s:%d" % (bytes(reversed(v["c"])).hex(), v["s"])
    if k == "ram":
        return "ram[%s]:%d" % (bytes(reversed(v["a"])).hex(), v["s"])
    return "-"


def _ex(e):
    k = e["k"]
    if k == "var":
        return "%s:%d" % (e["v"]["n"], e["v"]["s"])
    if k == "const":
        return "0x%s:%d" % (bytes(reversed(e["c"])).hex(), len(e["c"]))
    if k == "bin":
        return "(%s %s %s)" % (_ex(e["l"]), e["op"], _ex(e["r"]))
    if k == "un":
        return "%s(%s)" % (e["op"], _ex(e["a"]))
    if k == "cast":
        return "%s:%d(%s)" % (e["op"], e["s"], _ex(e["a"]))
    if k == "sub":
        return "Subpiece[low %d, size %d](%s)" % (e["low"], e["s"], _ex(e["a"]))
    return "Unknown:%d" % e.get("s", 0)


def _pfn(fn):
    out = []
    for b in fn["blocks"]:
        out.append("%s:" % b["tid"])
        out += ["  %s = %s %s" % (_vn(d["out"]), d["m"], " ".join(_vn(d[i]) for i in ("in0", "in1", "in2") if d[i]["k"] != "none")) for d in b["defs"]]
        out += ["  %s %s" % (j["m"], " ".join(x for x in (j["t"], _vn(j["v"]) if j["v"]["k"] != "none" else "", "cond " + _vn(j["c"]) if j["c"]["k"] != "none" else "",
                                                          "ret " + j["ret"] if j["ret"] else "", "hints %d" % len(j["hints"]) if j["hints"] else "") if x)) for j in b["jmps"]]
    return out


def _irfn(fn):
    out = []
    for b in fn["blocks"]:
        out.append("%s:" % b["tid"])
        for d in b["defs"]:
            if d["k"] == "assign":
                out.append("  %s:%d := %s" % (d["v"]["n"], d["v"]["s"], _ex(d["e"])))
            elif d["k"] == "load":
                out.append("  %s:%d := Load %s" % (d["v"]["n"], d["v"]["s"], _ex(d["a"])))
            else:
                out.append("  Store %s <- %s" % (_ex(d["a"]), _ex(d["e"])))
        for j in b["jmps"]:
            out.append("  " + " ".join(str(x) for x in (j["k"], j.get("t", ""), _ex(j["e"]) if "e" in j else "", "if " + _ex(j["c"]) if "c" in j else "",
                                                        "ret " + j["ret"] if j.get("ret") else "") if x))
    return out


def pretty(c, full=True):
    p = {"idx": c["idx"], "arch": c["arch"], "function": c["fn_tid"], "features": c["feat"], "panic": c["panic"],
         "pcode_ops": c["n_pcode_ops"], "ir_defs_lifted_basic_optimized": c["n_ir_defs"], "noret": c["noret"],
         "initial_states": len(c["inits"]),
         "first_initial_state": {n: bytes(reversed(v)).hex() for n, v in c["inits"][0].items() if len(v) <= 8}}
    if full:
        p["pcode"] = _pfn(c["pfn"])
        p["optimized_ir"] = _irfn(c["irfn"])
    return p


# ------------------------------------------------------------------------------------------------
# diagnosis of a diverging case: TLC's counterexample and the first pipeline stage that diverges
# ------------------------------------------------------------------------------------------------
def _write_case(ev, tag):
    path = os.path.join(core.BUILD, "traces", "X08_%s.ndjson" % tag)
    with open(path, "w") as f:
        f.write(json.dumps(ev) + "\n")
    return path


def _stage_verdicts(ev, tag):
    """Re-run the real pipeline on the case (harness replay records the function after every stage) and let TLC judge each
    stage's function against the P-Code function: names the first stage that diverges."""
    rp = os.path.join(core.BUILD, "traces", "X08_stage_%s.json" % tag)
    json.dump({"run": [ev]}, open(rp, "w"))
    out = os.path.join(core.BUILD, "traces", "X08_stage_%s" % tag)
    p = core.sh([core.BIN, "replay", "X08", rp, "--out", out], cwd=core.ROOT, check=False)
    if p.returncode != 0:
        return None, {}
    lines = core.read_lines(os.path.join(out, "shard00.ndjson"))
    if not lines:
        return None, {}
    full = json.loads(lines[0])
    verdicts = {}
    first = None
    for key, name in STAGES:
        e = dict(full)
        e["irfn"] = full.get(key, full["irfn"])
        e["panic"] = "" if key != "irfn" else full["panic"]
        r = core.tlc(TRACE_SPEC, cfg=TRACE_CFG, trace=_write_case(e, "stage_%s_%s" % (tag, key)), workers=1, timeout=900, env=_jenv())
        if r.error:
            verdicts[name] = "tool error"
            continue
        bad = _lines(r, "BAD")
        verdicts[name] = "diverges for initial states %s" % sorted(i for i, _ in bad.get(1, [])) if bad else "agrees"
        if bad and first is None:
            first = name
    return first, verdicts


def _cex(ev, tag):
    r = core.tlc(TRACE_SPEC, cfg=CEX_CFG, trace=_write_case(ev, "cex_%s" % tag), workers=1, timeout=900, env=_jenv())
    if r.error:
        return "TLC error while computing the counterexample:\n" + r.error
    text = r.cex() if r.invariant else r.out[-3000:]
    # (TLC labels every state with the action and its parameter - the whole case list; cut those lines)
    return "\n".join(x[:300] for x in text.splitlines())


def _validate(rep, files, parallel, timeout):
    jobs = [dict(module=TRACE_SPEC, cfg=TRACE_CFG, trace=f, workers=1, timeout=timeout, env=_jenv()) for f in files]
    results = core.tlc_many(jobs, parallel)
    stats = {"behaviours": 0, "diverging": 0, "outclass_dynamic": 0, "outclass_static": 0, "ended": {}, "control_observations_matched": 0}
    ncex = 0
    for f, r in zip(files, results):
        rep.add_tlc(r)
        if r.error:
            raise ToolError("TLC error on %s:\n%s" % (f, r.error))
        if not r.finished_ok:
            raise ToolError("TLC did not finish cleanly on %s:\n%s" % (f, r.out[-3000:]))
        m = re.search(r"Finished computing initial states: (\d+) distinct", r.out)
        stats["behaviours"] += int(m.group(1)) if m else 0
        for c, xs in _lines(r, "OUTCLASS").items():
            for _, why in xs:
                stats["outclass_" + ("static" if "static" in why else "dynamic")] += 1
        for c, xs in _lines(r, "END").items():
            for _, rest in xs:
                how, n = [x.strip() for x in rest.split(",")]
                stats["ended"][how] = stats["ended"].get(how, 0) + 1
                stats["control_observations_matched"] += int(n)
        bad = _lines(r, "BAD")
        if not bad:
            continue
        lines = core.read_lines(f)
        for c in sorted(bad):
            ev = json.loads(lines[c - 1])
            inits = sorted(bad[c])
            stats["diverging"] += len(inits)
            ev["bad_inits"] = [i for i, _ in inits]
            ev["bad_kinds"] = sorted(set(k for _, k in inits))
            known = core.match_known(rep.known, [ev], 0)
            if known is not None:
                stats["diverging_known"] = stats.get("diverging_known", 0) + len(inits)
            cex, first, verdicts = "", None, {}
            if known is None and ncex < 3:
                ncex += 1
                tag = "%d_%d" % (rep.seed, ncex)
                first, verdicts = _stage_verdicts(ev, tag)
                cex = _cex(ev, tag)
            ev["first_diverging_stage"] = first or ""
            what = "case idx=%s (%s, function %s) of %s: the normalised IR function behaves differently from the P-Code function for initial states %s " \
                   "(first pending observations P-Code, IR: %s)%s%s" % (
                       ev.get("idx"), ev.get("arch"), ev.get("fn_tid"), os.path.basename(f), [i for i, _ in inits], ev["bad_kinds"][:3],
                       "; pipeline panic: " + ev["panic"] if ev["panic"] else "",
                       "; first diverging stage: %s %s" % (first, verdicts) if verdicts else "")
            rep.violation(what, [ev], 0, cex, extra=pretty(ev))
    return results, stats


def _canary(rep, files, results):
    """Corrupt the recorded OUTPUT (the optimised IR function) of accepted cases in two ways - an extra store in the entry block;
    a base register incremented in front of every return/call - and require TLC to report exactly these cases."""
    if rep.violations:
        rep.notes.append("canary skipped: this run already found violations (the canary needs accepted cases)")
        return
    r0 = results[0]
    skip = set(_lines(r0, "BAD")) | set(_lines(r0, "OUTCLASS"))
    ends = _lines(r0, "END")
    lines = core.read_lines(files[0])
    picked = []
    for i, x in enumerate(lines[:40]):
        e = json.loads(x)
        ok = (i + 1) not in skip and e["panic"] == "" and e["irfn"]["blocks"] and len(ends.get(i + 1, [])) == len(e["inits"])
        if not ok:
            continue
        if len(picked) == 0:
            sp = {"k": "var", "v": e["sp"]}
            w = e["sp"]["s"]
            e["irfn"]["blocks"][0]["defs"].insert(0, {"tid": "canary", "k": "store",
                                                      "a": {"k": "bin", "op": "IntSub", "l": sp, "r": {"k": "const", "c": ([0x78, 0x56, 0x34, 0x12] + [0] * 4)[:w]}},
                                                      "e": {"k": "const", "c": [0xEF, 0xBE, 0xAD, 0xDE]}})
            picked.append(e)
        elif len(picked) == 1 and any(rest.startswith("return") for _, rest in ends.get(i + 1, [])):
            # a register that is not the stack pointer (its value decides no address before the next control observation)
            r = [p for p in e["physregs"] if p["n"] != e["sp"]["n"] and p["s"] == e["sp"]["s"]][-1]
            inc = {"tid": "canary", "k": "assign", "v": r, "e": {"k": "bin", "op": "IntAdd", "l": {"k": "var", "v": r}, "r": {"k": "const", "c": [1] + [0] * (r["s"] - 1)}}}
            n = 0
            for b in e["irfn"]["blocks"]:
                if any(j["k"] in ("return", "call", "callind", "callother") for j in b["jmps"]):
                    b["defs"].append(inc)
                    n += 1
            if n:
                picked.append(e)
        if len(picked) == 2:
            break
    if len(picked) < 2:
        raise ToolError("canary: no suitable accepted cases in %s" % files[0])
    path = os.path.join(core.BUILD, "traces", "canary_X08.ndjson")
    with open(path, "w") as f:
        for e in picked:
            f.write(json.dumps(e) + "\n")
    r = core.tlc(TRACE_SPEC, cfg=TRACE_CFG, trace=path, workers=1, timeout=900, env=_jenv())
    if r.error:
        raise ToolError("canary: TLC error:\n" + r.error)
    bad = set(_lines(r, "BAD"))
    if bad != {1, 2}:
        raise ToolError("canary: corrupted front-end outputs (an extra store; a changed register at calls/returns) were ACCEPTED by FrontEndMonitor "
                        "(reported cases %s of 2) - the monitor is vacuous" % sorted(bad))
    rep.notes.append("canary: an extra Store in the entry block and a base register incremented in front of calls/returns of two recorded, "
                     "accepted IR functions were both rejected by FrontEndMonitor")


def _refinement(rep, src, n):
    """(M on recorded constants) the refinement self-checks of the monitor on the first n recorded cases: in every state of their
    behaviours the re-composed IR step without renumbering IS IR!StepBlock (IStepOK) and PcodeFn!StepBlock refines Pcode!RunBlock, the
    block semantics of C11 (PStepOK)."""
    path = os.path.join(core.BUILD, "traces", "X08_refinement.ndjson")
    with open(path, "w") as f:
        f.write("\n".join(core.read_lines(src)[:n]) + "\n")
    r = core.tlc(TRACE_SPEC, cfg="T_X08_ref.cfg", trace=path, workers=1, timeout=3600, env=_jenv())
    rep.add_tlc(r)
    if r.error:
        raise ToolError("refinement self-check: TLC error:\n" + r.error)
    if r.invariant:
        raise ToolError("refinement self-check: invariant %s violated on recorded cases - PcodeFn.tla / FrontEndMonitor.tla do not refine Pcode.tla / "
                        "IR.tla (specification modules inconsistent):\n%s" % (r.invariant[0], "\n".join(x[:300] for x in r.cex().splitlines())[:4000]))
    if not r.finished_ok:
        raise ToolError("refinement self-check: TLC did not finish cleanly:\n" + r.out[-3000:])
    rep.cov.setdefault("mc_runs", []).append({"instance": "T_X08_ref (IStepOK, PStepOK on the first %d recorded cases)" % n,
                                             "states_generated": r.generated, "distinct_states": r.distinct, "wall_s": round(r.wall, 1)})
    log("[mc] refinement self-check on %d recorded cases: %d states, %.1fs" % (n, r.distinct, r.wall))


def check(seed, tier):
    rep = Report("X08", seed, tier)
    core.build_harness()
    quick = tier == "quick"
    # (M) the self-check of the monitor runs side by side with the validation of the recorded cases (<= 4 JVMs in total)
    with cf.ThreadPoolExecutor(max_workers=1) as pool:
        mc = pool.submit(_self_check, rep)
        meta = core.gen("X08", seed, tier, shards=3 if quick else 12)
        results, stats = _validate(rep, meta["files"], parallel=3, timeout=1800 if quick else 7200)
        mc.result()
    with cf.ThreadPoolExecutor(max_workers=1) as pool:
        ref = pool.submit(_refinement, rep, meta["files"][-1], 6 if quick else 48)
        _canary(rep, meta["files"], results)
        ref.result()
    x = meta["extra"]
    lines = core.read_lines(meta["files"][0])
    rep.traces, rep.events = meta["cases"], stats["behaviours"]
    compared = sum(stats["ended"].values())
    if stats["behaviours"] and (stats["outclass_dynamic"] + stats["outclass_static"]) * 4 > stats["behaviours"]:
        rep.notes.append("more than a quarter of the behaviours left the input class (OUTCLASS): the generator should be tightened")
    return rep.finish("translation_validation", {
        "programs": meta["cases"], "disagreements_checked": stats["behaviours"],
        "behaviours_compared_to_their_end": compared, "behaviours_ended": stats["ended"],
        "control_observations_matched": stats["control_observations_matched"],
        "behaviours_outside_input_class": {"dynamic": stats["outclass_dynamic"], "static": stats["outclass_static"]},
        "diverging_behaviours": stats["diverging"], "diverging_behaviours_known_finding": stats.get("diverging_known", 0),
        "distinct_nontrivial": meta["distinct_nontrivial"],
        "rule": "one program = one generated P-Code project with one function under test + the IR function the real front end (normalize, "
                "into_ir_project, normalize_basic, normalize_optimize) produced from it; every (program, initial state) is one deterministic "
                "behaviour of FrontEndMonitor whose every state TLC checks against the observation-prefix invariant, up to 32 block steps per "
                "side; disagreements_checked = behaviours explored; non-trivial = the function reads or writes a register that is not a whole "
                "base register (sub-register, same-name smaller register) or has an implicit RAM operand; distinct = distinct case hashes",
        "feature_counts": x.get("feature_counts"), "pipeline_panics": x.get("pipeline_panics"),
        "functions_changed_by_optimizer": x.get("functions_changed_by_optimizer"),
        "pcode_ops": x.get("pcode_ops"), "optimized_ir_defs": x.get("optimized_ir_defs"),
        "mc_runs": rep.cov.get("mc_runs"),
        "samples": [pretty(json.loads(lines[0]))] + [pretty(json.loads(z), full=False) for z in lines[1:3]], "trusted_base": TRUSTED,
    }, ["input class (generator, re-checked by the specification - a behaviour outside is counted as OUTCLASS, never judged): P-Code booleans "
        "(operands of BOOL_*, CBRANCH conditions) hold 0/1; no floating point, operand sizes consistent per mnemonic; temporaries written before "
        "they are read and not live across calls; at most one INT_AND on the stack pointer, an alignment mask SP & -2^k (2^k <= 4096) in the "
        "entry block, which is no jump target; entry SP aligned to 4096; 1-byte base registers are flags holding 0/1 initially and after calls; "
        "direct jump targets are blocks of the same function or exist nowhere; conditions and RETURN targets are registers or temporaries",
        "reference semantics: calls are observed with all base registers and written memory, then havoc every base register except SP and the "
        "16 bytes around SP (same havoc stream on both sides, numbered by control observations); callees flagged no_return / without RETURN "
        "never return; an indirect jump continues only at a hinted block whose address equals the runtime value; division by zero does not trap",
        "reads between two writes / control observations are compared as a set; temporaries are not observed",
        "bounded: functions of <= 7 blocks, 32 block steps per side (loops are cut there), 3 initial states per function; x86-64-like and "
        "x86-32-like register tables; memory is an arbitrary fixed function of the address (seeded), little and big endian"])


def replay(path, seed, tier):
    """Re-run the real pipeline on the recorded extractor JSON and let TLC check the monitor again (with counterexample and the
    first diverging stage)."""
    core.build_harness()
    out = os.path.join(core.BUILD, "traces", "X08_replay")
    p = core.sh([core.BIN, "replay", "X08", path, "--out", out], cwd=core.ROOT, check=False)
    if p.returncode != 0:
        raise ToolError("replay failed: " + p.stdout[-2000:])
    f = os.path.join(out, "shard00.ndjson")
    if not os.path.exists(f) or os.path.getsize(f) == 0:
        raise ToolError("replay produced no case (no recorded input in %s)" % path)
    r = core.tlc(TRACE_SPEC, cfg=TRACE_CFG, trace=f, workers=1, timeout=1800, env=_jenv())
    if r.error:
        raise ToolError(r.error)
    if not r.finished_ok:
        raise ToolError("TLC did not finish cleanly:\n" + r.out[-3000:])
    if r.badlines:
        print("VIOLATION property=X08 replay=%s" % path)
        log("\n".join(r.badlines[:6]))
        ev = json.loads(core.read_lines(f)[0])
        first, verdicts = _stage_verdicts(ev, "replay")
        log("first diverging stage: %s %s" % (first, verdicts))
        log(_cex(ev, "replay")[:8000])
        return 1
    print("replay accepted: the recorded inputs no longer violate X08")
    return 0
