"""C06 - string abstractions over-approximate the strings they describe."""
import concurrent.futures as cf
import json
import os

import core
from core import Report, ToolError
from common import TRUSTED

TRACE_SPEC = "trace/T_C06.tla"
L = 6          # length bound of the bounded brick language in spec/trace/T_C06.cfg

MANIFEST = {
    "category": "model_checking",
    "text": "TLC evaluates the bounded-language semantics of spec/Bricks.tla (all strings over {a,b} up to length 6, and over {a} "
            "up to length 16 for a one-letter batch) and "
            "spec/CharIncl.tla (gamma(certain, possible) over {a,b,c}) on every recorded call of the real "
            "BricksDomain::normalize/widen/merge/append_string_domain and CharacterInclusionDomain::merge/append_string_domain: "
            "normalisation must preserve the bounded language exactly, append/merge/widen must over-approximate; a panic or a "
            "call that does not return is a violation.  The character inclusion pairs are exhaustive in the thorough tier. "
            "TLC also model-checks the semantics itself (Lang(Top) = all strings, an independent membership definition, the "
            "concatenation law, the five normalisation rules and the brick-wise merge as laws; the documented character "
            "inclusion transfer functions against the relations, exhaustively).  Bounded: brick values are sampled "
            "(<= 5 bricks, sets of <= 6 strings of length <= 3, repetition bounds <= 12 and the widening sentinel).",
    "note": "Trusted: TLC + CommunityModules Json/IOUtils, the projection of brick values to code-point arrays in "
            "harness/src/props/c06.rs (canary-checked every run), the CPU-time limit that turns a non-returning call into data "
            "(harness/src/guard.rs).",
    "technique": "TLA+ bounded-language semantics + TLC trace validation of recorded calls; TLC model checking of the semantics' laws",
    "design_ref": "DESIGN.md section 6, C06",
}


def _lang_surely_nonempty(v):
    """Canary helper (not an oracle): a sufficient syntactic condition for Lang(v) to have a member of length <= L."""
    if v["top"]:
        return True
    n = 0
    for b in v["bricks"]:
        if b["top"]:
            continue
        if b["min"] > b["max"] and not b["inf"]:
            return False
        if b["min"] > 0:
            if not b["seq"]:
                return False
            n += b["min"] * min(len(s) for s in b["seq"])
    return n <= L


EMPTY_LANG = {"top": False, "bricks": [{"top": False, "seq": [], "min": 1, "max": 1, "inf": False, "mins": "1", "maxs": "1"}]}
EMPTY_GAMMA = {"top": False, "c": {"top": False, "s": [97]}, "p": {"top": False, "s": []}}


def canary(rep, src_file):
    """Binding demonstration: in a prefix of an accepted shard replace the recorded RESULT of one brick event and of
    one character inclusion event by a value that denotes the empty set although an input certainly has a member.
    TLC must reject exactly these two events."""
    evs = [json.loads(x) for x in core.read_lines(src_file)[:400]]
    evs = [e for e in evs if e["panic"] == ""][:120]
    ib = next((i for i, e in enumerate(evs) if i >= 3 and e["dom"] == "bricks" and e["op"] in ("normalize", "merge")
               and not e["x"]["top"] and not e["r"]["top"] and _lang_surely_nonempty(e["x"])), None)
    ic = next((i for i, e in enumerate(evs) if i >= 3 and e["dom"] == "ci" and not e["x"]["top"] and not e["y"]["top"]
               and not e["x"]["p"]["top"] and set(e["x"]["c"]["s"]) <= set(e["x"]["p"]["s"])
               and (e["op"] == "merge" or (not e["y"]["p"]["top"] and set(e["y"]["c"]["s"]) <= set(e["y"]["p"]["s"])))), None)
    if ib is None or ic is None:
        raise ToolError("canary: no suitable event in the prefix of %s" % src_file)
    evs[ib]["r"] = EMPTY_LANG
    evs[ic]["r"] = EMPTY_GAMMA
    path = os.path.join(core.BUILD, "traces", "canary_C06.ndjson")
    with open(path, "w") as f:
        for e in evs:
            f.write(json.dumps(e) + "\n")
    r = core.tlc(TRACE_SPEC, cfg="T_C06.cfg", trace=path, workers=1, timeout=900)
    if r.error:
        raise ToolError("canary: TLC error:\n" + r.error)
    want = sorted([ib + 1, ic + 1])
    if sorted(r.bad) != want:
        raise ToolError("canary: corrupted results at events %s, but %s rejected %s - the specification is vacuous or the "
                        "prefix is not clean" % (want, TRACE_SPEC, sorted(r.bad)))
    rep.notes.append("canary: results of events %d (bricks %s) and %d (ci %s) of an accepted shard prefix were replaced by a value "
                     "denoting the empty set; T_C06 rejected exactly these two" % (ib + 1, evs[ib]["op"], ic + 1, evs[ic]["op"]))


def _unary(ev):
    def ok(v):
        return all(c == 97 for b in v.get("bricks", []) for w in b["seq"] for c in w)
    return ev.get("dom") == "bricks" and ok(ev["x"]) and ok(ev["y"])


def replay(path, seed, tier):
    """Re-execute the recorded inputs on the real code and re-validate with TLC (events over {a} also with the
    unary instance, where they may have been rejected)."""
    core.build_harness()
    out = os.path.join(core.BUILD, "traces", "C06_replay")
    p = core.sh([core.BIN, "replay", "C06", path, "--out", out], cwd=core.ROOT, check=False)
    if p.returncode != 0:
        raise ToolError("replay failed: " + p.stdout[-2000:])
    f = os.path.join(out, "shard00.ndjson")
    evs = [json.loads(x) for x in core.read_lines(f)]
    cfgs = ["T_C06.cfg"] + (["T_C06_unary.cfg"] if evs and all(_unary(e) for e in evs) else [])
    for cfg in cfgs:
        r = core.tlc(TRACE_SPEC, cfg=cfg, trace=f, workers=1)
        if r.error:
            raise ToolError(r.error)
        if r.bad or r.unconsumed or r.invariant:
            print("VIOLATION property=C06 replay=%s" % path)
            core.log("\n".join(r.printed[:6] + r.badlines[:5]) or r.out[-1500:])
            return 1
    print("replay accepted: the recorded inputs no longer violate C06")
    return 0


def check(seed, tier):
    rep = Report("C06", seed, tier)
    core.build_harness()
    thorough = tier == "thorough"
    # two batches, generated side by side.  The second one has strings over the one-letter alphabet {a} only; it is
    # validated with length bound 16 (T_C06_unary.cfg), so repetition bounds beyond the widening threshold (8) are
    # visible in the bounded language
    with cf.ThreadPoolExecutor(max_workers=2) as ex:
        f1 = ex.submit(core.gen, "C06", seed, tier, 8 if thorough else 4)
        f2 = ex.submit(core.gen, "C06", seed, tier, 2 if thorough else 1, "unary")
        meta, umeta = f1.result(), f2.result()

    def model_check():
        sfx = "_thorough" if thorough else ""
        core.mc(rep, "mc/MC_Bricks.tla", "MC_Bricks%s.cfg" % sfx, workers=3, coverage=False, label="MC_Bricks" + sfx)
        core.mc(rep, "mc/MC_CharIncl.tla", "MC_CharIncl%s.cfg" % sfx, workers=3, coverage=False, label="MC_CharIncl" + sfx)

    # (M) and (T) side by side: 3 TLC workers + 5 trace validators
    with cf.ThreadPoolExecutor(max_workers=1) as ex:
        fut = ex.submit(model_check)
        results = core.validate_traces(rep, TRACE_SPEC, meta["files"], parallel=5, timeout=3000)
        results += core.validate_traces(rep, TRACE_SPEC, umeta["files"], cfg="T_C06_unary.cfg", parallel=5, timeout=3000)
        fut.result()
    outside = [x for r in results for x in r.printed if x.startswith('<<"OUTSIDE"')]
    if outside:
        raise ToolError("harness emitted events outside the input class of C06: %s" % outside[:3])
    canary(rep, meta["files"][0])
    rep.traces, rep.events = meta["cases"] + umeta["cases"], meta["events"] + umeta["events"]
    ex = meta["extra"]
    return rep.finish("model_checking", {
        "distinct_nontrivial": meta["distinct_nontrivial"] + umeta["distinct_nontrivial"],
        "rule": "one event per call of BricksDomain::normalize/widen/merge/append_string_domain and "
                "CharacterInclusionDomain::merge/append_string_domain (inputs and result); brick inputs: fixed examples "
                "(unit tests, documentation, boundary shapes), seeded random brick lists, related pairs (perturbed copies) for "
                "merge/widen, and fixpoint chains s = merge(s, append(s, lit)); character inclusion: pairs of all 73 values over "
                "{a,b,c}; non-trivial = the call returned a value that is not Top and differs from both inputs; distinct = "
                "distinct event hashes",
        "samples": meta["samples"], "exhaustive": bool(ex.get("ci_exhaustive")),
        "exhaustive_part": "character inclusion value pairs (%d of %d)" % (ex.get("ci_pairs", 0), ex.get("ci_values", 0) ** 2),
        "events_per_op": ex.get("events_per_op"), "calls_without_result": ex.get("events_per_op", {}).get("no_result", 0),
        "chain_events": ex.get("chain_events"),
        "unary_batch": {"events": umeta["events"], "events_per_op": umeta["extra"].get("events_per_op"), "length_bound": 16},
        "mc_runs": rep.cov.get("mc_runs"), "trusted_base": TRUSTED,
    }, ["bounded concretisation: brick languages are compared on all strings over {a,b} of length <= 6 (a second batch over "
        "the one-letter alphabet {a} on all strings of length <= 16), character inclusion "
        "operands on all strings over {a,b,c} of length <= 3 (concatenations up to 6)",
        "input class: well-formed bricks (min <= max); normalize and widen are not called on BricksDomain::Top (they unwrap); "
        "the certain set of a character inclusion value is never CharacterSet::Top (unreachable; intersection documents it)",
        "a call is recorded as not returning after %s ms of CPU time of the worker process (normal calls need < 1 ms)" % 300,
        "u32::MAX (widening sentinel) is sent as the tag inf, other numbers >= 2^20 are clamped; both are unbounded for L = 6 "
        "(CapLaw, model-checked in MC_Bricks)"])
