"""X03 (extended coverage, not a listed property) - dead variable elimination removes only dead assignments.

Statement (spec/Liveness.tla): for every well-formed normalised program, the result of
remove_dead_var_assignments is the input without some Defs, every removed Def is an assignment or a load,
and its target is dead at that point in the reference liveness semantics of the remaining program (all
physical registers are read at calls, returns, indirect jumps without known targets and dead ends; a
return reads its target expression; temporaries do not survive calls).  Keeping more Defs is never an alarm.

M: mc/MC_Liveness (Liveness.tla against hand-derived liveness sets, every subset of removable Defs of the
   hand-written functions) and mc/MC_LivenessSem (every accepted removal of assignments leaves the
   observations of the IR reference semantics unchanged: Liveness.tla against IR.tla/EquivMonitor.tla).
T: trace/T_X03 over events recorded from the real code (project before, project after, removed TIDs,
   alive-at-block-end map for diagnosis).
Python only shards, counts and maps TLC's verdicts to exit codes."""
import os
import re

import core
from core import Report, ToolError
from common import TRUSTED

TRACE_SPEC = "trace/T_X03.tla"
TRACE_CFG = "T_X03.cfg"

LEAVES = ("return", "call", "callind", "callother")


def _classified(rep, f, r):
    """TLC's verdicts on shard f -> violations / known findings.  T_X03 prints <<"BAD", index, class>>; the class is
    attached to the event as `bad_class` so that known_findings.json can key on the classes the SPECIFICATION
    computed ("known:..." = acceptable if one recorded defect is excused); everything else is a violation."""
    rep.add_tlc(r)
    if r.error:
        raise ToolError("TLC error on %s:\n%s" % (f, r.error))
    rep.cov["out_of_class_events"] = rep.cov.get("out_of_class_events", 0) + len(re.findall(r'^<<"OUTCLASS", \d+>>', r.out, re.M))
    lines = core.read_lines(f) if (r.badlines or r.unconsumed) else None
    details = {}
    for m in re.finditer(r'^<<"DETAIL", (\d+), (.*)$', r.out, re.M):
        details[int(m.group(1))] = m.group(2)[:1500]
    for line in r.badlines:
        m = re.search(r'<<"BAD", (\d+), "([^"]*)"', line)
        if not m:
            raise ToolError("unparsable BAD line: " + line)
        idx, cls = int(m.group(1)), m.group(2)
        run, k = core.run_of(lines, idx)
        run[k]["bad_class"] = cls
        rep.violation("trace event %d of %s rejected by T_X03.tla: %s %s" % (idx, os.path.basename(f), line, details.get(idx, "")),
                      run, k, line + "\n" + details.get(idx, ""))
    if r.unconsumed and not r.bad:
        idx = int(r.unconsumed[0])
        run, k = core.run_of(lines, min(idx, len(lines)))
        rep.violation("trace %s not accepted by T_X03.tla: first unmatched event %d" % (os.path.basename(f), idx), run, k, r.out[-3000:])
    if not (r.bad or r.unconsumed or r.invariant) and not r.finished_ok:
        raise ToolError("TLC did not finish cleanly on %s:\n%s" % (f, r.out[-3000:]))


def _validate(rep, files, parallel):
    """-> {shard file: 1-based indices of the events TLC rejected}"""
    jobs = [dict(module=TRACE_SPEC, cfg=TRACE_CFG, trace=f, workers=1, timeout=3600) for f in files]
    bad = {}
    for f, r in zip(files, core.tlc_many(jobs, parallel)):
        _classified(rep, f, r)
        bad[f] = set(r.bad)
    return bad


def _candidates(e):
    """(sub index, block index, def index) of assignments that are CERTAINLY live and still present in `after`:
    the last write of a physical register in a block whose only jump is a return or a call (every physical register is
    read there)."""
    if e["panic"]:
        return
    regs = {v["n"] for v in e["project"]["regs"]}
    for si, sub in enumerate(e["project"]["program"]["subs"]):
        for bi, blk in enumerate(sub["blocks"]):
            js = blk["jmps"]
            if len(js) != 1 or js[0]["k"] not in LEAVES:
                continue
            later = set()
            for di in range(len(blk["defs"]) - 1, -1, -1):
                d = blk["defs"][di]
                if d["k"] == "store":
                    continue
                n = d["v"]["n"]
                if d["k"] == "assign" and n in regs and n not in later and d["tid"] not in e["removed"]:
                    yield si, bi, di
                later.add(n)


def _mutate_live(evs):
    """Corrupt the recorded OUTPUT: take a certainly-live assignment out of `after` and add it to `removed`
    (consistently, so that only the deadness judgement can reject it)."""
    for i, e in enumerate(evs):
        for si, bi, di in _candidates(e):
            tid = e["project"]["program"]["subs"][si]["blocks"][bi]["defs"][di]["tid"]
            ablk = e["after"]["program"]["subs"][si]["blocks"][bi]
            ablk["defs"] = [d for d in ablk["defs"] if d["tid"] != tid]
            e["removed"].append(tid)
            return i
    return None


def _mutate_changed(evs, skip):
    """Corrupt the recorded OUTPUT: a kept Def of `after` gets another target variable (no Def is missing)."""
    for i, e in enumerate(evs):
        if e["panic"] or i == skip:
            continue
        for sub in e["after"]["program"]["subs"]:
            for blk in sub["blocks"]:
                for d in blk["defs"]:
                    if d["k"] == "assign":
                        d["v"] = dict(d["v"], n=d["v"]["n"] + "_x")
                        return i
    return None


def _canary(rep, shard, rejected, n=30):
    """Binding demonstration on ACCEPTED events of this run (events the validation rejected - recorded defects - are left
    out): two recorded outputs are corrupted, TLC must reject exactly these two events, for the right reasons."""
    import json
    evs = [json.loads(x) for i, x in enumerate(core.read_lines(shard)) if i + 1 not in rejected][:n]
    i1 = _mutate_live(evs)
    i2 = _mutate_changed(evs, i1)
    if i1 is None or i2 is None:
        raise ToolError("canary: no event suitable for corruption in the first %d accepted events of %s" % (n, shard))
    path = os.path.join(core.BUILD, "traces", "canary_X03.ndjson")
    with open(path, "w") as g:
        for e in evs:
            g.write(json.dumps(e) + "\n")
    r = core.tlc(TRACE_SPEC, cfg=TRACE_CFG, trace=path, workers=1, timeout=900)
    if r.error:
        raise ToolError("canary: TLC error:\n" + r.error)
    rep.add_tlc(r)
    cls = dict((int(a), b) for a, b in re.findall(r'<<"BAD", (\d+), "([^"]*)"', r.out))
    want = {i1 + 1: "notdead", i2 + 1: "changed"}
    if set(cls) != set(want) or any(not cls[k].startswith(v) for k, v in want.items()):
        raise ToolError("canary: corrupted outputs of events %s must be rejected as %s, TLC rejected %s - the specification is "
                        "vacuous for this event kind" % (sorted(want), want, cls))
    rep.notes.append("canary: %d accepted events re-validated; event %d with a certainly-live assignment moved to `removed` was rejected "
                     "as %s, event %d with a changed kept Def as %s, nothing else" % (len(evs), i1 + 1, cls[i1 + 1], i2 + 1, cls[i2 + 1]))


EXPECTED_SEM = {1, 2, 3}      # MC_LivenessSem.tla: the rejected removals the monitor must report


def _self_checks(rep):
    """Mode M, both instances side by side (2 JVMs): Liveness.tla against hand-derived sets (invariants) and against the IR
    reference semantics (the monitor must report exactly the three rejected removals)."""
    jobs = [dict(module="mc/MC_Liveness.tla", cfg="MC_Liveness.cfg", workers=2, timeout=1800, xmx="4g"),
            dict(module="mc/MC_LivenessSem.tla", cfg="MC_LivenessSem.cfg", workers=2, timeout=1800, xmx="4g")]
    r1, r2 = core.tlc_many(jobs, 2)
    for name, r in (("MC_Liveness", r1), ("MC_LivenessSem", r2)):
        rep.add_tlc(r)
        if r.error:
            raise ToolError("TLC error in %s:\n%s" % (name, r.error))
        if r.invariant or r.property_violated or r.deadlock:
            rep.violation("model checking %s: %s violated" % (name, (r.invariant or r.property_violated or ["deadlock"])[0]), None, 0, r.cex())
        elif not r.finished_ok:
            raise ToolError("TLC did not finish cleanly in %s:\n%s" % (name, r.out[-3000:]))
        core.log("[mc] %s: %d states generated, %d distinct, %.1fs" % (name, r.generated, r.distinct, r.wall))
        rep.cov.setdefault("mc_runs", []).append({"instance": name, "states_generated": r.generated, "distinct_states": r.distinct,
                                                 "wall_s": round(r.wall, 1)})
    got = {int(x) for x in re.findall(r'<<"BAD", (\d+),', r2.out)}
    rep.cov["mc_runs"][-1]["reported_cases"] = sorted(got)
    if not EXPECTED_SEM <= got:
        raise ToolError("MC_LivenessSem: the monitor did not report the rejected removals %s (reported %s) - vacuous" % (sorted(EXPECTED_SEM - got), sorted(got)))
    if got - EXPECTED_SEM:
        rep.violation("model checking MC_LivenessSem: a removal accepted by Liveness.tla changes the observations of IR.tla (cases %s)"
                      % sorted(got - EXPECTED_SEM), None, 0, "\n".join(r2.badlines))


def replay(path, seed, tier):
    """Re-execute the recorded inputs on the real code and re-validate; recorded defect classes are reported as
    KNOWN-FINDING, anything else as VIOLATION."""
    core.build_harness()
    out = os.path.join(core.BUILD, "traces", "X03_replay")
    p = core.sh([core.BIN, "replay", "X03", path, "--out", out], cwd=core.ROOT, check=False)
    if p.returncode != 0:
        raise ToolError("replay failed: " + p.stdout[-2000:])
    f = os.path.join(out, "shard00.ndjson")
    rep = Report("X03", seed, tier)
    _classified(rep, f, core.tlc(TRACE_SPEC, cfg=TRACE_CFG, trace=f, workers=1))
    for what, n in rep.known_hits.items():
        print("KNOWN-FINDING: property=X03 %s (%d events)" % (what, n))
    if rep.violations:
        print("VIOLATION property=X03 replay=%s" % path)
        core.log(rep.violations[0][0][:600])
        return 1
    if not rep.known_hits:
        print("replay accepted: the recorded inputs no longer violate X03")
    return 0


def check(seed, tier):
    rep = Report("X03", seed, tier)
    core.build_harness()
    # mode M: the specification against hand-derived liveness sets, and against the IR reference semantics
    _self_checks(rep)
    par = int(os.environ.get("VERIF_PAR", 4))
    meta = core.gen("X03", seed, tier, shards=4 if tier == "quick" else 8)
    bad = _validate(rep, meta["files"], par if tier == "quick" else min(2 * par, 8))
    if rep.violations:
        rep.notes.append("canary skipped: this run already found violations")
    else:
        _canary(rep, meta["files"][0], bad[meta["files"][0]])
    rep.traces, rep.events = meta["cases"], meta["events"]
    x = meta["extra"]
    return rep.finish("model_checking", {
        "distinct_nontrivial": meta["distinct_nontrivial"],
        "rule": "a case is one normalised project run through the real compute_alive_vars / remove_dead_var_assignments (event: project "
                "before, project after, removed Def TIDs, alive-at-block-end map); non-trivial = at least one Def was removed and at "
                "least one was kept; distinct = distinct case hashes",
        "functions": x.get("functions"), "defs_before": x.get("defs_before"), "defs_removed": x.get("defs_removed"),
        "planted_shapes": x.get("planted"), "events_per_stage": x.get("events_per_stage"),
        "out_of_class_events_accepted_vacuously": rep.cov.get("out_of_class_events", 0),
        "samples": [str(s)[:1500] for s in meta["samples"][:2]], "exhaustive": False, "mc_runs": rep.cov.get("mc_runs"),
        "trusted_base": TRUSTED,
    }, ["extended coverage (not a listed property): statement at the top of spec/Liveness.tla",
        "programs: the C10 function generator (<= 11 blocks, <= 8 Defs per block, loops, calls of every kind, indirect jumps, returns, "
        "dead ends, with/without a caller) plus planted shapes (address computed into the loaded register, conditional return / "
        "conditional indirect jump, return/branch/call through an assigned temporary, dead flag chains); stages: after normalize_basic "
        "and after expression propagation + trivial-expression substitution",
        "input class: temporaries are assigned before they are read inside their block; every non-temporary variable is in the "
        "register set; an indirect jump with known targets continues only at these targets (the program's CFG is taken as complete)",
        "removing a Load whose target is dead is accepted (the statement allows it); the alive-at-block-end map is used for "
        "diagnosis only (notdead:alive-map vs notdead:in-block)"])
