"""C09 - basic normalisation establishes the IR invariants analyses rely on."""
import core
from core import Report
from common import TRUSTED, first_with

TRACE_SPEC = "trace/T_C09.tla"

MANIFEST = {
    "category": "model_checking",
    "text": "TLC evaluates the invariants of the TLA+ specification Normalize.tla (unique TIDs, entry blocks preserved, all direct jump / call / "
            "return targets exist, intraprocedural targets in the same function, calls to non-returning functions return to the caller's "
            "artificial sink, CFG construction does not fail) and, reusing Cfg.tla, exact equality of the built CFG on every recorded run of the "
            "real Project::normalize_basic + get_program_cfg over randomly generated raw programs with injected dangling targets, shared "
            "non-entry blocks, duplicated TIDs, non-returning callees and empty functions; bounded: programs of at most 5 functions x 6 blocks.",
    "note": "Trusted: TLC + CommunityModules Json/IOUtils, the projections harness/src/irenc.rs and cfgenc.rs (canary-checked every run). "
            "The input class (RawInClass in Normalize.tla) is evaluated by TLC on every event; events outside it are skipped and counted.",
    "technique": "TLA+ invariants + reference function, TLC trace validation of recorded runs",
    "design_ref": "DESIGN.md section 6, C09",
}


def check(seed, tier):
    rep = Report("C09", seed, tier)
    core.build_harness()
    meta = core.gen("C09", seed, tier, shards=8 if tier == "quick" else 16)
    results = core.validate_traces(rep, TRACE_SPEC, meta["files"], parallel=8, timeout=3600)
    skipped = sum(len([p for p in r.printed if p.startswith('<<"SKIP"')]) for r in results)
    if skipped * 20 > meta["events"]:
        raise core.ToolError("C09: %d of %d generated raw programs are outside the input class RawInClass" % (skipped, meta["events"]))
    whys = {}
    for r in results:
        for line in r.badlines:
            w = line.split(",", 2)[-1].strip(" >\"")
            whys[w] = whys.get(w, 0) + 1
    if whys:
        rep.notes.append("rejections by reason: %s" % whys)

    def mutate(evs):
        def ok(e):
            return e["norm_panic"] == "" and any(len(s["blocks"]) >= 2 for s in e["norm"]["subs"])
        i = first_with(evs, ok)
        if i is not None:
            s = [s for s in evs[i]["norm"]["subs"] if len(s["blocks"]) >= 2][0]
            s["blocks"][1]["tid"] = s["blocks"][0]["tid"]      # two blocks of the result share a TID
        return i
    core.canary(rep, TRACE_SPEC, meta["files"][0], mutate)
    rep.traces, rep.events = meta["cases"], meta["events"]
    return rep.finish("model_checking", {
        "distinct_nontrivial": meta["distinct_nontrivial"],
        "rule": "one event per raw program (raw program, normalised program, panics, built graph); non-trivial = at least two of the three "
                "kinds of irregularity (dangling targets, shared non-entry blocks, duplicated TIDs) were injected; distinct = distinct event hashes",
        "samples": [str(s)[:1500] for s in meta["samples"]][:2],
        "exhaustive": False,
        "programs_with_dangling_targets": meta["extra"].get("programs_with_dangling_targets"),
        "programs_with_shared_blocks": meta["extra"].get("programs_with_shared_blocks"),
        "programs_with_duplicate_tids": meta["extra"].get("programs_with_duplicate_tids"),
        "skipped_outside_input_class": skipped,
        "trusted_base": TRUSTED,
    }, ["input class (Normalize!RawInClass, evaluated by TLC): dangling targets are fresh TIDs that name nothing (not TIDs of the wrong kind); "
        "TIDs are duplicated only among non-entry blocks, among defs, among jmps; only non-entry blocks are shared: no entry block is "
        "listed twice or intraprocedurally reachable from another function; blocks end in at most two jumps (CBranch + Branch/BranchInd/Return/Call/CallInd/CallOther)",
        "the four passes are not modelled: any result satisfying the invariants is accepted; the graph of the result must equal Cfg!Graph(result)",
        "TIDs of raw programs never use the reserved 'Artificial Sink' names"])
