"""C14 - function signatures never miss a register parameter."""
import os

import core
from core import Report
from common import TRUSTED

TRACE_SPEC = "trace/T_C14.tla"

MANIFEST = {
    "category": "model_checking",
    "text": "TLC computes ParamWalk!MustBeParam (reachability fixpoint of a walker with state (node, overwritten parameter registers) over the "
            "Cfg.tla graph, callee reads as a least fixpoint over the call graph) for every function of seeded random projects and requires "
            "MustBeParam(f) to be a subset of the register parameters reported by the real compute_function_signatures (one direction only; "
            "extra parameters are never an alarm); bounded: at most 3 functions x 5 blocks.",
    "note": "Trusted: TLC + CommunityModules, Cfg.tla (validated against the real graph builder by C08), projections in harness/src/irenc.rs and "
            "walkrun.rs (canary-checked).  Modelled deviations (documented in the code, each weakens the requirement): plain stores of a register "
            "to a stack slot are not reads; calls that do not return are dead ends (reads by noreturn extern calls / on never-returning callee "
            "paths are not demanded of the caller); sub-register expression parameters are not demanded.  Registers are identified by name.",
    "technique": "TLA+ walker specification (reachability fixpoint over Cfg edges, one-directional soundness relation) + TLC trace validation",
    "design_ref": "DESIGN.md section 6, C14",
}


def _input_regs(e):
    k = e["k"]
    if k == "var":
        return [e["v"]["n"]]
    if k == "bin":
        return _input_regs(e["l"]) + _input_regs(e["r"])
    if k in ("un", "cast", "sub"):
        return _input_regs(e["a"])
    return []


def _mutate(evs):
    """Delete a reported parameter that the event itself shows being read: a register read by the very first
    definition of a function's entry block (nothing can have overwritten it) that the implementation reported."""
    for i, e in enumerate(evs):
        if e["panic"]:
            continue
        for sub in e["project"]["program"]["subs"]:
            if not sub["blocks"] or not sub["blocks"][0]["defs"]:
                continue
            d = sub["blocks"][0]["defs"][0]
            regs = _input_regs(d["e"]) if d["k"] == "assign" else _input_regs(d["a"])
            for rep in e["reported"]:
                if rep["f"] == sub["tid"]:
                    for r in regs:
                        if r in rep["regs"]:
                            rep["regs"].remove(r)
                            return i
    return None


def check(seed, tier):
    rep = Report("C14", seed, tier)
    core.build_harness()
    # mode M: the specification modules against hand-derived expectations on hand-written projects
    core.mc(rep, "mc/MC_Walk.tla", "MC_Walk.cfg", workers=1)
    meta = core.gen("C14", seed, tier, shards=8)
    core.validate_traces(rep, TRACE_SPEC, meta["files"], parallel=int(os.environ.get("VERIF_PAR", 4 if tier == "quick" else 8)), timeout=3600)
    core.canary(rep, TRACE_SPEC, meta["files"][0], _mutate, n=60)
    rep.traces, rep.events = meta["cases"], meta["events"]
    return rep.finish("model_checking", {
        "distinct_nontrivial": meta["distinct_nontrivial"],
        "rule": "a case is one random project run through the real compute_function_signatures (event: project, reported register parameters per "
                "function); non-trivial = at least one register parameter is reported and some function reports fewer than three; "
                "distinct = distinct case hashes",
        "reported_register_parameters": meta["extra"].get("reported_register_parameters"),
        "samples": [str(s)[:1500] for s in meta["samples"][:2]], "exhaustive": False, "mc_runs": rep.cov.get("mc_runs"), "trusted_base": TRUSTED,
    }, ["programs: 1-3 functions with 1-5 blocks, one or two calling conventions, internal calls (chains, recursion, with/without return site), "
        "extern calls with 0-3 declared register/stack parameters, a noreturn symbol, indirect calls and jumps",
        "the stack pointer is never assigned and occurs only in load/store addresses (checked by the spec: StackDiscipline)",
        "extern symbols known to function_signature/stubs.rs (malloc, memcpy) are declared with exactly the stub's arity"])
