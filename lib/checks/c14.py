"""C14 - function signatures never miss a register parameter."""
import os
import re

import core
from core import Report, ToolError
from common import TRUSTED

TRACE_SPEC = "trace/T_C14.tla"

MANIFEST = {
    "category": "model_checking",
    "text": "TLC computes ParamWalk!MustBeParam (reachability fixpoint of a walker with state (node, overwritten parameter registers) over the "
            "Cfg.tla graph, callee reads as a least fixpoint over the call graph) for every function of seeded random projects and requires "
            "MustBeParam(f) to be a subset of the register parameters reported by the real compute_function_signatures (one direction only; "
            "extra parameters are never an alarm); bounded: at most 3 functions x 5 blocks.",
    "note": "Trusted: TLC + CommunityModules, Cfg.tla (validated against the real graph builder by C08), projections in harness/src/irenc.rs and "
            "walkrun.rs (canary-checked).  The requirement is MustBeParamFull (reads at every reached call, returning or not; callee's own set at "
            "internal calls).  Registers missed only because the analysis treats non-returning calls as dead ends are classified by the spec "
            "(noreturn-call-read / call-without-return-site / callee-nonreturning-path) and recorded in known_findings.json; any miss of "
            "MustBeParamReturning is a violation.  Modelled deviations (documented in the code): plain stores of a register to a stack slot are "
            "not reads; sub-register expression parameters are not demanded.  Registers are identified by name.",
    "technique": "TLA+ walker specification (reachability fixpoint over Cfg edges, one-directional soundness relation) + TLC trace validation",
    "design_ref": "DESIGN.md section 6, C14",
}


def _input_regs(e):
    k = e["k"]
    if k == "var":
        return [e["v"]["n"]]
    if k == "bin":
        return _input_regs(e["l"]) + _input_regs(e["r"])
    if k in ("un", "cast", "sub"):
        return _input_regs(e["a"])
    return []


def _mutate(evs):
    """Delete a reported parameter that the event itself shows being read: a register read by the very first
    definition of a function's entry block (nothing can have overwritten it) that the implementation reported."""
    for i, e in enumerate(evs):
        if e["panic"]:
            continue
        for sub in e["project"]["program"]["subs"]:
            if not sub["blocks"] or not sub["blocks"][0]["defs"]:
                continue
            d = sub["blocks"][0]["defs"][0]
            regs = _input_regs(d["e"]) if d["k"] == "assign" else _input_regs(d["a"])
            for rep in e["reported"]:
                if rep["f"] == sub["tid"]:
                    for r in regs:
                        if r in rep["regs"]:
                            rep["regs"].remove(r)
                            return i
    return None


def _classified(rep, f, r):
    """Turn TLC's verdicts on shard f into violations / known findings.  The trace specification prints
    <<"BAD", index, class>>: class "violation"/"panic", or the reason classes for which every missing
    register is demanded by the property but skipped by design of the analysis (recorded defects).  The
    class is attached to the event as `miss_class` so that known_findings.json can key on it."""
    rep.add_tlc(r)
    if r.error:
        raise ToolError("TLC error on %s:\n%s" % (f, r.error))
    lines = core.read_lines(f) if (r.badlines or r.unconsumed) else None
    for line in r.badlines:
        m = re.search(r'<<"BAD", (\d+), "([^"]*)"', line)
        if not m:
            raise ToolError("unparsable BAD line: " + line)
        idx, cls = int(m.group(1)), m.group(2)
        run, k = core.run_of(lines, idx)
        run[k]["miss_class"] = cls
        rep.violation("trace event %d of %s rejected by T_C14.tla: %s" % (idx, os.path.basename(f), line), run, k, line)
    if r.unconsumed and not r.bad:
        idx = int(r.unconsumed[0])
        run, k = core.run_of(lines, min(idx, len(lines)))
        rep.violation("trace %s not accepted by T_C14.tla: first unmatched event %d" % (os.path.basename(f), idx), run, k, r.out[-3000:])
    if not (r.bad or r.unconsumed or r.invariant) and not r.finished_ok:
        raise ToolError("TLC did not finish cleanly on %s:\n%s" % (f, r.out[-3000:]))


def _validate(rep, files, parallel):
    jobs = [dict(module=TRACE_SPEC, cfg="T_C14.cfg", trace=f, workers=1, timeout=3600) for f in files]
    for f, r in zip(files, core.tlc_many(jobs, parallel)):
        _classified(rep, f, r)


def replay(path, seed, tier):
    """Re-execute the recorded inputs on the real code and re-validate; recorded defect classes are
    reported as KNOWN-FINDING, anything else as VIOLATION."""
    core.build_harness()
    out = os.path.join(core.BUILD, "traces", "C14_replay")
    p = core.sh([core.BIN, "replay", "C14", path, "--out", out], cwd=core.ROOT, check=False)
    if p.returncode != 0:
        raise ToolError("replay failed: " + p.stdout[-2000:])
    f = os.path.join(out, "shard00.ndjson")
    rep = Report("C14", seed, tier)
    _classified(rep, f, core.tlc(TRACE_SPEC, cfg="T_C14.cfg", trace=f, workers=1))
    for what, n in rep.known_hits.items():
        print("KNOWN-FINDING: property=C14 %s (%d events)" % (what, n))
    if rep.violations:
        print("VIOLATION property=C14 replay=%s" % path)
        return 1
    if not rep.known_hits:
        print("replay accepted: the recorded inputs no longer violate C14")
    return 0


def check(seed, tier):
    rep = Report("C14", seed, tier)
    core.build_harness()
    # mode M: the specification modules against hand-derived expectations on hand-written projects
    core.mc(rep, "mc/MC_Walk.tla", "MC_Walk.cfg", workers=1)
    meta = core.gen("C14", seed, tier, shards=4 if tier == "quick" else 8)
    _validate(rep, meta["files"], int(os.environ.get("VERIF_PAR", 4 if tier == "quick" else 8)))
    core.canary(rep, TRACE_SPEC, meta["files"][0], _mutate, n=60)
    rep.traces, rep.events = meta["cases"], meta["events"]
    return rep.finish("model_checking", {
        "distinct_nontrivial": meta["distinct_nontrivial"],
        "rule": "a case is one random project run through the real compute_function_signatures (event: project, reported register parameters per "
                "function); non-trivial = at least one register parameter is reported and some function reports fewer than three; "
                "distinct = distinct case hashes",
        "reported_register_parameters": meta["extra"].get("reported_register_parameters"),
        "samples": [str(s)[:1500] for s in meta["samples"][:2]], "exhaustive": False, "mc_runs": rep.cov.get("mc_runs"), "trusted_base": TRUSTED,
    }, ["programs: 1-3 functions with 1-5 blocks, one or two calling conventions, internal calls (chains, recursion, with/without return site), "
        "extern calls with 0-3 declared register/stack parameters, a noreturn symbol, indirect calls and jumps",
        "the stack pointer is never assigned and occurs only in load/store addresses (checked by the spec: StackDiscipline)",
        "extern symbols known to function_signature/stubs.rs (malloc, memcpy) are declared with exactly the stub's arity"])
