"""C15 - the NULL-dereference check flags exactly the unchecked flows of return values."""
import os

import core
from core import Report
from common import TRUSTED, first_with

TRACE_SPEC = "trace/T_C15.tla"

MANIFEST = {
    "category": "model_checking",
    "text": "TLC computes TaintWalk!Warn (a reachability fixpoint of a nondeterministic walker over the Cfg.tla graph with state (node, tainted "
            "registers); rule set of DESIGN.md C15) for every source call of seeded random projects and compares it with the source calls "
            "reported by the real cwe_476::check_cwe (function signatures and pointer inference computed first, as in the pipeline): "
            "reported(c) <=> Warn(P, c); bounded: at most 3 functions x 6 blocks, value flows through registers only.",
    "note": "Trusted: TLC + CommunityModules, Cfg.tla (validated against the real graph builder by C08), projections in harness/src/irenc.rs "
            "(canary-checked).  Input class is checked by the spec itself (well-formed program, resolvable conventions, no walker path stores a "
            "tainted value, sources return in registers); registers are identified by name.",
    "technique": "TLA+ walker specification (reachability fixpoint over Cfg edges) + TLC trace validation of recorded checker runs",
    "design_ref": "DESIGN.md section 6, C15",
}


def check(seed, tier):
    rep = Report("C15", seed, tier)
    core.build_harness()
    # mode M: the specification modules against hand-derived expectations on hand-written projects
    core.mc(rep, "mc/MC_Walk.tla", "MC_Walk.cfg", workers=1)
    meta = core.gen("C15", seed, tier, shards=8)
    core.validate_traces(rep, TRACE_SPEC, meta["files"], parallel=int(os.environ.get("VERIF_PAR", 4 if tier == "quick" else 8)), timeout=3600)

    def mutate(evs):
        # un-report one reported source call: the spec's Warn is TRUE for it (the event was accepted)
        i = first_with(evs, lambda e: e["reported"] and e["panic"] == "")
        if i is not None:
            evs[i]["reported"] = evs[i]["reported"][1:]
        return i
    core.canary(rep, TRACE_SPEC, meta["files"][0], mutate, n=80)
    rep.traces, rep.events = meta["cases"], meta["events"]
    skipped = meta["extra"].get("prerequisite_analysis_panics", 0)
    if skipped:
        rep.notes.append("%d generated programs carry no observation: function-signature / pointer-inference computation panicked before "
                         "the check ran (stage recorded in the event; defects of those analyses, outside this property)" % skipped)
    return rep.finish("model_checking", {
        "distinct_nontrivial": meta["distinct_nontrivial"],
        "rule": "a case is one random project run through the real cwe_476 check (event: project, configured symbols, reported source call TIDs); "
                "non-trivial = the program contains a source call (configured symbol, with return site) and at least one source call is reported; "
                "distinct = distinct case hashes",
        "source_calls": meta["extra"].get("source_calls"), "reported_source_calls": meta["extra"].get("reported_source_calls"),
        "prerequisite_analysis_panics": skipped,
        "samples": [str(s)[:1500] for s in meta["samples"][:2]], "exhaustive": False, "mc_runs": rep.cov.get("mc_runs"), "trusted_base": TRUSTED,
    }, ["programs: 1-3 functions with 2-6 blocks; may-taint / never-taint register pools; stores store never-taint expressions only",
        "one or two calling conventions per project; extern calls with 0-3 declared parameters incl. a 32-bit sub-register and a stack parameter; "
        "indirect calls, internal calls with/without return site, non-returning callees, noreturn extern",
        "pointer inference allocation symbols: malloc, calloc, realloc, xmalloc, strdup"])
