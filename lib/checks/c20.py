"""C20 - format-string parsing yields the arguments the format consumes."""
import json
import os

import core
from core import Report, ToolError, log
from common import TRUSTED, first_with

TRACE_SPEC = "trace/T_C20.tla"

MANIFEST = {
    "category": "model_checking",
    "text": "FormatString.tla is a generative state machine of the supported grammar (Lit, Esc, Conv with one optional flag, width, precision and the "
            "45 listed conversion/length forms).  TLC enumerates ALL token sequences up to length 3 over a reduced alphabet (literals x d 5 . l, "
            "the escape, 10 conversions plain and decorated), up to length 2 / 1 over richer alphabets (length 1: all 45 forms x 5 flags x 3 widths x 3 precisions) "
            "and simulates sequences up to length 12; it checks the machine against its folds and against an independent reader of the text "
            "(unique readability) and prints every behaviour, which the harness feeds to the real parse_format_string_parameters (spec->impl).  "
            "In the other direction 20000 (250000 thorough) random strings over the full grammar are parsed by the real code and T_C20 requires "
            "result = Expect(tokens) with the documented sizes, an error iff a long/long long/long double form occurs (impl->spec).",
    "note": "Trusted: TLC + CommunityModules, the token/text/result projection in harness/src/props/c20.rs (canary-checked; T_C20 re-checks "
            "text = Text(tokens)), FormatString.tla as transcription of the documented grammar and of Datatype::from.",
    "technique": "TLA+ generative state machine; TLC-enumerated behaviours replayed into the real parser + trace validation of recorded calls",
    "design_ref": "DESIGN.md section 6, C20",
}

# (cfg suffix, extra TLC args, workers)
QUICK = [("A", [], 4), ("B", [], 4), ("C", [], 2)]
THOROUGH = [("A", [], 4), ("B2", [], 8), ("C", [], 2), ("E", [], 8)]


def behaviours(rep, seed, tier):
    """Mode M: model-check the machine; collect the behaviours TLC printed."""
    lines = set()
    runs = QUICK if tier == "quick" else THOROUGH
    sim = ("S", ["-simulate", "num=%d" % (600 if tier == "quick" else 10000), "-depth", "13", "-seed", str(seed)], 1)
    exhaustive = {}
    for name, extra, workers in runs + [sim]:
        r = core.mc(rep, "mc/MC_FormatString.tla", "MC_FormatString_%s.cfg" % name, workers=workers, extra=extra,
                    coverage=(name == "A"), label="MC_FormatString_" + name, timeout=3000)
        n = 0
        for x in r.out.splitlines():
            if x.startswith('"{'):
                try:
                    b = json.loads(json.loads(x))
                except ValueError as e:
                    raise ToolError("unparsable behaviour line printed by TLC: %r" % x[:200]) from e
                lines.add(json.dumps(b, sort_keys=True))
                n += 1
        if n == 0:
            raise ToolError("MC_FormatString_%s printed no behaviour" % name)
        if name != "S":
            if n != r.distinct - 1:
                raise ToolError("MC_FormatString_%s: %d behaviours printed but %d states found" % (name, n, r.distinct))
            exhaustive[name] = n
        else:
            rep.cov["mc_runs"][-1]["simulated_behaviours_printed"] = n
    path = os.path.join(core.BUILD, "traces", "C20_behaviours.ndjson")
    os.makedirs(os.path.dirname(path), exist_ok=True)
    with open(path, "w") as f:
        for x in sorted(lines):
            f.write(x + "\n")
    log("[mc] %d distinct behaviours of FormatString.tla handed to the harness" % len(lines))
    return path, len(lines), exhaustive


def check(seed, tier):
    rep = Report("C20", seed, tier)
    core.build_harness()
    path, nbeh, exhaustive = behaviours(rep, seed, tier)
    os.environ["VERIF_C20_BEHAVIOURS"] = path
    shards = 8 if tier == "quick" else 16
    meta_t = core.gen("C20", seed, tier, shards=shards, sub="tlc")          # spec -> impl
    if meta_t["events"] != nbeh:
        raise ToolError("harness replayed %d of %d TLC behaviours" % (meta_t["events"], nbeh))
    core.validate_traces(rep, TRACE_SPEC, meta_t["files"], parallel=8, timeout=3600)
    meta_g = core.gen("C20", seed, tier, shards=shards)                     # impl -> spec
    core.validate_traces(rep, TRACE_SPEC, meta_g["files"], parallel=8, timeout=3600)

    def mutate(evs):
        # drop the last reported argument of a successfully parsed format
        i = first_with(evs, lambda e: e["ok"] and len(e["result"]) >= 1)
        if i is not None:
            evs[i]["result"].pop()
        return i
    core.canary(rep, TRACE_SPEC, meta_g["files"][0], mutate, n=1000)

    def mutate2(evs):
        # pretend a rejected format was parsed
        i = first_with(evs, lambda e: not e["ok"] and e["panic"] == "")
        if i is not None:
            evs[i]["ok"] = True
        return i
    core.canary(rep, TRACE_SPEC, meta_g["files"][0], mutate2, n=1000)
    rep.traces = meta_t["cases"] + meta_g["cases"]
    rep.events = meta_t["events"] + meta_g["events"]
    return rep.finish("model_checking", {
        "distinct_nontrivial": meta_t["distinct_nontrivial"] + meta_g["distinct_nontrivial"],
        "rule": "one event per call of parse_format_string_parameters (tokens, text, data type sizes, result); non-trivial = at least two "
                "conversions or an escape followed by another token; distinct = distinct event hashes",
        "samples": meta_g["samples"] + meta_t["samples"][:1],
        "exhaustive": True,
        "exhaustive_what": "all token sequences up to the instance's length over its alphabet (A: <=3, B/B2: <=2, C: <=1%s); behaviours per instance: %s"
                           % (", E: <=3 over 68 tokens" if tier != "quick" else "", json.dumps(exhaustive, sort_keys=True)),
        "tlc_behaviours_replayed_into_impl": nbeh, "generated_strings": meta_g["events"],
        "mc_runs": rep.cov.get("mc_runs"), "trusted_base": TRUSTED,
    }, ["the grammar is the one of the property statement: '%' [one of + - # 0] [digits] ['.' digits] form, form one of the 45 listed "
        "conversion/length forms; '%' occurs only as the start of an escape or of a conversion; everything else (including digits, dots and "
        "conversion letters after an escape) is literal text",
        "documented types: c C -> Char (size of int: argument promotion); d i u o p x X hi hd hu -> Integer; s S n -> Pointer; "
        "f F e E a A g G and their l-forms -> Double; li ld lu, lli lld llu, L-forms -> the whole format is rejected",
        "generated strings: up to 12 tokens; literal characters biased to characters that look like parts of a conversion, plus arbitrary Unicode scalar values",
        "data type sizes: x86-64 and 32-bit tables plus random tables (pairwise different sizes in a third of the events)"])
