"""C21 - the analyzer completes on every well-formed input and its output is well-formed."""
import shutil
import os
import core
from core import Report
from common import TRUSTED, first_with

TRACE_SPEC = "trace/T_C21.tla"
NEEDS_CLI = True

MANIFEST = {
    "category": "exploration",
    "text": "The real cwe_checker binary (built from the working tree with the hook guard) is run on generated P-Code projects + ELF "
            "images (ET_EXEC, ET_REL, kernel modules) with default, all-checks, single-check and random partial selections; TLC "
            "validates each invocation's hook events as a complete behaviour of the pipeline state machine Cli.tla ending in Printed "
            "with exit 0 and checks the --json output (parsable, known check with its version, canonical order). The machine itself "
            "is model-checked (MC_Cli). 'Every well-formed input' is explored by generation, not proved.",
    "note": "Trusted: TLC, the P-Code/ELF generators as producers of well-formed extractor output (Ghidra itself is not available; "
            "--pcode-raw replaces only the disassembly step), the order-preserving key encoding in harness/src/cli.rs, the hook in main.rs. "
            "For kernel-module inputs partial selections stay inside the modules configured in the shipped lkm_config.json.",
    "technique": "TLA+ pipeline state machine; TLC trace validation of real CLI runs (hook events) + bounded model checking",
    "design_ref": "DESIGN.md section 6, C21",
}


def check(seed, tier):
    rep = Report("C21", seed, tier)
    core.build_harness()
    core.build_cli()
    core.mc(rep, "mc/MC_Cli.tla", "MC_Cli.cfg", workers=4)
    meta = core.gen("C21", seed, tier, shards=8)
    core.validate_traces(rep, TRACE_SPEC, meta["files"], parallel=8, timeout=3600)

    def mutate(evs):
        # swap two adjacent warnings with different keys: the output is no longer in canonical order
        for i, e in enumerate(evs):
            w = e["warnings"]
            for j in range(len(w) - 1):
                if w[j]["key"] != w[j + 1]["key"]:
                    w[j], w[j + 1] = w[j + 1], w[j]
                    return i
        return None
    core.canary(rep, TRACE_SPEC, meta["files"][0], mutate, n=40)

    def mutate2(evs):
        # drop one `run` hook event: a selected check did not execute
        for i, e in enumerate(evs):
            for j, h in enumerate(e["hook"]):
                if h["ev"] == "run":
                    del e["hook"][j]
                    return i
        return None
    core.canary(rep, TRACE_SPEC, meta["files"][0], mutate2, n=40)
    rep.traces, rep.events = meta["cases"], meta["events"]
    core.keep_cli_inputs(rep)
    shutil.rmtree(os.path.join(core.BUILD, "cli_inputs", "C21"), ignore_errors=True)
    return rep.finish("exploration", {
        "distinct_nontrivial": meta["distinct_nontrivial"],
        "rule": "one case = one invocation of the real CLI binary on a generated project (1-6 functions, loops, extern/internal/indirect "
                "calls, stack/global accesses, sub-registers) with a selection (default / all / single / random subset incl. duplicate and "
                "empty names); non-trivial = the run printed at least one warning; distinct by event hash",
        "samples": [str(s)[:1500] for s in meta["samples"][:2]],
        "mc_runs": rep.cov.get("mc_runs"), "trusted_base": TRUSTED,
    }, ["inputs are generated, not disassembled by Ghidra: --pcode-raw replaces only the disassembly step",
        "120 s timeout per run; a timeout is reported as a violation"])
