"""Registry of the per-property check plans (lib/checks/cXX.py).  Each plan: build, generate,
model-check (M), validate traces (T), canary, evidence.  Nothing here decides a property: TLC does."""
import importlib
import os
import pkgutil

import core
from core import ToolError, log

import checks

MODULES = {}
for _m in pkgutil.iter_modules(checks.__path__):
    if _m.name[:1] in ("c", "x") and _m.name[1:].isdigit():   # cNN: listed properties, xNN: extended coverage
        mod = importlib.import_module("checks." + _m.name)
        if hasattr(mod, "check"):
            MODULES[_m.name.upper()] = mod
CHECKS = {k: m.check for k, m in MODULES.items()}


def replay(prop, path, seed, tier):
    """Re-execute the recorded inputs on the real code (current working tree) and re-validate with TLC."""
    mod = MODULES[prop]
    if hasattr(mod, "replay"):
        return mod.replay(path, seed, tier)
    core.build_harness()
    out = os.path.join(core.BUILD, "traces", prop + "_replay")
    if getattr(mod, "NEEDS_CLI", False):
        core.build_cli()
    genv = {"CWE_CHECKER_BIN": core.CLI_BIN, "CWE_CHECKER_SRC": os.path.join(core.REPO, "src"),
            "VERIF_SCRATCH": os.path.join(core.BUILD, "cli_inputs", prop + "_replay"), "VERIF_USE_FILES": "1"}
    p = core.sh([core.BIN, "replay", prop, path, "--out", out], cwd=core.ROOT, check=False, env=genv)
    if p.returncode != 0:
        raise ToolError("replay failed: " + p.stdout[-2000:])
    spec = mod.TRACE_SPEC
    f = os.path.join(out, "shard00.ndjson")
    r = core.tlc(spec, cfg=getattr(mod, "TRACE_CFG", os.path.basename(spec).replace(".tla", ".cfg")), trace=f, workers=1,
                 deque=getattr(mod, "TRACE_DEQUE", False))
    if r.error:
        raise ToolError(r.error)
    if r.bad or r.unconsumed or r.invariant:
        print("VIOLATION property=%s replay=%s" % (prop, path))
        log("\n".join(r.badlines[:5]) or r.out[-1500:])
        return 1
    print("replay accepted: the recorded inputs no longer violate %s" % prop)
    return 0
