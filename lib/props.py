"""Per-property check plans.  Each function: build, generate, model-check (M), validate traces (T),
canary, evidence.  Nothing here decides a property: TLC does."""
import json
import os

import core
from core import Report, ToolError, log

TRUSTED = ["TLC 2026.09.04 + CommunityModules (Json, IOUtils, Bitwise)",
           "harness/src/enc projections (exercised by the canary on every run)",
           "driver: counting and mapping TLC verdicts to exit codes"]


def _first_with(evs, pred, start=5):
    for i in list(range(start, len(evs))) + list(range(0, start)):
        if pred(evs[i]):
            return i
    return None


# ---------------------------------------------------------------------------------------------
def c01(seed, tier):
    rep = Report("C01", seed, tier)
    core.build_harness()
    core.mc(rep, "mc/MC_BV.tla", "MC_BV.cfg", workers=8)
    meta = core.gen("C01", seed, tier, shards=8 if tier == "quick" else 16)
    core.validate_traces(rep, "trace/T_C01.tla", meta["files"], parallel=8, timeout=3600)

    def mutate(evs):
        i = _first_with(evs, lambda e: e["res"])
        if i is not None:
            evs[i]["res"][0] ^= 1
        return i
    core.canary(rep, "trace/T_C01.tla", meta["files"][0], mutate)
    rep.traces, rep.events = meta["cases"], meta["events"]
    return rep.finish("model_checking", {
        "distinct_nontrivial": meta["distinct_nontrivial"],
        "rule": "every Bitvector::bin_op/un_op/cast/subpiece call is one event (operands, result, BitvectorDomain result, "
                "Expression::bytesize); non-trivial = the result is a value different from both operands and from zero; "
                "distinct = distinct event hashes",
        "samples": meta["samples"], "exhaustive": bool(meta["extra"].get("width1_exhaustive")),
        "width1_pairs_per_op": meta["extra"].get("width1_pairs_per_op"),
        "mc_runs": rep.cov.get("mc_runs"), "trusted_base": TRUSTED,
    }, ["widths 1,2,4,8,16 bytes; width 1 %s; wider widths boundary x boundary plus random operands" %
        ("exhaustive over all 65536 pairs of every binary operation" if tier == "thorough" else "33x33 boundary/random grid per operation (thorough tier: all 65536 pairs)"),
        "BV.tla is the reference; it is cross-checked against BVInt.tla on all 1-byte operands by MC_BV in the same run",
        "shift amounts wider than 8 bytes and BoolNegate of non-boolean inputs are outside the input class (the code asserts)"])


CHECKS = {"C01": c01}

TRACE_SPEC = {"C01": "trace/T_C01.tla"}


def replay(prop, path, seed, tier):
    """Re-execute the recorded inputs on the real code (current working tree) and re-validate with TLC."""
    core.build_harness()
    out = os.path.join(core.BUILD, "traces", prop + "_replay")
    p = core.sh([core.BIN, "replay", prop, path, "--out", out], cwd=core.ROOT, check=False)
    if p.returncode != 0:
        raise ToolError("replay failed: " + p.stdout[-2000:])
    spec = TRACE_SPEC[prop]
    f = os.path.join(out, "shard00.ndjson")
    r = core.tlc(spec, cfg=os.path.basename(spec).replace(".tla", ".cfg"), trace=f, workers=1)
    if r.error:
        raise ToolError(r.error)
    if r.bad or r.unconsumed or r.invariant:
        print("VIOLATION property=%s replay=%s" % (prop, path))
        log(r.out[-1500:])
        return 1
    print("replay accepted: the recorded inputs no longer violate %s" % prop)
    return 0
