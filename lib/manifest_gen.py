#!/usr/bin/env python3
"""Regenerates /verif/MANIFEST.json from the table below (single source of truth)."""
import json
import os

ROOT = os.path.dirname(os.path.dirname(os.path.abspath(__file__)))

import sys
sys.path.insert(0, os.path.join(ROOT, "lib"))
import props as registry  # noqa: E402

PENDING_REASON = "check not built yet (in progress, see DESIGN.md section 9)"
NOT_APPLICABLE = {}   # id -> reason, for properties that are deliberately not claimed

def main():
    props = [json.loads(l) for l in open(os.path.join(ROOT, "properties.jsonl"))]
    checks, na = [], []
    for p in props:
        i = p["id"]
        if i in registry.MODULES and hasattr(registry.MODULES[i], "MANIFEST"):
            mm = registry.MODULES[i].MANIFEST
            cat, text, note, tech, ref = mm["category"], mm["text"], mm["note"], mm["technique"], mm["design_ref"]
            checks.append({
                "property_id": i,
                "quick_cmd": "bin/check %s --tier quick" % i,
                "thorough_cmd": "bin/check %s --tier thorough" % i,
                "evidence_file": "/verif/evidence/%s.json" % i,
                "replay_cmd_template": "bin/check %s --replay {path}" % i,
                "engine": "tlc",
                "level_claimed": {"category": cat, "text": text, "design_ref": ref},
                "level_note": note,
                "technique": tech,
            })
        else:
            na.append({"property_id": i, "reason": NOT_APPLICABLE.get(i, PENDING_REASON)})
    m = {
        "version": 1,
        "setup_cmd": "bin/setup",
        "hooks": {
            "guard": "cwe_checker_verif",
            "enable": "rustc --cfg cwe_checker_verif (set in /verif/harness/.cargo/config.toml and by lib/core.py build_cli via RUSTFLAGS)",
            "baseline_off_cmd": "cd /repo && cargo test --workspace --no-fail-fast --offline",
            "source_commits": json.load(open(os.path.join(ROOT, "lib", "hook_commits.json"))) if os.path.exists(os.path.join(ROOT, "lib", "hook_commits.json")) else [],
            "add_only": True,
        },
        "engines": [{"name": "tlc", "path": "/verif/bin/check", "serves_properties": sorted(c["property_id"] for c in checks),
                     "kind_free_text": "explicit TLA+ specification (/verif/spec) checked by TLC: bounded model checking of the specification "
                                       "plus trace validation of executions recorded from the real code by the Rust harness /verif/harness"}],
        "checks": checks,
        "notes": "All checks: exit 0 held / exit 1 + VIOLATION line / exit 2 tool error. Known findings and fixed defects: /verif/known_findings.json. Seeded changes: /verif/seeded. Extended coverage of the specification beyond the listed properties (bin/check X01 ... X08, not claimed here): DESIGN.md section 11.5. See DESIGN.md.",
        "not_applicable": na,
    }
    json.dump(m, open(os.path.join(ROOT, "MANIFEST.json"), "w"), indent=1)
    print("MANIFEST.json: %d checks, %d not yet claimed" % (len(checks), len(na)))


if __name__ == "__main__":
    main()
