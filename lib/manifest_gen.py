#!/usr/bin/env python3
"""Regenerates /verif/MANIFEST.json from the table below (single source of truth)."""
import json
import os

ROOT = os.path.dirname(os.path.dirname(os.path.abspath(__file__)))

# id -> (category, text, level_note, technique, design_ref)
CLAIMED = {
    "C01": ("model_checking",
            "TLC evaluates the TLA+ reference semantics BV.tla on every recorded call of the real constant-folding code "
            "(exhaustive over all 1-byte operand pairs in the thorough tier, boundary-crossed and random operands at 2/4/8/16 bytes) "
            "and model-checks BV.tla against the independent integer transcription BVInt.tla on all 65536 1-byte pairs; "
            "bounded: wider widths are sampled.",
            "Trusted: TLC + CommunityModules Json/IOUtils/Bitwise, the byte-array projection in harness/src/enc (canary-checked every run), "
            "BV.tla as transcription of the P-Code manual (cross-checked against BVInt.tla).",
            "TLA+ reference semantics + TLC trace validation of recorded calls", "DESIGN.md section 6, C01"),
}

PENDING_REASON = "check not built yet (in progress, see DESIGN.md section 9)"


def main():
    props = [json.loads(l) for l in open(os.path.join(ROOT, "properties.jsonl"))]
    checks, na = [], []
    for p in props:
        i = p["id"]
        if i in CLAIMED:
            cat, text, note, tech, ref = CLAIMED[i]
            checks.append({
                "property_id": i,
                "quick_cmd": "bin/check %s --tier quick" % i,
                "thorough_cmd": "bin/check %s --tier thorough" % i,
                "evidence_file": "/verif/evidence/%s.json" % i,
                "replay_cmd_template": "bin/check %s --replay {path}" % i,
                "engine": "tlc",
                "level_claimed": {"category": cat, "text": text, "design_ref": ref},
                "level_note": note,
                "technique": tech,
            })
        else:
            na.append({"property_id": i, "reason": PENDING_REASON})
    m = {
        "version": 1,
        "setup_cmd": "bin/setup",
        "hooks": {
            "guard": "cwe_checker_verif",
            "enable": "rustc --cfg cwe_checker_verif (set in /verif/harness/.cargo/config.toml and by lib/core.py build_cli via RUSTFLAGS)",
            "baseline_off_cmd": "cd /repo && cargo test --workspace --no-fail-fast --offline",
            "source_commits": json.load(open(os.path.join(ROOT, "lib", "hook_commits.json"))) if os.path.exists(os.path.join(ROOT, "lib", "hook_commits.json")) else [],
            "add_only": True,
        },
        "engines": [{"name": "tlc", "path": "/verif/bin/check", "serves_properties": sorted(CLAIMED),
                     "kind_free_text": "explicit TLA+ specification (/verif/spec) checked by TLC: bounded model checking of the specification "
                                       "plus trace validation of executions recorded from the real code by the Rust harness /verif/harness"}],
        "checks": checks,
        "notes": "All checks: exit 0 held / exit 1 + VIOLATION line / exit 2 tool error. Known findings and fixed defects: /verif/known_findings.json. See DESIGN.md.",
        "not_applicable": na,
    }
    json.dump(m, open(os.path.join(ROOT, "MANIFEST.json"), "w"), indent=1)
    print("MANIFEST.json: %d checks, %d not yet claimed" % (len(checks), len(na)))


if __name__ == "__main__":
    main()
