"""Strict canary for the soundness-relation checks (C02-C04): take n recorded events that satisfy
`eligible`, (1) TLC must ACCEPT them unchanged, (2) after `mutate` has shrunk ONE recorded output, TLC
must reject exactly that event.  Anything else is a tool error (vacuous specification / broken binding),
never a pass."""
import json
import os

import core
from core import ToolError


def run(rep, module, shard, eligible, mutate, n=30, cfg=None):
    evs = []
    with open(shard) as f:
        for line in f:
            e = json.loads(line)
            if eligible(e):
                evs.append(e)
                if len(evs) >= n:
                    break
    if not evs:
        raise ToolError("canary: no eligible event in %s" % shard)
    cfg = cfg or os.path.basename(module).replace(".tla", ".cfg")
    base = os.path.join(core.BUILD, "traces", "canary_%s" % rep.prop)

    def tlc_on(name, events):
        path = "%s_%s.ndjson" % (base, name)
        with open(path, "w") as g:
            for e in events:
                g.write(json.dumps(e) + "\n")
        r = core.tlc(module, cfg=cfg, trace=path, workers=1, timeout=900)
        if r.error:
            raise ToolError("canary: TLC error:\n" + r.error)
        return r
    r0 = tlc_on("orig", evs)
    if r0.unconsumed or r0.invariant:
        raise ToolError("canary: the unmodified canary events are not consumed")
    if r0.bad:
        # events the specification rejects as recorded are violations reported by the main validation
        # (they are in the shard); the canary needs ACCEPTED events: drop them and re-check the rest
        evs = [e for i, e in enumerate(evs) if i + 1 not in r0.bad]
        if not evs:
            if rep.violations:
                rep.notes.append("canary skipped: every candidate event of this run is itself rejected (see violations)")
                return False
            raise ToolError("canary: no accepted event to corrupt")
        r0 = tlc_on("orig", evs)
        if r0.bad or r0.unconsumed or r0.invariant:
            raise ToolError("canary: the unmodified canary events are not accepted (events %s)" % r0.bad)
    idx = mutate(evs)
    if idx is None:
        raise ToolError("canary: mutate found nothing to corrupt")
    r1 = tlc_on("mut", evs)
    if r1.bad != [idx + 1]:
        raise ToolError("canary: corrupted output of event %d was not rejected (rejected: %s) - the specification is vacuous "
                        "for this event kind" % (idx + 1, r1.bad))
    rep.add_tlc(r0)
    rep.add_tlc(r1)
    rep.notes.append("canary: %d recorded events accepted unchanged; after shrinking the recorded result of event %d, %s rejected exactly "
                     "that event" % (len(evs), idx + 1, os.path.basename(module)))
    return True
