// Minimal reproduction of the two X03 findings (dead variable elimination removes live assignments).
// Place at: src/cwe_checker_lib/tests/repro_x03.rs
// Run with: cargo test -p cwe_checker_lib --offline --test repro_x03
// Both tests FAIL on the unpatched tree and pass with findings/X03/dve_fix.diff.
use cwe_checker_lib::analysis::dead_variable_elimination::remove_dead_var_assignments;
use cwe_checker_lib::intermediate_representation::*;
use std::collections::{BTreeMap, BTreeSet};

fn reg(name: &str) -> Variable {
    Variable { name: name.to_string(), size: ByteSize::new(8), is_temp: false }
}
fn tmp(name: &str) -> Variable {
    Variable { name: name.to_string(), size: ByteSize::new(8), is_temp: true }
}
fn cst(x: u64) -> Expression {
    Expression::Const(Bitvector::from_u64(x))
}
fn assign(tid: &str, var: Variable, value: Expression) -> Term<Def> {
    Term { tid: Tid::new(tid), term: Def::Assign { var, value } }
}
fn blk(tid: &str, defs: Vec<Term<Def>>, jmps: Vec<Term<Jmp>>) -> Term<Blk> {
    Term { tid: Tid::new(tid), term: Blk { defs, jmps, indirect_jmp_targets: vec![] } }
}
fn jmp(tid: &str, term: Jmp) -> Term<Jmp> {
    Term { tid: Tid::new(tid), term }
}
fn project(blocks: Vec<Term<Blk>>) -> Project {
    let sub = Term { tid: Tid::new("sub_f"), term: Sub { name: "f".to_string(), blocks, calling_convention: None } };
    let program = Program {
        subs: BTreeMap::from([(sub.tid.clone(), sub)]),
        extern_symbols: BTreeMap::new(),
        entry_points: BTreeSet::new(),
        address_base_offset: 0,
    };
    Project {
        program: Term { tid: Tid::new("prog"), term: program },
        cpu_architecture: "x86_64".to_string(),
        stack_pointer_register: reg("RSP"),
        calling_conventions: BTreeMap::new(),
        register_set: [reg("RAX"), reg("RBX"), reg("RSP")].into_iter().collect(),
        datatype_properties: DatatypeProperties {
            char_size: ByteSize::new(1), double_size: ByteSize::new(8), float_size: ByteSize::new(4),
            integer_size: ByteSize::new(4), long_double_size: ByteSize::new(8), long_long_size: ByteSize::new(8),
            long_size: ByteSize::new(8), pointer_size: ByteSize::new(8), short_size: ByteSize::new(2),
        },
        runtime_memory_image: RuntimeMemoryImage::empty(true),
    }
}
fn def_tids(p: &Project) -> Vec<String> {
    p.program.term.subs.values().flat_map(|s| s.term.blocks.iter()).flat_map(|b| b.term.defs.iter()).map(|d| d.tid.to_string()).collect()
}

/// b0: RAX := 1 ; if RBX == 0 goto b1 ; return        (conditional return: RAX = 1 is returned)
/// b1: RAX := 2 ; return
#[test]
fn register_read_by_conditional_return_is_live() {
    let cond = Expression::BinOp { op: BinOpType::IntEqual, lhs: Box::new(Expression::Var(reg("RBX"))), rhs: Box::new(cst(0)) };
    let mut p = project(vec![
        blk("b0", vec![assign("d0", reg("RAX"), cst(1))],
            vec![jmp("j0", Jmp::CBranch { target: Tid::new("b1"), condition: cond }), jmp("j1", Jmp::Return(cst(0x4000)))]),
        blk("b1", vec![assign("d1", reg("RAX"), cst(2))], vec![jmp("j2", Jmp::Return(cst(0x4000)))]),
    ]);
    remove_dead_var_assignments(&mut p);
    assert_eq!(def_tids(&p), vec!["d0", "d1"], "RAX := 1 reaches the return of b0 and must be kept");
}

/// b0: $t := RBX + 8 ; return $t                      (the return target is computed into a temporary)
#[test]
fn temporary_read_by_return_target_is_live() {
    let e = Expression::BinOp { op: BinOpType::IntAdd, lhs: Box::new(Expression::Var(reg("RBX"))), rhs: Box::new(cst(8)) };
    let mut p = project(vec![blk("b0", vec![assign("d0", tmp("$t"), e)], vec![jmp("j0", Jmp::Return(Expression::Var(tmp("$t"))))])]);
    remove_dead_var_assignments(&mut p);
    assert_eq!(def_tids(&p), vec!["d0"], "$t is read by the return and must be kept");
}
