---------------------------- MODULE InterprocFix ----------------------------
(***************************************************************************)
(* X01 - the INTERPROCEDURAL fixpoint wrappers of cwe_checker              *)
(*   analysis/forward_interprocedural_fixpoint.rs                          *)
(*   analysis/backward_interprocedural_fixpoint/mod.rs                     *)
(*   analysis/interprocedural_fixpoint_generic.rs                          *)
(* which lift a USER ANALYSIS (the methods of the trait `Context`) to node *)
(* values over the interprocedural control flow graph of a program.        *)
(*                                                                         *)
(* STATEMENT (what must always hold, over which inputs).                   *)
(* For every well-formed normalised program P (Cfg!WellFormed), every user *)
(* analysis A over a finite join-semilattice whose call-backs are monotone *)
(* in the order extended by None (= "no information", below everything),   *)
(* every set of start values on value-carrying nodes, either direction and *)
(* every constructor (create_computation, .._with_bottom_up_worklist_      *)
(* order, .._with_top_down_worklist_order):                                *)
(*  (R) compute() returns without panic with an empty worklist, and the    *)
(*      node values are exactly LFP(P, A, dir, start, default): the least  *)
(*      assignment above the start values that is closed under the edge    *)
(*      equations EdgeSystem(P, A, dir) below - one equation per edge of   *)
(*      Cfg!Graph(P), the call-back(s) and their arguments determined by   *)
(*      the edge kind as the wrappers' documentation says;                 *)
(*  (S) every call-back invocation made on the way is one these equations  *)
(*      prescribe: its arguments are those of an edge of the graph, the    *)
(*      `Def`s of a block are folded in block order (reverse order         *)
(*      backwards) and the fold stops at the first None, a conditional is  *)
(*      specialised before its jump is updated and the jump is skipped     *)
(*      when the specialisation is None, and the value handed to the head  *)
(*      of such a chain is below the least solution at the edge's source.  *)
(* Nothing else is demanded: neither an evaluation order, nor how often an *)
(* edge is evaluated, nor anything about compute_with_max_steps.           *)
(*                                                                         *)
(* NODE VALUES (interprocedural_fixpoint_generic.rs: enum NodeValue).      *)
(* A node value is a triple <<p, s, f>>:                                   *)
(*    <<0,0,0>>  no value        <<1,v,0>>  NodeValue::Value(v), v in 1..K *)
(*    <<2,s,f>>  CallFlowCombinator{call_stub: s, interprocedural_flow: f} *)
(*               (0 = None in either component)                            *)
(* Forward:  CallReturn nodes carry combinators, all other nodes values.   *)
(* Backward: CallSource nodes carry combinators, all other nodes values.   *)
(*                                                                         *)
(* EDGE EQUATIONS.  x = value at the node the information comes from.      *)
(* Forward (information flows src -> dst of the edge):                     *)
(*   Block          fold of update_def over the block's defs, in order     *)
(*   Jump           cbranch itself: specialize_conditional(x, c, blk, T);  *)
(*                  jump behind an untaken cbranch: spec..(x, c, blk, F);  *)
(*                  then update_jump(., jump, untaken, target block)       *)
(*   CallCombine    identity                                               *)
(*   Call           update_call(x, call, callee entry node, callee cconv)  *)
(*   CrCallStub     Comb(x, None)         CrReturnStub   Comb(None, x)     *)
(*   ReturnCombine  update_return(x.f, x.s, call, the Return instruction   *)
(*                  of the returning block, callee cconv): the user sees   *)
(*                  which of the two values exist and alone decides        *)
(*                  whether a return is propagated when one is missing     *)
(*   ExternCallStub update_call_stub(x, call)                              *)
(* Backward (reversed graph: information flows dst -> src of the edge):    *)
(*   Block          fold of update_def over the defs in REVERSE order      *)
(*   Jump           update_jumpsite(x, jump, untaken, jump-site block)     *)
(*   ReturnCombine  identity                                               *)
(*   Call           Comb(None, x)                                          *)
(*   CrCallStub     Comb(split_call_stub(x), None)  - a combinator even    *)
(*                  when split_call_stub answers None                      *)
(*   CrReturnStub   split_return_stub(x, returned-from function)           *)
(*   CallCombine    update_callsite(x.f, x.s, caller function, first jump  *)
(*                  of the call-site block, jump carried by the edge)      *)
(*   ExternCallStub update_call_stub(x, call)                              *)
(* Values are merged with the user's merge; combinators component-wise     *)
(* (merge_option).                                                         *)
(*                                                                         *)
(* USER ANALYSIS ENCODING (table driven; produced by harness latgen.rs /   *)
(* props/x01.rs or written by hand in mc/MC_InterprocFix.tla):             *)
(*   A = [join |-> K x K join table,                                       *)
(*        t1 |-> <<[f,a,b,c,d, t |-> <<t[1..K]>>]>>   call-backs of one    *)
(*               value: t[x] in 0..K (0 = None)                            *)
(*        t2 |-> <<[f,a,b,c,d, t |-> (K+1) x (K+1)]>> call-backs of two    *)
(*               optional values: t[flow+1][stub+1] in 0..K ]              *)
(* The key <<f,a,b,c,d>> names the call-back and the arguments it depends  *)
(* on (all strings, unused ones ""):                                       *)
(*   forward   def(def tid)   spec(block tid, condition, "T"|"F")          *)
(*             jump(jump tid, untaken tid, target block tid)               *)
(*             call(call tid, callee entry block, callee tid, cconv)       *)
(*             ret(call tid, return-instruction tid, callee cconv)   [t2]  *)
(*             stub(call tid)                                              *)
(*   backward  def(def tid)   jumpsite(jump tid, untaken tid, site block)  *)
(*             callsite(caller tid, first jump of site, edge jump)   [t2]  *)
(*             splitcall()   splitret(returned-from function tid)          *)
(*             stub(call tid)                                              *)
(* Definitions only; bounded instance: mc/MC_InterprocFix, trace binding:  *)
(* trace/T_X01.                                                            *)
(***************************************************************************)
EXTENDS Cfg, TLC

----------------------------------------------------------------------------
(* The lattice, extended by None = 0 as least element                      *)
XK(A) == Len(A.join)
XLat(A) == 1..Len(A.join)
XLeq(A, a, b) == A.join[a][b] = b
XLeqN(A, a, b) == a = 0 \/ (b # 0 /\ A.join[a][b] = b)
XJoinN(A, a, b) == IF a = 0 THEN b ELSE IF b = 0 THEN a ELSE A.join[a][b]

(* Node values                                                             *)
Absent == <<0, 0, 0>>
ValT(v) == IF v = 0 THEN Absent ELSE <<1, v, 0>>
CombT(s, f) == <<2, s, f>>
XJoinT(A, x, y) ==
  IF x[1] = 0 THEN y ELSE IF y[1] = 0 THEN x
  ELSE <<IF x[1] >= y[1] THEN x[1] ELSE y[1], XJoinN(A, x[2], y[2]), XJoinN(A, x[3], y[3])>>
XLeqT(A, x, y) == x[1] = 0 \/ (x[1] = y[1] /\ XLeqN(A, x[2], y[2]) /\ XLeqN(A, x[3], y[3]))
RECURSIVE XJoinSetT(_, _)
XJoinSetT(A, S) == IF S = {} THEN Absent
                   ELSE LET x == CHOOSE y \in S : TRUE IN XJoinT(A, x, XJoinSetT(A, S \ {x}))

----------------------------------------------------------------------------
(* The class of user analyses the statement quantifies over                *)
XIsSemilattice(A) ==
  /\ Len(A.join) >= 1
  /\ \A a \in XLat(A) : Len(A.join[a]) = XK(A) /\ \A b \in XLat(A) : A.join[a][b] \in XLat(A)
  /\ \A a \in XLat(A) : A.join[a][a] = a
  /\ \A a, b \in XLat(A) : A.join[a][b] = A.join[b][a]
  /\ \A a, b, c \in XLat(A) : A.join[A.join[a][b]][c] = A.join[a][A.join[b][c]]
Table1OK(A, t) == Len(t) = XK(A) /\ \A x \in XLat(A) : t[x] \in 0..XK(A)
Mono1(A, t) == \A x, y \in XLat(A) : XLeq(A, x, y) => XLeqN(A, t[x], t[y])
Table2OK(A, t) == /\ Len(t) = XK(A) + 1
                  /\ \A i \in 1..XK(A) + 1 : Len(t[i]) = XK(A) + 1 /\ \A j \in 1..XK(A) + 1 : t[i][j] \in 0..XK(A)
\* monotone in each argument separately (= monotone in the product order)
Mono2(A, t) ==
  \A i, j, j2 \in 0..XK(A) :
    XLeqN(A, j, j2) => /\ XLeqN(A, t[i + 1][j + 1], t[i + 1][j2 + 1])
                       /\ XLeqN(A, t[j + 1][i + 1], t[j2 + 1][i + 1])
AnalysisInClass(A) ==
  /\ XIsSemilattice(A)
  /\ \A i \in DOMAIN A.t1 : Table1OK(A, A.t1[i].t) /\ Mono1(A, A.t1[i].t)
  /\ \A i \in DOMAIN A.t2 : Table2OK(A, A.t2[i].t) /\ Mono2(A, A.t2[i].t)

----------------------------------------------------------------------------
(* Call-back keys and table lookup                                         *)
Key(f, a, b, c, d) == <<f, a, b, c, d>>
NoKey == Key("", "", "", "", "")
KeyOfEntry(e) == Key(e.f, e.a, e.b, e.c, e.d)
\* key -> table, for a sequence of table entries (the first entry of a key counts)
TabFun(entries) ==
  LET ks == {KeyOfEntry(entries[i]) : i \in DOMAIN entries}
  IN  [k \in ks |-> entries[CHOOSE i \in DOMAIN entries :
                              /\ KeyOfEntry(entries[i]) = k
                              /\ \A j \in DOMAIN entries : KeyOfEntry(entries[j]) = k => i <= j].t]
Ident(K) == [x \in 1..K |-> x]
Blocked(K) == [x \in 1..K |-> 0]
Blocked2(K) == [i \in 1..K + 1 |-> [j \in 1..K + 1 |-> 0]]
Get1(T1, k, K) == IF k \in DOMAIN T1 THEN T1[k] ELSE Blocked(K)
Get2(T2, k, K) == IF k \in DOMAIN T2 THEN T2[k] ELSE Blocked2(K)
\* composition of one-value tables, left to right, stopping at None
RECURSIVE RunTabs(_, _, _)
RunTabs(ts, i, v) == IF v = 0 \/ i > Len(ts) THEN v ELSE RunTabs(ts, i + 1, ts[i][v])
ComposeTabs(ts, K) == [x \in 1..K |-> RunTabs(ts, 1, x)]
Reverse(s) == [i \in 1..Len(s) |-> s[Len(s) + 1 - i]]

----------------------------------------------------------------------------
(* Program accessors on top of Cfg.tla                                     *)
SubOfTid(P, t) == P.subs[SubByTid(P, t)]
JmpByTid(blk, t) == blk.jmps[CHOOSE j \in DOMAIN blk.jmps : blk.jmps[j].tid = t]
\* the condition a conditional branch tests, as the string the key carries
CondSig(j) == IF j.c.k = "var" THEN j.c.v.n ELSE "?"
\* the Return instruction of a returning block
ReturnJmpTid(blk) == blk.jmps[CHOOSE j \in DOMAIN blk.jmps : blk.jmps[j].k = "return"].tid
DefKey(d) == Key("def", d.tid, "", "", "")

(* One compiled equation: information flows from node `from` to node `to`; *)
(*   kind "val"    to gets ValT(t[1][x.s])                                 *)
(*        "mkstub" to gets CombT(t[1][x.s], 0)                             *)
(*        "mkflow" to gets CombT(0, t[1][x.s])                             *)
(*        "comb"   to gets ValT(t[x.f + 1][x.s + 1])                       *)
(*   hkey = key of the call-back that receives x (NoKey: none is made)     *)
(*   ckey = key of the call-back that continues the chain (Jump edges with *)
(*          a specialisation), keys = every table the equation reads       *)
CE(from, to, kind, t, hkey, ckey, keys) ==
  [from |-> from, to |-> to, kind |-> kind, t |-> t, hkey |-> hkey, ckey |-> ckey, keys |-> keys]

FwdEdge(P, T1, T2, K, e) ==
  CASE e.k = "Block" ->
         LET defs == BlkOfNode(P, e.src).defs
             ks == [i \in DOMAIN defs |-> DefKey(defs[i])]
         IN  CE(e.src, e.dst, "val", <<ComposeTabs([i \in DOMAIN defs |-> Get1(T1, ks[i], K)], K)>>,
                IF Len(defs) = 0 THEN NoKey ELSE ks[1], NoKey, {ks[i] : i \in DOMAIN ks})
    [] e.k = "Jump" ->
         LET blk == BlkOfNode(P, e.src)
             j == JmpByTid(blk, e.jmp)
             jk == Key("jump", e.jmp, e.untaken, e.dst.blk, "")
             sk == IF j.k = "cbranch" THEN Key("spec", e.src.blk, CondSig(j), "T", "")
                   ELSE IF e.untaken # NoTid THEN Key("spec", e.src.blk, CondSig(JmpByTid(blk, e.untaken)), "F", "")
                   ELSE NoKey
         IN  IF sk = NoKey
               THEN CE(e.src, e.dst, "val", <<Get1(T1, jk, K)>>, jk, NoKey, {jk})
               ELSE CE(e.src, e.dst, "val", <<ComposeTabs(<<Get1(T1, sk, K), Get1(T1, jk, K)>>, K)>>, sk, jk, {sk, jk})
    [] e.k = "CallCombine" -> CE(e.src, e.dst, "val", <<Ident(K)>>, NoKey, NoKey, {})
    [] e.k = "Call" ->
         LET k == Key("call", e.jmp, e.dst.blk, e.dst.sub, SubOfTid(P, e.dst.sub).cconv)
         IN  CE(e.src, e.dst, "val", <<Get1(T1, k, K)>>, k, NoKey, {k})
    [] e.k = "CrCallStub" -> CE(e.src, e.dst, "mkstub", <<Ident(K)>>, NoKey, NoKey, {})
    [] e.k = "CrReturnStub" -> CE(e.src, e.dst, "mkflow", <<Ident(K)>>, NoKey, NoKey, {})
    [] e.k = "ReturnCombine" ->
         LET rblk == BlockFor(P, SubByTid(P, e.src.sub2), e.src.blk2)
             k == Key("ret", e.jmp, ReturnJmpTid(rblk), SubOfTid(P, e.src.sub2).cconv, "")
         IN  CE(e.src, e.dst, "comb", Get2(T2, k, K), k, NoKey, {k})
    [] e.k = "ExternCallStub" ->
         LET k == Key("stub", e.jmp, "", "", "")
         IN  CE(e.src, e.dst, "val", <<Get1(T1, k, K)>>, k, NoKey, {k})

BwdEdge(P, T1, T2, K, e) ==
  CASE e.k = "Block" ->
         LET defs == Reverse(BlkOfNode(P, e.src).defs)
             ks == [i \in DOMAIN defs |-> DefKey(defs[i])]
         IN  CE(e.dst, e.src, "val", <<ComposeTabs([i \in DOMAIN defs |-> Get1(T1, ks[i], K)], K)>>,
                IF Len(defs) = 0 THEN NoKey ELSE ks[1], NoKey, {ks[i] : i \in DOMAIN ks})
    [] e.k = "Jump" ->
         LET k == Key("jumpsite", e.jmp, e.untaken, e.src.blk, "")
         IN  CE(e.dst, e.src, "val", <<Get1(T1, k, K)>>, k, NoKey, {k})
    [] e.k = "ReturnCombine" -> CE(e.dst, e.src, "val", <<Ident(K)>>, NoKey, NoKey, {})
    [] e.k = "Call" -> CE(e.dst, e.src, "mkflow", <<Ident(K)>>, NoKey, NoKey, {})
    [] e.k = "CrCallStub" ->
         LET k == Key("splitcall", "", "", "", "")
         IN  CE(e.dst, e.src, "mkstub", <<Get1(T1, k, K)>>, k, NoKey, {k})
    [] e.k = "CrReturnStub" ->
         LET k == Key("splitret", e.src.sub, "", "", "")
         IN  CE(e.dst, e.src, "val", <<Get1(T1, k, K)>>, k, NoKey, {k})
    [] e.k = "CallCombine" ->
         LET site == BlkOfNode(P, e.src)
             k == Key("callsite", e.src.sub, site.jmps[1].tid, e.jmp, "")
         IN  CE(e.dst, e.src, "comb", Get2(T2, k, K), k, NoKey, {k})
    [] e.k = "ExternCallStub" ->
         LET k == Key("stub", e.jmp, "", "", "")
         IN  CE(e.dst, e.src, "val", <<Get1(T1, k, K)>>, k, NoKey, {k})

\* the nodes that carry plain values in direction dir (the others carry combinators)
IsValueNode(dir, n) == IF dir = "fwd" THEN n.k # "CallReturn" ELSE n.k # "CallSource"

\* position of every Def in its chain: def tid -> [i, n, next] (chain order = block order forwards,
\* reverse block order backwards; next = tid of the Def the fold continues with, "" at the end)
DefChains(P, N, dir) ==
  LET starts == {n \in N : n.k = "BlkStart"}
      recs == UNION {LET ds == IF dir = "fwd" THEN BlkOfNode(P, n).defs ELSE Reverse(BlkOfNode(P, n).defs)
                     IN  {[tid |-> ds[i].tid, i |-> i, n |-> Len(ds),
                           next |-> IF i < Len(ds) THEN ds[i + 1].tid ELSE ""] : i \in DOMAIN ds}
                     : n \in starts}
  IN  [t \in {r.tid : r \in recs} |-> CHOOSE r \in recs : r.tid = t]

(***************************************************************************)
(* The equation system of (P, A, dir) with start values:                   *)
(*   start   = <<[node |-> node record, v |-> 1..K]>> (set_node_value with *)
(*             NodeValue::Value(v)), default = 0..K (0: none)              *)
(* A start value replaces the default value of its node.  The default      *)
(* value is given to the value-carrying nodes only: a combinator node has  *)
(* no plain value to default to.                                           *)
(***************************************************************************)
EdgeSystemG(P, G, A, dir, start, default) ==
  LET N == DOMAIN G.nodes
      K == XK(A)
      T1 == TLCEval(TabFun(A.t1))
      T2 == TLCEval(TabFun(A.t2))
      ces == TLCEval({IF dir = "fwd" THEN FwdEdge(P, T1, T2, K, e) ELSE BwdEdge(P, T1, T2, K, e) : e \in DOMAIN G.edges})
      used == UNION {c.keys : c \in ces}
      startv(n) == IF \E i \in DOMAIN start : start[i].node = n
                     THEN ValT(start[CHOOSE i \in DOMAIN start : start[i].node = n /\ \A j \in DOMAIN start : start[j].node = n => j <= i].v)
                   ELSE IF default # 0 /\ IsValueNode(dir, n) THEN ValT(default)
                   ELSE Absent
  IN  [nodes |-> N,
       dir |-> dir,
       ces |-> ces,
       inc |-> TLCEval([n \in N |-> {c \in ces : c.to = n}]),
       init |-> TLCEval([n \in N |-> startv(n)]),
       keys |-> used,
       \* tables the analysis does not provide (a defect of the harness, not of the wrappers)
       missing |-> {k \in used : k \notin (DOMAIN T1) \cup (DOMAIN T2)},
       \* key of a chain head -> the nodes its input is read from
       heads |-> TLCEval([k \in {c.hkey : c \in ces} \ {NoKey} |-> {c.from : c \in {x \in ces : x.hkey = k}}]),
       \* key of a chain head that is continued -> key of the continuation
       conts |-> TLCEval([k \in {c.hkey : c \in {x \in ces : x.ckey # NoKey}} |-> {c.ckey : c \in {x \in ces : x.hkey = k}}]),
       defs |-> TLCEval(DefChains(P, N, dir)),
       t1 |-> T1, t2 |-> T2,
       \* the statement is about the graph of a well-formed program (Cfg!WellFormed(P), to be checked by
       \* the caller BEFORE this operator is applied): every node once, start values on value-carrying
       \* nodes of the graph
       wf |-> /\ \A n \in N : G.nodes[n] = 1
              /\ \A i \in DOMAIN start : start[i].node \in N /\ IsValueNode(dir, start[i].node) /\ start[i].v \in 1..K
              /\ default \in 0..K]

EdgeSystem(P, A, dir, start, default) == EdgeSystemG(P, Graph(P), A, dir, start, default)

\* the right-hand side of one equation
ApplyCE(c, x) ==
  IF x[1] = 0 THEN Absent
  ELSE CASE c.kind = "val"    -> ValT(c.t[1][x[2]])
         [] c.kind = "mkstub" -> CombT(c.t[1][x[2]], 0)
         [] c.kind = "mkflow" -> CombT(0, c.t[1][x[2]])
         [] c.kind = "comb"   -> ValT(c.t[x[3] + 1][x[2] + 1])

(* The least solution, by Kleene iteration over whole assignments          *)
KleeneStep(A, sys, a) ==
  [n \in sys.nodes |-> XJoinT(A, a[n], XJoinSetT(A, {ApplyCE(c, a[c.from]) : c \in sys.inc[n]}))]
RECURSIVE KleeneIter(_, _, _)
KleeneIter(A, sys, a) == LET b == KleeneStep(A, sys, a) IN IF b = a THEN a ELSE KleeneIter(A, sys, b)
LFPOf(A, sys) == KleeneIter(A, sys, sys.init)

\* the characterisation used by the statement
ClosedCE(A, a, c) == XLeqT(A, ApplyCE(c, a[c.from]), a[c.to])
IsSolution(A, sys, a) ==
  /\ \A n \in sys.nodes : XLeqT(A, sys.init[n], a[n])
  /\ \A c \in sys.ces : ClosedCE(A, a, c)

----------------------------------------------------------------------------
(* Call-back invocations (part S of the statement).                        *)
(* An invocation is [f,a,b,c,d (the key), x (input; the interprocedural-   *)
(* flow value for ret/callsite), y (the call-stub value for ret/callsite,  *)
(* else 0), o (answer)].  `prev` is the invocation before it in the same   *)
(* run (NoCb at the beginning).  merge(x, y) = o is an invocation too.     *)
(***************************************************************************)
NoCb == [f |-> "", a |-> "", b |-> "", c |-> "", d |-> "", x |-> 0, y |-> 0, o |-> 0]
CbKey(e) == Key(e.f, e.a, e.b, e.c, e.d)
IsTwo(e) == e.f \in {"ret", "callsite"}
\* the answer the analysis' table prescribes for this invocation ("OUTSIDE" the statement if the
\* recorded answer differs: then the table-driven Context of the harness is broken, not the wrapper)
TableAnswer(A, sys, e) ==
  IF e.f = "merge" THEN A.join[e.x][e.y]
  ELSE IF IsTwo(e) THEN Get2(sys.t2, CbKey(e), XK(A))[e.x + 1][e.y + 1]
  ELSE Get1(sys.t1, CbKey(e), XK(A))[e.x]

\* what the previous invocation obliges the next one to be: <<>> nothing, else <<key, input>>
Obligation(sys, p) ==
  IF p.f = "def" /\ p.o # 0 /\ CbKey(p) \in sys.keys /\ sys.defs[p.a].next # ""
    THEN <<DefKey([tid |-> sys.defs[p.a].next]), p.o>>
  ELSE IF p.f = "spec" /\ p.o # 0 /\ CbKey(p) \in DOMAIN sys.conts
    THEN <<sys.conts[CbKey(p)], p.o>>             \* a SET of admissible keys (indirect jumps: one per hint)
  ELSE <<>>

\* "" if the invocation e after p is prescribed by the equations, else a SHORT reason code (TLC wraps long
\* tuples when printing):
\*   args              no equation has a call-back with these arguments
\*   chain-merge       merge inside a chain
\*   chain-def-next    the fold over the defs must continue with the next def, fed with the previous answer
\*   chain-spec-jump   after a specialisation the jump must be updated with the specialised value
\*   chain-def-head    a def in the middle of a block without its predecessor (wrong order / no short-circuit)
\*   chain-jump-nospec a conditional's jump updated without the specialisation of the conditional
\*   input-above / input-comb / input-range   the value handed to a chain head is not below the least solution
\*                     at the source node / at the combinator node / is no lattice element
CbVerdict(A, sys, lfp, p, e) ==
  LET k == CbKey(e)
      ob == Obligation(sys, p)
  IN
  IF e.f = "merge" THEN (IF ob # <<>> THEN "chain-merge" ELSE "")
  ELSE IF k \notin sys.keys THEN "args"
  ELSE IF ob # <<>> THEN
         (IF p.f = "def"
            THEN (IF k = ob[1] /\ e.x = ob[2] THEN "" ELSE "chain-def-next")
            ELSE (IF k \in ob[1] /\ e.x = ob[2] THEN "" ELSE "chain-spec-jump"))
  ELSE IF e.f = "def" /\ sys.defs[e.a].i # 1 THEN "chain-def-head"
  ELSE IF k \notin DOMAIN sys.heads THEN "chain-jump-nospec"
  ELSE IF IsTwo(e)
         THEN (IF \E n \in sys.heads[k] : XLeqT(A, CombT(e.y, e.x), lfp[n]) THEN ""
               ELSE "input-comb")
  ELSE IF e.x \notin XLat(A) THEN "input-range"
  ELSE IF \E n \in sys.heads[k] : XLeqT(A, ValT(e.x), lfp[n]) THEN ""
  ELSE "input-above"
=============================================================================
