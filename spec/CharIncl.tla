------------------------------ MODULE CharIncl ------------------------------
(***************************************************************************)
(* Bounded concretisation of the character inclusion domain                *)
(*   cwe_checker_lib/src/abstract_domain/character_inclusion.rs            *)
(* and the soundness relations of its operations (property C06).           *)
(*                                                                         *)
(* Values (wire format):                                                   *)
(*   cset == [top |-> BOOLEAN, s |-> <<code point, ...>>]                  *)
(*           CharacterSet::Top (the whole alphabet) / CharacterSet::Value  *)
(*   ci   == [top |-> BOOLEAN, c |-> cset, p |-> cset]                     *)
(*           CharacterInclusionDomain::Top / ::Value((certain, possible))  *)
(*                                                                         *)
(* gamma(certain, possible) = the strings w with                           *)
(*           certain \subseteq chars(w) \subseteq possible                 *)
(* ("characters that are certainly contained" / "that may be in the        *)
(* string", module comment of character_inclusion.rs); Top = all strings.  *)
(* Written as a membership predicate InGammaCI (never build the set per    *)
(* test); GammaCI enumerates the members of length <= CIL over CIAlphabet. *)
(***************************************************************************)
EXTENDS Strings

CONSTANTS CIAlphabet,  \* the "allowed characters" (CharacterSet::Top)
          CIL          \* length bound of the enumerated operands

CIAll == AllStr(CIAlphabet, CIL)

CSet(cs) == IF cs.top THEN CIAlphabet ELSE Range(cs.s)

InGammaCI(w, d) ==
  d.top \/ (CSet(d.c) \subseteq CharsOf(w) /\ CharsOf(w) \subseteq CSet(d.p))

GammaCI(d) == {w \in CIAll : InGammaCI(w, d)}

(* Input class: the certain set of a reachable value is never CharacterSet::Top *)
(* (constructors and both operations only ever put Top into the possible set;   *)
(* CharacterSet::intersection documents that it must not be called with Top).   *)
CIWF(d) == d.top \/ ( /\ ~d.c.top
                      /\ Range(d.c.s) \subseteq CIAlphabet
                      /\ (d.p.top \/ Range(d.p.s) \subseteq CIAlphabet) )

(***************************************************************************)
(* Relations of the operations (r = returned value).                       *)
(***************************************************************************)
\* AbstractDomain::merge -- every member of either input is represented
CIMergeOK(x, y, r) == \A w \in GammaCI(x) \cup GammaCI(y) : InGammaCI(w, r)

\* DomainInsertion::append_string_domain -- every concatenation u.v is represented
\* (operands up to length CIL, so concatenations up to 2*CIL are tested)
CIAppendOK(x, y, r) ==
  LET GY == GammaCI(y) IN \A u \in GammaCI(x) : \A v \in GY : InGammaCI(u \o v, r)

(***************************************************************************)
(* The transfer functions as documented in the module comment (points 2    *)
(* and 3), transcribed; used by mc/MC_CharIncl to show that the relations  *)
(* above admit the documented design.  NOT used to judge the code.         *)
(***************************************************************************)
SetToSeq(S) == LET RECURSIVE F(_)
                   F(T) == IF T = {} THEN << >> ELSE LET x == CHOOSE x \in T : TRUE IN <<x>> \o F(T \ {x})
               IN F(S)
CsUnion(a, b) == IF a.top \/ b.top THEN [top |-> TRUE, s |-> << >>]
                 ELSE [top |-> FALSE, s |-> SetToSeq(Range(a.s) \cup Range(b.s))]
CsInter(a, b) == [top |-> FALSE, s |-> SetToSeq(CSet(a) \cap CSet(b))]
CITop == [top |-> TRUE, c |-> [top |-> FALSE, s |-> << >>], p |-> [top |-> TRUE, s |-> << >>]]
DocMerge(x, y) == IF x.top \/ y.top THEN CITop
                  ELSE [top |-> FALSE, c |-> CsInter(x.c, y.c), p |-> CsUnion(x.p, y.p)]
DocAppend(x, y) ==
  CASE x.top /\ y.top -> CITop
    [] x.top /\ ~y.top -> [top |-> FALSE, c |-> y.c, p |-> [top |-> TRUE, s |-> << >>]]
    [] ~x.top /\ y.top -> [top |-> FALSE, c |-> x.c, p |-> [top |-> TRUE, s |-> << >>]]
    [] OTHER -> [top |-> FALSE, c |-> CsUnion(x.c, y.c), p |-> CsUnion(x.p, y.p)]
=============================================================================
