----------------------------- MODULE Normalize -----------------------------
(***************************************************************************)
(* Property C09: what Project::normalize_basic must establish.  Predicates *)
(* over a raw program R ("as the P-Code extractor may emit it") and the    *)
(* normalised program N (encoding: see Cfg.tla).  Definitions only.        *)
(*                                                                         *)
(* The four passes (remove_duplicate_tids, remove_references_to_           *)
(* nonexisting_tids, make_block_to_sub_mapping_unique, retarget_non_       *)
(* returning_calls_to_artificial_sink) are NOT modelled: any output that   *)
(* satisfies the invariants below is accepted.                             *)
(***************************************************************************)
EXTENDS Cfg

SinkSubTid == "Artificial Sink Sub"
\* the artificial sink block of the function with TID t (Tid::artificial_sink_block("_" + t))
SinkBlkTid(t) == "Artificial Sink Block" \o "_" \o t

(***************************************************************************)
(* The input class (quantifier of C09).  Irregular are: jump / call /      *)
(* return targets and hints that name nothing; NON-ENTRY blocks listed in, *)
(* or reachable from, more than one function; TIDs duplicated among        *)
(* non-entry blocks, among defs, among jmps; calls to non-returning        *)
(* functions; empty functions.  Outside the class are: a TID used for two  *)
(* kinds of terms, a target naming a term of the wrong kind, a duplicated  *)
(* or shared ENTRY block (the documented duplicate-removal workaround      *)
(* drops it).                                                              *)
(***************************************************************************)
DefTids(P) == {DefAt(P, c).tid : c \in DefRefs(P)}
JmpTids(P) == {JmpAt(P, c).tid : c \in JmpRefs(P)}
BlkTidCount(P, t) == Cardinality({r \in BlkRefs(P) : BlkAt(P, r).tid = t})
\* every TID control may continue at according to a block: what the block-duplication pass follows
IntraSuccAll(blk) ==
  {blk.ind[h] : h \in DOMAIN blk.ind}
    \cup UNION {LET j == blk.jmps[i] IN
                IF IsDirectJump(j) THEN {j.t} ELSE IF RetSite(j) # NoTid THEN {RetSite(j)} ELSE {}
                : i \in DOMAIN blk.jmps}
\* successor TIDs of a block TID: the union over ALL blocks carrying that TID (conservative under
\* duplicated TIDs); computed once per program
TidSucc(P) ==
  LET refs == BlkRefs(P) IN
  [t \in AllBlkTids(P) |-> UNION {IntraSuccAll(BlkAt(P, r)) : r \in {x \in refs : BlkAt(P, x).tid = t}}]
RECURSIVE TidClosure(_, _)
TidClosure(succ, T) ==
  LET T2 == T \cup UNION {succ[t] : t \in T \cap DOMAIN succ}
  IN  IF T2 = T THEN T ELSE TidClosure(succ, T2)
KindsDisjoint(P) ==
  LET fun == SubTids(P) \cup ExternTids(P)
      blk == AllBlkTids(P)
      def == DefTids(P)
  IN  /\ Cardinality(SubTids(P)) = Cardinality(SubIx(P)) /\ Cardinality(ExternTids(P)) = Len(P.externs)
      /\ SubTids(P) \cap ExternTids(P) = {}
      /\ blk \cap fun = {}
      /\ def \cap (fun \cup blk) = {}
      /\ JmpTids(P) \cap (fun \cup blk \cup def) = {}
\* a target either names a term of the right kind or names nothing at all
TargetsOfRightKind(P) ==
  LET dj == DefTids(P) \cup JmpTids(P)
      notBlk == SubTids(P) \cup ExternTids(P) \cup dj
      notFun == AllBlkTids(P) \cup dj
  IN  /\ \A r \in BlkRefs(P) : IntraSuccAll(BlkAt(P, r)) \cap notBlk = {}
      /\ \A c \in JmpRefs(P) : JmpAt(P, c).k = "call" => JmpAt(P, c).t \notin notFun
EntriesNotShared(P) ==
  LET ne == {s \in SubIx(P) : HasBlocks(P, s)}
      succ == TidSucc(P)
  IN  /\ \A s \in ne : BlkTidCount(P, EntryTid(P, s)) = 1
      /\ \A s \in ne : LET C == TidClosure(succ, BlkTidsOfSub(P, s)) IN
                       \A s2 \in ne \ {s} : EntryTid(P, s2) \notin C
RawInClass(R) == BlockShapes(R) /\ KindsDisjoint(R) /\ TargetsOfRightKind(R) /\ EntriesNotShared(R)

(***************************************************************************)
(* The invariants of the normalised program                                *)
(***************************************************************************)
\* UniqueTids(N), IntraInSameSub(N): see Cfg.tla
\* every function of R is still there and starts with its original entry block
EntryPreserved(R, N) ==
  \A s \in SubIx(R) :
    \E s2 \in SubIx(N) :
      /\ SubTid(N, s2) = SubTid(R, s)
      /\ HasBlocks(R, s) => HasBlocks(N, s2) /\ EntryTid(N, s2) = EntryTid(R, s)
\* every direct jump target and return site is a block, every call target a function or extern symbol
TargetsExist(N) ==
  \A c \in JmpRefs(N) :
    LET j == JmpAt(N, c) IN
    /\ IsDirectJump(j) => j.t \in AllBlkTids(N)
    /\ RetSite(j) # NoTid => RetSite(j) \in AllBlkTids(N)
    /\ j.k = "call" => j.t \in SubTids(N) \cup ExternTids(N)
\* a function that never returns: an extern symbol marked no_return, or an internal function
\* without Return instruction
NonReturning(N, t) ==
  \/ \E i \in DOMAIN N.externs : N.externs[i].tid = t /\ N.externs[i].noret
  \/ t \in SubTids(N) /\ t \notin ExternTids(N) /\ ~SubReturns(N, SubByTid(N, t))
IsSinkBlock(blk) == Len(blk.defs) = 0 /\ Len(blk.jmps) = 0 /\ Len(blk.ind) = 0
\* a call (with return site) to a non-returning function returns to the caller's artificial sink,
\* an empty block of the caller
NonReturningToSink(N) ==
  \A c \in JmpRefs(N) :
    LET j == JmpAt(N, c) IN
    (j.k = "call" /\ j.ret # NoTid /\ NonReturning(N, j.t)) =>
       /\ j.ret = SinkBlkTid(SubTid(N, c[1]))
       /\ \E b \in DOMAIN N.subs[c[1]].blocks :
            N.subs[c[1]].blocks[b].tid = j.ret /\ IsSinkBlock(N.subs[c[1]].blocks[b])

Normalized(R, N) ==
  /\ UniqueTids(N)
  /\ EntryPreserved(R, N)
  /\ TargetsExist(N)
  /\ IntraInSameSub(N)
  /\ NonReturningToSink(N)
\* name of the first invariant that fails (for the report), "" if none
FirstViolated(R, N) ==
  CASE ~UniqueTids(N) -> "UniqueTids"
    [] ~EntryPreserved(R, N) -> "EntryPreserved"
    [] ~TargetsExist(N) -> "TargetsExist"
    [] ~IntraInSameSub(N) -> "IntraInSameSub"
    [] ~NonReturningToSink(N) -> "NonReturningToSink"
    [] OTHER -> ""
=============================================================================
