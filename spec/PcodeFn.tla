------------------------------ MODULE PcodeFn ------------------------------
(***************************************************************************)
(* Reference semantics of a whole P-Code FUNCTION as the P-Code extractor  *)
(* emits it: the per-block interpreter of Pcode.tla (operations over       *)
(* aliased sub-registers, temporaries, implicit RAM operands) extended by  *)
(* control flow between the blocks of one function, calls and returns.     *)
(* It is the "source" side of FrontEndMonitor.tla (check X08).  The module *)
(* contains definitions only.  Operations are executed by Pcode!StepOp -   *)
(* nothing of the data semantics is re-defined here.                       *)
(*                                                                         *)
(* TERMS (harness/src/props/x08.rs; the operations, varnodes and jumps are *)
(* those of Pcode.tla / harness/src/penc.rs)                               *)
(*   fn   [tid, abv, blocks]      abv = the function's address as a        *)
(*                                pointer-sized bit vector                 *)
(*   blk  [tid, abv, defs, jmps]  abv = the block's address                *)
(*   jmp  Pcode.tla's record, with hints = the extractor's target_hints    *)
(*        of an indirect jump as pointer-sized bit vectors                 *)
(* MACHINE STATE  Pcode.tla's  [regs, uniq, mem, obs, n, pc]               *)
(* ENVIRONMENT    one record that serves Pcode.tla AND IR.tla:             *)
(*   [seed, le, ptr, regtable, sp, physregs, noret]                        *)
(*   physregs = the base registers of the register table as IR var records *)
(*   noret    = the TIDs of the callees that never return (below)          *)
(*                                                                         *)
(* HOW CONTROL FLOWS (each rule with its source)                           *)
(*  F1 Entry.  Execution starts at the block whose address is the          *)
(*     function's address, wherever it is in the block list (pcode/term.rs *)
(*     `into_ir_sub_term`: "the first block of the array may not be the    *)
(*     function entry point").                                             *)
(*  F2 Blocks are found by TID.  A direct target that is not a block of    *)
(*     the function leaves the known code: dead end, observed with all     *)
(*     base registers and the written memory (the normalisation sends such *)
(*     jumps to the artificial sink, project.rs                            *)
(*     `remove_references_to_nonexisting_tids`).  Input class: direct      *)
(*     targets are blocks of the same function or exist nowhere.           *)
(*  F3 The jumps of a block are executed in order.  CBRANCH is taken iff   *)
(*     its condition is true, otherwise the NEXT jump of the block is      *)
(*     executed: the extractor spells the fall-through as an explicit      *)
(*     BRANCH (P-Code manual, CBRANCH: "if input1 is true then goto        *)
(*     input0, else fall through").  A block without a remaining jump is a *)
(*     dead end.                                                           *)
(*  F4 BRANCHIND observes the target VALUE.  If the value is one of the    *)
(*     jump's target hints and the address of a block of the function,     *)
(*     execution continues there, otherwise the behaviour ends (the        *)
(*     convention of IR.tla `IndTarget`; hints are all a static analyzer   *)
(*     knows about an indirect jump).                                      *)
(*  F5 CALL / CALLIND / CALLOTHER are observed with target (TID or value), *)
(*     all base registers and the written memory; then the callee HAVOCS   *)
(*     every base register except the stack pointer and the bytes around   *)
(*     the stack pointer (IR!Havoc - literally the operator the IR side    *)
(*     uses, so both sides see the same havoc stream), temporaries are     *)
(*     gone (P-Code manual: the unique space holds values that are local   *)
(*     to one machine instruction), and execution continues at the return  *)
(*     block.  The call instruction's own effect on the stack (x86: push   *)
(*     of the return address) is explicit P-Code in front of the CALL;     *)
(*     the callee's matching pop is part of the callee, i.e. of the havoc  *)
(*     that keeps SP: neither side adjusts SP at a call.                   *)
(*  F6 A call without return block ends the behaviour after the call       *)
(*     observation.  A call of a callee that NEVER RETURNS - an extern     *)
(*     symbol the extractor flags `no_return`, or a function of the        *)
(*     project without any RETURN operation - ends the behaviour too: the  *)
(*     callee's effects (havoc) and then a dead end are observed           *)
(*     (project.rs `retarget_non_returning_calls_to_artificial_sink`       *)
(*     documents exactly these two kinds of non-returning callees).        *)
(*  F7 RETURN observes the target value, all base registers and memory.    *)
(*     (x86: `RIP = LOAD [RSP]; RSP = RSP + 8; RETURN RIP` - the load and  *)
(*     the pop are ordinary operations in front of the RETURN.)            *)
(*                                                                         *)
(* INPUT CLASS CHECKED WHILE RUNNING (a behaviour that leaves it ends with *)
(* pc = [k |-> "end", t |-> "outclass"]; a monitor demands nothing of it): *)
(*  C1 P-Code booleans: "Boolean values are implemented with a full byte,  *)
(*     but are still considered to only support a value of true or false"  *)
(*     (P-Code manual, BOOL_NEGATE).  An operand of BOOL_NEGATE / BOOL_AND *)
(*     / BOOL_OR / BOOL_XOR and a CBRANCH condition must be 0 or 1.        *)
(*  C2 The reference value is defined: no observation involves Poison      *)
(*     (floating point, ill-sized operations, a temporary read before it   *)
(*     is written - Pcode.tla).                                            *)
(* STATIC INPUT CLASS (StaticOK):                                          *)
(*  C3 Stack alignment (the precondition of the statement, "aligned stack  *)
(*     pointer"): at most one INT_AND writes the stack pointer register,   *)
(*     it has the form SP = SP & -2^k with 2^k <= EntryAlign, it is in the *)
(*     entry block, and the entry block is not the target of a jump (the   *)
(*     prologue is executed once).                                         *)
(***************************************************************************)
EXTENDS Integers, Sequences, FiniteSets
LOCAL M == INSTANCE IR
LOCAL P == INSTANCE Pcode

EntryAlign == 4096                       \* the entry SP is aligned to 2^12; masks up to -4096 are alignment masks

Poison == M!Poison
IsPoison(v) == v = Poison
IsBool(v) == v = <<0>> \/ v = <<1>>
Running(st) == st.pc.k = "blk"
Goto(st, t) == [st EXCEPT !.pc = [k |-> "blk", t |-> t]]
Halt(st, why) == [st EXCEPT !.pc = [k |-> "end", t |-> why]]
OutClass(st) == Halt(st, "outclass")
IsOutClass(st) == st.pc = [k |-> "end", t |-> "outclass"]

(***************************************************************************)
(* Function structure                                                      *)
(***************************************************************************)
BlockIdx(blocks, tid) ==
  LET c == {i \in 1..Len(blocks) : blocks[i].tid = tid}
  IN IF c = {} THEN 0 ELSE CHOOSE i \in c : \A j \in c : i <= j
\* F1
EntryIdx(fn) ==
  LET c == {i \in 1..Len(fn.blocks) : fn.blocks[i].abv = fn.abv}
  IN IF c = {} THEN 0 ELSE CHOOSE i \in c : \A j \in c : i <= j
EntryTid(fn) == IF EntryIdx(fn) = 0 THEN "" ELSE fn.blocks[EntryIdx(fn)].tid
\* F4: the block of the function at address v, provided v is a hint of the jump
HintTarget(fn, j, v) ==
  LET c == {i \in 1..Len(fn.blocks) : fn.blocks[i].abv = v /\ \E q \in 1..Len(j.hints) : j.hints[q] = v}
  IN IF c = {} THEN "" ELSE fn.blocks[CHOOSE i \in c : \A i2 \in c : i <= i2].tid

(***************************************************************************)
(* Operations of a block, one by one, with the class check C1              *)
(***************************************************************************)
BoolMnemonics == {"BOOL_NEGATE", "BOOL_AND", "BOOL_OR", "BOOL_XOR"}
\* the value an operand has now (reading an implicit RAM operand has no effect on the state)
Value(vn, st, env) == P!ReadVarnode(vn, st, env).v
OpInClass(op, st, env) ==
  op.m \in BoolMnemonics =>
    /\ IsBool(Value(op.in0, st, env))
    /\ (op.m # "BOOL_NEGATE" => IsBool(Value(op.in1, st, env)))

\* [st |-> state after the operations (up to the first one outside the class), ok |-> all were inside]
RunDefsC(defs, st, env) ==
  LET RECURSIVE go(_, _)
      go(s, i) == IF i > Len(defs) THEN [st |-> s, ok |-> TRUE]
                  ELSE IF OpInClass(defs[i], s, env) THEN go(P!StepOp(defs[i], s, env), i + 1)
                  ELSE [st |-> s, ok |-> FALSE]
  IN go(st, 1)

(***************************************************************************)
(* Observations and calls (the records and the havoc are those of IR.tla)  *)
(***************************************************************************)
Emit(st, o) == M!Emit(st, o)
CtlObs(k, a, t) == M!Obs(k, a, 0, Poison, t, M!NoRegs, M!NoMem)
\* with the values of env.physregs (read from the base registers) and the written memory
StateObs(k, a, t, st, env) == M!ObsState(k, a, t, st, env)
DeadEnd(st, env) == Halt(Emit(st, StateObs("deadend", Poison, "", st, env)), "deadend")
\* F5
Havoc(st, env) == [M!Havoc(st, env) EXCEPT !.uniq = M!EmptyFcn]
NoReturn(t, env) == \E q \in 1..Len(env.noret) : env.noret[q] = t
\* F5, F6
AfterCall(st, ret, noreturn, env) ==
  IF ret = "" THEN Halt(st, "call-noreturn")
  ELSE IF noreturn THEN DeadEnd(Havoc(st, env), env)
  ELSE Goto(Havoc(st, env), ret)

(***************************************************************************)
(* Jumps of a block (F3 - F7)                                              *)
(***************************************************************************)
\* (renum: see StepBlock; it is applied again in front of a call because an implicit RAM operand of the jump itself
\*  - a read - may have been observed since)
RunJmps(fn, blk, st, env, renum(_)) ==
  LET js == blk.jmps
      RECURSIVE go(_, _)
      go(i, s) ==
        IF i > Len(js) THEN DeadEnd(s, env)
        ELSE LET j == js[i] IN
          CASE j.m = "CBRANCH" ->
                 LET r == P!ReadVarnode(j.c, s, env)
                 IN IF ~IsBool(r.v) THEN OutClass(r.st)                     \* C1 (and C2: Poison is not a boolean)
                    ELSE IF r.v = <<1>> THEN Goto(r.st, j.t)
                    ELSE go(i + 1, r.st)
            [] j.m = "BRANCH" -> Goto(s, j.t)
            [] j.m = "BRANCHIND" ->
                 LET r == P!ReadVarnode(j.v, s, env)
                     s1 == Emit(r.st, CtlObs("indjmp", r.v, ""))
                     t == IF IsPoison(r.v) THEN "" ELSE HintTarget(fn, j, r.v)
                 IN IF t = "" THEN Halt(s1, "indjmp") ELSE Goto(s1, t)
            [] j.m = "CALL" -> AfterCall(Emit(renum(s), StateObs("call", Poison, j.t, s, env)), j.ret, NoReturn(j.t, env), env)
            [] j.m = "CALLIND" ->
                 LET r == P!ReadVarnode(j.v, s, env)
                 IN AfterCall(Emit(renum(r.st), StateObs("callind", r.v, "", r.st, env)), j.ret, FALSE, env)
            [] j.m = "CALLOTHER" -> AfterCall(Emit(renum(s), StateObs("callother", Poison, "", s, env)), j.ret, FALSE, env)
            [] j.m = "RETURN" ->
                 LET r == P!ReadVarnode(j.v, s, env)
                 IN Halt(Emit(r.st, StateObs("return", r.v, "", r.st, env)), "return")
            [] OTHER -> OutClass(s)
  IN go(1, st)

(***************************************************************************)
(* C2: an observation of the reference machine that involves no Poison     *)
(***************************************************************************)
ObsDefined(o) ==
  LET regsok == \A q \in 1..Len(o.regs) : ~IsPoison(o.regs[q])
  IN CASE o.k = "read" -> ~IsPoison(o.a) /\ ~IsPoison(o.v)
       [] o.k = "write" -> ~IsPoison(o.a) /\ ~IsPoison(o.v)
       [] o.k = "indjmp" -> ~IsPoison(o.a)
       [] o.k \in {"callind", "return"} -> ~IsPoison(o.a) /\ regsok
       [] o.k \in {"call", "callother", "deadend"} -> regsok
       [] OTHER -> FALSE                                                   \* "stuck"
AllDefined(obs) == \A q \in 1..Len(obs) : ObsDefined(obs[q])

(***************************************************************************)
(* One block step of the function.  `renum' is applied to the state        *)
(* between the operations and the jumps of the block: the monitor uses it  *)
(* to number the havoc of a call (st.n) in the same way on both sides.     *)
(***************************************************************************)
StepBlock(fn, st, env, renum(_)) ==
  LET i == BlockIdx(fn.blocks, st.pc.t)
  IN IF i = 0 THEN DeadEnd(st, env)                                        \* F2
     ELSE LET r == RunDefsC(fn.blocks[i].defs, st, env)
              s == IF r.ok THEN RunJmps(fn, fn.blocks[i], renum(r.st), env, renum) ELSE OutClass(r.st)
          IN IF AllDefined(s.obs) THEN s ELSE OutClass(s)                  \* C2

\* Initial state: regs = function base register name -> bit vector
Start(fn, regs) ==
  [regs |-> regs, uniq |-> M!EmptyFcn, mem |-> M!EmptyFcn, obs |-> <<>>, n |-> 0,
   pc |-> IF EntryTid(fn) = "" THEN [k |-> "end", t |-> "noentry"] ELSE [k |-> "blk", t |-> EntryTid(fn)]]

(***************************************************************************)
(* C3: static input class                                                  *)
(***************************************************************************)
\* c = -2^k with 1 <= 2^k <= EntryAlign, as a bit vector of any width >= 2
IsAlignMask(c) ==
  /\ Len(c) >= 2
  /\ \A q \in 3..Len(c) : c[q] = 255
  /\ c[2] \in {255, 254, 252, 248, 240}                                    \* -1 .. -4096 in the second byte
  /\ IF c[2] = 255 THEN c[1] \in {255, 254, 252, 248, 240, 224, 192, 128, 0} ELSE c[1] = 0
IsFullSp(vn, env) ==
  /\ vn.k = "reg"
  /\ P!RegView(env.regtable, vn.n, vn.s) = [base |-> env.sp.n, lsb |-> 0, size |-> env.sp.s]
SpMask(op, env) == op.m = "INT_AND" /\ IsFullSp(op.out, env)
SpMaskOK(op, env) ==
  \/ IsFullSp(op.in0, env) /\ op.in1.k = "const" /\ IsAlignMask(op.in1.c)
  \/ IsFullSp(op.in1, env) /\ op.in0.k = "const" /\ IsAlignMask(op.in0.c)
Targets(fn) ==
  UNION {UNION {{fn.blocks[b].jmps[q].t, fn.blocks[b].jmps[q].ret} \cup
                {HintTarget(fn, fn.blocks[b].jmps[q], fn.blocks[b].jmps[q].hints[h]) : h \in 1..Len(fn.blocks[b].jmps[q].hints)}
                : q \in 1..Len(fn.blocks[b].jmps)} : b \in 1..Len(fn.blocks)}
StaticOK(fn, env) ==
  LET masks == {<<b, d>> \in UNION {{<<b, d>> : d \in 1..Len(fn.blocks[b].defs)} : b \in 1..Len(fn.blocks)} :
                  SpMask(fn.blocks[b].defs[d], env)}
  IN /\ EntryIdx(fn) # 0
     /\ Cardinality(masks) <= 1
     /\ \A m \in masks : /\ m[1] = EntryIdx(fn)
                         /\ SpMaskOK(fn.blocks[m[1]].defs[m[2]], env)
                         /\ EntryTid(fn) \notin Targets(fn)
=============================================================================
