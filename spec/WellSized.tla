----------------------------- MODULE WellSized -----------------------------
(***************************************************************************)
(* Size consistency ("typing") of IR expressions, Defs and Jmps: the       *)
(* specification of property C12.  Terms are the JSON of                   *)
(* harness/src/irenc.rs (see the header of IR.tla).  Sizes are in bytes.   *)
(*                                                                         *)
(* Size(e) is the size the IR assigns to an expression (the transcription  *)
(* of Expression::bytesize, which is a pure function of the term).         *)
(* WellSized(e) holds iff, for e and all of its sub-expressions,           *)
(*  (1) the operands of a SAME-SIZE operation have equal sizes - integer   *)
(*      and floating point arithmetic, bitwise and boolean connectives,    *)
(*      comparisons, carry/borrow predicates;                              *)
(*  (2) PIECE / SUBPIECE / extension sizes are consistent with the         *)
(*      operands: a sub-piece lies inside its argument                     *)
(*      (low + size <= Size(arg), size >= 1), a zero/sign extension does   *)
(*      not shrink (size >= Size(arg)); the size of a PIECE is the sum of  *)
(*      its operands by definition of Size.                                *)
(* DefOK(d, ptr): the expressions of d are well-sized and                  *)
(*  (3) an assignment stores a value of the assigned variable's size,      *)
(*  (4) the address of a load / store has pointer size ptr.                *)
(* JmpOK(j): the condition / target expression of j is well-sized.         *)
(*                                                                         *)
(* Deliberately NOT required (the property does not state it): a size for  *)
(* shift amounts, size 1 for boolean operands or branch conditions, a size *)
(* for indirect jump targets, a size for the results of POPCOUNT /         *)
(* LZCOUNT / float casts, strict growth of extensions.                     *)
(***************************************************************************)
EXTENDS Integers, Sequences

WsBoolResultOps == {"IntEqual", "IntNotEqual", "IntLess", "IntSLess", "IntLessEqual", "IntSLessEqual",
                    "IntCarry", "IntSCarry", "IntSBorrow", "BoolXOr", "BoolOr", "BoolAnd",
                    "FloatEqual", "FloatNotEqual", "FloatLess", "FloatLessEqual"}
\* operations whose two operands must have the same size
WsSameSizeOps == {"IntEqual", "IntNotEqual", "IntLess", "IntSLess", "IntLessEqual", "IntSLessEqual",
                  "IntAdd", "IntSub", "IntCarry", "IntSCarry", "IntSBorrow", "IntXOr", "IntAnd", "IntOr",
                  "IntMult", "IntDiv", "IntRem", "IntSDiv", "IntSRem", "BoolXOr", "BoolAnd", "BoolOr",
                  "FloatEqual", "FloatNotEqual", "FloatLess", "FloatLessEqual",
                  "FloatAdd", "FloatSub", "FloatMult", "FloatDiv"}
\* the remaining binary operations: Piece (any sizes), IntLeft / IntRight / IntSRight (any shift amount size)
WsExtensions == {"IntZExt", "IntSExt"}

RECURSIVE Size(_)
Size(e) ==
  CASE e.k = "var" -> e.v.s
    [] e.k = "const" -> Len(e.c)
    [] e.k = "bin" -> IF e.op = "Piece" THEN Size(e.l) + Size(e.r)
                      ELSE IF e.op \in WsBoolResultOps THEN 1 ELSE Size(e.l)
    [] e.k = "un" -> IF e.op = "FloatNaN" THEN 1 ELSE Size(e.a)
    [] OTHER -> e.s                                     \* cast, sub, unknown

RECURSIVE WellSized(_)
WellSized(e) ==
  CASE e.k \in {"var", "const", "unknown"} -> TRUE
    [] e.k = "bin" -> /\ WellSized(e.l) /\ WellSized(e.r)
                      /\ (e.op \in WsSameSizeOps => Size(e.l) = Size(e.r))
    [] e.k = "un" -> WellSized(e.a)
    [] e.k = "cast" -> /\ WellSized(e.a)
                       /\ (e.op \in WsExtensions => e.s >= Size(e.a))
    [] e.k = "sub" -> /\ WellSized(e.a)
                      /\ e.s >= 1 /\ e.low + e.s <= Size(e.a)

DefOK(d, ptr) ==
  CASE d.k = "assign" -> WellSized(d.e) /\ Size(d.e) = d.v.s
    [] d.k = "load" -> WellSized(d.a) /\ Size(d.a) = ptr
    [] d.k = "store" -> WellSized(d.a) /\ WellSized(d.e) /\ Size(d.a) = ptr

JmpOK(j) ==
  CASE j.k = "cbranch" -> WellSized(j.c)
    [] j.k \in {"branchind", "callind", "return"} -> WellSized(j.e)
    [] OTHER -> TRUE

BlkOK(b, ptr) == (\A i \in 1..Len(b.defs) : DefOK(b.defs[i], ptr)) /\ (\A i \in 1..Len(b.jmps) : JmpOK(b.jmps[i]))

\* the TIDs of the ill-sized Defs / Jmps of a project (irenc.rs `project`)
IllSized(project) ==
  LET ptr == project.sp.s
      subs == project.program.subs
  IN UNION {UNION {{b.defs[i].tid : i \in {i \in 1..Len(b.defs) : ~DefOK(b.defs[i], ptr)}} \cup
                   {b.jmps[i].tid : i \in {i \in 1..Len(b.jmps) : ~JmpOK(b.jmps[i])}}
                     : b \in {subs[s].blocks[q] : q \in 1..Len(subs[s].blocks)}}
              : s \in 1..Len(subs)}
ProjectOK(project) ==
  \A s \in 1..Len(project.program.subs) :
     \A q \in 1..Len(project.program.subs[s].blocks) : BlkOK(project.program.subs[s].blocks[q], project.sp.s)
=============================================================================
