------------------------------ MODULE Pcode ------------------------------
(***************************************************************************)
(* Reference interpreter for raw Ghidra P-Code as the P-Code extractor     *)
(* emits it (one basic block = a sequence of operations followed by jump   *)
(* instructions), written from the P-Code reference manual over the        *)
(* bit-vector semantics of BV.tla.  It is the "source" side of the lifting *)
(* monitor LiftMonitor.tla (property C11): the IR block that the real      *)
(* lifter (pcode::Project::normalize + into_ir_project) produces from a    *)
(* P-Code block must have the same effect as this interpreter.             *)
(*                                                                         *)
(* The essential difference to the IR machine (IR.tla): REGISTERS ARE      *)
(* BYTE RANGES OF BASE REGISTERS.  A register varnode (name, size) is      *)
(* resolved through the register table of the project to a view            *)
(* (base, lsb, size); reading returns the bytes lsb .. lsb+size-1 of the   *)
(* base register, writing replaces exactly these bytes.  So a write to AL  *)
(* is visible in AX, EAX and RAX and leaves AH untouched.  Varnodes in the *)
(* "ram" space are implicit memory operands at a constant address.         *)
(*                                                                         *)
(* TERMS (harness/src/penc.rs; a mechanical projection of the extractor's  *)
(* JSON in which every field has one type):                                *)
(*   varnode [k |-> "reg",   n |-> "EAX", s |-> 4, c |-> <<>>, a |-> <<>>] *)
(*           [k |-> "uniq",  n |-> "$U2a00", s, ..]  temporary (unique     *)
(*                                                   space)               *)
(*           [k |-> "const", c |-> bv of s bytes, s, ..]                   *)
(*           [k |-> "ram",   a |-> address as 8-byte bv, s, ..]            *)
(*           [k |-> "none", ..]                     absent operand         *)
(*   op      [tid, m |-> mnemonic, out |-> varnode, in0, in1, in2]         *)
(*   jmp     [tid, m |-> "BRANCH" | "CBRANCH" | "BRANCHIND" | "CALL" |     *)
(*            "CALLIND" | "CALLOTHER" | "RETURN",                          *)
(*            t |-> TID of the direct target ("" = none),                  *)
(*            v |-> varnode of the indirect target, ret |-> return TID     *)
(*            ("" = none), c |-> condition varnode, hints]                 *)
(*   blk     [tid, defs |-> seq of op, jmps |-> seq of jmp]                *)
(*   register table  seq of [reg, base, lsb, size]                         *)
(*                                                                         *)
(* MACHINE STATE  st = [regs, uniq, mem, obs, n, pc]                       *)
(*   regs  base register name -> bit vector of the base register's size;   *)
(*         a base register that is not in the domain is POISON (see below) *)
(*   uniq  name of a temporary -> bit vector                               *)
(*   mem, obs, n, pc   exactly as in IR.tla (the memory model - lazily     *)
(*         initialised background InitMem, endianness - and the            *)
(*         observation records are shared with the IR machine, so the two  *)
(*         machines can be started "from the same initial state")          *)
(* ENVIRONMENT  env = [seed, le, ptr, regtable]; ptr = size in bytes of a  *)
(*   pointer (the size of the stack pointer register).                     *)
(*                                                                         *)
(* CONVENTIONS                                                             *)
(*  - Operand sizes must be consistent as the P-Code manual demands        *)
(*    (equal-size operands for arithmetic/comparisons, output of size 1    *)
(*    for predicates, in0+in1 = out for PIECE, ...).  A result whose size  *)
(*    is not the size of the output varnode, and every operation applied   *)
(*    to operands of inconsistent sizes, is Poison.                        *)
(*  - Floating point operations are opaque: their result is Poison.        *)
(*  - Poison is tracked per base register / temporary (not per byte):      *)
(*    writing Poison to any part of a base register poisons the whole      *)
(*    base register until it is completely overwritten.  A monitor must    *)
(*    read "Poison here" as "no requirement".                              *)
(*  - Temporaries are read with the size they were written with (the       *)
(*    extractor names them by their offset in the unique space; overlaps   *)
(*    of different temporaries are outside the modelled class).            *)
(*  - Division by zero does not trap: x/0 = all ones, x%0 = x (the same    *)
(*    convention as IR.tla; the IR has no traps).                          *)
(*  - Reads of the operands in0, in1, in2 happen in this order, then the   *)
(*    write of the output.                                                 *)
(***************************************************************************)
EXTENDS BV
\* the value domain (Poison), the memory model and the observation records are those of the IR machine
LOCAL M == INSTANCE IR
LOCAL Poison == M!Poison
LOCAL IsPoison(v) == M!IsPoison(v)
\* TLC evaluates function constructors lazily and re-evaluates them on every application; every value
\* that the machine stores is forced into an explicit sequence / function (Norm is the identity).
LOCAL Norm(v) == M!Norm(v)
LOCAL Upd(f, x, v) == Norm(M!Upd(f, x, v))
LOCAL Del(f, x) == Norm(M!Del(f, x))
LOCAL EmptyFcn == M!EmptyFcn
LOCAL NoRegs == M!NoRegs
LOCAL NoMem == M!NoMem
LOCAL LoadBytes(mem, a, size, env) == M!LoadBytes(mem, a, size, env)
LOCAL StoreBytes(mem, a, v, env) == M!StoreBytes(mem, a, v, env)
LOCAL Obs(k, a, s, v, t, regs, mem) == M!Obs(k, a, s, v, t, regs, mem)
LOCAL Emit(st, o) == M!Emit(st, o)
LOCAL Goto(st, t) == M!Goto(st, t)
LOCAL Halt(st, why) == M!Halt(st, why)

(***************************************************************************)
(* Register views                                                          *)
(***************************************************************************)
RegIndex(table, name) ==
  LET c == {i \in 1..Len(table) : table[i].reg = name}
  IN IF c = {} THEN 0 ELSE CHOOSE i \in c : \A j \in c : i <= j

\* the bytes of the base register that the varnode (name, size) denotes.  A varnode that has the
\* name of a register but a smaller size ("same-name smaller register") denotes the low bytes of
\* that register.  A name outside the table is a register of its own.
RegView(table, name, size) ==
  LET i == RegIndex(table, name)
  IN IF i = 0 THEN [base |-> name, lsb |-> 0, size |-> size]
     ELSE [base |-> table[i].base, lsb |-> table[i].lsb, size |-> size]

BaseSize(table, base, default) ==
  LET i == RegIndex(table, base) IN IF i = 0 THEN default ELSE table[i].size

ReadReg(view, regs) ==
  LET b == IF view.base \in DOMAIN regs THEN regs[view.base] ELSE Poison
  IN IF IsPoison(b) \/ view.size < 1 \/ view.lsb + view.size > Len(b) THEN Poison
     ELSE SubSeq(b, view.lsb + 1, view.lsb + view.size)

WriteReg(table, view, val, regs) ==
  LET bs == BaseSize(table, view.base, view.size)
      old == IF view.base \in DOMAIN regs THEN regs[view.base] ELSE Poison
  IN IF IsPoison(val) \/ Len(val) # view.size \/ view.lsb + view.size > bs THEN Del(regs, view.base)
     ELSE IF view.lsb = 0 /\ view.size = bs THEN Upd(regs, view.base, val)
     ELSE IF IsPoison(old) \/ Len(old) # bs THEN Del(regs, view.base)
     ELSE Upd(regs, view.base,
              Norm([i \in 1..bs |-> IF i > view.lsb /\ i <= view.lsb + view.size THEN val[i - view.lsb] ELSE old[i]]))

(***************************************************************************)
(* Varnodes.  Reading a ram varnode is a memory read (an observation), so  *)
(* reading returns the new state together with the value.                  *)
(***************************************************************************)
\* the constant address of a ram varnode as a pointer-sized bit vector
RamAddr(vn, env) == BvResizeU(vn.a, env.ptr)

ReadVarnode(vn, st, env) ==
  CASE vn.k = "reg" -> [st |-> st, v |-> ReadReg(RegView(env.regtable, vn.n, vn.s), st.regs)]
    [] vn.k = "uniq" -> [st |-> st,
                         v |-> IF vn.n \in DOMAIN st.uniq /\ Len(st.uniq[vn.n]) = vn.s THEN st.uniq[vn.n] ELSE Poison]
    [] vn.k = "const" -> [st |-> st, v |-> IF Len(vn.c) = vn.s THEN vn.c ELSE Poison]
    [] vn.k = "ram" -> LET a == RamAddr(vn, env)
                           v == LoadBytes(st.mem, a, vn.s, env)
                       IN [st |-> Emit(st, Obs("read", a, vn.s, v, "", NoRegs, NoMem)), v |-> v]
    [] OTHER -> [st |-> st, v |-> Poison]

WriteVarnode(vn, val, st, env) ==
  LET v == IF IsPoison(val) \/ Len(val) # vn.s THEN Poison ELSE val
  IN CASE vn.k = "reg" -> [st EXCEPT !.regs = WriteReg(env.regtable, RegView(env.regtable, vn.n, vn.s), v, @)]
       [] vn.k = "uniq" -> [st EXCEPT !.uniq = IF IsPoison(v) THEN Del(@, vn.n) ELSE Upd(@, vn.n, v)]
       [] vn.k = "ram" -> LET a == RamAddr(vn, env)
                              s1 == Emit(st, Obs("write", a, Len(v), v, "", NoRegs, NoMem))
                          IN IF IsPoison(v) THEN s1 ELSE [s1 EXCEPT !.mem = StoreBytes(@, a, v, env)]
       [] OTHER -> st                          \* no output / constant output: nothing is written

(***************************************************************************)
(* Operations (P-Code reference manual).  a = in0, b = in1, os = size of   *)
(* the output varnode; a, b are not Poison.                                *)
(***************************************************************************)
UnaryMnemonics == {"COPY", "INT_NEGATE", "INT_2COMP", "BOOL_NEGATE", "INT_ZEXT", "INT_SEXT", "POPCOUNT", "LZCOUNT",
                   "FLOAT_NEG", "FLOAT_ABS", "FLOAT_SQRT", "FLOAT_CEIL", "FLOAT_FLOOR", "FLOAT_ROUND", "FLOAT_NAN",
                   "INT2FLOAT", "FLOAT2FLOAT", "TRUNC"}
CompareMnemonics == {"INT_EQUAL", "INT_NOTEQUAL", "INT_LESS", "INT_SLESS", "INT_LESSEQUAL", "INT_SLESSEQUAL",
                     "INT_CARRY", "INT_SCARRY", "INT_SBORROW"}
ArithMnemonics == {"INT_ADD", "INT_SUB", "INT_XOR", "INT_AND", "INT_OR", "INT_MULT", "INT_DIV", "INT_REM", "INT_SDIV", "INT_SREM"}
ShiftMnemonics == {"INT_LEFT", "INT_RIGHT", "INT_SRIGHT"}
BoolMnemonics == {"BOOL_XOR", "BOOL_AND", "BOOL_OR"}

EvalUn(m, a, os) ==
  CASE m = "COPY" -> a
    [] m = "INT_NEGATE" -> BvNot(a)                                  \* bitwise complement
    [] m = "INT_2COMP" -> BvNeg(a)                                   \* two's complement negation
    [] m = "BOOL_NEGATE" -> IF Len(a) = 1 THEN BvBoolNegate(a) ELSE Poison
    [] m = "INT_ZEXT" -> IF os >= Len(a) THEN BvZExt(a, os) ELSE Poison
    [] m = "INT_SEXT" -> IF os >= Len(a) THEN BvSExt(a, os) ELSE Poison
    [] m = "POPCOUNT" -> BvPopCount(a, os)
    [] m = "LZCOUNT" -> BvLzCount(a, os)
    [] OTHER -> Poison                                               \* floating point

\* Division: BV!BvUDivRem nests 8w lazily evaluated function values, which TLC re-evaluates on every
\* application; M!FUDivRem is the same restoring long division with every intermediate remainder forced
\* (mc/MC_IR checks it against BV.tla / BVInt.tla).  The signed operations are those of BV.tla: the
\* quotient truncates towards zero, the remainder has the sign of the dividend.
LOCAL UDiv(a, b) == M!FUDivRem(a, b).q
LOCAL URem(a, b) == M!FUDivRem(a, b).r
LOCAL SDiv(a, b) == LET q == UDiv(Norm(BvAbs(a)), Norm(BvAbs(b))) IN IF BvSign(a) # BvSign(b) THEN BvNeg(q) ELSE q
LOCAL SRem(a, b) == LET r == URem(Norm(BvAbs(a)), Norm(BvAbs(b))) IN IF BvSign(a) = 1 THEN BvNeg(r) ELSE r

EvalBin(m, a, b, os) ==
  CASE m = "PIECE" -> b \o a                                         \* in0 = most significant part
    [] m = "SUBPIECE" -> LET off == BvSmall(b)                       \* in1 = number of low bytes to drop
                         IN IF os >= 1 /\ off + os <= Len(a) THEN SubSeq(a, off + 1, off + os) ELSE Poison
    [] m = "INT_LEFT" -> BvShl(a, b)                                 \* shift amount of any size, unsigned
    [] m = "INT_RIGHT" -> BvShr(a, b)
    [] m = "INT_SRIGHT" -> BvSar(a, b)
    [] m \in BoolMnemonics ->
         IF Len(a) # 1 \/ Len(b) # 1 THEN Poison
         ELSE (CASE m = "BOOL_XOR" -> BvXor(a, b) [] m = "BOOL_AND" -> BvAnd(a, b) [] m = "BOOL_OR" -> BvOr(a, b))
    [] m \in CompareMnemonics ->
         IF Len(a) # Len(b) THEN Poison
         ELSE (CASE m = "INT_EQUAL" -> BvBool(a = b)
                [] m = "INT_NOTEQUAL" -> BvBool(a # b)
                [] m = "INT_LESS" -> BvBool(BvULt(a, b))
                [] m = "INT_SLESS" -> BvBool(BvSLt(a, b))
                [] m = "INT_LESSEQUAL" -> BvBool(BvULe(a, b))
                [] m = "INT_SLESSEQUAL" -> BvBool(BvSLe(a, b))
                [] m = "INT_CARRY" -> <<BvCarry(a, b)>>
                [] m = "INT_SCARRY" -> <<BvSCarry(a, b)>>
                [] m = "INT_SBORROW" -> <<BvSBorrow(a, b)>>)
    [] m \in ArithMnemonics ->
         IF Len(a) # Len(b) THEN Poison
         ELSE (CASE m = "INT_ADD" -> BvAdd(a, b)
                [] m = "INT_SUB" -> BvSub(a, b)
                [] m = "INT_XOR" -> BvXor(a, b)
                [] m = "INT_AND" -> BvAnd(a, b)
                [] m = "INT_OR" -> BvOr(a, b)
                [] m = "INT_MULT" -> BvMul(a, b)
                [] m = "INT_DIV" -> IF BvIsZero(b) THEN BvOnes(Len(a)) ELSE UDiv(a, b)
                [] m = "INT_SDIV" -> IF BvIsZero(b) THEN BvOnes(Len(a)) ELSE SDiv(a, b)
                [] m = "INT_REM" -> IF BvIsZero(b) THEN a ELSE URem(a, b)
                [] m = "INT_SREM" -> IF BvIsZero(b) THEN a ELSE SRem(a, b))
    [] OTHER -> Poison                                               \* floating point

(***************************************************************************)
(* One operation                                                           *)
(***************************************************************************)
StepOp(op, st, env) ==
  CASE op.m = "LOAD" ->                               \* in0 = address space id, in1 = pointer
         LET r == ReadVarnode(op.in1, st, env)
             v == IF IsPoison(r.v) THEN Poison ELSE LoadBytes(r.st.mem, r.v, op.out.s, env)
             s1 == Emit(r.st, Obs("read", r.v, op.out.s, v, "", NoRegs, NoMem))
         IN WriteVarnode(op.out, v, s1, env)
    [] op.m = "STORE" ->                              \* in0 = address space id, in1 = pointer, in2 = value
         LET r1 == ReadVarnode(op.in1, st, env)
             r2 == ReadVarnode(op.in2, r1.st, env)
             s1 == Emit(r2.st, Obs("write", r1.v, Len(r2.v), r2.v, "", NoRegs, NoMem))
         IN IF IsPoison(r1.v) \/ IsPoison(r2.v) THEN s1 ELSE [s1 EXCEPT !.mem = StoreBytes(@, r1.v, r2.v, env)]
    [] op.m \in UnaryMnemonics ->
         LET r == ReadVarnode(op.in0, st, env)
             v == IF IsPoison(r.v) THEN Poison ELSE Norm(EvalUn(op.m, r.v, op.out.s))
         IN WriteVarnode(op.out, v, r.st, env)
    [] OTHER ->
         LET r0 == ReadVarnode(op.in0, st, env)
             r1 == ReadVarnode(op.in1, r0.st, env)
             v == IF IsPoison(r0.v) \/ IsPoison(r1.v) THEN Poison ELSE Norm(EvalBin(op.m, r0.v, r1.v, op.out.s))
         IN WriteVarnode(op.out, v, r1.st, env)

RunDefs(defs, st, env) ==
  LET RECURSIVE go(_, _)
      go(s, i) == IF i > Len(defs) THEN s ELSE go(StepOp(defs[i], s, env), i + 1)
  IN go(st, 1)

(***************************************************************************)
(* Jumps.  The observation records and the final pc have the shape of      *)
(* IR.tla: a taken branch continues at the target block; an indirect jump  *)
(* / call / return is observed with its target VALUE; a call continues at  *)
(* the return block.  (What a callee does is outside a block's semantics.) *)
(***************************************************************************)
CtlObs(k, a, t) == Obs(k, a, 0, Poison, t, NoRegs, NoMem)
AfterCall(st, ret) == IF ret = "" THEN Halt(st, "call-noreturn") ELSE Goto(st, ret)

RunJmps(blk, st, env) ==
  LET js == blk.jmps
      RECURSIVE go(_, _)
      go(i, s) ==
        IF i > Len(js) THEN Halt(Emit(s, CtlObs("deadend", Poison, "")), "deadend")
        ELSE LET j == js[i] IN
          CASE j.m = "CBRANCH" ->                       \* taken iff the condition is non-zero
                 LET r == ReadVarnode(j.c, s, env)
                 IN IF IsPoison(r.v) \/ Len(r.v) # 1 THEN Halt(Emit(r.st, CtlObs("stuck", r.v, j.tid)), "stuck")
                    ELSE IF r.v # <<0>> THEN Goto(r.st, j.t)
                    ELSE go(i + 1, r.st)
            [] j.m = "BRANCH" -> Goto(s, j.t)
            [] j.m = "BRANCHIND" -> LET r == ReadVarnode(j.v, s, env)
                                    IN Halt(Emit(r.st, CtlObs("indjmp", r.v, "")), "indjmp")
            [] j.m = "CALL" -> AfterCall(Emit(s, CtlObs("call", Poison, j.t)), j.ret)
            [] j.m = "CALLIND" -> LET r == ReadVarnode(j.v, s, env)
                                  IN AfterCall(Emit(r.st, CtlObs("callind", r.v, "")), j.ret)
            [] j.m = "CALLOTHER" -> AfterCall(Emit(s, CtlObs("callother", Poison, "")), j.ret)
            [] j.m = "RETURN" -> LET r == ReadVarnode(j.v, s, env)
                                 IN Halt(Emit(r.st, CtlObs("return", r.v, "")), "return")
            [] OTHER -> Halt(Emit(s, CtlObs("stuck", Poison, j.tid)), "stuck")
  IN go(1, st)

RunBlock(blk, st, env) == RunJmps(blk, RunDefs(blk.defs, st, env), env)

(***************************************************************************)
(* Initial state: init = sequence of [n |-> base register, v |-> bv]       *)
(***************************************************************************)
Start(entry, init) ==
  [regs |-> [x \in {init[i].n : i \in 1..Len(init)} |-> init[CHOOSE i \in 1..Len(init) : init[i].n = x].v],
   uniq |-> EmptyFcn, mem |-> EmptyFcn, obs |-> <<>>, n |-> 0, pc |-> [k |-> "blk", t |-> entry]]

\* value of a base register (Poison when unknown)
BaseReg(st, name) == IF name \in DOMAIN st.regs THEN st.regs[name] ELSE Poison
=============================================================================
