------------------------------ MODULE T_C20 ------------------------------
(* Trace specification for C20.  Every event records one call of the real   *)
(* parse_format_string_parameters:                                          *)
(*   {"ev":"fmt","src":"gen"|"tlc","tokens":[token..],"text":[code points], *)
(*    "sizes":{char,double,float,integer,long_double,long_long,long,        *)
(*             pointer,short},                                              *)
(*    "ok":bool,"result":[{"t":type,"s":size}..],"panic":""}                *)
(* tokens: how the format string was produced (by the harness generator or  *)
(* by TLC exploring the generative machine, mc/MC_FormatString); text: the  *)
(* string given to the parser.  The event is accepted iff the tokens are in *)
(* the supported grammar, spell the text, and the parser returned exactly   *)
(* Expect(tokens) with the documented sizes - an error iff a long / long    *)
(* long / long double form occurs.                                          *)
EXTENDS FormatString, Json, IOUtils, TLC
Rec == ndJsonDeserialize(IOEnv.TRACE)
VARIABLE l

\* the machine produces the recorded format string in one macro step; the recorded call must
\* have been given the machine's text and must have answered with the machine's argument list
EventOK(e) ==
  /\ InGrammar(e.tokens)                 \* input class (a harness bug otherwise)
  /\ e.text = text'                      \* the parser was given what the tokens spell
  /\ e.panic = ""
  /\ [ok |-> e.ok, args |-> e.result] = Answer(rejected', args', e.sizes)

TInit == l = 1 /\ Init
TNext == /\ l <= Len(Rec)
         /\ l' = l + 1
         /\ Run(Rec[l].tokens)
         /\ IF EventOK(Rec[l]) THEN TRUE ELSE PrintT(<<"BAD", l>>)
Spec == TInit /\ [][TNext]_<<l, fvars>>
Accepted == TLCGet("stats").diameter - 1 = Len(Rec)
Post == IF Accepted THEN TRUE ELSE PrintT(<<"UNCONSUMED", TLCGet("stats").diameter>>) /\ FALSE
=============================================================================
