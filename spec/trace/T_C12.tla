------------------------------ MODULE T_C12 ------------------------------
(* C12: every event is one generated P-Code project after one stage of the *)
(* REAL pipeline: "lifted" (pcode::Project::normalize + into_ir_project),  *)
(* "basic" (+ Project::normalize_basic), "optimized" (+ normalize_optimize)*)
(* The event is accepted iff the stage did not panic and every Def and Jmp *)
(* of the recorded project is well-sized (WellSized.tla).                  *)
EXTENDS WellSized, Json, IOUtils, TLC
Rec == ndJsonDeserialize(IOEnv.TRACE)
VARIABLE l

\* a case is a "reset" event (carries the generated extractor JSON for the replay) followed by the stages
EventOK(e) == e.ev = "reset" \/ (e.panic = "" /\ ProjectOK(e.project))
Why(e) == IF e.panic # "" THEN {"panic"} ELSE IllSized(e.project)

Init == l = 1
Next == /\ l <= Len(Rec)
        /\ l' = l + 1
        /\ IF EventOK(Rec[l]) THEN TRUE ELSE PrintT(<<"BAD", l, Rec[l].stage, Rec[l].idx, Why(Rec[l])>>)
Spec == Init /\ [][Next]_l
Accepted == TLCGet("stats").diameter - 1 = Len(Rec)
Post == IF Accepted THEN TRUE ELSE PrintT(<<"UNCONSUMED", TLCGet("stats").diameter>>) /\ FALSE
=============================================================================
