------------------------------ MODULE T_C09 ------------------------------
(* Trace specification for C09.  Event: [raw, norm, norm_panic, cfg_panic, *)
(* nodes, edges, entries]: a raw program, the result of the real           *)
(* Project::normalize_basic on it, and the graph get_program_cfg built for *)
(* the result.  Accepted iff normalisation did not panic, the result       *)
(* satisfies the invariants of Normalize.tla, building the graph did not   *)
(* panic and - reusing C08 - the graph is exactly Cfg!Graph(norm).         *)
EXTENDS Normalize, CfgObs, Json, IOUtils, TLC
Rec == ndJsonDeserialize(IOEnv.TRACE)
VARIABLE l

Why(e) ==
  IF e.norm_panic # "" THEN "normalize_basic panicked"
  ELSE IF FirstViolated(e.raw, e.norm) # "" THEN FirstViolated(e.raw, e.norm)
  ELSE IF e.cfg_panic # "" THEN "get_program_cfg panicked"
  ELSE IF ~BlockShapes(e.norm) THEN "BlockShapes"
  ELSE IF ~CallTargetsExist(e.norm) THEN "CallTargetsExist"
  ELSE IF ~GraphMatches(e.nodes, e.edges, e.entries, e.norm) THEN "graph differs from Cfg!Graph(norm)"
  ELSE ""
\* a raw program outside the input class is skipped (and counted by the driver)
EventOK(e) ==
  IF ~RawInClass(e.raw) THEN PrintT(<<"SKIP", l>>)
  ELSE LET w == Why(e) IN IF w = "" THEN TRUE ELSE PrintT(<<"WHY", l, w>>) /\ FALSE

Init == l = 1
Next == /\ l <= Len(Rec)
        /\ l' = l + 1
        /\ IF EventOK(Rec[l]) THEN TRUE ELSE PrintT(<<"BAD", l>>)
Spec == Init /\ [][Next]_l
Accepted == TLCGet("stats").diameter - 1 = Len(Rec)
Post == IF Accepted THEN TRUE ELSE PrintT(<<"UNCONSUMED", TLCGet("stats").diameter>>) /\ FALSE
=============================================================================
