------------------------------ MODULE T_C09 ------------------------------
(* Trace specification for C09.  Event: [raw, norm, norm_panic, cfg_panic, *)
(* nodes, edges, entries]: a raw program, the result of the real           *)
(* Project::normalize_basic on it, and the graph get_program_cfg built for *)
(* the result.  Accepted iff normalisation did not panic, the result       *)
(* satisfies the invariants of Normalize.tla, building the graph did not   *)
(* panic and - reusing C08 - the graph is exactly Cfg!Graph(norm).         *)
EXTENDS Normalize, CfgObs, Json, IOUtils, TLC
Rec == ndJsonDeserialize(IOEnv.TRACE)
VARIABLE l

Why(e) ==
  IF e.norm_panic # "" THEN "normalize_basic panicked"
  ELSE IF FirstViolated(e.raw, e.norm) # "" THEN FirstViolated(e.raw, e.norm)
  ELSE IF e.cfg_panic # "" THEN "get_program_cfg panicked"
  ELSE IF ~BlockShapes(e.norm) THEN "BlockShapes"
  ELSE IF ~CallTargetsExist(e.norm) THEN "CallTargetsExist"
  ELSE GraphDiff(e.nodes, e.edges, e.entries, e.norm)
\* a raw program outside the input class is skipped (and counted by the driver)
Verdict(e) == IF ~RawInClass(e.raw) THEN "skip" ELSE Why(e)

Init == l = 1
Next == /\ l <= Len(Rec)
        /\ l' = l + 1
        /\ LET v == Verdict(Rec[l]) IN
           CASE v = "" -> TRUE
             [] v = "skip" -> PrintT(<<"SKIP", l>>)
             [] OTHER -> PrintT(<<"BAD", l, v>>)
Spec == Init /\ [][Next]_l
Accepted == TLCGet("stats").diameter - 1 = Len(Rec)
Post == IF Accepted THEN TRUE ELSE PrintT(<<"UNCONSUMED", TLCGet("stats").diameter>>) /\ FALSE
=============================================================================
