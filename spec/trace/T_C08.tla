------------------------------ MODULE T_C08 ------------------------------
(* Trace specification for C08: every recorded call of get_program_cfg /   *)
(* get_entry_nodes_of_subs on a well-formed normalised program must return *)
(* exactly the graph Cfg.tla defines: same node bag, same edge bag (edges   *)
(* compared by the nodes they connect, not by petgraph indices), same      *)
(* entry-node map; and it must not panic.                                  *)
(* Event: [program, nodes <<node>>, edges <<[k, s, d, jmp, untaken]>> with *)
(* 1-based indices s, d into nodes, entries <<[sub, n]>>, panic].          *)
EXTENDS CfgObs, Json, IOUtils, TLC
Rec == ndJsonDeserialize(IOEnv.TRACE)
VARIABLE l

GraphOK(e, P) == GraphMatches(e.nodes, e.edges, e.entries, P)

\* A program that is not well-formed is outside the property's quantifier: it is skipped (and
\* counted by the driver), never blamed on the graph builder.
EventOK(e) ==
  IF ~WellFormed(e.program) THEN PrintT(<<"SKIP", l>>)
  ELSE e.panic = "" /\ GraphOK(e, e.program)

Init == l = 1
Next == /\ l <= Len(Rec)
        /\ l' = l + 1
        /\ IF EventOK(Rec[l]) THEN TRUE ELSE PrintT(<<"BAD", l>>)
Spec == Init /\ [][Next]_l
Accepted == TLCGet("stats").diameter - 1 = Len(Rec)
Post == IF Accepted THEN TRUE ELSE PrintT(<<"UNCONSUMED", TLCGet("stats").diameter>>) /\ FALSE
=============================================================================
