------------------------------ MODULE T_C08 ------------------------------
(* Trace specification for C08: every recorded call of get_program_cfg /   *)
(* get_entry_nodes_of_subs on a well-formed normalised program must return *)
(* exactly the graph Cfg.tla defines: same node bag, same edge bag (edges   *)
(* compared by the nodes they connect, not by petgraph indices), same      *)
(* entry-node map; and it must not panic.                                  *)
(* Event: [program, nodes <<node>>, edges <<[k, s, d, jmp, untaken]>> with *)
(* 1-based indices s, d into nodes, entries <<[sub, n]>>, panic].          *)
EXTENDS Cfg, Json, IOUtils, TLC
Rec == ndJsonDeserialize(IOEnv.TRACE)
VARIABLE l

ObsEdges(e) ==
  [i \in DOMAIN e.edges |->
     Edge(e.edges[i].k, e.nodes[e.edges[i].s], e.nodes[e.edges[i].d], e.edges[i].jmp, e.edges[i].untaken)]
ObsEntries(e) == {<<e.entries[i].sub, e.nodes[e.entries[i].n]>> : i \in DOMAIN e.entries}

GraphOK(e, P) ==
  LET G == Graph(P)
      EN == EntryNodes(P)
  IN  /\ SeqBag(e.nodes) = G.nodes
      /\ SeqBag(ObsEdges(e)) = G.edges
      /\ Cardinality(ObsEntries(e)) = Len(e.entries)
      /\ ObsEntries(e) = {<<t, EN[t]>> : t \in DOMAIN EN}

\* A program that is not well-formed is outside the property's quantifier: it is skipped (and
\* counted by the driver), never blamed on the graph builder.
EventOK(e) ==
  IF ~WellFormed(e.program) THEN PrintT(<<"SKIP", l>>)
  ELSE e.panic = "" /\ GraphOK(e, e.program)

Init == l = 1
Next == /\ l <= Len(Rec)
        /\ l' = l + 1
        /\ IF EventOK(Rec[l]) THEN TRUE ELSE PrintT(<<"BAD", l>>)
Spec == Init /\ [][Next]_l
Accepted == TLCGet("stats").diameter - 1 = Len(Rec)
Post == IF Accepted THEN TRUE ELSE PrintT(<<"UNCONSUMED", TLCGet("stats").diameter>>) /\ FALSE
=============================================================================
