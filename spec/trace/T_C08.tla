------------------------------ MODULE T_C08 ------------------------------
(* Trace specification for C08: every recorded call of get_program_cfg /   *)
(* get_entry_nodes_of_subs on a well-formed normalised program must return *)
(* exactly the graph Cfg.tla defines: same node bag, same edge bag (edges   *)
(* compared by the nodes they connect, not by petgraph indices), same      *)
(* entry-node map; and it must not panic.                                  *)
(* Event: [program, nodes <<node>>, edges <<[k, s, d, jmp, untaken]>> with *)
(* 1-based indices s, d into nodes, entries <<[sub, n]>>, panic].          *)
EXTENDS CfgObs, Json, IOUtils, TLC
Rec == ndJsonDeserialize(IOEnv.TRACE)
VARIABLE l

\* Verdict: "" accepted; "skip": the program is not well-formed, i.e. outside the property's
\* quantifier (skipped and counted by the driver, never blamed on the graph builder); otherwise
\* the reason of the rejection.
Verdict(e) ==
  IF ~WellFormed(e.program) THEN "skip"
  ELSE IF e.panic # "" THEN "get_program_cfg panicked"
  ELSE GraphDiff(e.nodes, e.edges, e.entries, e.program)

Init == l = 1
Next == /\ l <= Len(Rec)
        /\ l' = l + 1
        /\ LET v == Verdict(Rec[l]) IN
           CASE v = "" -> TRUE
             [] v = "skip" -> PrintT(<<"SKIP", l>>)
             [] OTHER -> PrintT(<<"BAD", l, v>>)
Spec == Init /\ [][Next]_l
Accepted == TLCGet("stats").diameter - 1 = Len(Rec)
Post == IF Accepted THEN TRUE ELSE PrintT(<<"UNCONSUMED", TLCGet("stats").diameter>>) /\ FALSE
=============================================================================
