------------------------------ MODULE T_X04 ------------------------------
(* Trace specification for X04 (parameter locations of variadic calls).     *)
(* Every event records ONE call of the real code:                           *)
(*  {"ev":"loc", ...}  calculate_parameter_locations(args, symbol, project) *)
(*  {"ev":"fmt", ...}  get_variable_parameters(project, pi_state, symbol,   *)
(*                     {name |-> fmt_index})                                *)
(* common fields                                                            *)
(*   src        "gen" (harness generator) | "tlc" (behaviour of the         *)
(*              allocation machine enumerated by mc/MC_ParamLoc)            *)
(*   arch, sp   cpu architecture name, stack pointer register {n,s,t}       *)
(*   cconvs     [{name, params:[var], fparams:[expr]}] the project's        *)
(*              calling conventions; sym_cconv the symbol's ("" = none)     *)
(*   fixed      the symbol's fixed parameters [{k:"reg"|"stack", x, s, dt}] *)
(*              (x: register expression / stack address expression)         *)
(*   ok, result [{k, x, s, dt}], panic                                      *)
(* loc: args [{t, s}]; beh (src = "tlc": what TLC printed)                  *)
(* fmt: sizes, fmt_index, tokens, text, segs, le, ptr {k:"const"|"other",   *)
(*      addr: 8-byte bv} (what the PointerInference state says about the    *)
(*      format-string parameter)                                            *)
(* The allocation machine of ParamLoc.tla places the recorded argument list *)
(* in one macro step on the ABSTRACTION of the recorded configuration; the  *)
(* event is accepted iff the configuration is in the input class and the    *)
(* recorded result is the CONCRETISATION of the machine's locations         *)
(* (register i of the convention in use, SP + offset), tagged with the data *)
(* types.  For fmt events the argument list is Expect(tokens) with the      *)
(* project's sizes, the stored string must be the one MemImage!StringSpec   *)
(* reads at the pointer, and an error is demanded exactly where the         *)
(* statement says so.                                                       *)
EXTENDS ParamLoc, MemImage, Json, IOUtils, TLC
\* the format-string grammar (its generative machine's variables are not used here: only the folds)
FS == INSTANCE FormatString WITH tokens <- <<>>, text <- <<>>, args <- <<>>, rejected <- FALSE
Rec == ndJsonDeserialize(IOEnv.TRACE)
VARIABLE l

(***************************************************************************)
(* Abstraction of the recorded configuration                               *)
(***************************************************************************)
VarExpr(v) == [k |-> "var", v |-> v]
\* the convention in use: the annotated one; without annotation the project's standard convention
\* ("__stdcall", else "__cdecl", else "__thiscall")
ByName(e, n) == {j \in 1..Len(e.cconvs) : e.cconvs[j].name = n}
HasConv(e, n) == ByName(e, n) # {}
ConvNamed(e, n) == e.cconvs[CHOOSE j \in ByName(e, n) : TRUE]
StdName(e) == IF HasConv(e, "__stdcall") THEN "__stdcall"
              ELSE IF HasConv(e, "__cdecl") THEN "__cdecl" ELSE "__thiscall"
ConvName(e) == IF e.sym_cconv # "" THEN e.sym_cconv ELSE StdName(e)
ConvKnown(e) == HasConv(e, ConvName(e)) /\ \A n \in {e.cconvs[j].name : j \in 1..Len(e.cconvs)} : Cardinality(ByName(e, n)) = 1

\* offset of a stack address expression relative to the stack pointer: SP itself or SP + constant
\* (a constant of the stack pointer's size, small and non-negative); -1 = not of that form
SmallConst(c) == IF \A j \in 4..Len(c) : c[j] = 0 THEN BvToNat(c) ELSE -1
StackOff(x, sp) ==
  IF x = VarExpr(sp) THEN 0
  ELSE IF x.k = "bin"
       THEN IF x.op = "IntAdd" /\ x.l = VarExpr(sp) /\ x.r.k = "const"
            THEN IF Len(x.r.c) = sp.s THEN SmallConst(x.r.c) ELSE -1
            ELSE -1
       ELSE -1
\* index of an integer parameter register of the convention (0 = none)
RegIndex(x, cc) ==
  LET S == {j \in 1..Len(cc.params) : x = VarExpr(cc.params[j])}
  IN IF S = {} THEN 0 ELSE CHOOSE j \in S : TRUE
AbsFixed(f, cc, sp) ==
  IF f.k = "reg" THEN IReg(RegIndex(f.x, cc)) ELSE Slot(StackOff(f.x, sp), f.s)
Abstract(e) ==
  LET cc == ConvNamed(e, ConvName(e)) IN
  [ni |-> Len(cc.params), nf |-> Len(cc.fparams), base |-> RetAddrSlot(e.arch, e.sp.s),
   fixed |-> Vec([j \in 1..Len(e.fixed) |-> AbsFixed(e.fixed[j], cc, e.sp)])]      \* Vec: force the tuple
\* parameter registers of a convention are pairwise different (so that "register i" is well defined)
RegsDistinct(cc) ==
  /\ \A i, j \in 1..Len(cc.params) : i < j => cc.params[i] # cc.params[j]
  /\ \A i, j \in 1..Len(cc.fparams) : i < j => cc.fparams[i] # cc.fparams[j]
\* (cfg' is Abstract(e) whenever the convention is known, see TNext)
InputClass(e) ==
  /\ ConvKnown(e)
  /\ RegsDistinct(ConvNamed(e, ConvName(e)))
  /\ Conforming(cfg')

(***************************************************************************)
(* Concretisation of the machine's answer and comparison with the result   *)
(***************************************************************************)
ItemOK(r, loc, a, cc, sp) ==
  /\ r.dt = a.t
  /\ CASE loc.k = "ireg" -> r.k = "reg" /\ r.x = VarExpr(cc.params[loc.i])
       [] loc.k = "freg" -> r.k = "reg" /\ r.x = cc.fparams[loc.i]
       [] loc.k = "stack" -> r.k = "stack" /\ StackOff(r.x, sp) = loc.off /\ r.s = loc.size
\* the recorded result is the concretisation of the machine's state after Run
ResultOK(e) ==
  LET cc == ConvNamed(e, ConvName(e)) IN
  /\ e.ok /\ e.panic = ""
  /\ Len(e.result) = Len(locs')
  /\ \A p \in 1..Len(locs') : ItemOK(e.result[p], locs'[p], args'[p], cc, e.sp)
ErrorOK(e) == ~e.ok /\ e.panic = "" /\ e.result = <<>>

LocOK(e) ==
  /\ InputClass(e) /\ ArgsOK(e.args)
  /\ ResultOK(e)
  \* a replayed behaviour of the machine: the configuration built by the harness is the one TLC explored
  /\ (e.src = "tlc" =>
        /\ e.beh.args = e.args /\ e.beh.locs = locs'
        /\ e.beh.arch = e.arch /\ e.beh.ptr = e.sp.s
        /\ e.beh.ni = cfg'.ni /\ e.beh.nf = cfg'.nf /\ e.beh.k = Len(cfg'.fixed))

(***************************************************************************)
(* The format-string route                                                 *)
(***************************************************************************)
\* the variadic arguments a format consumes, with the sizes of the project's data types
SizedArgs(e) == LET as == FS!ArgsOf(e.tokens) IN [j \in 1..Len(as) |-> [t |-> as[j], s |-> FS!ArgSize(as[j], e.sizes)]]
FmtAccepted(e) == ~FS!Expect(e.tokens).rejected
\* "ok": a string can be read;  "error": it cannot;  "open": the statement does not say (writeable segment)
ReadKind(e) ==
  LET img == Image(e.segs, e.le)
      a == Addr(e.ptr.addr)
  IN IF e.fmt_index >= Len(e.fixed) \/ e.ptr.k # "const" THEN "error"
     ELSE IF ~Mapped(img, a) THEN "error"
     ELSE IF Seg(img, a).w THEN "open"
     ELSE StringSpec(img, a).k
FmtArgs(e) == IF ReadKind(e) = "ok" /\ FmtAccepted(e) THEN SizedArgs(e) ELSE <<>>
FmtOK(e) ==
  /\ InputClass(e) /\ FS!InGrammar(e.tokens) /\ ImageOK(Image(e.segs, e.le))
  /\ CASE ReadKind(e) = "error" -> ErrorOK(e)
       [] ReadKind(e) = "open" -> e.panic = ""
       [] ReadKind(e) = "ok" ->
            \* input class: the stored string is the one the tokens spell (ASCII: bytes = code points)
            /\ StringSpec(Image(e.segs, e.le), Addr(e.ptr.addr)).v = e.text
            /\ e.text = FS!Text(e.tokens)
            /\ IF FmtAccepted(e) THEN ResultOK(e) ELSE ErrorOK(e)

\* for the reader of a BAD line: was the event outside the input class (a generator defect) or is the result wrong
FmtInput(e) ==
  /\ InputClass(e) /\ FS!InGrammar(e.tokens) /\ ImageOK(Image(e.segs, e.le))
  /\ ReadKind(e) = "ok" => (StringSpec(Image(e.segs, e.le), Addr(e.ptr.addr)).v = e.text /\ e.text = FS!Text(e.tokens))
Reason(e) == IF (IF e.ev = "loc" THEN InputClass(e) /\ ArgsOK(e.args) ELSE FmtInput(e)) THEN "result" ELSE "input-class"
EventArgs(e) == IF e.ev = "loc" THEN e.args ELSE FmtArgs(e)
EventOK(e) == IF e.ev = "loc" THEN LocOK(e) ELSE FmtOK(e)

NoCfg == [ni |-> 0, nf |-> 0, base |-> 0, fixed |-> <<>>]
TInit == l = 1 /\ Start(NoCfg)
TNext == /\ l <= Len(Rec)
         /\ l' = l + 1
         /\ \E e \in {Rec[l]} :
              \E c \in {IF ConvKnown(e) THEN Abstract(e) ELSE NoCfg} :      \* evaluated once
                /\ Run(c, IF ConvKnown(e) THEN EventArgs(e) ELSE <<>>)
                /\ IF EventOK(e) THEN TRUE ELSE PrintT(<<"BAD", l, e.ev, e.src, Reason(e)>>)
Spec == TInit /\ [][TNext]_<<l, pvars>>
Accepted == TLCGet("stats").diameter - 1 = Len(Rec)
Post == IF Accepted THEN TRUE ELSE PrintT(<<"UNCONSUMED", TLCGet("stats").diameter>>) /\ FALSE
=============================================================================
