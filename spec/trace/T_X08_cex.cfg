CONSTANTS
  Fuel = 32
INIT TInit
NEXT TNext
INVARIANT ObsAgree
INVARIANT IStepOK
INVARIANT PStepOK
CHECK_DEADLOCK FALSE
