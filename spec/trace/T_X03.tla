------------------------------ MODULE T_X03 ------------------------------
(* Trace specification for X03 (extended coverage): every recorded run of  *)
(* the real remove_dead_var_assignments is judged by Liveness!Accept:       *)
(*   the project after is the project before without exactly the removed    *)
(*   Defs, every removed Def is an assignment or load, and its target is    *)
(*   dead at that point in the reference liveness of the remaining program. *)
(* event: [ev |-> "dve", stage, fn,                                         *)
(*         project |-> project before (irenc.rs), after |-> project after,  *)
(*         removed |-> <<TIDs of the Defs of `project` missing in `after`>>,*)
(*         alive   |-> <<[blk |-> block TID, vars |-> <<var>>]>>  result of *)
(*                     compute_alive_vars(project): DIAGNOSIS only,         *)
(*         panic   |-> "" or the panic message]                             *)
(* A rejected event prints <<"BAD", index, class>>; classes:                *)
(*   "panic"              the code under test panicked                      *)
(*   "changed"            the result is not "input without the removed Defs"*)
(*   "store"              a removed Def is neither assignment nor load      *)
(*   "known:return-expr"  every offending removal is explained by a RECORDED *)
(*   "known:cond-leave"   DEFECT of the implementation (known_findings.json):*)
(*   "known:return-expr+cond-leave"                                         *)
(*                        the event is acceptable if a return does not read *)
(*                        its target expression / if a jump that follows a  *)
(*                        conditional branch and leaves the function reads  *)
(*                        nothing.  Anything else is:                       *)
(*   "notdead:alive-map"  a removed Def writes a live variable, and the     *)
(*                        recorded alive-at-block-end set of its block      *)
(*                        misses a variable that is live there              *)
(*   "notdead:in-block"   ... while the recorded set of its block is sound  *)
(*                        (the backward walk through the block is wrong)    *)
(* followed by <<"DETAIL", index, offending TIDs, per TID the missed vars>>. *)
EXTENDS Liveness, Json, IOUtils
Rec == ndJsonDeserialize(IOEnv.TRACE)
VARIABLE l

\* the quantifier of the requirement (an event outside is accepted vacuously; none is generated)
InClass(e) == WellFormed(e.project.program)

Removed(e) == SeqRange(e.removed)
EventOK(e) ==
  \/ ~InClass(e)
  \/ /\ e.panic = ""
     /\ Accept(e.project, e.after, Removed(e))

\* ---- diagnosis of a rejected event ----
\* position <<sub index, block index>> of the Def with TID t
BlockOfDef(P, t) == LET c == CHOOSE c \in DefRefs(P) : DefAt(P, c).tid = t IN <<c[1], c[2]>>
RecordedAlive(e, blkTid) ==
  UNION {SeqRange(e.alive[i].vars) : i \in {x \in DOMAIN e.alive : e.alive[x].blk = blkTid}}
\* variables live (in the project before, nothing removed) at the end of the block of Def t that the
\* recorded map misses
MissedAt(e, t, Sem) ==
  LET P == e.project.program
      r == BlockOfDef(P, t)
      F == P.subs[r[1]]
  IN  MapMissesS(F, PhysRegsOf(e.project), r[2], RecordedAlive(e, F.blocks[r[2]].tid), Sem)
BadS(e, Sem) == BadRemovalsS(e.project.program, Removed(e), PhysRegsOf(e.project), Sem)
IsStore(e, t) == LET P == e.project.program IN ~Removable(DefAt(P, CHOOSE c \in DefRefs(P) : DefAt(P, c).tid = t))
\* the recorded defect classes: reads the implementation is known to miss (known_findings.json)
NoRetExpr == [retexpr |-> FALSE, condleave |-> TRUE]
NoCondLeave == [retexpr |-> TRUE, condleave |-> FALSE]
Neither == [retexpr |-> FALSE, condleave |-> FALSE]
Class(e) ==
  IF e.panic # "" THEN "panic"
  ELSE IF ~OnlyRemoved(e.project, e.after, Removed(e)) THEN "changed"
  ELSE IF \E t \in BadS(e, FullSem) : IsStore(e, t) THEN "store"
  ELSE IF BadS(e, NoRetExpr) = {} THEN "known:return-expr"
  ELSE IF BadS(e, NoCondLeave) = {} THEN "known:cond-leave"
  ELSE IF BadS(e, Neither) = {} THEN "known:return-expr+cond-leave"
  ELSE IF \E t \in BadS(e, Neither) : MissedAt(e, t, Neither) # {} THEN "notdead:alive-map"
  ELSE "notdead:in-block"
Detail(e) ==
  IF e.panic # "" THEN <<e.panic>>
  ELSE IF ~OnlyRemoved(e.project, e.after, Removed(e)) THEN <<"removed", e.removed>>
  ELSE LET B == IF BadS(e, Neither) = {} THEN BadS(e, FullSem) ELSE BadS(e, Neither)
           S == IF BadS(e, Neither) = {} THEN FullSem ELSE Neither
       IN  <<B, [t \in B |-> IF IsStore(e, t) THEN {} ELSE {v.n : v \in MissedAt(e, t, S)}]>>

Init == l = 1
Next == /\ l <= Len(Rec)
        /\ l' = l + 1
        /\ IF ~InClass(Rec[l]) THEN PrintT(<<"OUTCLASS", l>>)           \* counted by the driver (none is generated)
           ELSE IF EventOK(Rec[l]) THEN TRUE
           ELSE PrintT(<<"BAD", l, Class(Rec[l])>>) /\ PrintT(<<"DETAIL", l, Detail(Rec[l])>>)
Spec == Init /\ [][Next]_l
Accepted == TLCGet("stats").diameter - 1 = Len(Rec)
Post == IF Accepted THEN TRUE ELSE PrintT(<<"UNCONSUMED", TLCGet("stats").diameter>>) /\ FALSE
=============================================================================
