------------------------------ MODULE T_C17 ------------------------------
(* Trace specification for C17: the reachability-based checkers CWE367 and  *)
(* CWE243 follow the path specification of Checkers.tla (IntraReach over    *)
(* the graph Cfg.tla defines for the recorded program) and never fail.      *)
(* A case is  [ev |-> "reset", project]  followed by one event per checker   *)
(*   [ev |-> "c17", checker, config |-> [symbols, pairs], warnings, panic]. *)
EXTENDS Checkers, Json, IOUtils, TLC
Rec == ndJsonDeserialize(IOEnv.TRACE)
VARIABLES l,       \* index of the next event
          P,       \* program of the current case
          E,       \* edge set of its graph (Cfg!Graph), computed once per case
          inClass  \* P is inside the property's quantifier
vars == <<l, P, E, inClass>>

InClass(p) == WellFormed(p) /\ UniqueExternNames(p)

\* CWE367, per configured (check, use) pair: the SET of reported check sites equals the set of
\* check calls with a reachable use (which use call is named is search-order dependent: it only has
\* to be one of the reachable ones).
OK367(e) ==
  LET ws == e.warnings IN
  /\ \A i \in DOMAIN ws : \E p \in DOMAIN e.config.pairs :
        ws[i].symbols = <<e.config.pairs[p][1], e.config.pairs[p][2]>>
  /\ \A p \in DOMAIN e.config.pairs :
       LET source == e.config.pairs[p][1]
           sink == e.config.pairs[p][2]
           sites == W367sites(P, E, source, sink)
           mine == {i \in DOMAIN ws : ws[i].symbols = <<source, sink>>}
       IN
       \* every flagged check call is reported ...
       /\ \A c \in sites : \E i \in mine : ws[i].tids[1] \in SiteIds(P, c)
       \* ... and every report names a flagged check call and one of its reachable use calls
       /\ \A i \in mine : \E c \in sites :
            /\ ws[i].tids[1] \in SiteIds(P, c)
            /\ ws[i].tids[2] \in UseCalls367(P, E, c, source, sink)

OK243(e) == WarningBag(e.warnings) = W243(P, E, e.config.symbols)

EventOK(e) ==
  \/ ~inClass
  \/ /\ e.panic = ""                         \* "handles every program without failing"
     /\ \A i \in DOMAIN e.warnings : e.warnings[i].name = e.checker
     /\ CASE e.checker = "CWE367" -> OK367(e)
          [] e.checker = "CWE243" -> OK243(e)

Init == l = 1 /\ P = [subs |-> <<>>, externs |-> <<>>] /\ E = {} /\ inClass = FALSE
Reset == /\ l <= Len(Rec) /\ Rec[l].ev = "reset"
         /\ P' = Rec[l].project.program
         /\ E' = DOMAIN Graph(Rec[l].project.program).edges
         /\ inClass' = InClass(Rec[l].project.program)
         /\ l' = l + 1
Check == /\ l <= Len(Rec) /\ Rec[l].ev = "c17"
         /\ UNCHANGED <<P, E, inClass>>
         /\ l' = l + 1
         /\ IF EventOK(Rec[l]) THEN TRUE
            ELSE PrintT(<<"BAD", l>>) /\ PrintT(<<"DETAIL", l, Rec[l].checker, Rec[l].panic>>)
Next == Reset \/ Check
Spec == Init /\ [][Next]_vars
Accepted == TLCGet("stats").diameter - 1 = Len(Rec)
Post == IF Accepted THEN TRUE ELSE PrintT(<<"UNCONSUMED", TLCGet("stats").diameter>>) /\ FALSE
=============================================================================
