------------------------------ MODULE T_C07 ------------------------------
(***************************************************************************)
(* Trace specification for C07: runs of the REAL solver                    *)
(* (analysis/fixpoint.rs, driven through a logging fixpoint::Context)      *)
(* are replayed against the machine of Fixpoint.tla.                       *)
(*                                                                         *)
(* Events of one run (harness/src/props/c07.rs):                           *)
(*   reset{n,edges,join,tr,start,default,maxsteps, mode,prio,prog}         *)
(*        the problem (Fixpoint!cfg) and how the Computation was built     *)
(*        (mode/prio/prog are NOT read here: the machine allows every      *)
(*        order, so no priority list can be wrong by itself)               *)
(*   edge{e,in}      Context::update_edge(in, e) was called                *)
(*   merge{a,b,out}  Context::merge(a, b) was called                       *)
(*   end{vals,worklist,stabilized,panic}   node_values / get_worklist /    *)
(*        has_stabilized after compute / compute_with_max_steps            *)
(*                                                                         *)
(* Pop, FinishNode, Start and Finish are not logged; TLC infers them: a    *)
(* step of the machine that consumes no event is taken exactly when the    *)
(* next event requires it (look-ahead on Rec[l]), so the behaviour is a    *)
(* single path and a mismatch can be attributed to one event:              *)
(*   next event edge{e}: the edge must be pending for the current node;    *)
(*        otherwise the current node is finished (all its edges done) and  *)
(*        Src(e) is popped - ANY worklist node, whatever its priority;     *)
(*   next event end: the worklist is drained by steps that make no         *)
(*        Context call (nodes over the step bound are deferred, nodes      *)
(*        without out-edges visited), then Finish.                         *)
(* C07 only bounds the number of visits from above and says nothing about  *)
(* needless work, so the machine's two liberal actions are used as well:   *)
(*   Requeue(s)  when the solver visits a node that the machine does not   *)
(*        have queued (a re-visit without a change) - at most one per      *)
(*        consumed event, and the visit still counts against the bound;    *)
(*   PopDefer(v) for ANY queued node that the solver reports in its final  *)
(*        worklist (look-ahead to the run's end event, variable endwl),    *)
(*        whether or not the bound was reached - never for compute().      *)
(* Visits of a node WITHOUT out-edges make no call-back at all; such a     *)
(* node is visited once before Finish unless the solver reports it as not  *)
(* stabilised (then it is deferred like any other).                        *)
(* Rejections print <<"BAD", event index, code>>:                          *)
(*   "edge?"    no such edge                                               *)
(*   "input"    update_edge called with a value that is neither the        *)
(*              node's current value nor its value when popped             *)
(*   "pending"  edge of another node / repeated edge while out-edges of    *)
(*              the node being processed are still pending                 *)
(*   "bound"    a node is processed more often than max_steps              *)
(*   "notqueued" edge of a node that has no value (cannot be queued)       *)
(*   "merge"    a merge call that no step of the machine performs          *)
(*   "dropped"  the solver returned although out-edges of the node being   *)
(*              processed were never updated                               *)
(*   "unprocessed" the solver returned although a node with out-edges is   *)
(*              still queued and not reported in the final worklist (e.g.  *)
(*              a changed node was not re-processed)                       *)
(*   "result"   final node values / worklist / stabilized flag differ from *)
(*              the machine's, or the solver panicked                      *)
(*   "order"    event out of place                                         *)
(* Acceptance uses the TLC register 1 = furthest event index reached.      *)
(***************************************************************************)
EXTENDS Fixpoint, Json, IOUtils, TLC

Rec == ndJsonDeserialize(IOEnv.TRACE)

VARIABLES l,      \* index of the next event
          pend,   \* <<new, old>>: the merge call the last UpdateEdge implies, <<>> if none
          skip,   \* a BAD event was reported for this run: ignore events up to the next reset
          endwl   \* look-ahead: the final worklist the solver reports for this run
tvars == <<vars, l, pend, skip, endwl>>

ASSUME TLCSet(1, 0)

CfgOf(r) == [n |-> r.n, edges |-> r.edges, join |-> r.join, tr |-> r.tr, start |-> r.start,
             default |-> r.default, maxsteps |-> r.maxsteps]
Idle == [n |-> 1, edges |-> <<>>, join |-> <<<<1>>>>, tr |-> <<>>, start |-> <<0>>, default |-> 0, maxsteps |-> Inf]

More == l <= Len(Rec)
Ev == Rec[l]
Consume == l' = l + 1
Silent == UNCHANGED <<l, pend, skip, endwl>>
Bad(why) == /\ PrintT(<<"BAD", l, why>>)
            /\ skip' = TRUE /\ Consume /\ UNCHANGED <<vars, pend, endwl>>
Min(S) == CHOOSE m \in S : \A x \in S : m <= x
ToSet(s) == {s[i] : i \in 1..Len(s)}

\* the worklist of the first end event at or after index i (empty if the run has none)
RECURSIVE EndWlFrom(_)
EndWlFrom(i) == IF i > Len(Rec) \/ Rec[i].ev = "reset" THEN {}
                ELSE IF Rec[i].ev = "end" THEN ToSet(Rec[i].worklist)
                ELSE EndWlFrom(i + 1)

TInit == Init(Idle) /\ l = 1 /\ pend = <<>> /\ skip = TRUE /\ endwl = {}

\* a new run.  A problem outside the class of C07 is a defect of the generator, not of the solver.
TReset ==
  /\ More /\ Ev.ev = "reset" /\ Consume /\ pend' = <<>> /\ endwl' = EndWlFrom(l + 1)
  /\ IF InClass(CfgOf(Ev))
       THEN Reset(CfgOf(Ev)) /\ skip' = FALSE
       ELSE PrintT(<<"OUTSIDE", l>>) /\ skip' = TRUE /\ UNCHANGED vars

TSkip == /\ More /\ skip /\ Ev.ev # "reset" /\ Consume /\ UNCHANGED <<vars, pend, skip, endwl>>

Active(k) == More /\ ~skip /\ Ev.ev = k

\* compute() / compute_with_max_steps() is entered before the first call-back and before the end
TStart == /\ (Active("edge") \/ Active("end")) /\ phase = "ready" /\ Start /\ Silent

TEdge ==
  /\ Active("edge") /\ phase = "run"
  /\ LET e == Ev.e IN
     IF e \notin Edges(cfg) THEN Bad("edge?")
     ELSE LET s == Src(cfg, e) IN
       IF cur.n = s /\ e \in cur.todo THEN
            IF Ev.in \in InputChoices(e)
              THEN /\ UpdateEdgeWith(e, Ev.in) /\ Consume /\ UNCHANGED <<skip, endwl>>
                   /\ LET t == Tr(cfg, e, Ev.in) old == val[Dst(cfg, e)]
                      IN pend' = IF t # None /\ old # None THEN <<t, old>> ELSE <<>>
              ELSE Bad("input")
       ELSE IF cur # NoCur THEN
            IF cur.todo = {} THEN FinishNode /\ Silent ELSE Bad("pending")
       ELSE IF s \in wl THEN
            IF CanVisit(s) THEN PopVisit(s) /\ Silent ELSE Bad("bound")
       ELSE IF val[s] # None THEN Requeue(s) /\ Silent      \* a re-visit without a change
       ELSE Bad("notqueued")

\* the merge call that belongs to the preceding update_edge (either argument order; a solver may
\* also skip the call); any other merge is not a step of the machine
TMerge ==
  /\ Active("merge")
  /\ IF /\ pend # <<>>
        /\ \/ (Ev.a = pend[1] /\ Ev.b = pend[2])
           \/ (Ev.a = pend[2] /\ Ev.b = pend[1])
       THEN /\ Consume /\ pend' = <<>> /\ UNCHANGED <<vars, skip, endwl>>
            /\ IF Ev.out = Join(cfg, Ev.a, Ev.b) THEN TRUE ELSE PrintT(<<"OUTSIDE", l>>)
       ELSE Bad("merge")

EndOK(r) ==
  /\ r.panic = ""
  /\ Len(r.vals) = cfg.n /\ \A v \in Nodes(cfg) : r.vals[v] = val[v]
  /\ ToSet(r.worklist) = unstable /\ Len(r.worklist) = Cardinality(unstable)
  /\ r.stabilized = (unstable = {})

TEnd ==
  /\ Active("end") /\ phase # "ready"
  /\ IF phase # "run" THEN Bad("order")
     ELSE IF cur # NoCur THEN
            IF cur.todo = {} THEN FinishNode /\ Silent ELSE Bad("dropped")
     ELSE IF endwl \ (wl \cup unstable) # {} THEN
            \* reported as not stabilised although the machine has it stable: re-queued needlessly and
            \* then given up (possible with a bound only, and only for a node that has a value)
            LET v == Min(endwl \ (wl \cup unstable)) IN
            IF Bounded(cfg) /\ v \in Nodes(cfg) /\ val[v] # None THEN Requeue(v) /\ Silent ELSE Bad("result")
     ELSE IF wl # {} THEN
            LET m == Min(wl) IN
            IF m \in endwl THEN (IF Bounded(cfg) THEN PopDefer(m) /\ Silent ELSE Bad("result"))
            ELSE IF OutEdges(cfg, m) # {} THEN Bad("unprocessed")
            ELSE IF CanVisit(m) THEN PopVisit(m) /\ Silent
            ELSE Bad("result")
     ELSE IF EndOK(Ev) THEN Finish /\ Consume /\ UNCHANGED <<pend, skip, endwl>>
     ELSE Bad("result")

\* anything that is not allowed in the current phase
TOther ==
  /\ More /\ ~skip
  /\ \/ Ev.ev \notin {"reset", "edge", "merge", "end"}
     \/ (Ev.ev = "edge" /\ phase = "done")
  /\ Bad("order")

TNext == TReset \/ TSkip \/ TStart \/ TEdge \/ TMerge \/ TEnd \/ TOther
TSpec == TInit /\ [][TNext]_tvars

\* register 1 := furthest event index reached
Progress == TLCSet(1, IF TLCGet(1) > l THEN TLCGet(1) ELSE l)
Post == IF TLCGet(1) = Len(Rec) + 1 THEN TRUE
        ELSE PrintT(<<"UNCONSUMED", TLCGet(1)>>) /\ FALSE

\* the machine's properties on every state of every validated run
TInv == /\ TypeOK /\ StepBound /\ BelowLFP /\ AboveStart /\ WorklistInv
        /\ Result /\ HonestStabilized /\ StabilizedIsLeast
=============================================================================
