CONSTANTS
  Fuel = 64
INIT TInit
NEXT TNext
INVARIANT ObsPrefix
CHECK_DEADLOCK FALSE
