CONSTANTS
  Fuel = 32
INIT TInit
NEXT TNext
INVARIANT ObsPrefix
CHECK_DEADLOCK FALSE
