CONSTANTS
  Fuel = 48
INIT TInit
NEXT TNext
INVARIANT TSound TNullDerefHalts
CHECK_DEADLOCK FALSE
VIEW PiView
