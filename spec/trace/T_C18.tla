------------------------------ MODULE T_C18 ------------------------------
(* C18: every recorded run of the real cwe_560 / cwe_467 checker on a one-  *)
(* call block must warn exactly when the specification says so.             *)
(* Event: checker, blk (call block), params (of the called symbol), sp,     *)
(* physregs, ptr (pointer size), initA, initB (two initial register files), *)
(* seedA, seedB (background memories), warned (number of warnings), panic.  *)
EXTENDS CheckersConstArg, Json, IOUtils, TLC
Rec == ndJsonDeserialize(IOEnv.TRACE)
VARIABLE l

Env(e, seed) == [seed |-> seed, le |-> TRUE, sp |-> e.sp, physregs |-> e.physregs]
\* the block is run ONCE per initial state (LET definitions are evaluated once)
EventOK(e) ==
  LET envA == Env(e, e.seedA)
      envB == Env(e, e.seedB)
      stA == AtCall(e.blk, e.initA, envA)
      stB == AtCall(e.blk, e.initB, envB)
      valA == [i \in 1..Len(e.params) |-> Norm(ParamValue(e.params[i], stA, envA))]
      valB == [i \in 1..Len(e.params) |-> Norm(ParamValue(e.params[i], stB, envB))]
      vA == Norm(valA)
      vB == Norm(valB)
      \* parameter i is a constant computed by the block itself
      IsConst(i) == ~IsPoison(vA[i]) /\ vA[i] = vB[i] /\ Len(vA[i]) <= 8
      expected ==
        CASE e.checker = "CWE560" -> Len(e.params) = 1 /\ IsConst(1) /\ ChmodStyle(vA[1])
          [] e.checker = "CWE467" -> \E i \in 1..Len(e.params) : IsConst(i) /\ PointerSized(vA[i], e.ptr)
  IN /\ e.panic = ""
     /\ e.warned = (IF expected THEN 1 ELSE 0)       \* exactly one warning for the call, or none

Init == l = 1
Next == /\ l <= Len(Rec)
        /\ l' = l + 1
        /\ IF EventOK(Rec[l]) THEN TRUE ELSE PrintT(<<"BAD", l>>)
Spec == Init /\ [][Next]_l
Accepted == TLCGet("stats").diameter - 1 = Len(Rec)
Post == IF Accepted THEN TRUE ELSE PrintT(<<"UNCONSUMED", TLCGet("stats").diameter>>) /\ FALSE
=============================================================================
