------------------------------ MODULE T_C10 ------------------------------
(* C10: binds the equivalence monitor to the function pairs recorded by the *)
(* harness (harness/src/props/c10.rs).  Every line of the ndjson file is    *)
(* one case: the function before (p1) and after (p2) one optimisation pass  *)
(* (or the whole Project::normalize_optimize) computed by the REAL code,     *)
(* the IR environment and the initial register files.  TLC model-checks the *)
(* product machine: Init picks (case, initial state), every state of every  *)
(* behaviour is checked against ObsPrefix.                                   *)
(*   T_C10.cfg      reports every diverging (case, initial state) as a      *)
(*                  line <<"BAD", case, init, ..>> (one run finds them all) *)
(*   T_C10_cex.cfg  INVARIANT ObsPrefix: TLC stops with its counterexample  *)
(*                  trace (used on a single case for the replay file)       *)
EXTENDS EquivMonitor, Json, IOUtils
TraceCases == ndJsonDeserialize(IOEnv.TRACE)      \* constant definition: evaluated once
TInit == Init(TraceCases)
TNext == Next(TraceCases)
=============================================================================
