------------------------------ MODULE T_X05 ------------------------------
(***************************************************************************)
(* Trace specification for X05 (statement: spec/AbsObject.tla).  A trace   *)
(* is a sequence of cases; a case starts with  reset  (two empty           *)
(* AbstractObjectList "A", "B") and continues with one event per call on   *)
(* the real lists / objects:                                               *)
(*   insert{x,id,obj,via}   add_abstract_object (obj = the new empty       *)
(*                          object) / insert(id, obj)                      *)
(*   set{x,ptr,val,via,err} AbstractObjectList::set_value, or for a single *)
(*                          target get_object_mut(id).set_value(val, off)  *)
(*   wmerge{x,ptr,val}      get_object_mut(id).merge_value(val, off)       *)
(*   arb{x,id,add}          assume_arbitrary_writes_to_object              *)
(*   nonuniq{x,id}          get_object_mut(id).mark_as_not_unique()        *)
(*   merge{dst,src}         dst := dst.merge(&src)                         *)
(*   copy{dst,src}          dst := src.clone()                             *)
(*   get{x,ptr,size,res}    get_value                                      *)
(*   isuniq{x,id,res}       is_unique_object (1 / 0 / -1 = error)          *)
(* Every mutator logs the FULL projected contents of both lists after the  *)
(* call (`state`: per list the objects in identifier order, each           *)
(* {id, uniq, refs, cells}; cells in MemRegionWire.tla's format) and the   *)
(* panic message.  Pointers: {tg:[{id,k,lo,hi,st}..], abs, top}; values:   *)
(* MemRegionWire.tla's <<s, abs, top01, rel_1, rel_2>>.                    *)
(*                                                                         *)
(* The spec state `lists` is ALWAYS the previously logged state: an event  *)
(* binds lists' to the logged contents and requires the step relation of   *)
(* AbsObject.tla to hold on (lists, lists') - a SOUNDNESS relation, any    *)
(* over-approximation is accepted; only the strong-update clause and the   *)
(* observer is_unique_object are exact.  A rejected event prints           *)
(* <<"BAD", l, kind, class>> and validation continues from the logged      *)
(* state.  Classes: "panic", "invariant" ((I) fails on the logged state),  *)
(* "err-missing-target" (a set_value that reported an error because a      *)
(* target identifier is not a key of the list left a state that does not   *)
(* cover the write), "exact" (strong update did not replace the cell /     *)
(* is_unique_object wrong), "unsound" (everything else).                   *)
(***************************************************************************)
EXTENDS AbsObject, Json, IOUtils, TLC
Rec == ndJsonDeserialize(IOEnv.TRACE)
VARIABLE l

SeqSet(q) == {q[i] : i \in DOMAIN q}
WObj(o) == Obj(o.uniq, SeqSet(o.refs), MR!WRegion(o.cells))
WList(q) == [id \in {q[i].id : i \in DOMAIN q} |-> WObj(q[CHOOSE i \in DOMAIN q : q[i].id = id])]
WState(st) == [x \in Lists |-> WList(IF x = "A" THEN st[1] ELSE st[2])]
WV(w) == MR!WVal(w)

Mutators == {"insert", "set", "wmerge", "arb", "nonuniq", "merge", "copy"}
Observers == {"get", "isuniq"}

\* the step relation of AbsObject.tla an event denotes (lists' is bound by TNext)
Apply(e) ==
  CASE e.ev = "insert"  -> Insert(e.x, e.id, WObj(e.obj))
    [] e.ev = "set"     -> WellFormedPtr(e.ptr) /\ Write(e.x, e.ptr, WV(e.val))
    [] e.ev = "wmerge"  -> MergeValue(e.x, e.ptr.tg[1], WV(e.val))
    [] e.ev = "arb"     -> Arbitrary(e.x, e.id, SeqSet(e.add))
    [] e.ev = "nonuniq" -> NonUnique(e.x, e.id)
    [] e.ev = "merge"   -> MergeLists(e.dst, e.src)
    [] e.ev = "copy"    -> Copy(e.dst, e.src)

StateInv == \A x \in Lists : ListInv(lists'[x])
MutOK(e) == e.panic = "" /\ StateInv /\ Apply(e)

\* the exact clause of a write alone (to name the class of a rejected event)
ExactOK(e) ==
  LET L == lists[e.x]  p == e.ptr  v == WV(e.val) IN
  Strong(L, p) => RdR(lists'[e.x][p.tg[1].id].mem, p.tg[1].lo, v.s) = v
MissingTarget(e) == \E i \in 1..Len(e.ptr.tg) : e.ptr.tg[i].id \notin DOMAIN lists[e.x]
MutClass(e) ==
  IF e.panic # "" THEN "panic"
  ELSE IF ~StateInv THEN "invariant"
  ELSE IF e.ev = "set" /\ e.err # "" /\ MissingTarget(e) THEN "err-missing-target"
  ELSE IF e.ev = "set" /\ ~ExactOK(e) THEN "exact"
  ELSE "unsound"

ObsOK(e) ==
  /\ e.panic = ""
  /\ CASE e.ev = "get"    -> WellFormedPtr(e.ptr) /\ Read(e.x, e.ptr, e.size, WV(e.res))
       [] e.ev = "isuniq" -> e.res = (IF e.id \in DOMAIN lists[e.x] THEN (IF lists[e.x][e.id].uniq THEN 1 ELSE 0) ELSE 0 - 1)
ObsClass(e) == IF e.panic # "" THEN "panic" ELSE IF e.ev = "isuniq" THEN "exact" ELSE "unsound"

\* diagnosis (printed with a BAD write): the cells of the logged state that violate (W)
BadCells(e) ==
  LET L == lists[e.x]  L2 == lists'[e.x]  p == e.ptr  v == WV(e.val)
      strong == e.ev = "set" /\ Strong(L, p) IN
  {<<id, o>> \in UNION {{<<j, q>> : q \in DOMAIN L2[j].mem} : j \in DOMAIN L \cap DOMAIN L2} :
     ~CellWriteOK(L, p, v, id, o, L2[id].mem[o], strong)}

TInit == l = 1 /\ lists = [x \in Lists |-> <<>>] /\ conc = <<>>

TNext ==
  /\ l <= Len(Rec)
  /\ l' = l + 1
  /\ UNCHANGED conc
  /\ LET e == Rec[l] IN
     CASE e.ev = "reset" -> Reset
       [] e.ev \in Observers ->
            /\ UNCHANGED lists
            /\ IF ObsOK(e) THEN TRUE ELSE PrintT(<<"BAD", l, e.ev, ObsClass(e)>>)
       [] e.ev \in Mutators ->
            /\ lists' = WState(e.state)                   \* adopt the logged state
            /\ IF MutOK(e) THEN TRUE
               ELSE /\ PrintT(<<"BAD", l, e.ev, MutClass(e)>>)
                    /\ (e.ev \in {"set", "wmerge"} /\ e.panic = "") => PrintT(<<"DETAIL", l, "cells violating (W)", BadCells(e)>>)
       [] OTHER -> PrintT(<<"BAD", l, "unknown event kind", "unsound">>) /\ UNCHANGED lists

TSpec == TInit /\ [][TNext]_<<avars, l>>
Accepted == TLCGet("stats").diameter - 1 = Len(Rec)
Post == IF Accepted THEN TRUE ELSE PrintT(<<"UNCONSUMED", TLCGet("stats").diameter>>) /\ FALSE
=============================================================================
