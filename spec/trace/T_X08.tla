------------------------------ MODULE T_X08 ------------------------------
(* X08: binds the front-end monitor (FrontEndMonitor.tla) to the cases      *)
(* recorded by the harness (harness/src/props/x08.rs).  Every line of the   *)
(* ndjson file is one case: a generated P-Code function with its register   *)
(* table, the IR function that the REAL front end (pcode::Project::normalize *)
(* + into_ir_project + normalize_basic + normalize_optimize) made of it, and *)
(* initial register files with an aligned stack pointer.  TLC model-checks   *)
(* the product machine: Init picks (case, initial state), every state of     *)
(* every behaviour is checked against the observation-prefix invariant.      *)
(*   T_X08.cfg      reports every diverging (case, initial state) as a line  *)
(*                  <<"BAD", case, init, ..>> and every behaviour outside    *)
(*                  the input class as <<"OUTCLASS", case, init, ..>>        *)
(*   T_X08_cex.cfg  INVARIANT ObsAgree (+ the refinement self-checks): TLC   *)
(*                  stops with its counterexample trace - the concrete       *)
(*                  execution of both sides (run on a single case for the    *)
(*                  replay file)                                             *)
EXTENDS FrontEndMonitor, Json, IOUtils
TraceCases == ndJsonDeserialize(IOEnv.TRACE)      \* constant definition: evaluated once
TInit == Init(TraceCases)
TNext == NextR(TraceCases)
ObsAgree == ObsAgreeOf(TraceCases[cs], pm, im)
IStepOK == IStepIsStepBlock(TraceCases[cs])
PStepOK == PStepRefinesBlock(TraceCases[cs])
=============================================================================
