------------------------------- MODULE T_X01 -------------------------------
(***************************************************************************)
(* Trace specification for X01: runs of the REAL interprocedural fixpoint  *)
(* wrappers (forward_interprocedural_fixpoint.rs, backward_interprocedural_*)
(* fixpoint/mod.rs), driven through table-driven logging `Context`         *)
(* implementations (harness/src/props/x01.rs), are validated against       *)
(* InterprocFix.tla.                                                       *)
(*                                                                         *)
(* Events of one run:                                                      *)
(*   reset{dir, mode, program, an, start, default}   the inputs.  The      *)
(*        equation system EdgeSystem(program, an, dir, start, default) and *)
(*        its least solution LFPOf are computed here, once per run, from   *)
(*        the PROGRAM (Cfg!Graph) - nothing the code under test built is   *)
(*        read.  `mode` (which constructor) is not read: the statement     *)
(*        holds for every order.                                           *)
(*   cb{f,a,b,c,d,x,y,o}   a call-back invocation: part (S) of the         *)
(*        statement, InterprocFix!CbVerdict with the previous invocation   *)
(*   end{nodes, vals, stabilized, panic, capped}   part (R): no panic,     *)
(*        worklist empty, the node list is the node set of Cfg!Graph and   *)
(*        every node value equals the least solution                       *)
(* Rejections print <<"BAD", event index, code>>; after one the rest of    *)
(* the run is skipped (its later events depend on the rejected one).       *)
(* Codes of cb events: InterprocFix!CbVerdict; of end events: panic,       *)
(* result-worklist (worklist not empty after compute()), graph-nodes (the  *)
(* node list is not the node set of Cfg!Graph), result-len, result-values  *)
(* (a node value differs from the least solution; a DIAG line names one).  *)
(* Inputs outside the statement's quantifier (program not well-formed,     *)
(* analysis not a monotone table-driven one, a table the harness forgot, a *)
(* recorded answer that is not the table's) print <<"OUTSIDE", l, code>>   *)
(* with code class / start / table / answer: a defect of the harness,      *)
(* reported by the driver as a tool error.                                 *)
(***************************************************************************)
EXTENDS InterprocFix, Json, IOUtils

Rec == ndJsonDeserialize(IOEnv.TRACE)

VARIABLES l,      \* index of the next event
          an,     \* the analysis of the current run
          sys,    \* its equation system
          lfp,    \* its least solution
          prev,   \* the previous call-back invocation of the run (NoCb: none)
          skip    \* ignore events up to the next reset
tvars == <<l, an, sys, lfp, prev, skip>>

More == l <= Len(Rec)
Ev == Rec[l]
Idle == [join |-> <<<<1>>>>, t1 |-> <<>>, t2 |-> <<>>]

TInit == l = 1 /\ an = Idle /\ sys = <<>> /\ lfp = <<>> /\ prev = NoCb /\ skip = TRUE

Outside(why) == /\ PrintT(<<"OUTSIDE", l, why>>)
                /\ skip' = TRUE /\ UNCHANGED <<an, sys, lfp, prev>>

TReset ==
  /\ More /\ Ev.ev = "reset" /\ l' = l + 1
  /\ IF ~(Ev.dir \in {"fwd", "bwd"} /\ WellFormed(Ev.program) /\ AnalysisInClass(Ev.an))
       THEN Outside("class")
     ELSE LET S == EdgeSystem(Ev.program, Ev.an, Ev.dir, Ev.start, Ev.default) IN
          IF ~S.wf THEN Outside("start")
          ELSE IF S.missing # {} THEN Outside("table")
          ELSE /\ an' = Ev.an /\ sys' = S /\ lfp' = LFPOf(Ev.an, S)
               /\ prev' = NoCb /\ skip' = FALSE

TSkip == /\ More /\ skip /\ Ev.ev # "reset" /\ l' = l + 1 /\ UNCHANGED <<an, sys, lfp, prev, skip>>

Bad(why) == /\ PrintT(<<"BAD", l, why>>)
            /\ skip' = TRUE /\ UNCHANGED <<an, sys, lfp, prev>>

CbOf(e) == [f |-> e.f, a |-> e.a, b |-> e.b, c |-> e.c, d |-> e.d, x |-> e.x, y |-> e.y, o |-> e.o]

TCb ==
  /\ More /\ ~skip /\ Ev.ev = "cb" /\ l' = l + 1
  /\ LET e == CbOf(Ev)
         v == CbVerdict(an, sys, lfp, prev, e)
     IN  IF v # "" THEN Bad(v)
         ELSE IF e.o # TableAnswer(an, sys, e) THEN Outside("answer")
         ELSE prev' = e /\ UNCHANGED <<an, sys, lfp, skip>>

\* "" if the final state is the one the statement demands
EndVerdict(e) ==
  IF e.panic # "" THEN "panic"
  ELSE IF ~e.stabilized THEN "result-worklist"
  ELSE IF Len(e.nodes) # Cardinality(sys.nodes) \/ {e.nodes[i] : i \in DOMAIN e.nodes} # sys.nodes
    THEN "graph-nodes"
  ELSE IF Len(e.vals) # Len(e.nodes) THEN "result-len"
  ELSE IF \E i \in DOMAIN e.nodes : e.vals[i] # lfp[e.nodes[i]]
    THEN "result-values"
  ELSE ""

TEnd ==
  /\ More /\ ~skip /\ Ev.ev = "end" /\ l' = l + 1
  /\ LET v == EndVerdict(Ev) IN
     IF v = "" THEN skip' = TRUE /\ UNCHANGED <<an, sys, lfp, prev>>
     ELSE /\ Bad(v)
          /\ IF v = "result-values"
               THEN LET i == CHOOSE j \in DOMAIN Ev.nodes : Ev.vals[j] # lfp[Ev.nodes[j]]
                    IN  PrintT(<<"DIAG", l, Ev.nodes[i].k, Ev.nodes[i].blk, Ev.vals[i], lfp[Ev.nodes[i]]>>)
               ELSE TRUE

TOther == /\ More /\ ~skip /\ Ev.ev \notin {"reset", "cb", "end"} /\ l' = l + 1 /\ Bad("order")

TNext == TReset \/ TSkip \/ TCb \/ TEnd \/ TOther
TSpec == TInit /\ [][TNext]_tvars

Accepted == TLCGet("stats").diameter - 1 = Len(Rec)
Post == IF Accepted THEN TRUE ELSE PrintT(<<"UNCONSUMED", TLCGet("stats").diameter>>) /\ FALSE
=============================================================================
