SPECIFICATION Spec
POSTCONDITION Post
CHECK_DEADLOCK FALSE
