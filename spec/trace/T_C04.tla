------------------------------ MODULE T_C04 ------------------------------
(* Trace specification for C04 (conditional refinement).  Event kinds:      *)
(*  "batch" : one 1-byte interval x, one kind, the results of               *)
(*            add_<kind>_bound for ALL 256 bounds (results[i]: bound i-1)   *)
(*  "one"   : x (dom "iv": interval, "dd": data domain), kind, bound c -> r *)
(*  "isect" : x.intersect(y) -> r                                           *)
(* A result is [ok, v]; ok = FALSE is the implementation's "unsatisfiable". *)
(* A panic is never acceptable.                                             *)
EXTENDS DataDom, Json, IOUtils, TLC
Rec == ndJsonDeserialize(IOEnv.TRACE)
VARIABLE l

EventOK(e, s) ==
  /\ e.panic = ""
  /\ CASE e.ev = "batch" -> WellFormed(e.x) /\ RefineBatch(e.kind, e.x, e.results)
       [] e.ev = "one" /\ e.dom = "iv" -> WellFormed(e.x) /\ Refine(e.kind, e.x, e.c, e.r, s)
       [] e.ev = "one" /\ e.dom = "dd" -> WellFormedD(e.x) /\ RefineD(e.kind, e.x, e.c, e.r, s)
       [] e.ev = "isect" /\ e.dom = "iv" -> WellFormed(e.x) /\ WellFormed(e.y) /\ Intersect(e.x, e.y, e.r, s)
       [] e.ev = "isect" /\ e.dom = "dd" -> WellFormedD(e.x) /\ WellFormedD(e.y) /\ IntersectD(e.x, e.y, e.r, s)
\* for a rejected batch: the (unsigned) bounds whose refinement is rejected
Diag(e) == IF e.ev = "batch" /\ e.panic = ""
           THEN {i - 1 : i \in {j \in 1..256 : ~RefineBatch(e.kind, e.x, [k \in 1..256 |-> IF k = j THEN e.results[j] ELSE [ok |-> TRUE, v |-> e.x]])}}
           ELSE {}

Init == l = 1
Next == /\ l <= Len(Rec)
        /\ l' = l + 1
        /\ IF EventOK(Rec[l], l % 50000) THEN TRUE
           ELSE PrintT(<<"BAD", l, Rec[l].ev, Rec[l].kind>>) /\ PrintT(<<"DIAG", l, Diag(Rec[l])>>)   \* BAD line kept short: TLC wraps long tuples
Spec == Init /\ [][Next]_l
Accepted == TLCGet("stats").diameter - 1 = Len(Rec)
Post == IF Accepted THEN TRUE ELSE PrintT(<<"UNCONSUMED", TLCGet("stats").diameter>>) /\ FALSE
=============================================================================
