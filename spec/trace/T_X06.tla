------------------------------ MODULE T_X06 ------------------------------
(* Trace specification for X06: for every recorded run of the real          *)
(* cwe_416::check_cwe (function signatures and pointer inference computed   *)
(* first, as in the pipeline) on a project of the input class:              *)
(*      UafWalk!Must  \subseteq  reported  \subseteq  UafWalk!May           *)
(* event: [ev |-> "x06", project, config |-> [dealloc |-> <<names>>,        *)
(*         full_path |-> BOOLEAN], reported |-> <<[name, tid]>>, stage,     *)
(*         panic]                                                           *)
(* The replayed hand-written scenarios of mc/MC_UafWalk additionally carry  *)
(* name, expect |-> <<[name, tid]>> and exact: where May = Must (exact) the *)
(* reported set must equal the hand-derived expectation.                    *)
EXTENDS UafWalk, Json, IOUtils, TLC
Rec == ndJsonDeserialize(IOEnv.TRACE)
VARIABLE l

Reported(e) == {<<e.reported[i].name, e.reported[i].tid>> : i \in DOMAIN e.reported}
\* A crash of a PREREQUISITE analysis (stage "fnsig" / "pi") means the check never ran: no observation.
NotObserved(e) == e.stage \in {"fnsig", "pi"}

\* verdict of one event: "ok", "outclass" (accepted vacuously, counted), or the reason of the rejection
Verdict(e) ==
  IF NotObserved(e) THEN <<"ok", {}, {}>>
  ELSE IF ~InClassSyntax(e.project) THEN <<"outclass", {"syntax"}, {}>>
  ELSE LET A == Analyse(e.project, SeqRange(e.config.dealloc))
           R == Reported(e)
       IN  IF A.bad # {} THEN <<"outclass", A.bad, {}>>
           ELSE IF e.panic # "" THEN <<"panic", {}, {}>>
           ELSE IF ~(A.must \subseteq R) THEN <<"missing", A.must \ R, A.may>>
           ELSE IF ~(R \subseteq A.may) THEN <<"spurious", R \ A.may, A.may>>
           ELSE IF "expect" \in DOMAIN e /\ e.exact /\ R # {<<e.expect[i].name, e.expect[i].tid>> : i \in DOMAIN e.expect}
             THEN <<"hand-derived", R, A.may>>
           ELSE IF A.may # A.must THEN <<"gap", {}, {}>>       \* accepted; counted: Must # May (the statement is not "iff" for this event)
           ELSE <<"ok", {}, {}>>

Init == l = 1
Next == /\ l <= Len(Rec)
        /\ l' = l + 1
        /\ LET v == Verdict(Rec[l]) IN
           IF v[1] = "ok" THEN TRUE
           ELSE IF v[1] = "gap" THEN PrintT(<<"GAP", l>>)
           ELSE IF v[1] = "outclass" THEN PrintT(<<"OUTCLASS", l, v[2]>>)
           ELSE PrintT(<<"BAD", l, v[1]>>) /\ PrintT(<<"DETAIL", l, v[1], v[2], "may", v[3], "reported", Reported(Rec[l])>>)
Spec == Init /\ [][Next]_l
Accepted == TLCGet("stats").diameter - 1 = Len(Rec)
Post == IF Accepted THEN TRUE ELSE PrintT(<<"UNCONSUMED", TLCGet("stats").diameter>>) /\ FALSE
=============================================================================
