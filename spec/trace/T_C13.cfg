CONSTANTS
  Fuel = 48
INIT TInit
NEXT TNext
CHECK_DEADLOCK FALSE
VIEW PiView
