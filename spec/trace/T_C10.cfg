CONSTANTS
  Fuel = 64
INIT TInit
NEXT TNext
CHECK_DEADLOCK FALSE
