SPECIFICATION TSpec
CONSTRAINT Furthest
POSTCONDITION Post
CHECK_DEADLOCK FALSE
