SPECIFICATION TSpec
POSTCONDITION Post
CHECK_DEADLOCK FALSE
