------------------------------ MODULE T_C13 ------------------------------
(* C13: binds the pointer-inference monitor (PiMonitor.tla) to the cases     *)
(* recorded by the harness (harness/src/props/c13.rs).  Every line of the    *)
(* ndjson file is one case: a generated function, the result of the REAL     *)
(* pipeline (compute_function_signatures + pointer_inference::run) at every  *)
(* BlkStart / BlkEnd node, the identifier environment and the initial        *)
(* register files.  TLC model-checks the monitor machine: Init picks (case,  *)
(* initial state), every state of every behaviour is judged.                 *)
(*   T_C13.cfg      reports every violating (case, initial state) as a line  *)
(*                  <<"BAD", case, init, kind, block, register, steps>>      *)
(*                  (one run finds them all)                                 *)
(*   T_C13_cex.cfg  INVARIANTS TSound TNullDerefHalts: TLC stops with its    *)
(*                  counterexample, the concrete path (used on a single case *)
(*                  for the replay file)                                     *)
EXTENDS PiMonitor, Json, IOUtils
TraceCases == ndJsonDeserialize(IOEnv.TRACE)      \* constant definition: evaluated once
TInit == Init(TraceCases)
TNext == Next(TraceCases)
TSound == Sound(TraceCases)
TNullDerefHalts == NullDerefHalts(TraceCases)
=============================================================================
