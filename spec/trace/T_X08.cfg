CONSTANTS
  Fuel = 32
INIT TInit
NEXT TNext
CHECK_DEADLOCK FALSE
