CONSTANTS
  Alphabet = {97}
  L = 16
  CIAlphabet = {97, 98, 99}
  CIL = 3
SPECIFICATION Spec
POSTCONDITION Post
CHECK_DEADLOCK FALSE
