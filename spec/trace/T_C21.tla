------------------------------ MODULE T_C21 ------------------------------
(* C21: every invocation of the real cwe_checker binary on a generated     *)
(* well-formed input must be a complete behaviour of the Cli machine that  *)
(* ends in Printed with exit status 0, and its --json output must be       *)
(* well-formed (parsable, known check + version, canonical order).         *)
EXTENDS Cli, Json, IOUtils, TLC
Rec == ndJsonDeserialize(IOEnv.TRACE)
VARIABLE l

Arg(e) == [hasPartial |-> e.has_partial, partial |-> SeqToSet(e.partial), isLkm |-> e.lkm_input]
Verdict(e) ==
  LET r == RunHook(InitM, e.hook, Arg(e), 1) IN
  IF e.timed_out THEN "timeout"
  ELSE IF e.exit # 0 THEN "exit"
  ELSE IF ~r.ok THEN "hook"                       \* hook events are not a behaviour of the machine
  ELSE IF r.m.phase # "printed" THEN "incomplete"
  ELSE IF ~e.json_ok THEN "json"
  ELSE IF Len(e.warnings) # r.m.n THEN "count"
  ELSE IF ~VersionsComplete(e.versions) THEN "versions"
  ELSE IF ~WarningsAllowed(e.warnings, r.m.sel, e.versions) THEN "unknown-check"
  ELSE IF ~Sorted(e.warnings) THEN "order"
  ELSE "ok"

Init == l = 1
Next == /\ l <= Len(Rec)
        /\ l' = l + 1
        /\ LET v == Verdict(Rec[l]) IN IF v = "ok" THEN TRUE ELSE PrintT(<<"BAD", l, v>>)
Spec == Init /\ [][Next]_l
Accepted == TLCGet("stats").diameter - 1 = Len(Rec)
Post == IF Accepted THEN TRUE ELSE PrintT(<<"UNCONSUMED", TLCGet("stats").diameter>>) /\ FALSE
=============================================================================
