------------------------------ MODULE T_C19 ------------------------------
(* Trace specification for C19.  A case is                                  *)
(*   {"ev":"reset","via":..,"le":bool,"segs":[{"base":bv8,"bytes":[..],     *)
(*                                          "r":b,"w":b,"x":b},..]}         *)
(* (the image as the real code holds it, projected from its public fields)  *)
(* followed by query events                                                 *)
(*   {"ev":"q","q":kind,"addr":bv,"size":n,"end":bv8,                       *)
(*    "k":tag,"v":[bytes],"b":bool,"i":int,"panic":""}                      *)
(* recorded from the real query functions.  Every query result must be the  *)
(* one MemImage.tla defines for the image of the preceding reset.           *)
EXTENDS MemImage, Json, IOUtils, TLC
Rec == ndJsonDeserialize(IOEnv.TRACE)
VARIABLES l, img

NoImage == [segs |-> <<>>, le |-> TRUE]

QueryOK(e) ==
  LET a == Addr(e.addr) IN
  /\ e.panic = ""
  /\ CASE e.q = "read" ->
            /\ e.size >= 1
            /\ [k |-> e.k, v |-> e.v] = ReadSpec(img, a, e.size)
       [] e.q = "global" ->                       \* is_global_memory_address(addr): size = |addr|
            /\ e.k = "ok" /\ e.b = IsGlobalSpec(img, e.addr)
       [] e.q = "string" ->
            \* the property speaks only about addresses inside read-only segments
            StringDefined(img, a) => [k |-> e.k, v |-> e.v] = StringSpec(img, a)
       [] e.q = "writable" ->
            [k |-> e.k, b |-> e.b] = IsWritableSpec(img, a)
       [] e.q \in {"ireadable", "iwritable"} ->
            /\ ALe(a, e.end)                       \* input class: start <= end
            /\ [k |-> e.k, b |-> e.b] \in IntervalSpecs(img, a, e.end, IF e.q = "ireadable" THEN "r" ELSE "w")
       [] e.q = "ropointer" ->
            [k |-> e.k, i |-> e.i, v |-> e.v] = RoPointerSpec(img, a)
       [] OTHER -> FALSE

Init == l = 1 /\ img = NoImage
Reset == /\ Rec[l].ev = "reset"
         /\ img' = Image(Rec[l].segs, Rec[l].le)
         \* the generator must stay inside the property's quantifier (disjoint segments)
         /\ IF ImageOK(img') THEN TRUE ELSE PrintT(<<"BAD", l, "image not well-formed">>)
Query == /\ Rec[l].ev = "q"
         /\ UNCHANGED img
         /\ IF QueryOK(Rec[l]) THEN TRUE ELSE PrintT(<<"BAD", l, Rec[l].q>>)
Next == l <= Len(Rec) /\ l' = l + 1 /\ (Reset \/ Query)
Spec == Init /\ [][Next]_<<l, img>>
Accepted == TLCGet("stats").diameter - 1 = Len(Rec)
Post == IF Accepted THEN TRUE ELSE PrintT(<<"UNCONSUMED", TLCGet("stats").diameter>>) /\ FALSE
=============================================================================
