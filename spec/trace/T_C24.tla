------------------------------ MODULE T_C24 ------------------------------
(* Trace specification for C24.  Event: [program, queries <<[s, t, calls,  *)
(* panic]>>]: for one program the result of find_call_sequences_to_target  *)
(* (on the graph built by get_program_callgraph) for ordered pairs (s, t)  *)
(* of functions.  Accepted iff every query returned, without panic and     *)
(* without repetition, exactly Callgraph!OnPath(program, s, t).            *)
EXTENDS Callgraph, Json, IOUtils, TLC
Rec == ndJsonDeserialize(IOEnv.TRACE)
VARIABLE l

QueryOK(P, sites, R, q) ==
  LET got == {q.calls[i] : i \in DOMAIN q.calls} IN
  /\ q.panic = ""
  /\ Cardinality(got) = Len(q.calls)
  /\ got = OnPathR(P, sites, R, q.s, q.t)
\* the queries of event e that are answered wrongly, as <<s, t>>
BadQueries(e) ==
  LET P == e.program
      sites == InternalCallSites(P)
      R == CallRel(P)
  IN  {<<e.queries[i].s, e.queries[i].t>> : i \in {x \in DOMAIN e.queries : ~QueryOK(P, sites, R, e.queries[x])}}

Init == l = 1
Next == /\ l <= Len(Rec)
        /\ l' = l + 1
        /\ LET bad == BadQueries(Rec[l]) IN
           IF bad = {} THEN TRUE
           ELSE PrintT(<<"WHY", l, CHOOSE q \in bad : TRUE>>) /\ PrintT(<<"BAD", l, "wrong queries", Cardinality(bad)>>)
Spec == Init /\ [][Next]_l
Accepted == TLCGet("stats").diameter - 1 = Len(Rec)
Post == IF Accepted THEN TRUE ELSE PrintT(<<"UNCONSUMED", TLCGet("stats").diameter>>) /\ FALSE
=============================================================================
