------------------------------ MODULE T_X02 ------------------------------
(* Trace specification for X02: every recorded call of the real expression  *)
(* rewriting / utility code must satisfy the statement of ExprRewrite.tla.  *)
(* One event per call (harness/src/props/x02.rs):                           *)
(*   rw     e -> r = substitute_trivial_operations(e), r2 = the same of r;  *)
(*          esize/rsize = bytesize, evars/rvars = input_vars, edepth/rdepth *)
(*          = recursion_depth of e / r as the real code computes them       *)
(*   subst  out = substitute_input_var(e, v, w)                             *)
(*   plus   out = e.plus(w)          plusc  out = e.plus_const(c)           *)
(* and the valuations on which TLC evaluates both sides:                    *)
(*   mode = "exhaustive1"  ALL valuations of the (1-byte) variables,        *)
(*                         enumerated here by TLC (vals is empty)           *)
(*   mode = "list"         the valuations vals[i] (records name -> bytes)   *)
(* Verdict(ev) is "" iff the event satisfies the statement; otherwise the   *)
(* clause that failed.  A rejected event is printed and the walk continues. *)
EXTENDS ExprRewrite, Json, IOUtils, TLC
Rec == ndJsonDeserialize(IOEnv.TRACE)
VARIABLE l

VarSet(seq) == {seq[i] : i \in 1..Len(seq)}
\* the valuations of the event are usable for the variable set S of expression e
Exh1OK(e, S) == ExhaustiveOK(S) /\ Cardinality({v.n : v \in S} \ BoolNames(e)) <= 2
ValsOK(ev, e, S) ==
  IF ev.mode = "exhaustive1" THEN Exh1OK(e, S)
  ELSE ev.mode = "list" /\ Len(ev.vals) >= 1 /\ \A i \in 1..Len(ev.vals) : Covers(ev.vals[i], S)
EquivOn(ev, e1, e2) ==
  IF e1 = e2 THEN TRUE                                           \* EvalExpr is a function of the term
  ELSE IF ev.mode = "exhaustive1" THEN EquivalentAll1(e1, e2) ELSE Equivalent(e1, e2, ev.vals)
UtilVerdict(e, size, vars, depth) ==
  IF size # SizeOf(e) THEN "bytesize"
  ELSE IF VarSet(vars) # Vars(e) THEN "input_vars"
  ELSE IF depth # Depth(e) THEN "recursion_depth"
  ELSE ""

RwVerdict(ev) ==
  IF ev.panic # "" THEN "panic"
  ELSE IF ~InClass(ev.e) THEN "precondition: e not in the input class"
  ELSE IF ~ValsOK(ev, ev.e, Vars(ev.e)) THEN "precondition: valuations"
  ELSE IF UtilVerdict(ev.e, ev.esize, ev.evars, ev.edepth) # "" THEN UtilVerdict(ev.e, ev.esize, ev.evars, ev.edepth)
  ELSE IF UtilVerdict(ev.r, ev.rsize, ev.rvars, ev.rdepth) # "" THEN UtilVerdict(ev.r, ev.rsize, ev.rvars, ev.rdepth)
  ELSE IF ~WellSizedSame(ev.e, ev.r) THEN "size"
  ELSE IF ~VarsSubset(ev.r, ev.e) THEN "vars"
  ELSE IF ~EquivOn(ev, ev.e, ev.r) THEN "value"
  ELSE IF ~WellSizedSame(ev.r, ev.r2) THEN "idem-size"
  ELSE IF ~VarsSubset(ev.r2, ev.r) THEN "idem-vars"
  ELSE IF ~EquivOn(ev, ev.r, ev.r2) THEN "idem-value"
  ELSE ""

SubstAll(ev) ==
  LET S == (Vars(ev.e) \ {ev.v}) \cup Vars(ev.w)          \* v itself is bound to the value of w
  IN IF ev.out = ev.e /\ ev.v \notin Vars(ev.e) THEN TRUE        \* nothing to substitute: EvalExpr depends on Vars(e) only
     ELSE IF ev.mode = "exhaustive1"
       THEN ForAllVals1(LAMBDA val : SubstValue(ev.e, ev.v, ev.w, ev.out, val), {x.n : x \in S},
                        BoolNames(ev.w) \cup (BoolNames(ev.e) \ {ev.v.n}))
       ELSE \A i \in 1..Len(ev.vals) : SubstValue(ev.e, ev.v, ev.w, ev.out, ev.vals[i])
SubstVerdict(ev) ==
  LET S == (Vars(ev.e) \ {ev.v}) \cup Vars(ev.w) IN
  IF ev.panic # "" THEN "panic"
  ELSE IF ~(InClass(ev.e) /\ InClass(ev.w) /\ SizeOf(ev.w) = ev.v.s /\ ConsistentVars(Vars(ev.e) \cup Vars(ev.w) \cup {ev.v}))
    THEN "precondition: e, w not in the input class"
  ELSE IF ~ValsOK(ev, XBin("Piece", ev.e, ev.w), S) THEN "precondition: valuations"
  ELSE IF ~SubstSyntax(ev.e, ev.v, ev.w, ev.out) THEN "subst-syntax"
  ELSE IF ~SubstAll(ev) THEN "subst-value"
  ELSE ""

PlusVerdict(ev) ==
  IF ev.panic # "" THEN "panic"
  ELSE IF ~(InClass(ev.e) /\ InClass(ev.w) /\ SizeOf(ev.w) = SizeOf(ev.e) /\ ConsistentVars(Vars(ev.e) \cup Vars(ev.w)))
    THEN "precondition: e, w not in the input class"
  ELSE IF ~ValsOK(ev, XBin("Piece", ev.e, ev.w), Vars(ev.e) \cup Vars(ev.w)) THEN "precondition: valuations"
  ELSE IF ~(WellSizedSame(ev.e, ev.out) /\ Vars(ev.out) \subseteq Vars(ev.e) \cup Vars(ev.w)) THEN "plus-size"
  ELSE IF ~(IF ev.mode = "exhaustive1"
              THEN ForAllVals1(LAMBDA val : PlusValue(ev.e, ev.w, ev.out, val), Names(ev.e) \cup Names(ev.w), BoolNames(ev.e) \cup BoolNames(ev.w))
              ELSE \A i \in 1..Len(ev.vals) : PlusValue(ev.e, ev.w, ev.out, ev.vals[i])) THEN "plus-value"
  ELSE ""
PlusConstVerdict(ev) ==
  IF ev.panic # "" THEN "panic"
  ELSE IF ~(InClass(ev.e) /\ Len(ev.c) = 8) THEN "precondition: e not in the input class"
  ELSE IF ~ValsOK(ev, ev.e, Vars(ev.e)) THEN "precondition: valuations"
  ELSE IF ~(WellSizedSame(ev.e, ev.out) /\ VarsSubset(ev.out, ev.e)) THEN "plus-size"
  ELSE IF ~(IF ev.mode = "exhaustive1"
              THEN ForAllVals1(LAMBDA val : PlusConstValue(ev.e, ev.c, ev.out, val), Names(ev.e), BoolNames(ev.e))
              ELSE \A i \in 1..Len(ev.vals) : PlusConstValue(ev.e, ev.c, ev.out, ev.vals[i])) THEN "plus-value"
  ELSE ""

Verdict(ev) ==
  CASE ev.ev = "rw" -> RwVerdict(ev)
    [] ev.ev = "subst" -> SubstVerdict(ev)
    [] ev.ev = "plus" -> PlusVerdict(ev)
    [] ev.ev = "plusc" -> PlusConstVerdict(ev)
    [] OTHER -> "unknown event kind"

\* a distinguishing valuation for a rejected rw event (printed only; exhaustive mode: <<name, byte, ..>>, list mode: index)
Witness(ev, v) ==
  IF ev.ev # "rw" \/ v \notin {"value", "idem-value"} THEN <<>>
  ELSE LET e1 == IF v = "value" THEN ev.e ELSE ev.r
           e2 == IF v = "value" THEN ev.r ELSE ev.r2
       IN IF ev.mode = "exhaustive1"
            THEN WitnessVals1(LAMBDA val : SameValue(e1, e2, val), Names(e1) \cup Names(e2), BoolNames(e1))
            ELSE LET i == CHOOSE i \in 1..Len(ev.vals) : ~SameValue(e1, e2, ev.vals[i])
                 IN <<i, EvalExpr(e1, ev.vals[i]), EvalExpr(e2, ev.vals[i])>>

Init == l = 1
Next == /\ l <= Len(Rec)
        /\ l' = l + 1
        /\ LET v == Verdict(Rec[l])
           IN IF v = "" THEN TRUE
              ELSE PrintT(<<"BAD", l, v>>) /\ PrintT(<<"DIAG", l, Rec[l].fam, Witness(Rec[l], v)>>)
Spec == Init /\ [][Next]_l
Accepted == TLCGet("stats").diameter - 1 = Len(Rec)
Post == IF Accepted THEN TRUE ELSE PrintT(<<"UNCONSUMED", TLCGet("stats").diameter>>) /\ FALSE
=============================================================================
