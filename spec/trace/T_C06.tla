------------------------------ MODULE T_C06 ------------------------------
(***************************************************************************)
(* Trace specification for C06: every recorded call of the real            *)
(*   BricksDomain::normalize / widen / merge / append_string_domain and    *)
(*   CharacterInclusionDomain::merge / append_string_domain                *)
(* must satisfy the relation of that operation in Bricks.tla /             *)
(* CharIncl.tla.  Stateless: one event = inputs x, y and result r.         *)
(*   {ev:"op", dom:"bricks"|"ci", op, x, y, r, panic, cls}                 *)
(* A panic (or a call that does not return: panic = "TIMEOUT ...") is a    *)
(* violation: the property promises a value for every input of the class.  *)
(* An event whose INPUT is outside the property's input class is a harness *)
(* error and is reported as OUTSIDE (tool error), never as a violation.    *)
(***************************************************************************)
EXTENDS Bricks, CharIncl, Json, IOUtils, TLC
Rec == ndJsonDeserialize(IOEnv.TRACE)
VARIABLE l

InClass(e) ==
  CASE e.dom = "bricks" ->
         /\ WF(e.x) /\ WF(e.y)
         /\ (e.op \in {"normalize", "widen"} => ~e.x.top /\ ~e.y.top)      \* both unwrap their arguments
    [] e.dom = "ci" -> CIWF(e.x) /\ CIWF(e.y)

OpOK(e) ==
  CASE e.dom = "bricks" /\ e.op = "normalize" -> NormOK(e.x, e.r)
    [] e.dom = "bricks" /\ e.op = "append"    -> AppendOK(e.x, e.y, e.r)
    [] e.dom = "bricks" /\ e.op = "merge"     -> MergeOK(e.x, e.y, e.r)
    [] e.dom = "bricks" /\ e.op = "widen"     -> WidenOK(e.x, e.y, e.r)
    [] e.dom = "ci" /\ e.op = "merge"         -> CIMergeOK(e.x, e.y, e.r)
    [] e.dom = "ci" /\ e.op = "append"        -> CIAppendOK(e.x, e.y, e.r)

EventOK(e) == e.panic = "" /\ OpOK(e)

\* diagnostics printed with a rejected bricks event: a lost / invented member
Diag(e) ==
  IF e.panic # "" THEN <<"no result", e.panic>>
  ELSE IF e.dom # "bricks" THEN <<"ci">>
  ELSE CASE e.op = "normalize" -> <<Witness(Lang(e.x), Lang(e.r)), Witness(Lang(e.r), Lang(e.x))>>
         [] e.op = "append" -> <<Witness(Cat(Lang(e.x), Lang(e.y), L), Lang(e.r))>>
         [] OTHER -> <<Witness(Lang(e.x) \cup Lang(e.y), Lang(e.r))>>

Init == l = 1
Next == /\ l <= Len(Rec)
        /\ l' = l + 1
        /\ IF ~InClass(Rec[l]) THEN PrintT(<<"OUTSIDE", l>>)
           ELSE IF EventOK(Rec[l]) THEN TRUE
           ELSE PrintT(<<"WHY", l, Rec[l].dom, Rec[l].op, Diag(Rec[l])>>) /\ PrintT(<<"BAD", l>>)
Spec == Init /\ [][Next]_l
Accepted == TLCGet("stats").diameter - 1 = Len(Rec)
Post == IF Accepted THEN TRUE ELSE PrintT(<<"UNCONSUMED", TLCGet("stats").diameter>>) /\ FALSE
=============================================================================
