------------------------------- MODULE T_C25 -------------------------------
(* Trace specification for C25: executions of the REAL LogThread recorded by *)
(* harness/src/props/c25.rs are validated against LogThreadAbs.tla.          *)
(*                                                                           *)
(* Logged events (one run = reset ... ; already ordered by a process-wide    *)
(* atomic tick taken immediately BEFORE a call starts and AFTER it returns): *)
(*   reset{senders,...}    a fresh LogThread is spawned                      *)
(*   ss{s, m}              sender s is about to call send(m)     SendStart   *)
(*   se{s}                 that call has returned                SendEnd     *)
(*   cs{} / ce{logs,cwes,panic,hang}   collect() called / returned           *)
(*   ds{} / de{panic,hang}             drop(log_thread) begins / returned    *)
(* NOT logged, placed by TLC anywhere between the surrounding events:        *)
(*   Enqueue(s)      (between ss and se of the same send)                    *)
(*   SendTerminate   (between cs and ce, or ds and de)                       *)
(* A run is accepted iff SOME placement of the internal steps makes the      *)
(* recorded result satisfy CollectEnd(res), i.e. the three clauses of C25.   *)
(* Nothing else about timing is used: no wall clock, no cross-thread order   *)
(* other than the tick order, which is consistent with real time.            *)
(*                                                                           *)
(* Acceptance with silent steps uses a TLC register (DESIGN.md section 5):   *)
(* register 1 holds the largest l reached on any branch; the trace is        *)
(* accepted iff it reaches Len(Rec)+1.  Run with -workers 1 and StateDeque.  *)
(*                                                                           *)
(* Look-ahead (pure pruning - it removes only branches that CollectEnd would *)
(* reject anyway): an Enqueue in front of Terminate must be compatible with  *)
(* the run's recorded result, and Terminate is placed only when the folded   *)
(* state already explains the result.                                        *)
EXTENDS LogThreadAbs, Json, IOUtils

Rec == ndJsonDeserialize(IOEnv.TRACE)
N == Len(Rec)

VARIABLES l,    \* next event to consume
          ce    \* index of the current run's "ce" event (0: the run ends with a drop)
tvars == <<spc, cur, fold, termd, opc, result, l, ce>>

ASSUME TLCSet(1, 0)
Max(a, b) == IF a > b THEN a ELSE b
Furthest == TLCSet(1, Max(TLCGet(1), l))       \* CONSTRAINT: always TRUE, records progress

RECURSIVE FindCe(_)
FindCe(j) == IF j > N \/ Rec[j].ev = "reset" THEN 0
             ELSE IF Rec[j].ev = "ce" THEN j ELSE FindCe(j + 1)
Res(j) == [logs |-> Rec[j].logs, cwes |-> Rec[j].cwes]

TInit == InitWith({}) /\ l = 1 /\ ce = 0

Ev(k) == l <= N /\ Rec[l].ev = k /\ l' = l + 1

TReset == Ev("reset") /\ Reset(1..Rec[l].senders) /\ ce' = FindCe(l + 1)

TSendStart == Ev("ss") /\ Rec[l].s \in DOMAIN spc /\ SendStart(Rec[l].s, Rec[l].m) /\ UNCHANGED ce
TSendEnd   == Ev("se") /\ Rec[l].s \in DOMAIN spc /\ SendEnd(Rec[l].s) /\ UNCHANGED ce
TCollectStart == Ev("cs") /\ CollectStart /\ UNCHANGED ce
TDropStart    == Ev("ds") /\ DropStart /\ UNCHANGED ce
\* the collector must terminate (no hang) and must not have panicked
TCollectEnd == Ev("ce") /\ Rec[l].panic = "" /\ ~Rec[l].hang /\ CollectEnd(Res(l)) /\ UNCHANGED ce
TDropEnd    == Ev("de") /\ Rec[l].panic = "" /\ ~Rec[l].hang /\ DropEnd /\ UNCHANGED ce

\* ---- internal steps ----
ExpPlain == SelectSeq(Rec[ce].logs, IsPlain)
KeyIn(seq, kind, a) == \E i \in 1..Len(seq) : seq[i].kind = kind /\ HasKey(seq[i]) /\ Key(seq[i]) = a
\* (IF, not \/ : inside an action TLC explores every disjunct, it does not short-circuit)
LookAhead(m) ==
  IF termd \/ ce = 0 THEN TRUE
  ELSE IF IsPlain(m) THEN Len(fold.general) < Len(ExpPlain) /\ ExpPlain[Len(fold.general) + 1] = Payload(m)
  ELSE IF IsALog(m) THEN KeyIn(Rec[ce].logs, "alog", Key(m))
  ELSE IF IsCwe(m) THEN KeyIn(Rec[ce].cwes, "cwe", Key(m))
  ELSE FALSE

TEnqueue == \E s \in DOMAIN spc :
  /\ spc[s] = "sending"
  /\ LookAhead(cur[s])
  /\ Enqueue(s)
  /\ UNCHANGED <<l, ce>>

TTerminate ==
  /\ opc \in {"requested", "dropreq"}
  /\ IF ce = 0 THEN TRUE ELSE ResultMatches(fold, Res(ce))
  /\ SendTerminate
  /\ UNCHANGED <<l, ce>>

TNext == \/ TReset \/ TSendStart \/ TSendEnd \/ TCollectStart \/ TCollectEnd \/ TDropStart \/ TDropEnd
         \/ TEnqueue \/ TTerminate
TSpec == TInit /\ [][TNext]_tvars

Post == IF TLCGet(1) = N + 1 THEN TRUE ELSE PrintT(<<"UNCONSUMED", TLCGet(1)>>) /\ FALSE
=============================================================================
