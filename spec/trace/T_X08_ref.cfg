CONSTANTS
  Fuel = 32
INIT TInit
NEXT TNext
INVARIANT IStepOK
INVARIANT PStepOK
CHECK_DEADLOCK FALSE
