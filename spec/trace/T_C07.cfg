SPECIFICATION TSpec
CONSTRAINT Progress
INVARIANT TInv
POSTCONDITION Post
CHECK_DEADLOCK FALSE
