------------------------------ MODULE T_C16 ------------------------------
(* Trace specification for C16: every recorded run of the real call-site    *)
(* checkers must return exactly the warning bag Checkers.tla defines for    *)
(* the recorded (program, configuration).                                   *)
(* A case is  [ev |-> "reset", project]  followed by one event per checker   *)
(*   [ev |-> "c16", checker, config |-> [symbols, pairs], warnings, panic]. *)
EXTENDS Checkers, Json, IOUtils, TLC
Rec == ndJsonDeserialize(IOEnv.TRACE)
VARIABLES l,       \* index of the next event
          P,       \* program of the current case
          inClass  \* P is inside the property's quantifier
vars == <<l, P, inClass>>

\* the quantifier of the property: well-formed programs, extern names pairwise different
\* The call-site checkers are syntactic (they need no control flow graph), so the block shape is
\* wider than Cfg!BlockShapes: a call may also be the SECOND jump of a block, after a conditional
\* branch (`[CBranch; Call]`, a conditionally executed call; valid per blk.rs).
BlockShapeC16(blk) ==
  /\ Len(blk.jmps) <= 2
  /\ Len(blk.jmps) = 2 => /\ blk.jmps[1].k = "cbranch"
                          /\ blk.jmps[2].k \in {"branch", "branchind", "return", "call", "callind"}
InClass(p) ==
  /\ UniqueTids(p) /\ IntraInSameSub(p) /\ CallTargetsExist(p)
  /\ \A r \in BlkRefs(p) : BlockShapeC16(BlkAt(p, r))
  /\ UniqueExternNames(p)

Expected(e) ==
  CASE e.checker = "CWE676" -> W676(P, e.config.symbols)
    [] e.checker = "CWE782" -> W782(P)
    [] e.checker = "CWE426" -> W426(P, e.config.symbols)
    [] e.checker = "CWE332" -> W332(P, e.config.pairs)
Observed(e) ==
  IF e.checker = "CWE332" THEN Words332(e.warnings, e.config.pairs) ELSE WarningBag(e.warnings)

EventOK(e) ==
  \/ ~inClass
  \/ /\ e.panic = ""
     /\ Observed(e) = Expected(e)
     /\ \A i \in DOMAIN e.warnings : e.warnings[i].name = e.checker

Init == l = 1 /\ P = [subs |-> <<>>, externs |-> <<>>] /\ inClass = FALSE
Reset == /\ l <= Len(Rec) /\ Rec[l].ev = "reset"
         /\ P' = Rec[l].project.program
         /\ inClass' = InClass(Rec[l].project.program)
         /\ l' = l + 1
Check == /\ l <= Len(Rec) /\ Rec[l].ev = "c16"
         /\ UNCHANGED <<P, inClass>>
         /\ l' = l + 1
         /\ IF EventOK(Rec[l]) THEN TRUE
            ELSE PrintT(<<"BAD", l>>)
                 /\ PrintT(<<"DETAIL", l, Rec[l].checker, "expected", Expected(Rec[l]), "observed", Observed(Rec[l])>>)
Next == Reset \/ Check
Spec == Init /\ [][Next]_vars
Accepted == TLCGet("stats").diameter - 1 = Len(Rec)
Post == IF Accepted THEN TRUE ELSE PrintT(<<"UNCONSUMED", TLCGet("stats").diameter>>) /\ FALSE
=============================================================================
