------------------------------ MODULE T_C22 ------------------------------
(* C22: the checks that executed (hook events `run`) are exactly           *)
(* Select(command line, input kind); analyses are scheduled iff needed;    *)
(* warnings of a check appear only when it was selected; and metamorphic   *)
(* exactness: the output of a selection S equals the all-checks output of  *)
(* the same input restricted to the checks in S (same order);              *)
(* --module-versions names every known check exactly once.                 *)
EXTENDS Cli, Json, IOUtils, TLC
Rec == ndJsonDeserialize(IOEnv.TRACE)
VARIABLES l, ctx       \* ctx: the reset record of the current case (versions, baseline)

Arg(e) == [hasPartial |-> e.has_partial, partial |-> SeqToSet(e.partial), isLkm |-> e.lkm_input]
\* CWE476-named warnings are attributed by version; if the two emitters ever carry the same version the
\* attribution is ambiguous and those warnings are left out of the comparison.
Ambiguous(versions) == VersionOf(versions, "Memory") = VersionOf(versions, "CWE476")
Comparable(out, versions) == IF Ambiguous(versions) THEN SelectSeq(out, LAMBDA w : w.name # "CWE476") ELSE out

RunVerdict(e, c) ==
  LET r == RunHook(InitM, e.hook, Arg(e), 1) IN
  IF e.timed_out \/ e.exit # 0 THEN "exit"
  ELSE IF ~r.ok THEN "selection"                 \* wrong module set / scheduling (Cli!Step rejected a hook event)
  ELSE IF r.m.phase # "printed" THEN "incomplete"
  ELSE IF ~e.json_ok THEN "json"
  ELSE IF ~WarningsAllowed(e.warnings, r.m.sel, c.versions) THEN "unselected-warning"
  ELSE IF Digests(Comparable(e.warnings, c.versions)) #
          Digests(Comparable(FilterOut(c.baseline.warnings, r.m.sel, c.versions), c.versions)) THEN "metamorphic"
  ELSE "ok"

ResetVerdict(c) ==
  IF c.versions_exit # 0 THEN "versions-exit"
  ELSE IF ~VersionsComplete(c.versions) THEN "versions"
  ELSE IF RunVerdict(c.baseline, c) # "ok" THEN "baseline"
  ELSE "ok"

Init == l = 1 /\ ctx = [ev |-> "none"]
Next ==
  /\ l <= Len(Rec)
  /\ l' = l + 1
  /\ IF Rec[l].ev = "reset"
       THEN /\ ctx' = Rec[l]
            /\ LET v == ResetVerdict(Rec[l]) IN IF v = "ok" THEN TRUE ELSE PrintT(<<"BAD", l, v>>)
       ELSE /\ UNCHANGED ctx
            /\ LET v == RunVerdict(Rec[l], ctx) IN IF v = "ok" THEN TRUE ELSE PrintT(<<"BAD", l, v>>)
Spec == Init /\ [][Next]_<<l, ctx>>
Accepted == TLCGet("stats").diameter - 1 = Len(Rec)
Post == IF Accepted THEN TRUE ELSE PrintT(<<"UNCONSUMED", TLCGet("stats").diameter>>) /\ FALSE
=============================================================================
