------------------------------ MODULE T_C14 ------------------------------
(* Trace specification for C14: for every recorded run of the real          *)
(* compute_function_signatures and every function f of the program          *)
(*        ParamWalk!MustBeParamFull(C, f)  \subseteq  reported(f)           *)
(* (one direction only: extra reported parameters are never an alarm).      *)
(* event: [ev |-> "c14", project,                                           *)
(*         reported |-> <<[f |-> function TID, regs |-> <<names>>]...>>,    *)
(*         panic]                                                           *)
EXTENDS ParamWalk, Json, IOUtils, TLC
Rec == ndJsonDeserialize(IOEnv.TRACE)
VARIABLE l

\* the stack pointer is never written and occurs only in load/store ADDRESSES (and stack-argument
\* addresses): then "the address expression reads the stack pointer" recognises stack slots
StackDiscipline(PJ) ==
  LET sp == SpName(PJ)
      P == PJ.program
  IN  /\ \A c \in DefRefs(P) :
           LET d == DefAt(P, c) IN
           CASE d.k = "assign" -> d.v.n # sp /\ sp \notin InputVars(d.e)
             [] d.k = "load" -> d.v.n # sp
             [] d.k = "store" -> sp \notin InputVars(d.e)
      /\ \A c \in JmpRefs(P) :
           LET j == JmpAt(P, c) IN
           CASE j.k = "cbranch" -> sp \notin InputVars(j.c)
             [] j.k \in {"branchind", "callind", "return"} -> sp \notin InputVars(j.e)
             [] OTHER -> TRUE
      /\ \A i \in DOMAIN P.externs : sp \notin RegArgVars(P.externs[i].params)
\* the quantifier of the property (an event outside is accepted vacuously; none is generated)
InClass(e) ==
  LET P == e.project.program IN
  /\ WellFormed(P)
  /\ CconvsResolvable(e.project)
  /\ StackDiscipline(e.project)
  /\ \A i, j \in DOMAIN P.externs : P.externs[i].name = P.externs[j].name => i = j

ReportedOf(e, f) == UNION {SeqRange(e.reported[i].regs) : i \in {x \in DOMAIN e.reported : e.reported[x].f = f}}
\* <<function TID, register>> pairs that must be reported but are not
MissingOf(e, M) == UNION {{<<f, r>> : r \in M[f] \ ReportedOf(e, f)} : f \in DOMAIN M}

EventOK(e) ==
  \/ ~InClass(e)
  \/ /\ e.panic = ""
     /\ MissingOf(e, MustBeParamFullAll(Context(e.project))) = {}

\* Classification of a rejected event (printed in the BAD line; the driver uses it to tell the
\* recorded defect classes from any other miss):
\*   "panic"      the analysis panicked
\*   "violation"  a register of MustBeParamReturning is missing: nothing excuses it
\*   otherwise    every missing register is only in MustBeParamFull; the "+"-joined reason classes
Join(R) ==
  (IF "noreturn-call-read" \in R THEN "noreturn-call-read+" ELSE "")
  \o (IF "call-without-return-site" \in R THEN "call-without-return-site+" ELSE "")
  \o (IF "callee-nonreturning-path" \in R THEN "callee-nonreturning-path+" ELSE "")
Class(e) ==
  IF e.panic # "" THEN "panic"
  ELSE LET C == Context(e.project)
           A == Analysis(C)
       IN  IF MissingOf(e, A.ret) # {} THEN "violation"
           ELSE Join(UNION {MissReasons(C, A, m[1], m[2]) : m \in MissingOf(e, A.full)})
Detail(e) ==
  LET A == Analysis(Context(e.project))
  IN  <<"missing-returning", MissingOf(e, A.ret), "missing-full", MissingOf(e, A.full)>>

Init == l = 1
Next == /\ l <= Len(Rec)
        /\ l' = l + 1
        /\ IF EventOK(Rec[l]) THEN TRUE
           ELSE PrintT(<<"BAD", l, Class(Rec[l])>>) /\ PrintT(<<"DETAIL", l, Rec[l].panic, Detail(Rec[l])>>)
Spec == Init /\ [][Next]_l
Accepted == TLCGet("stats").diameter - 1 = Len(Rec)
Post == IF Accepted THEN TRUE ELSE PrintT(<<"UNCONSUMED", TLCGet("stats").diameter>>) /\ FALSE
=============================================================================
