------------------------------ MODULE T_C23 ------------------------------
(* C23: repeated runs of the real binary on the same input in fresh        *)
(* processes (fresh hash seeds, alternating check order) must produce      *)
(* byte-identical --json output.                                            *)
EXTENDS Determinism, Json, IOUtils, TLC
Rec == ndJsonDeserialize(IOEnv.TRACE)
VARIABLES l, seen
\* the complete observable output of one run
Out(e) == <<e.exit, e.json_ok, e.stdout_len, e.stdout_digest, [i \in 1..Len(e.warnings) |-> e.warnings[i].digest]>>
Init == l = 1 /\ seen = NoneYet
Next ==
  /\ l <= Len(Rec)
  /\ l' = l + 1
  /\ IF Rec[l].ev = "reset" THEN seen' = NoneYet
     ELSE /\ seen' = NextSeen(seen, Out(Rec[l]))
          /\ IF RunOK(seen, Out(Rec[l])) /\ Rec[l].exit = 0 /\ ~Rec[l].timed_out THEN TRUE ELSE PrintT(<<"BAD", l>>)
Spec == Init /\ [][Next]_<<l, seen>>
Accepted == TLCGet("stats").diameter - 1 = Len(Rec)
Post == IF Accepted THEN TRUE ELSE PrintT(<<"UNCONSUMED", TLCGet("stats").diameter>>) /\ FALSE
=============================================================================
