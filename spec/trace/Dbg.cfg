INIT Init
NEXT Next
