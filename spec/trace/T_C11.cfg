INIT Init
NEXT NextR
CHECK_DEADLOCK FALSE
