------------------------------ MODULE T_C02 ------------------------------
(* Trace specification for C02: every recorded call of                      *)
(* IntervalDomain::bin_op / un_op / cast / subpiece must return a           *)
(* well-formed interval of the right width that contains op(a, b) for every *)
(* member a of x and b of y (Interval!SoundBin ...).  A panic is never an    *)
(* acceptable result.  The inputs must be well-formed (generator contract). *)
EXTENDS Interval, Json, IOUtils, TLC
Rec == ndJsonDeserialize(IOEnv.TRACE)
VARIABLE l

InputsOK(e) == WellFormed(e.x) /\ (e.kind = "bin" => WellFormed(e.y))
Sound(e, seed) ==
  CASE e.kind = "bin" -> SoundBin(e.op, e.x, e.y, e.r, seed)
    [] e.kind = "un" -> SoundUn(e.op, e.x, e.r, seed)
    [] e.kind = "cast" -> SoundCast(e.op, e.x, e.size, e.r, seed)
    [] e.kind = "sub" -> SoundSubpiece(e.x, e.low, e.size, e.r, seed)
EventOK(e, seed) == InputsOK(e) /\ e.panic = "" /\ Sound(e, seed)

Init == l = 1
Next == /\ l <= Len(Rec)
        /\ l' = l + 1
        /\ IF EventOK(Rec[l], l % 50000) THEN TRUE ELSE PrintT(<<"BAD", l, Rec[l].kind, Rec[l].op>>)
Spec == Init /\ [][Next]_l
Accepted == TLCGet("stats").diameter - 1 = Len(Rec)
Post == IF Accepted THEN TRUE ELSE PrintT(<<"UNCONSUMED", TLCGet("stats").diameter>>) /\ FALSE
=============================================================================
