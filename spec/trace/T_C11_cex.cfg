INIT Init
NEXT NextR
INVARIANT Agree
INVARIANT BigStep
CHECK_DEADLOCK FALSE
