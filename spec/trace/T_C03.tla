------------------------------ MODULE T_C03 ------------------------------
(* Trace specification for C03.  One event per pair (x, y) of abstract      *)
(* values of one kind:  m = x.merge(y), mxx = x.merge(x), m2 = m.merge(y),  *)
(* m3 = m.merge(x), and the same four through merge_with (wm, wmxx, wm2,    *)
(* wm3).  Both families must satisfy                                        *)
(*   Upper(x, y, m)  Idem(x, mxx)  Absorb(m, m2)  Absorb(m, m3)             *)
(* dom = "val" (tagged scalar value: interval / bit vector / data domain /  *)
(* taint), "map" (DomainMap, with strategy) or "region" (MemRegion).        *)
EXTENDS DomainMap, MemRegionGamma, Json, IOUtils, TLC
Rec == ndJsonDeserialize(IOEnv.TRACE)
VARIABLE l

Up(e, x, y, m, s) == CASE e.dom = "val" -> UpperV(x, y, m, s)
                       [] e.dom = "map" -> UpperM(e.strategy, x, y, m, s)
                       [] e.dom = "region" -> UpperR(x, y, m, s)
Eq(e, a, b, s) == CASE e.dom = "val" -> GammaEqV(a, b, s)
                    [] e.dom = "map" -> GammaEqM(e.strategy, a, b, s)
                    [] e.dom = "region" -> GammaEqR(a, b, s)
Laws(e, m, mxx, m2, m3, s) ==
  <<Up(e, e.x, e.y, m, s), Eq(e, mxx, e.x, s + 1), Eq(e, m2, m, s + 2), Eq(e, m3, m, s + 3)>>
AllTrue(t) == \A i \in 1..Len(t) : t[i]
EventOK(e, s) == /\ e.panic = ""
                 /\ AllTrue(Laws(e, e.m, e.mxx, e.m2, e.m3, s))
                 /\ AllTrue(Laws(e, e.wm, e.wmxx, e.wm2, e.wm3, s))
\* which law failed: <<upper, idem, absorb y, absorb x>> for merge and for merge_with
Diag(e, s) == IF e.panic # "" THEN <<"panic">> ELSE <<Laws(e, e.m, e.mxx, e.m2, e.m3, s), Laws(e, e.wm, e.wmxx, e.wm2, e.wm3, s)>>

Init == l = 1
Next == /\ l <= Len(Rec)
        /\ l' = l + 1
        /\ IF EventOK(Rec[l], l % 50000) THEN TRUE
           ELSE PrintT(<<"BAD", l, Rec[l].dom, Rec[l].vk>>) /\ PrintT(<<"DIAG", l, Diag(Rec[l], l % 50000)>>)   \* BAD line kept short: TLC wraps long tuples
Spec == Init /\ [][Next]_l
Accepted == TLCGet("stats").diameter - 1 = Len(Rec)
Post == IF Accepted THEN TRUE ELSE PrintT(<<"UNCONSUMED", TLCGet("stats").diameter>>) /\ FALSE
=============================================================================
