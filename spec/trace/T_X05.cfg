INIT TInit
NEXT TNext
POSTCONDITION Post
CHECK_DEADLOCK FALSE
