------------------------------ MODULE T_C01 ------------------------------
(* Trace specification for C01: every recorded call of the real constant   *)
(* folding code must return exactly what BV.tla defines.                    *)
EXTENDS BV, Json, IOUtils, TLC, Sequences, Integers
Rec == ndJsonDeserialize(IOEnv.TRACE)
VARIABLE l

ExpectedRes(e) ==
  CASE e.kind = "bin" -> BvBinOp(e.op, e.a, e.b)
    [] e.kind = "un" -> BvUnOp(e.op, e.a)
    [] e.kind = "cast" -> BvCast(e.op, e.a, e.size)
    [] e.kind = "sub" -> BvSubpiece(e.a, e.low, e.size)
ExpectedSize(e) ==
  CASE e.kind = "bin" -> BinResultSize(e.op, Len(e.a), Len(e.b))
    [] e.kind = "un" -> UnResultSize(e.op, Len(e.a))
    [] e.kind \in {"cast", "sub"} -> e.size

EventOK(e) ==
  LET x == ExpectedRes(e) IN
  /\ e.panic = ""
  /\ e.res = x                                    \* exact value, or "unknown" exactly when specified
  /\ (x # BvUnknown => Len(x) = ExpectedSize(e))  \* the oracle's own width discipline
  /\ e.expr_size = ExpectedSize(e)                \* Expression::bytesize
  /\ IF x # BvUnknown                             \* BitvectorDomain: Value(res) / Top(size)
       THEN e.dom_k = "value" /\ e.dom_v = x
       ELSE e.dom_k = "top" /\ e.dom_s = ExpectedSize(e)

Init == l = 1
Next == /\ l <= Len(Rec)
        /\ l' = l + 1
        /\ IF EventOK(Rec[l]) THEN TRUE ELSE PrintT(<<"BAD", l>>)
Spec == Init /\ [][Next]_l
Accepted == TLCGet("stats").diameter - 1 = Len(Rec)
Post == IF Accepted THEN TRUE ELSE PrintT(<<"UNCONSUMED", TLCGet("stats").diameter>>) /\ FALSE
=============================================================================
