------------------------------ MODULE T_C15 ------------------------------
(* Trace specification for C15: for every recorded run of the real          *)
(* cwe_476::check_cwe (function signatures and pointer inference computed   *)
(* first, as in the pipeline) and every source call c of the program:       *)
(*        c is reported  <=>  TaintWalk!Warn(C, c).                         *)
(* event: [ev |-> "c15", project, symbols |-> <<names>>,                    *)
(*         reported |-> <<TIDs of the reported source calls>>, stage, panic]*)
EXTENDS TaintWalk, Json, IOUtils, TLC
Rec == ndJsonDeserialize(IOEnv.TRACE)
VARIABLE l

\* the quantifier of the property (checked here, so an event outside is accepted vacuously)
InClass(e) ==
  LET P == e.project.program IN
  /\ WellFormed(P)
  /\ CconvsResolvable(e.project)
  /\ \A i, j \in DOMAIN P.externs : P.externs[i].name = P.externs[j].name => i = j
\* a source call is inside the class if its symbol returns in registers only and no walker path
\* stores a tainted value ("the value flows only through registers")
InClassSource(C, c) ==
  /\ \A i \in DOMAIN C.ext[JmpAt(C.P, c).t].rets : C.ext[JmpAt(C.P, c).t].rets[i].k = "reg"
  /\ InClassCall(C, c)

\* the source calls on which implementation and specification disagree
Mismatches(e) ==
  LET C == Context(e.project)
      S == SourceCalls(C, e.symbols)
      reported == SeqRange(e.reported)
  IN  {JmpAt(C.P, c).tid : c \in {x \in S : InClassSource(C, x) /\ ((JmpAt(C.P, x).tid \in reported) # Warn(C, x))}}
        \cup (reported \ {JmpAt(C.P, c).tid : c \in S})        \* only source calls may be reported

\* A crash of a PREREQUISITE analysis (function signatures, pointer inference: stage "fnsig"/"pi")
\* means cwe_476::check_cwe never ran: the event carries no observation of this property (such
\* crashes belong to the pointer-inference / whole-pipeline properties and are counted by the
\* driver).  A panic of the check itself is a violation.
NotObserved(e) == e.stage \in {"fnsig", "pi"}
EventOK(e) == ~InClass(e) \/ NotObserved(e) \/ (e.panic = "" /\ Mismatches(e) = {})

\* witness for a rejected event: per mismatching source call the verdict and the reachable states
Witness(e) ==
  LET C == Context(e.project) IN
  [t \in Mismatches(e) |->
     LET cs == {c \in SourceCalls(C, e.symbols) : JmpAt(C.P, c).tid = t} IN
     IF cs = {} THEN <<"reported but not a source call">>
     ELSE LET c == CHOOSE x \in cs : TRUE IN
          <<"spec Warn", Warn(C, c), "reported", t \in SeqRange(e.reported), "reachable", Walk(C, c).states>>]

Init == l = 1
Next == /\ l <= Len(Rec)
        /\ l' = l + 1
        /\ IF EventOK(Rec[l]) THEN TRUE
           ELSE PrintT(<<"BAD", l>>) /\ PrintT(<<"DETAIL", l, Rec[l].panic, Witness(Rec[l])>>)
Spec == Init /\ [][Next]_l
Accepted == TLCGet("stats").diameter - 1 = Len(Rec)
Post == IF Accepted THEN TRUE ELSE PrintT(<<"UNCONSUMED", TLCGet("stats").diameter>>) /\ FALSE
=============================================================================
