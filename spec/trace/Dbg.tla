---- MODULE Dbg ----
EXTENDS Checkers, Json, IOUtils, TLC
Rec == ndJsonDeserialize(IOEnv.TRACE)
VARIABLE l
Init == l = 1
Next == l <= Len(Rec) /\ l' = l + 1 /\ Rec[l].panic = ""
====
