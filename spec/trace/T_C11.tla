------------------------------ MODULE T_C11 ------------------------------
(* C11: binds the lifting monitor to the cases recorded by the harness     *)
(* (harness/src/props/c11.rs).  Every line of the ndjson file is one case: *)
(* a generated P-Code block, the register table, the IR block that the     *)
(* REAL code (pcode::Project::normalize + into_ir_project) produced from   *)
(* it, and the initial register files.  TLC model-checks the monitor: Init *)
(* picks (case, initial state); Agree is evaluated in every state.         *)
(*   T_C11.cfg      reports every failing (case, initial state) as a line  *)
(*                  <<"BAD", case, init, what>> (one run finds them all)   *)
(*   T_C11_cex.cfg  INVARIANT Agree: TLC stops with its counterexample     *)
(*                  trace (run on a single case for the replay file)       *)
(* (The constant is bound by INSTANCE ... WITH and not by `Cases <- ..' in *)
(* the cfg: TLC would re-parse the file on every reference to Cases.)      *)
EXTENDS Json, IOUtils
TraceCases == ndJsonDeserialize(IOEnv.TRACE)
VARIABLES cs, ini, ph, pi, ii, pm, im
INSTANCE LiftMonitor WITH Cases <- TraceCases
=============================================================================
