------------------------------ MODULE Liveness ------------------------------
(***************************************************************************)
(* X03 (extended coverage): dead variable elimination                       *)
(* (analysis/dead_variable_elimination: compute_alive_vars,                 *)
(* remove_dead_var_assignments) checked against a reference LIVENESS        *)
(* semantics.                                                               *)
(*                                                                         *)
(* REQUIREMENT.  For every well-formed normalised program P (Cfg!WellFormed)*)
(* and the program A that remove_dead_var_assignments makes of it:          *)
(*   (1) A is P with some Defs taken out -- the REMOVED set R -- and        *)
(*       nothing else changed (no jump, block, function, extern symbol, or  *)
(*       any other part of the project; the order of the kept Defs);        *)
(*   (2) every removed Def is an assignment or a load (never a Store);      *)
(*   (3) every removed Def writes a variable that is DEAD at that point:    *)
(*       no path from that point reads the variable before it is            *)
(*       overwritten, where the reads that count are those of the Defs and  *)
(*       jumps that are still there (the program after the removal).        *)
(* Only this direction: keeping more Defs than necessary is never an alarm. *)
(*                                                                         *)
(* REFERENCE SEMANTICS of "reads" (the true liveness the analysis           *)
(* approximates; it follows the IR reference semantics IR.tla, whose        *)
(* observations are what a read can influence):                             *)
(*   Def   x := e         reads the variables of e -- but only if x itself  *)
(*                        is live after the Def (an assignment to a dead    *)
(*                        variable influences nothing; this makes chains of *)
(*                        dead assignments dead: "faint" variables);        *)
(*         x := load a    reads the variables of a (a load is observable);  *)
(*         store a := e   reads the variables of a and e;                   *)
(*   Jmp   cbranch c, t   reads the variables of c; continues at t or with  *)
(*                        the next jump of the block;                       *)
(*         branch t       continues at t;                                   *)
(*         branchind e    reads the variables of e; continues at one of the *)
(*                        block's known indirect targets (the program's     *)
(*                        CFG is taken as complete); WITHOUT known targets  *)
(*                        it leaves the known code: ALL PHYSICAL REGISTERS  *)
(*                        are read;                                         *)
(*         call/callind/callother (with or without return site): all        *)
(*                        physical registers are read (plus the variables   *)
(*                        of an indirect call's target expression); nothing *)
(*                        is known about the callee, it may read and        *)
(*                        preserve any register.  Temporaries do not        *)
(*                        survive a call, so nothing else is live before it;*)
(*         return e       all physical registers and the variables of e;    *)
(*         no jump left   (block without jumps, or a conditional branch as  *)
(*                        last jump that is not taken; a target outside the *)
(*                        function): dead end, all physical registers.      *)
(*   Temporaries (every variable outside Project::register_set) are never   *)
(*   read at calls, returns and dead ends; along jumps inside a function    *)
(*   they are treated like every other variable (exactly as the analysis    *)
(*   does; in the generated input class temporaries are assigned before     *)
(*   they are read inside their block, so this choice is immaterial there). *)
(*   Variables are identified as the code does: (name, size, is_temp).      *)
(*                                                                         *)
(* LIVENESS is the LEAST fixpoint of these equations over the blocks of one *)
(* function (calls are opaque, so functions are independent), computed by a *)
(* frontier iteration from the empty sets (LiveInLFP).  R is a parameter:   *)
(* removed Defs neither read nor write.  With R = {} it is the liveness of  *)
(* P itself (LiveIn, LiveOut, DeadAssigns: what an ideal eliminator may     *)
(* remove).                                                                 *)
(*                                                                         *)
(* Definitions only.  mc/MC_Liveness checks them against hand-derived sets, *)
(* mc/MC_LivenessSem against the IR semantics (removing an accepted set     *)
(* never changes an observation); trace/T_X03 binds them to recorded runs   *)
(* of the real code.                                                        *)
(***************************************************************************)
EXTENDS WalkBase

(***************************************************************************)
(* Reads / Writes of Defs and Jmps                                         *)
(***************************************************************************)
\* the variables (records [n, s, t]) an expression reads: Expression::input_vars
RECURSIVE VarsOf(_)
VarsOf(e) ==
  CASE e.k = "var" -> {e.v}
    [] e.k = "bin" -> VarsOf(e.l) \cup VarsOf(e.r)
    [] e.k \in {"un", "cast", "sub"} -> VarsOf(e.a)
    [] OTHER -> {}                      \* const, unknown

DefReads(d) ==
  CASE d.k = "assign" -> VarsOf(d.e)
    [] d.k = "load" -> VarsOf(d.a)
    [] d.k = "store" -> VarsOf(d.a) \cup VarsOf(d.e)
DefWrites(d) == IF d.k \in {"assign", "load"} THEN {d.v} ELSE {}
\* the kinds of Def the requirement allows to be removed
Removable(d) == d.k \in {"assign", "load"}

\* variables read by the jump itself (its expression)
JmpExprReads(j) ==
  CASE j.k = "cbranch" -> VarsOf(j.c)
    [] j.k \in {"branchind", "callind", "return"} -> VarsOf(j.e)
    [] OTHER -> {}
\* does control leave the known code of the function at this jump (every physical register is read)?
LeavesFunction(j, blk) ==
  \/ j.k \in {"call", "callind", "callother", "return"}
  \/ j.k = "branchind" /\ Len(blk.ind) = 0
\* TIDs of the blocks of the same function the jump may continue at
JmpTargets(j, blk) ==
  CASE j.k \in {"branch", "cbranch"} -> {j.t}
    [] j.k = "branchind" -> SeqRange(blk.ind)
    [] OTHER -> {}

\* the physical registers of a project
PhysRegsOf(PJ) == SeqRange(PJ.regs)

(***************************************************************************)
(* Transfer functions (backwards).  L = variables live AFTER the term.     *)
(***************************************************************************)
\* a Def that is still there
KeptBefore(d, L) ==
  CASE d.k = "assign" -> IF d.v \in L THEN (L \ {d.v}) \cup VarsOf(d.e) ELSE L
    [] d.k = "load" -> (L \ {d.v}) \cup VarsOf(d.a)
    [] d.k = "store" -> L \cup VarsOf(d.a) \cup VarsOf(d.e)
\* a removed Def is not there: identity
DefBefore(d, R, L) == IF d.tid \in R THEN L ELSE KeptBefore(d, L)

\* live before the first of the Defs defs[1..k], given A live after defs[k]
DefsBefore(defs, R, A0) ==
  LET RECURSIVE go(_, _)
      go(k, A) == IF k = 0 THEN A ELSE go(k - 1, DefBefore(defs[k], R, A))
  IN  go(Len(defs), A0)

\* index of the block with TID t in function F (0: not a block of F)
BlkIx(F, t) ==
  LET c == {i \in DOMAIN F.blocks : F.blocks[i].tid = t}
  IN  IF c = {} THEN 0 ELSE CHOOSE i \in c : \A i2 \in c : i <= i2

\* The semantics is a parameter Sem = [retexpr, condleave] so that the trace specification can name the
\* reason of a rejection (RECORDED DEFECT CLASSES of the implementation, see trace/T_X03):
\*   retexpr = FALSE    a return does not read the variables of its target expression
\*   condleave = FALSE  a jump that follows a conditional branch in its block and leaves the function
\*                      (return, indirect jump without known targets) reads nothing
\* The REQUIREMENT is FullSem; everything without the suffix S below is FullSem.
FullSem == [retexpr |-> TRUE, condleave |-> TRUE]

\* live at the END of block i of F, given LI : block index -> variables live at the block's start
LiveOutOfS(F, i, LI, Phys, Sem) ==
  LET blk == F.blocks[i]
      In(t) == LET k == BlkIx(F, t) IN IF k = 0 THEN Phys ELSE LI[k]
      Reads(j) == IF j.k = "return" /\ ~Sem.retexpr THEN {} ELSE JmpExprReads(j)
      After(j) == (IF LeavesFunction(j, blk) THEN Phys ELSE {}) \cup UNION {In(t) : t \in JmpTargets(j, blk)}
      RECURSIVE go(_)
      go(q) ==
        IF q > Len(blk.jmps) THEN Phys                       \* no jump left: dead end
        ELSE LET j == blk.jmps[q]
             IN  IF j.k = "cbranch" THEN Reads(j) \cup After(j) \cup go(q + 1)
                 ELSE IF q > 1 /\ ~Sem.condleave /\ j.k \in {"return", "branchind"} /\ LeavesFunction(j, blk) THEN {}
                 ELSE Reads(j) \cup After(j)                 \* unconditional: later jumps are unreachable
  IN  go(1)
LiveOutOf(F, i, LI, Phys) == LiveOutOfS(F, i, LI, Phys, FullSem)

LiveInOfS(F, R, i, LI, Phys, Sem) == DefsBefore(F.blocks[i].defs, R, LiveOutOfS(F, i, LI, Phys, Sem))
LiveInOf(F, R, i, LI, Phys) == LiveInOfS(F, R, i, LI, Phys, FullSem)

(***************************************************************************)
(* Least fixpoint by frontier iteration.  W = blocks whose live-in set has *)
(* to be recomputed; after a round the frontier is the set of predecessors *)
(* of the blocks whose set grew.                                           *)
(***************************************************************************)
SuccIx(F, i) ==
  {BlkIx(F, t) : t \in UNION {JmpTargets(F.blocks[i].jmps[q], F.blocks[i]) : q \in DOMAIN F.blocks[i].jmps}} \ {0}
PredIx(F, S) == {p \in DOMAIN F.blocks : SuccIx(F, p) \cap S # {}}

RECURSIVE LiveIter(_, _, _, _, _, _)
LiveIter(F, R, Phys, Sem, LI, W) ==
  IF W = {} THEN LI
  ELSE LET new == Table([i \in DOMAIN F.blocks |-> IF i \in W THEN LiveInOfS(F, R, i, LI, Phys, Sem) ELSE LI[i]])
           grown == {i \in W : new[i] # LI[i]}
       IN  LiveIter(F, R, Phys, Sem, new, PredIx(F, grown))

\* block index -> variables live at the start of the block, in F without the Defs of R
LiveInLFPS(F, R, Phys, Sem) ==
  LiveIter(F, R, Phys, Sem, Table([i \in DOMAIN F.blocks |-> {}]), DOMAIN F.blocks)
LiveInLFP(F, R, Phys) == LiveInLFPS(F, R, Phys, FullSem)

\* the equations hold (used by the bounded instance: the iteration really ends in a fixpoint)
IsFixpoint(F, R, Phys, LI) == \A i \in DOMAIN F.blocks : LI[i] = LiveInOf(F, R, i, LI, Phys)

(***************************************************************************)
(* Judging a removal                                                       *)
(***************************************************************************)
\* TIDs of the removed Defs of block i that are NOT dead at their position (or are no assignment/load),
\* given the live-in table LI of the function without R
BadInBlock(F, R, i, LI, Phys, Sem) ==
  LET defs == F.blocks[i].defs
      RECURSIVE go(_, _, _)
      go(k, A, bad) ==
        IF k = 0 THEN bad
        ELSE LET d == defs[k]
             IN  IF d.tid \in R
                   THEN go(k - 1, A, IF Removable(d) /\ d.v \notin A THEN bad ELSE bad \cup {d.tid})
                   ELSE go(k - 1, KeptBefore(d, A), bad)
  IN  go(Len(defs), LiveOutOfS(F, i, LI, Phys, Sem), {})

BadRemovalsOfSubS(F, R, Phys, Sem) ==
  LET LI == LiveInLFPS(F, R, Phys, Sem)
  IN  UNION {BadInBlock(F, R, i, LI, Phys, Sem) : i \in DOMAIN F.blocks}
BadRemovalsOfSub(F, R, Phys) == BadRemovalsOfSubS(F, R, Phys, FullSem)

\* removed Defs (TIDs) of program P that violate (2) or (3)
BadRemovalsS(P, R, Phys, Sem) == UNION {BadRemovalsOfSubS(P.subs[s], R, Phys, Sem) : s \in DOMAIN P.subs}
BadRemovals(P, R, Phys) == BadRemovalsS(P, R, Phys, FullSem)

DefTids(P) == {DefAt(P, c).tid : c \in DefRefs(P)}

\* (1): project A is project B with exactly the Defs of R taken out
SameBlockExcept(b, a, R) ==
  /\ [b EXCEPT !.defs = <<>>] = [a EXCEPT !.defs = <<>>]
  /\ a.defs = SelectSeq(b.defs, LAMBDA d : d.tid \notin R)
SameSubExcept(b, a, R) ==
  /\ [b EXCEPT !.blocks = <<>>] = [a EXCEPT !.blocks = <<>>]
  /\ Len(b.blocks) = Len(a.blocks)
  /\ \A i \in DOMAIN b.blocks : SameBlockExcept(b.blocks[i], a.blocks[i], R)
SameProgramExcept(B, A, R) ==
  /\ [B EXCEPT !.subs = <<>>] = [A EXCEPT !.subs = <<>>]
  /\ Len(B.subs) = Len(A.subs)
  /\ \A s \in DOMAIN B.subs : SameSubExcept(B.subs[s], A.subs[s], R)
OnlyRemoved(PJB, PJA, R) ==
  /\ R \subseteq DefTids(PJB.program)
  /\ [PJB EXCEPT !.program = <<>>] = [PJA EXCEPT !.program = <<>>]
  /\ SameProgramExcept(PJB.program, PJA.program, R)

\* the requirement for one run: project before, project after, removed Def TIDs
Accept(PJB, PJA, R) ==
  /\ OnlyRemoved(PJB, PJA, R)
  /\ BadRemovals(PJB.program, R, PhysRegsOf(PJB)) = {}

(***************************************************************************)
(* The liveness of P itself (R = {}) and what it allows to remove          *)
(***************************************************************************)
LiveInS(F, Phys, Sem) == LiveInLFPS(F, {}, Phys, Sem)
LiveOutS(F, Phys, Sem) ==
  LET LI == LiveInS(F, Phys, Sem) IN Table([i \in DOMAIN F.blocks |-> LiveOutOfS(F, i, LI, Phys, Sem)])
LiveIn(F, Phys) == LiveInS(F, Phys, FullSem)
LiveOut(F, Phys) == LiveOutS(F, Phys, FullSem)
\* TIDs of the assignments of F whose target is dead after them
DeadAssigns(F, Phys) ==
  LET LI == LiveIn(F, Phys)
      InBlock(i) ==
        LET defs == F.blocks[i].defs
            RECURSIVE go(_, _, _)
            go(k, A, dead) ==
              IF k = 0 THEN dead
              ELSE go(k - 1, KeptBefore(defs[k], A),
                      IF defs[k].k = "assign" /\ defs[k].v \notin A THEN dead \cup {defs[k].tid} ELSE dead)
        IN  go(Len(defs), LiveOutOf(F, i, LI, Phys), {})
  IN  UNION {InBlock(i) : i \in DOMAIN F.blocks}

(***************************************************************************)
(* Soundness of a recorded "alive at the end of the block" map (the result *)
(* of compute_alive_vars) with respect to the liveness of P.  Used for     *)
(* DIAGNOSIS only (is a wrong removal caused by the map or by the removal  *)
(* step?); the requirement is about removals.                              *)
(***************************************************************************)
\* variables of LiveOut(block i) that the recorded set misses
MapMissesS(F, Phys, i, recorded, Sem) == LiveOutS(F, Phys, Sem)[i] \ recorded
MapMisses(F, Phys, i, recorded) == MapMissesS(F, Phys, i, recorded, FullSem)
=============================================================================
