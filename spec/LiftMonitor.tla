---------------------------- MODULE LiftMonitor ----------------------------
(***************************************************************************)
(* Translation validation of the P-Code lifter (property C11).             *)
(*                                                                         *)
(* For one basic block the monitor runs                                    *)
(*   Pcode!RunBlock  on the block as the P-Code extractor emitted it       *)
(*                   (reference semantics with aliased sub-registers), and *)
(*   IR!RunBlock     on the block that the REAL lifter produced from it    *)
(*                   (pcode::Project::normalize + into_ir_project)         *)
(* from the same initial state (same values of all base registers, same    *)
(* lazily initialised memory) and requires                                 *)
(*   RegsAgree  after the last Def: every base register has the same bytes *)
(*   ObsAgree   at the end: the same memory writes in the same order, each *)
(*              with address, size and value; between two writes the same  *)
(*              memory reads (address, size, value); the same branch       *)
(*              decision (next block), the same call / return / indirect   *)
(*              jump with the same target VALUE.                           *)
(* A sub-register that survives in the IR is an unassigned variable of the *)
(* IR machine: it reads Poison, writes to it do not reach the base         *)
(* register, and the comparison fails.                                     *)
(*                                                                         *)
(* Not stricter than the property:                                         *)
(*  - Memory reads have no effect, so the reads between two writes (or     *)
(*    control observations) are compared as a SET: the lifter may order    *)
(*    the explicit loads it creates for implicit RAM operands freely and   *)
(*    may load the same operand once or twice.                             *)
(*  - Where the reference value is Poison (floating point, see Pcode.tla)  *)
(*    nothing is required of the IR: a poisoned base register is not       *)
(*    compared, and the observation sequence is compared only up to the    *)
(*    first reference observation that involves Poison.                    *)
(*  - Temporaries are not observable.                                      *)
(*                                                                         *)
(* The machine: Init picks (case, initial state); then the P-Code block is *)
(* executed operation by operation, then the IR block Def by Def, then     *)
(* both jump lists (one step).  Every behaviour is deterministic, TLC      *)
(* explores one behaviour per (case, initial state); the invariant Agree   *)
(* is evaluated in every state and TLC's counterexample is the concrete    *)
(* execution of both blocks.  Small steps are a refinement of the block    *)
(* operators: at the end  pm = Pcode!RunBlock(..)  (invariant BigStep,     *)
(* checked in the counterexample configuration).                           *)
(*                                                                         *)
(* A case (one line of the harness' ndjson file) is a record               *)
(*   [regtable, ptr, le, seed, sp, physregs   environment: register table  *)
(*        [reg, base, lsb, size], pointer size, endianness, memory seed,   *)
(*        stack pointer and base registers as IR var records               *)
(*    pblock    the P-Code block (terms of Pcode.tla)                      *)
(*    irblock   the lifted block (terms of IR.tla)                         *)
(*    panic     message if the lifter panicked ("" otherwise)              *)
(*    inits     sequence of initial register files: each a function (JSON  *)
(*              object) base register name -> bit vector]                  *)
(* plus fields that are only reported (raw extractor JSON for the replay,  *)
(* feature tags).                                                          *)
(*                                                                         *)
(* Reporting (as EquivMonitor): a step into a state that violates Agree    *)
(* prints <<"BAD", case, init, what>> and that state has no successors, so *)
(* one run reports every failing (case, initial state).                    *)
(***************************************************************************)
EXTENDS Integers, Sequences, FiniteSets, TLC
IR == INSTANCE IR
Pcode == INSTANCE Pcode
CONSTANTS Cases
VARIABLES cs,      \* index of the case
          ini,     \* index of the initial state
          ph,      \* "run" | "done"
          pi, ii,  \* number of P-Code operations / IR Defs executed
          pm, im   \* the two machine states
vars == <<cs, ini, ph, pi, ii, pm, im>>

PEnv(c, i) == [seed |-> (Cases[c].seed + 37 * i) % 65521, le |-> Cases[c].le, ptr |-> Cases[c].ptr,
               regtable |-> Cases[c].regtable]
IEnv(c, i) == [seed |-> (Cases[c].seed + 37 * i) % 65521, le |-> Cases[c].le, sp |-> Cases[c].sp,
               physregs |-> Cases[c].physregs]

\* Both machines start in the same state: no observation, no byte of memory written, the register
\* file of the case (a function base register name -> bit vector that the harness sends as a JSON
\* object, so it is used as it is instead of being rebuilt by the Start operators).
PStart(c, i) == [Pcode!Start(Cases[c].pblock.tid, <<>>) EXCEPT !.regs = Cases[c].inits[i]]
IStart(c, i) == [IR!Start(Cases[c].irblock.tid, <<>>, IEnv(c, i)) EXCEPT !.regs = Cases[c].inits[i]]

Init == \E c \in 1..Len(Cases) : \E i \in 1..Len(Cases[c].inits) :
          /\ cs = c /\ ini = i /\ ph = "run" /\ pi = 0 /\ ii = 0
          /\ pm = PStart(c, i)
          /\ im = IStart(c, i)

(***************************************************************************)
(* Agreement                                                               *)
(***************************************************************************)
RegsAgreeOf(p, i, c) ==
  \A r \in 1..Len(Cases[c].physregs) :
     LET var == Cases[c].physregs[r]
         pv == Pcode!BaseReg(p, var.n)
     IN IR!IsPoison(pv) \/ pv = IR!ReadVar(var, i.regs)
\* the base registers that differ (for the report)
RegDiffs(p, i, c) ==
  {Cases[c].physregs[r].n : r \in {r \in 1..Len(Cases[c].physregs) :
                                     LET var == Cases[c].physregs[r]
                                         pv == Pcode!BaseReg(p, var.n)
                                     IN ~(IR!IsPoison(pv) \/ pv = IR!ReadVar(var, i.regs))}}

\* what is compared of an observation
Core(o) == [k |-> o.k, a |-> o.a, s |-> o.s, v |-> o.v, t |-> o.t]
\* a reference observation that involves no Poison
Defined(o) ==
  CASE o.k = "read" -> ~IR!IsPoison(o.a)
    [] o.k = "write" -> ~IR!IsPoison(o.a) /\ ~IR!IsPoison(o.v)
    [] o.k \in {"indjmp", "callind", "return"} -> ~IR!IsPoison(o.a)
    [] o.k = "stuck" -> FALSE
    [] OTHER -> TRUE                                    \* call, callother, deadend
DefinedLen(obs) ==
  LET RECURSIVE go(_)
      go(i) == IF i <= Len(obs) /\ Defined(obs[i]) THEN go(i + 1) ELSE i - 1
  IN go(1)

\* canonical form of an observation sequence: ctl = the observations that are not reads, in order;
\* rds[j] = the SET of reads between ctl[j-1] and ctl[j]  (Len(rds) = Len(ctl) + 1)
Canon(obs) ==
  LET RECURSIVE go(_, _, _, _)
      go(i, cur, ctl, rds) ==
        IF i > Len(obs) THEN [ctl |-> ctl, rds |-> Append(rds, cur)]
        ELSE IF obs[i].k = "read" THEN go(i + 1, cur \cup {Core(obs[i])}, ctl, rds)
        ELSE go(i + 1, {}, Append(ctl, Core(obs[i])), Append(rds, cur))
  IN go(1, {}, <<>>, <<>>)

ObsAgreeOf(p, i) ==
  LET n == DefinedLen(p.obs)
      cp == Canon(SubSeq(p.obs, 1, n))
      ci == Canon(i.obs)
      k == Len(cp.ctl)
  IN IF n = Len(p.obs)
       THEN /\ cp.ctl = ci.ctl /\ cp.rds = ci.rds        \* everything defined: equal, and the same continuation
            /\ p.pc = i.pc
       ELSE /\ Len(ci.ctl) >= k                          \* compared up to the first undefined reference observation
            /\ SubSeq(ci.ctl, 1, k) = cp.ctl
            /\ \A j \in 1..k : ci.rds[j] = cp.rds[j]
            /\ cp.rds[k + 1] \subseteq ci.rds[k + 1]

DefsDone == pi = Len(Cases[cs].pblock.defs) /\ ii = Len(Cases[cs].irblock.defs)
RegsAgree == (ph = "run" /\ DefsDone) => RegsAgreeOf(pm, im, cs)
ObsAgree == (ph = "done") => ObsAgreeOf(pm, im)
NoPanic == Cases[cs].panic = ""
Agree == NoPanic /\ RegsAgree /\ ObsAgree

\* the small steps compute what the block operators compute
BigStep == (ph = "done") =>
             pm = Pcode!RunBlock(Cases[cs].pblock, PStart(cs, ini), PEnv(cs, ini))

(***************************************************************************)
(* Steps                                                                   *)
(***************************************************************************)
StepP == /\ ph = "run" /\ pi < Len(Cases[cs].pblock.defs)
         /\ pm' = Pcode!StepOp(Cases[cs].pblock.defs[pi + 1], pm, PEnv(cs, ini))
         /\ pi' = pi + 1
         /\ UNCHANGED <<cs, ini, ph, ii, im>>
StepI == /\ ph = "run" /\ pi = Len(Cases[cs].pblock.defs) /\ ii < Len(Cases[cs].irblock.defs)
         /\ im' = IR!StepDef(Cases[cs].irblock.defs[ii + 1], im, IEnv(cs, ini))
         /\ ii' = ii + 1
         /\ UNCHANGED <<cs, ini, ph, pi, pm>>
Jumps == /\ ph = "run" /\ DefsDone
         /\ pm' = Pcode!RunJmps(Cases[cs].pblock, pm, PEnv(cs, ini))
         /\ im' = IR!StepJmp(Cases[cs].irblock, im, IEnv(cs, ini), <<>>)
         /\ ph' = "done"
         /\ UNCHANGED <<cs, ini, pi, ii>>

What == IF ~NoPanic THEN <<"panic">>
        ELSE IF ~RegsAgree THEN <<"regs", RegDiffs(pm, im, cs)>>
        ELSE IF ~ObsAgree THEN <<"obs">> ELSE <<>>

\* (state predicates are written as `P = TRUE': TLC would otherwise split their inner disjunctions
\* into several identical successor computations)
Next == /\ Agree = TRUE                                \* a diverged pair stops
        /\ (StepP \/ StepI \/ Jumps)
        /\ IF Agree' THEN TRUE ELSE PrintT(<<"BAD", cs, ini, What'>>)
\* a case whose initial state already violates Agree (the lifter panicked) is reported from Init's
\* successor-less state by this extra action
ReportInit == /\ Agree = FALSE /\ ph = "run" /\ pi = 0 /\ ii = 0
              /\ PrintT(<<"BAD", cs, ini, What>>)
              /\ ph' = "done" /\ UNCHANGED <<cs, ini, pi, ii, pm, im>>
NextR == Next \/ ReportInit

Spec == Init /\ [][NextR]_vars
=============================================================================
