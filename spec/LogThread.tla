------------------------------ MODULE LogThread ------------------------------
(* The log collector of cwe_checker as a concurrent state machine            *)
(* (src/cwe_checker_lib/src/utils/log.rs: LogThread::spawn / get_msg_sender  *)
(* / collect / Drop, collect_and_deduplicate, the unbounded crossbeam        *)
(* channel).  Property C25.                                                  *)
(*                                                                           *)
(* Processes                                                                 *)
(*   Sender s   a thread holding a clone of msg_sender; works through        *)
(*              Script[s].  One send is three steps:                         *)
(*                SendStart(s, m)  the call sender.send(m) begins            *)
(*                Enqueue(s)       LINEARISATION POINT: m is appended to the *)
(*                                 channel (internal, not observable)        *)
(*                SendEnd(s)       the call has returned                     *)
(*   Collector  the thread spawned by LogThread::spawn running               *)
(*              collect_and_deduplicate:                                     *)
(*                Recv             one loop iteration on a Log/Cwe message   *)
(*                RecvTerminate    Terminate received: break, build and      *)
(*                                 return the result                         *)
(*   Owner      the thread owning the LogThread value:                       *)
(*                CollectStart     collect() is called = "collection is      *)
(*                                 requested"                                *)
(*                SendTerminate    LINEARISATION POINT of collect()/drop():  *)
(*                                 Terminate is appended to the channel      *)
(*                CollectEnd       join() returned; collect() returns        *)
(*              or, alternatively, DropStart / SendTerminate / DropEnd       *)
(*              (the LogThread value is dropped; the logs are discarded).    *)
(*                                                                           *)
(* `chan` is the HISTORY of the channel (everything ever appended, FIFO);    *)
(* `rd` is the number of items the single consumer has taken out, so the     *)
(* channel content is SubSeq(chan, rd+1, Len(chan)).  A send after the       *)
(* collector has returned fails in the implementation (receiver dropped); in *)
(* the model it is appended behind Terminate, where nothing reads it.        *)
(*                                                                           *)
(* Deviation from DESIGN.md: collect()'s request (CollectStart) and its      *)
(* linearisation point (SendTerminate) are separate steps.  A send that      *)
(* begins after collect() was called can still be enqueued in front of       *)
(* Terminate and is then returned; folding both steps into one would make    *)
(* trace validation reject such (correct) executions.                        *)
EXTENDS LogMsg, TLC

CONSTANTS Senders,   \* set of sender ids
          Script     \* Script[s] : sequence of messages sender s sends, in order

VARIABLES
  spc,      \* spc[s]  \in {"idle", "sending", "enqueued"}
  cur,      \* cur[s]  message of the send in progress (NoMsg when idle)
  nsent,    \* nsent[s] number of sends started by s
  chan,     \* channel history
  rd,       \* items consumed by the collector
  col,      \* collector's local variables [general, byAddr, cwes]
  cpc,      \* collector: "running" | "returned"
  ret,      \* value returned by the collector thread (its JoinHandle's value)
  opc,      \* owner: "idle" | "requested" | "joining" | "collected" | "dropreq" | "dropjoin" | "dropped"
  result,   \* what collect() returned to the owner
  completed,\* ghost: ids of the sends whose SendEnd has happened
  done0     \* ghost: value of `completed` when collection was requested

vars == <<spc, cur, nsent, chan, rd, col, cpc, ret, opc, result, completed, done0>>
NoResult == [logs |-> <<>>, cwes |-> <<>>]

Init ==
  /\ spc = [s \in Senders |-> "idle"]
  /\ cur = [s \in Senders |-> NoMsg]
  /\ nsent = [s \in Senders |-> 0]
  /\ chan = <<>> /\ rd = 0 /\ col = EmptyFold /\ cpc = "running" /\ ret = NoResult
  /\ opc = "idle" /\ result = NoResult /\ completed = {} /\ done0 = {}

-----------------------------------------------------------------------------
\* senders
SendStart(s, m) ==
  /\ spc[s] = "idle"
  /\ spc' = [spc EXCEPT ![s] = "sending"]
  /\ cur' = [cur EXCEPT ![s] = m]
  /\ nsent' = [nsent EXCEPT ![s] = @ + 1]
  /\ UNCHANGED <<chan, rd, col, cpc, ret, opc, result, completed, done0>>

Enqueue(s) ==
  /\ spc[s] = "sending"
  /\ chan' = Append(chan, cur[s])
  /\ spc' = [spc EXCEPT ![s] = "enqueued"]
  /\ UNCHANGED <<cur, nsent, rd, col, cpc, ret, opc, result, completed, done0>>

SendEnd(s) ==
  /\ spc[s] = "enqueued"
  /\ spc' = [spc EXCEPT ![s] = "idle"]
  /\ completed' = completed \cup {cur[s].id}
  /\ cur' = [cur EXCEPT ![s] = NoMsg]
  /\ UNCHANGED <<nsent, chan, rd, col, cpc, ret, opc, result, done0>>

-----------------------------------------------------------------------------
\* collector
Recv ==
  /\ cpc = "running" /\ rd < Len(chan) /\ ~IsTerminate(chan[rd + 1])
  /\ rd' = rd + 1
  /\ col' = FoldStep(col, chan[rd + 1])
  /\ UNCHANGED <<spc, cur, nsent, chan, cpc, ret, opc, result, completed, done0>>

RecvTerminate ==
  /\ cpc = "running" /\ rd < Len(chan) /\ IsTerminate(chan[rd + 1])
  /\ rd' = rd + 1
  /\ cpc' = "returned"
  /\ ret' = Returned(col)
  /\ UNCHANGED <<spc, cur, nsent, chan, col, opc, result, completed, done0>>

-----------------------------------------------------------------------------
\* owner
CollectStart ==
  /\ opc = "idle" /\ opc' = "requested"
  /\ done0' = completed
  /\ UNCHANGED <<spc, cur, nsent, chan, rd, col, cpc, ret, result, completed>>

DropStart ==
  /\ opc = "idle" /\ opc' = "dropreq"
  /\ UNCHANGED <<spc, cur, nsent, chan, rd, col, cpc, ret, result, completed, done0>>

SendTerminate ==
  /\ opc \in {"requested", "dropreq"}
  /\ chan' = Append(chan, Terminate)
  /\ opc' = IF opc = "requested" THEN "joining" ELSE "dropjoin"
  /\ UNCHANGED <<spc, cur, nsent, rd, col, cpc, ret, result, completed, done0>>

CollectEnd ==          \* handle.join() returns the collector's value
  /\ opc = "joining" /\ cpc = "returned"
  /\ opc' = "collected" /\ result' = ret
  /\ UNCHANGED <<spc, cur, nsent, chan, rd, col, cpc, ret, completed, done0>>

DropEnd ==             \* Drop::drop joins, the value is discarded
  /\ opc = "dropjoin" /\ cpc = "returned"
  /\ opc' = "dropped"
  /\ UNCHANGED <<spc, cur, nsent, chan, rd, col, cpc, ret, result, completed, done0>>

-----------------------------------------------------------------------------
NextSend(s) == nsent[s] < Len(Script[s]) /\ SendStart(s, Script[s][nsent[s] + 1])
Next ==
  \/ \E s \in Senders : NextSend(s) \/ Enqueue(s) \/ SendEnd(s)
  \/ Recv \/ RecvTerminate
  \/ CollectStart \/ DropStart \/ SendTerminate \/ CollectEnd \/ DropEnd

\* The collector thread and the owner are scheduled eventually; senders need no fairness.
Fairness == /\ WF_vars(Recv) /\ WF_vars(RecvTerminate)
            /\ WF_vars(SendTerminate) /\ WF_vars(CollectEnd) /\ WF_vars(DropEnd)
SafetySpec == Init /\ [][Next]_vars          \* for the invariants and the refinement (no liveness bookkeeping)
Spec == SafetySpec /\ Fairness

-----------------------------------------------------------------------------
\* properties
Q == Prefix(chan)

TypeOK ==
  /\ \A s \in Senders : spc[s] \in {"idle", "sending", "enqueued"} /\ nsent[s] \in 0..Len(Script[s])
  /\ rd \in 0..Len(chan) /\ cpc \in {"running", "returned"}
  /\ opc \in {"idle", "requested", "joining", "collected", "dropreq", "dropjoin", "dropped"}

\* C25 clause 1: every message whose send completed before collection was requested is delivered
Delivered == opc = "collected" => DeliveredOK(Q, done0) /\ ReturnedOK(Q, done0, result)
\* C25 clause 2
GeneralOrder == opc = "collected" => GeneralOrderOK(Q, result)
\* C25 clause 3 (and the same behaviour of the code for logs with a location)
LastWins == opc = "collected" => LastWinsOK(Q, result) /\ ALogLastWinsOK(Q, result) /\ WellKinded(result)

\* The collector's variables are the fold of what it has consumed; its return value is the fold
\* of the whole prefix in front of Terminate.  This is what justifies LogThreadAbs (trace
\* validation carries Fold(Q) instead of the channel).
FoldRefinement ==
  /\ cpc = "running" => rd <= Len(Q) /\ col = FoldUpTo(chan, rd)
  /\ cpc = "returned" => rd = Len(Q) + 1 /\ col = Fold(Q) /\ ret = Returned(Fold(Q))
  /\ opc = "collected" => result = Returned(Fold(Q))

\* exactly one Terminate, sent by the owner
OneTerminate == Cardinality({i \in 1..Len(chan) : IsTerminate(chan[i])}) = (IF opc \in {"joining", "collected", "dropjoin", "dropped"} THEN 1 ELSE 0)

\* Liveness: the collector terminates after collection was requested or the LogThread was dropped,
\* and the owner gets its result.
CollectorTerminates == (opc \in {"requested", "dropreq"}) ~> (cpc = "returned")
CollectReturns == (opc = "requested") ~> (opc = "collected")
DropReturns == (opc = "dropreq") ~> (opc = "dropped")
=============================================================================
