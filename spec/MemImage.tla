------------------------------ MODULE MemImage ------------------------------
(***************************************************************************)
(* Reference semantics of the global-memory queries of the analyzer        *)
(* (RuntimeMemoryImage: read, read_string_until_null_terminator,           *)
(* is_global_memory_address, is_address_writeable, is_interval_readable /  *)
(* is_interval_writeable, get_ro_data_pointer_at_address) as functions of  *)
(* a LOADED IMAGE.  Oracle of property C19; reusable by every module that  *)
(* evaluates loads from global memory (IR.tla, Checkers.tla).              *)
(*                                                                         *)
(* An image is a record (built with Image(segs, le))                       *)
(*     [segs |-> <<segment, ...>>, le |-> BOOLEAN]                         *)
(* and a segment a record                                                  *)
(*     [base |-> 8-byte bit vector (BV.tla: little-endian byte sequence),  *)
(*      bytes |-> sequence of 0..255 (bytes[1] is stored at address base), *)
(*      r, w, x |-> BOOLEAN]                                               *)
(* The order of the segments in the list carries NO meaning: the segments  *)
(* of a well-formed image are pairwise disjoint, so every address lies in  *)
(* at most one of them.  Adjacent segments (end of one = base of the next, *)
(* as the loaders for relocatable objects / kernel modules and bare-metal  *)
(* images produce) are ordinary disjoint segments.                         *)
(*                                                                         *)
(* Addresses are 64-bit; an address given as a narrower bit vector is its  *)
(* zero extension.  All address arithmetic is done modulo 2^64 on limbs    *)
(* (TLC integers are 32 bit); offsets into a segment are small naturals.   *)
(***************************************************************************)
EXTENDS BV, FiniteSets

AddrW == 8
\* TLC keeps [i \in S |-> e] as an unevaluated lambda and would re-evaluate it on every access;
\* Vec forces a vector into an explicit tuple (same value).
Vec(v) == v \o <<>>
Addr(a) == Vec(BvZExt(a, AddrW))             \* a: bit vector of 1..8 bytes

\* segments are shorter than this (keeps every offset a TLC integer)
MaxSegLen == 1048576

(***************************************************************************)
(* Unsigned order on addresses: compare from the most significant byte.    *)
(* (mc/MC_MemImage checks ALe/ALt/Offset against BV!BvULe/BvULt/BvSub.)    *)
(***************************************************************************)
RECURSIVE ACmp(_, _, _)       \* -1 / 0 / 1 for a < b / a = b / a > b, looking at bytes i..1
ACmp(a, b, i) == IF i = 0 THEN 0 ELSE IF a[i] < b[i] THEN -1 ELSE IF a[i] > b[i] THEN 1 ELSE ACmp(a, b, i - 1)
ALt(a, b) == ACmp(a, b, AddrW) = -1
ALe(a, b) == ACmp(a, b, AddrW) <= 0
Low24(a) == a[1] + 256 * a[2] + 65536 * a[3]

(***************************************************************************)
(* Images.  Image(segs, le) attaches to every segment its exclusive end    *)
(* address `end` = base + length (a derived field, computed once).         *)
(***************************************************************************)
SegLen(s) == Len(s.bytes)
EndOf(s) == Vec(BvAdd(s.base, Vec(BvFromNat(SegLen(s), AddrW))))
Image(segs, le) ==
  [le |-> le,
   segs |-> [i \in 1..Len(segs) |-> [base |-> segs[i].base, bytes |-> segs[i].bytes, r |-> segs[i].r,
                                     w |-> segs[i].w, x |-> segs[i].x, end |-> EndOf(segs[i])]] \o <<>>]
SegEnd(s) == s.end

(***************************************************************************)
(* Well-formedness = the quantifier of the property: "disjoint segments".  *)
(* A segment must not wrap around the end of the address space.            *)
(***************************************************************************)
NoWrap(s) == SegLen(s) < MaxSegLen /\ ALe(s.base, SegEnd(s))
\* [base, end) and [base', end') do not intersect (an empty segment intersects nothing)
Disjoint(s, t) == SegLen(s) = 0 \/ SegLen(t) = 0 \/ ALe(SegEnd(s), t.base) \/ ALe(SegEnd(t), s.base)
SegOK(s) == /\ BvIsBv(s.base, AddrW)
            /\ \A i \in 1..SegLen(s) : s.bytes[i] \in 0..255
            /\ {s.r, s.w, s.x} \subseteq BOOLEAN
            /\ NoWrap(s)
ImageOK(img) ==
  /\ img.le \in BOOLEAN
  /\ \A i \in 1..Len(img.segs) : SegOK(img.segs[i])
  /\ \A i, j \in 1..Len(img.segs) : i < j => Disjoint(img.segs[i], img.segs[j])

(***************************************************************************)
(* Seg(a): the segment containing address a: base <= a < end.              *)
(* Offset(s, a) = a - base for an address of s; because segments are       *)
(* shorter than 2^20 the difference of the low 24 bits is the offset.      *)
(***************************************************************************)
InSeg(s, a) == ALe(s.base, a) /\ ALt(a, SegEnd(s))
Offset(s, a) == (Low24(a) - Low24(s.base) + 16777216) % 16777216                 \* only if InSeg(s, a)
SegIdx(img, a) == {i \in 1..Len(img.segs) : InSeg(img.segs[i], a)}     \* at most one element
Mapped(img, a) == SegIdx(img, a) # {}
Seg(img, a) == img.segs[CHOOSE i \in SegIdx(img, a) : TRUE]               \* only if Mapped
\* the whole range [a, a+n) (n >= 1) lies in segment s
RangeInSeg(s, a, n) == InSeg(s, a) /\ Offset(s, a) + n <= SegLen(s)

(***************************************************************************)
(* read(a, n), n >= 1.  Results are records [k, v]:                        *)
(*   [k |-> "value", v |-> bit vector of n bytes]  the whole range lies in *)
(*        one segment that is not writeable: the stored bytes, interpreted *)
(*        in the image's byte order                                        *)
(*   [k |-> "unknown", v |-> <<>>]  the whole range lies in one writeable  *)
(*        segment (content may change at run time)                         *)
(*   [k |-> "error", v |-> <<>>]    otherwise (unmapped, or the range      *)
(*        leaves the segment, even into an adjacent one)                   *)
(***************************************************************************)
Reverse(s) == [i \in 1..Len(s) |-> s[Len(s) + 1 - i]]
\* memory bytes (ascending addresses) -> value as BV.tla bit vector (v[1] least significant)
FromMemory(bytes, le) == IF le THEN bytes ELSE Reverse(bytes)
MemBytes(s, a, n) == LET o == Offset(s, a) IN SubSeq(s.bytes, o + 1, o + n)
ReadSpec(img, a, n) ==
  IF Mapped(img, a) /\ RangeInSeg(Seg(img, a), a, n)
  THEN LET s == Seg(img, a) IN
       IF s.w THEN [k |-> "unknown", v |-> <<>>]
       ELSE [k |-> "value", v |-> FromMemory(MemBytes(s, a, n), img.le)]
  ELSE [k |-> "error", v |-> <<>>]

\* is_global_memory_address(c): a read of |c| bytes at address c does not fail
IsGlobalSpec(img, c) == ReadSpec(img, Addr(c), Len(c)).k # "error"

(***************************************************************************)
(* String read.  For an address inside a read-only (= not writeable)       *)
(* segment the result is the NUL-terminated string stored there: the bytes *)
(* from a up to (excluding) the first NUL *of that segment*.  The analyzer *)
(* returns strings as UTF-8 text, so a stored byte string that is not      *)
(* well-formed UTF-8 (Unicode standard, table 3-7) is an error, as is a    *)
(* segment tail without NUL.  The property does not speak about addresses  *)
(* outside read-only segments: StringDefined is FALSE there and callers    *)
(* must not constrain the result.                                          *)
(***************************************************************************)
StringDefined(img, a) == Mapped(img, a) /\ ~Seg(img, a).w
NulPos(bytes, from) ==        \* index of the first 0 at or after `from`, 0 if none
  LET RECURSIVE go(_)
      go(i) == IF i > Len(bytes) THEN 0 ELSE IF bytes[i] = 0 THEN i ELSE go(i + 1)
  IN go(from)
Utf8OK(b) ==
  LET n == Len(b)
      In(i, lo, hi) == i <= n /\ b[i] >= lo /\ b[i] <= hi
      Cont(i) == In(i, 128, 191)
      RECURSIVE ok(_)
      ok(i) ==
        IF i > n THEN TRUE
        ELSE LET c == b[i] IN
          IF c <= 127 THEN ok(i + 1)
          ELSE IF c >= 194 /\ c <= 223 THEN Cont(i+1) /\ ok(i + 2)
          ELSE IF c = 224 THEN In(i+1, 160, 191) /\ Cont(i+2) /\ ok(i + 3)
          ELSE IF (c >= 225 /\ c <= 236) \/ c = 238 \/ c = 239 THEN Cont(i+1) /\ Cont(i+2) /\ ok(i + 3)
          ELSE IF c = 237 THEN In(i+1, 128, 159) /\ Cont(i+2) /\ ok(i + 3)
          ELSE IF c = 240 THEN In(i+1, 144, 191) /\ Cont(i+2) /\ Cont(i+3) /\ ok(i + 4)
          ELSE IF c >= 241 /\ c <= 243 THEN Cont(i+1) /\ Cont(i+2) /\ Cont(i+3) /\ ok(i + 4)
          ELSE IF c = 244 THEN In(i+1, 128, 143) /\ Cont(i+2) /\ Cont(i+3) /\ ok(i + 4)
          ELSE FALSE
  IN ok(1)
\* [k |-> "ok", v |-> bytes without the NUL] or [k |-> "error", v |-> <<>>]; only if StringDefined
StringSpec(img, a) ==
  LET s == Seg(img, a)
      o == Offset(s, a)
      z == NulPos(s.bytes, o + 1)
      str == SubSeq(s.bytes, o + 1, z - 1)
  IN IF z = 0 \/ ~Utf8OK(str) THEN [k |-> "error", v |-> <<>>] ELSE [k |-> "ok", v |-> str]

(***************************************************************************)
(* Flag queries: the flags of the segment containing the address, failure  *)
(* for an unmapped address.  Results [k |-> "ok", b |-> flag] / "error".   *)
(***************************************************************************)
FlagErr == [k |-> "error", b |-> FALSE]
FlagOk(f) == [k |-> "ok", b |-> f]
Flag(s, which) == IF which = "w" THEN s.w ELSE IF which = "r" THEN s.r ELSE s.x
IsWritableSpec(img, a) == IF Mapped(img, a) THEN FlagOk(Seg(img, a).w) ELSE FlagErr

(***************************************************************************)
(* Interval queries is_interval_readable / is_interval_writeable(a, b),    *)
(* a <= b.  The interval is [a, b): b is an exclusive bound, exactly like  *)
(* a+n for a read (this is how the pointer inference calls it, with        *)
(* b = last start address + access size).  The result is the flag of the   *)
(* segment containing a if the interval does not leave that segment, and   *)
(* a failure if a is unmapped or the interval leaves the segment.          *)
(* IntervalSpecs returns the SET of acceptable results: a caller that      *)
(* reads b as the last address of the interval (the other call sites do)   *)
(* would report a failure when b is the first address behind the segment;  *)
(* the property does not decide between the two readings, so both answers  *)
(* are acceptable in exactly that case.                                    *)
(***************************************************************************)
IntervalSpecs(img, a, b, which) ==
  IF ~Mapped(img, a) THEN {FlagErr}
  ELSE LET s == Seg(img, a) IN
       IF ALt(b, SegEnd(s)) THEN {FlagOk(Flag(s, which))}
       ELSE IF b = SegEnd(s) THEN {FlagOk(Flag(s, which)), FlagErr}
       ELSE {FlagErr}

(***************************************************************************)
(* get_ro_data_pointer_at_address(a): the bytes of the read-only segment   *)
(* containing a together with the index of a in it; failure if a is        *)
(* unmapped or the segment is writeable.                                   *)
(***************************************************************************)
RoPointerSpec(img, a) ==
  IF Mapped(img, a) /\ ~Seg(img, a).w
  THEN [k |-> "ok", i |-> Offset(Seg(img, a), a), v |-> Seg(img, a).bytes]
  ELSE [k |-> "error", i |-> -1, v |-> <<>>]
=============================================================================
