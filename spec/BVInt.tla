------------------------------ MODULE BVInt ------------------------------
(***************************************************************************)
(* The 1-byte P-Code integer operations written directly on integers:     *)
(* unsigned view 0..255, signed view -128..127.  An independent           *)
(* transcription of the P-Code manual used (a) to cross-check BV.tla      *)
(* (mc/MC_BV) and (b) as the fast evaluator for 1-byte gamma enumeration  *)
(* in Interval.tla.                                                        *)
(***************************************************************************)
EXTENDS Integers

U8 == 0..255
IUnknown == -1
ToS(u) == IF u >= 128 THEN u - 256 ELSE u          \* unsigned -> signed view
ToU(s) == s % 256                                  \* any integer -> unsigned view (TLA+ % is non-negative)
Abs(x) == IF x < 0 THEN -x ELSE x
Sgn(x) == IF x < 0 THEN -1 ELSE 1
\* truncating division / remainder (TLA+ \div floors)
TDiv(x, y) == Sgn(x) * Sgn(y) * (Abs(x) \div Abs(y))
TRem(x, y) == Sgn(x) * (Abs(x) % Abs(y))
Bit(u, j) == (u \div (2 ^ j)) % 2
RECURSIVE BitFold(_, _, _, _)
BitFold(F(_, _), u, v, j) == IF j > 7 THEN 0 ELSE F(Bit(u, j), Bit(v, j)) * (2 ^ j) + BitFold(F, u, v, j + 1)
AndB(x, y) == x * y
OrB(x, y) == IF x + y > 0 THEN 1 ELSE 0
XorB(x, y) == (x + y) % 2
B(b) == IF b THEN 1 ELSE 0

IFloatBin == {"FloatEqual", "FloatNotEqual", "FloatLess", "FloatLessEqual",
              "FloatAdd", "FloatSub", "FloatMult", "FloatDiv"}
IAllBinOps == {"Piece", "IntEqual", "IntNotEqual", "IntLess", "IntSLess", "IntLessEqual", "IntSLessEqual",
              "IntAdd", "IntSub", "IntCarry", "IntSCarry", "IntSBorrow", "IntXOr", "IntAnd", "IntOr",
              "IntLeft", "IntRight", "IntSRight", "IntMult", "IntDiv", "IntRem", "IntSDiv", "IntSRem",
              "BoolXOr", "BoolAnd", "BoolOr"} \cup IFloatBin

\* result as an unsigned integer (0..255, or 0..65535 for Piece), or IUnknown (= -1)
IBinOp(op, a, b) ==
  IF op \in IFloatBin THEN IUnknown
  ELSE IF op \in {"IntDiv", "IntRem", "IntSDiv", "IntSRem"} /\ b = 0 THEN IUnknown
  ELSE CASE op = "Piece" -> a * 256 + b
         [] op = "IntAdd" -> (a + b) % 256
         [] op = "IntSub" -> (a - b) % 256
         [] op = "IntCarry" -> B(a + b > 255)
         [] op = "IntSCarry" -> B(ToS(a) + ToS(b) > 127 \/ ToS(a) + ToS(b) < -128)
         [] op = "IntSBorrow" -> B(ToS(a) - ToS(b) > 127 \/ ToS(a) - ToS(b) < -128)
         [] op = "IntMult" -> (a * b) % 256
         [] op = "IntDiv" -> a \div b
         [] op = "IntRem" -> a % b
         [] op = "IntSDiv" -> ToU(TDiv(ToS(a), ToS(b)))
         [] op = "IntSRem" -> ToU(TRem(ToS(a), ToS(b)))
         [] op = "IntLeft" -> IF b >= 8 THEN 0 ELSE (a * (2 ^ b)) % 256
         [] op = "IntRight" -> IF b >= 8 THEN 0 ELSE a \div (2 ^ b)
         [] op = "IntSRight" -> IF b >= 8 THEN (IF a >= 128 THEN 255 ELSE 0) ELSE ToU(ToS(a) \div (2 ^ b))
         [] op \in {"IntAnd", "BoolAnd"} -> BitFold(AndB, a, b, 0)
         [] op \in {"IntOr", "BoolOr"} -> BitFold(OrB, a, b, 0)
         [] op \in {"IntXOr", "BoolXOr"} -> BitFold(XorB, a, b, 0)
         [] op = "IntEqual" -> B(a = b)
         [] op = "IntNotEqual" -> B(a # b)
         [] op = "IntLess" -> B(a < b)
         [] op = "IntLessEqual" -> B(a <= b)
         [] op = "IntSLess" -> B(ToS(a) < ToS(b))
         [] op = "IntSLessEqual" -> B(ToS(a) <= ToS(b))

IUnOp(op, a) ==
  CASE op = "Int2Comp" -> (0 - a) % 256
    [] op = "IntNegate" -> 255 - a
    [] op = "BoolNegate" -> B(a = 0)
    [] OTHER -> IUnknown

RECURSIVE IPop(_)
IPop(a) == IF a = 0 THEN 0 ELSE (a % 2) + IPop(a \div 2)
ILz(a) == IF a = 0 THEN 8 ELSE CHOOSE n \in 0..7 : a \div (2 ^ (7 - n)) = 1
\* casts of a 1-byte value to `size` bytes, result as unsigned integer (size <= 3 keeps it < 2^24)
ICast(op, a, size) ==
  CASE op = "IntZExt" -> a
    [] op = "IntSExt" -> IF a >= 128 THEN (256 ^ size) - 256 + a ELSE a
    [] op = "PopCount" -> IPop(a)
    [] op = "LzCount" -> ILz(a)
    [] OTHER -> IUnknown
=============================================================================
