----------------------------- MODULE Callgraph -----------------------------
(***************************************************************************)
(* Property C24: analysis/callgraph.rs.  The call graph G(P) of a program  *)
(* has the functions as nodes and one edge per DIRECT call between         *)
(* INTERNAL functions (calls to extern symbols, indirect calls and calls   *)
(* to targets that are no function of the program are not represented).    *)
(* find_call_sequences_to_target(G, s, t) returns exactly the TIDs of the  *)
(* calls that lie on some call-graph path (walk) from s to t:              *)
(*    call (u -> v) with  u \in Reach*(s)  and  t \in Reach*(v).           *)
(* For s = t the empty path contains no call; calls on cycles through s    *)
(* are on a path from s to s.  Program encoding: see Cfg.tla.              *)
(***************************************************************************)
EXTENDS Cfg

\* call sites <<s, b, j>> of direct calls whose target is a function of the program
InternalCallSites(P) == {c \in JmpRefs(P) : JmpAt(P, c).k = "call" /\ JmpAt(P, c).t \in SubTids(P)}
CallerOf(P, c) == SubTid(P, c[1])
CalleeOf(P, c) == JmpAt(P, c).t
\* the call relation on function TIDs
CallRel(P) == {<<CallerOf(P, c), CalleeOf(P, c)>> : c \in InternalCallSites(P)}
Inverse(R) == {<<p[2], p[1]>> : p \in R}
\* reflexive-transitive closure of R applied to the set S (least fixpoint)
RECURSIVE ReachSet(_, _)
ReachSet(R, S) ==
  LET S2 == S \cup {p[2] : p \in {q \in R : q[1] \in S}}
  IN  IF S2 = S THEN S ELSE ReachSet(R, S2)

\* TIDs of the calls on some path from function s to function t; sites = InternalCallSites(P)
\* and R = CallRel(P) are passed in so that they are computed once per program
OnPathR(P, sites, R, s, t) ==
  LET fwd == ReachSet(R, {s})                \* functions reachable from s
      bwd == ReachSet(Inverse(R), {t})       \* functions from which t is reachable
  IN  {JmpAt(P, c).tid : c \in {x \in sites : CallerOf(P, x) \in fwd /\ CalleeOf(P, x) \in bwd}}
OnPath(P, s, t) == OnPathR(P, InternalCallSites(P), CallRel(P), s, t)
=============================================================================
