------------------------------- MODULE Taint -------------------------------
(***************************************************************************)
(* Concretisation of the taint domain `analysis::taint::Taint`.            *)
(* A taint value is a record [w |-> bytes, t |-> BOOLEAN] (t: Tainted).    *)
(* The analysis is a "may" analysis: a concrete value is either "tainted"  *)
(* or "clean";  gamma(Tainted) = {tainted, clean},  gamma(Top) = {clean}   *)
(* (`Top` is the UNtainted value, i.e. the least element of this domain).  *)
(***************************************************************************)
TaintConcrete == {"tainted", "clean"}
InGammaT(c, x) == c = "clean" \/ (c = "tainted" /\ x.t)
SubsetT(x, y) == x.w = y.w /\ \A c \in TaintConcrete : InGammaT(c, x) => InGammaT(c, y)
IsAllT(x) == \A c \in TaintConcrete : InGammaT(c, x)
TaintTop(w) == [w |-> w, t |-> FALSE]
=============================================================================
