--------------------------- MODULE FrontEndMonitor ---------------------------
(***************************************************************************)
(* X08 - END-TO-END TRANSLATION VALIDATION OF THE FRONT END                *)
(*                                                                         *)
(* STATEMENT.  For every P-Code function the extractor can emit (register  *)
(* table with nested sub-registers, temporaries, implicit RAM operands,    *)
(* conditional / indirect jumps, extern / internal / indirect calls,       *)
(* x86-style call and return sequences; input class below) and every       *)
(* initial machine state with an aligned stack pointer, the function that  *)
(* the front end makes of it -                                             *)
(*     pcode::Project::normalize ; into_ir_project ;                       *)
(*     Project::normalize_basic ; Project::normalize_optimize              *)
(* - executes in the IR reference semantics (IR.tla) with the same         *)
(* observable behaviour as the P-Code function has in the P-Code reference *)
(* semantics (Pcode.tla per block, PcodeFn.tla per function):              *)
(*   - the same sequence of memory writes (address, size, value),          *)
(*   - the same SET of memory reads (address, size, value) between two     *)
(*     consecutive writes / control observations,                          *)
(*   - the same sequence of calls, indirect jumps, returns and dead ends   *)
(*     with their targets (TID or runtime value),                          *)
(*   - the same contents of all base registers and the same written memory *)
(*     at every call, return and dead end.                                 *)
(* Sub-registers alias bytes of their base registers on the P-Code side;   *)
(* temporaries are not observed.  Nothing else is demanded: not the shape  *)
(* of the IR, not the number or order of loads between two writes, not     *)
(* termination (a behaviour is compared up to Fuel block steps per side).  *)
(*                                                                         *)
(* THE MACHINE.  A product of the P-Code function machine (PcodeFn!        *)
(* StepBlock) and the IR machine (IR!StepBlock's definition: block lookup, *)
(* IR!RunDefs, IR!StepJmp) on the OPTIMISED function, started from the     *)
(* same register file and the same lazily initialised memory.  Next        *)
(* advances the side that owes the next control observation by one block.  *)
(* After every step the agreed prefix of the two observation sequences is  *)
(* dropped (the state carries no history).  Invariant = OBSERVATION        *)
(* PREFIX: in canonical form (control observations in order, the reads     *)
(* between them as sets) one pending sequence is a prefix of the other,    *)
(* and a side that has ended has seen everything the other one emitted.    *)
(* Every behaviour is deterministic; TLC explores one per (case, initial   *)
(* state) chosen by Init.                                                  *)
(*                                                                         *)
(* ALIGNMENT OF THE TWO SIDES' CONVENTIONS - each with its justification;  *)
(* none of them hides anything from the monitor (F1-F7, C1-C3 are spelled  *)
(* out in PcodeFn.tla):                                                    *)
(*  A1 Same havoc stream.  Both sides use the operator IR!Havoc.  Its      *)
(*     values are a function of (seed, st.n); IR.tla counts ALL            *)
(*     observations in st.n, but the statement compares reads as sets, so  *)
(*     the two sides may have emitted different numbers of reads.  Both    *)
(*     sides therefore set st.n, between the operations and the jumps of a *)
(*     block, to the number of CONTROL observations (everything but reads) *)
(*     emitted so far (Renum).  This changes which arbitrary values a      *)
(*     callee leaves behind, not what is compared.                         *)
(*  A2 Base registers.  Both sides are observed through the SAME list of   *)
(*     base registers, taken from the extractor's register table (not from *)
(*     the lifted project): name, size; the IR side reads IR variables of  *)
(*     that name and size, the P-Code side the base register's bytes.      *)
(*  A3 Temporaries (the lifter's `$load_temp' renaming, `_load' Defs,      *)
(*     sub-register temporaries) are invisible on both sides: they never   *)
(*     occur in an observation, and a call un-assigns them on both sides   *)
(*     (P-Code manual: unique-space varnodes are local to one instruction; *)
(*     IR.tla: temporaries are block-local and dead at calls).             *)
(*  A4 Implicit RAM operands are memory reads/writes of the operation on   *)
(*     the P-Code side and explicit Load/Store Defs on the IR side; both   *)
(*     are the same `read' / `write' observations.  Reads are compared as  *)
(*     sets between two control observations: loads have no effect, the    *)
(*     lifter may order them freely and load an operand once or twice.     *)
(*  A5 Non-returning callees end the behaviour on the P-Code side (F6);    *)
(*     the normalisation sends the return of such calls to the artificial  *)
(*     sink, which is a dead end of the IR machine.  Jumps to non-existing *)
(*     blocks are dead ends on both sides (F2).                            *)
(*  A6 Calls do not adjust SP on either side (F5); RETURN through a        *)
(*     register loaded from the stack is ordinary code on both sides (F7). *)
(*  A7 Indirect jumps continue at known targets only, by ADDRESS on both   *)
(*     sides (F4 / IR!IndTarget).                                          *)
(*  A8 Input class (a behaviour outside is reported as OUTCLASS, counted,  *)
(*     never a verdict): P-Code booleans are 0/1 (C1), the reference value *)
(*     is defined - no floating point, no ill-sized operation (C2), the    *)
(*     stack pointer is only masked by alignment masks in a prologue that  *)
(*     is executed once and the entry SP is aligned to 4096 (C3; the       *)
(*     harness generates aligned initial states), 1-byte base registers    *)
(*     are flags and hold 0/1 initially and after a call (IR!Havoc).       *)
(*                                                                         *)
(* A case (one line of the harness' ndjson file) is a record               *)
(*   [regtable, ptr, le, seed, sp, physregs, noret   environment           *)
(*    pfn     the P-Code function (terms of PcodeFn.tla)                   *)
(*    irfn    the optimised IR function (irenc.rs sub with block addresses *)
(*            abv), [blocks |-> <<>>] if the pipeline panicked             *)
(*    panic   message if the pipeline panicked ("" otherwise)              *)
(*    inits   sequence of initial register files (function base register   *)
(*            name -> bit vector)]                                         *)
(* plus fields that are only reported.  The sequence of cases is a         *)
(* PARAMETER of Init/Next (bound to a cached constant definition by the    *)
(* trace / mc module).                                                     *)
(*                                                                         *)
(* Reporting: a step into a state that violates ObsAgree prints            *)
(*   <<"BAD", case, init, first pending observation kind P-Code, IR>>      *)
(* a behaviour that leaves the input class prints <<"OUTCLASS", case,      *)
(* init, ..>>, a behaviour that was compared to its end <<"END", case,     *)
(* init, how it ended, control observations matched>>; such states have no *)
(* successors, so one run reports every diverging (case, initial state).   *)
(* With INVARIANT ObsAgree TLC stops with its counterexample: the concrete *)
(* execution of both sides.                                                *)
(***************************************************************************)
EXTENDS Integers, Sequences, FiniteSets, TLC
IR == INSTANCE IR
PF == INSTANCE PcodeFn
CONSTANTS Fuel
VARIABLES cs,        \* index of the case
          ini,       \* index of the initial state
          pm, im,    \* P-Code machine / IR machine (obs = pending, unmatched observations)
          kp, ki,    \* block steps taken
          cn         \* number of control observations matched (and dropped) so far
vars == <<cs, ini, pm, im, kp, ki, cn>>

Env(case, i) == [seed |-> (case.seed + 37 * i) % 65521, le |-> case.le, ptr |-> case.ptr, regtable |-> case.regtable,
                 sp |-> case.sp, physregs |-> case.physregs, noret |-> case.noret]
IrEntry(sub) == IF Len(sub.blocks) = 0 THEN "" ELSE sub.blocks[1].tid

Init(C) == \E c \in 1..Len(C) : \E i \in 1..Len(C[c].inits) :
          /\ cs = c /\ ini = i /\ kp = 0 /\ ki = 0 /\ cn = 0
          /\ pm = PF!Start(C[c].pfn, C[c].inits[i])
          /\ im = [IR!Start(IrEntry(C[c].irfn), <<>>, Env(C[c], i)) EXCEPT !.regs = C[c].inits[i]]

(***************************************************************************)
(* Canonical form of an observation sequence                               *)
(***************************************************************************)
IsCtl(o) == o.k # "read"
NCtl(obs) == Cardinality({q \in 1..Len(obs) : IsCtl(obs[q])})
ReadCore(o) == [a |-> o.a, s |-> o.s, v |-> o.v]
\* ctl = the control observations in order; rds[j] = the SET of reads between ctl[j-1] and ctl[j]
\* (Len(rds) = Len(ctl) + 1; the last set = the reads after the last control observation)
Canon(obs) ==
  LET RECURSIVE go(_, _, _, _)
      go(i, cur, ctl, rds) ==
        IF i > Len(obs) THEN [ctl |-> ctl, rds |-> Append(rds, cur)]
        ELSE IF IsCtl(obs[i]) THEN go(i + 1, {}, Append(ctl, obs[i]), Append(rds, cur))
        ELSE go(i + 1, cur \cup {ReadCore(obs[i])}, ctl, rds)
  IN go(1, {}, <<>>, <<>>)
\* number of leading control observations on which two pending sequences agree (with the reads in front of each)
Match(po, io) ==
  LET cp == Canon(po)
      ci == Canon(io)
      RECURSIVE go(_)
      go(j) == IF j <= Len(cp.ctl) /\ j <= Len(ci.ctl) /\ cp.ctl[j] = ci.ctl[j] /\ cp.rds[j] = ci.rds[j] THEN go(j + 1) ELSE j - 1
  IN go(1)
\* st without its observations up to and including the j-th control observation
DropCtl(st, j) ==
  LET RECURSIVE pos(_, _)
      pos(i, left) == IF left = 0 THEN i - 1 ELSE IF IsCtl(st.obs[i]) THEN pos(i + 1, left - 1) ELSE pos(i + 1, left)
  IN IF j = 0 THEN st ELSE [st EXCEPT !.obs = SubSeq(@, pos(1, j) + 1, Len(@))]

(***************************************************************************)
(* The invariant                                                           *)
(***************************************************************************)
NoPanic(case) == case.panic = ""
\* (after every step the agreed prefix has been dropped, so if BOTH sides have a pending control observation
\*  the first ones - or the reads in front of them - differ)
PendingOK(p, i) ==
  LET cp == Canon(p.obs)
      ci == Canon(i.obs)
      np == Len(cp.ctl)
      ni == Len(ci.ctl)
  IN /\ ~(np > 0 /\ ni > 0)
     /\ (np > 0) => (IR!Running(i) /\ ci.rds[1] \subseteq cp.rds[1])     \* the IR side still owes what the P-Code side did
     /\ (ni > 0) => (PF!Running(p) /\ cp.rds[1] \subseteq ci.rds[1])
     /\ (np = 0 /\ ni = 0) => /\ (~PF!Running(p)) => (ci.rds[1] \subseteq cp.rds[1])
                              /\ (~IR!Running(i)) => (cp.rds[1] \subseteq ci.rds[1])
ObsAgreeOf(case, p, i) == PF!IsOutClass(p) \/ (NoPanic(case) /\ PendingOK(p, i))

(***************************************************************************)
(* Steps                                                                   *)
(***************************************************************************)
\* A1: the havoc of a call is numbered by the control observations emitted so far
Renum(st, c) == [st EXCEPT !.n = c + NCtl(st.obs)]
\* IR!StepBlock with a renumbering between the Defs and the jumps of the block
IStepR(blocks, st, env, renum(_)) ==
  LET i == IR!BlockIndex(blocks, st.pc.t)
  IN IF i = 0 THEN IR!DeadEnd(st, env)
     ELSE IR!StepJmp(blocks[i], renum(IR!RunDefs(blocks[i].defs, st, env)), env, blocks)
\* (checked in the counterexample / mc configurations: without renumbering this IS IR!StepBlock)
IStepIsStepBlock(case) ==
  IR!Running(im) => IStepR(case.irfn.blocks, im, Env(case, ini), LAMBDA s : s) = IR!StepBlock(case.irfn.blocks, im, Env(case, ini))

\* (checked in the counterexample / mc configurations) the function-level block step of PcodeFn.tla refines the
\* block semantics of Pcode.tla that C11 validates the lifter against: same observations (a function-level
\* step adds the register/memory snapshots and, after a call that never returns, the dead end), and for blocks
\* that end in BRANCH / CBRANCH the same registers, temporaries, memory and next block
Pcode == INSTANCE Pcode
PStepRefinesBlock(case) ==
  LET env == Env(case, ini)
      i == PF!BlockIdx(case.pfn.blocks, pm.pc.t)
      Core(o) == [k |-> o.k, a |-> o.a, s |-> o.s, v |-> o.v, t |-> o.t]
  IN (PF!Running(pm) /\ i # 0) =>
       LET blk == case.pfn.blocks[i]
           f == PF!StepBlock(case.pfn, pm, env, LAMBDA s : s)
           b == Pcode!RunBlock(blk, pm, env)
           plain == \A q \in 1..Len(blk.jmps) : blk.jmps[q].m \in {"BRANCH", "CBRANCH"}
       IN PF!IsOutClass(f) \/
          ( /\ Len(f.obs) \in {Len(b.obs), Len(b.obs) + 1}
            /\ \A q \in 1..Len(b.obs) : Core(f.obs[q]) = Core(b.obs[q])
            /\ plain => (f.regs = b.regs /\ f.uniq = b.uniq /\ f.mem = b.mem /\ f.pc = b.pc) )

Turn == IF ~PF!Running(pm) THEN "i"
        ELSE IF ~IR!Running(im) THEN "p"
        ELSE IF NCtl(pm.obs) < NCtl(im.obs) THEN "p"
        ELSE IF NCtl(im.obs) < NCtl(pm.obs) THEN "i"
        ELSE IF Len(pm.obs) <= Len(im.obs) THEN "p" ELSE "i"

FirstKind(s) == IF Len(s.obs) = 0 THEN (IF s.pc.k = "blk" THEN "-" ELSE "ended") ELSE s.obs[1].k

Step(case) ==
  LET env == Env(case, ini)
      np == IF Turn = "p" THEN PF!StepBlock(case.pfn, pm, env, LAMBDA s : Renum(s, cn)) ELSE pm
      ni == IF Turn = "i" THEN IStepR(case.irfn.blocks, im, env, LAMBDA s : Renum(s, cn)) ELSE im
      j == IF PF!IsOutClass(np) THEN 0 ELSE Match(np.obs, ni.obs)
  IN /\ pm' = DropCtl(np, j)
     /\ im' = DropCtl(ni, j)
     /\ cn' = cn + j
     /\ kp' = IF Turn = "p" THEN kp + 1 ELSE kp
     /\ ki' = IF Turn = "i" THEN ki + 1 ELSE ki
     /\ UNCHANGED <<cs, ini>>

InitOK(case) == NoPanic(case) /\ PF!StaticOK(case.pfn, Env(case, ini))
Reported(s) == s.pc = [k |-> "end", t |-> "reported"]

\* (state predicates are written as `P = TRUE': TLC would otherwise split their inner disjunctions into several
\*  identical successor computations)
Next(C) ==
  /\ ((kp + ki > 0) \/ InitOK(C[cs])) = TRUE
  /\ ObsAgreeOf(C[cs], pm, im) = TRUE                \* a diverged pair stops
  /\ PF!IsOutClass(pm) = FALSE                        \* so does a behaviour outside the input class
  /\ (PF!Running(pm) \/ IR!Running(im)) = TRUE
  /\ (IF Turn = "p" THEN kp ELSE ki) < Fuel
  /\ Step(C[cs])
  /\ IF PF!IsOutClass(pm') THEN PrintT(<<"OUTCLASS", cs, ini, "dynamic">>)
     ELSE IF ObsAgreeOf(C[cs], pm', im') THEN TRUE
     ELSE PrintT(<<"BAD", cs, ini, FirstKind(pm'), FirstKind(im')>>)

\* a case whose pipeline panicked, or whose function is statically outside the input class, is reported from its
\* initial state
ReportInit(C) ==
  /\ kp = 0 /\ ki = 0 /\ ~Reported(pm)
  /\ InitOK(C[cs]) = FALSE
  /\ IF NoPanic(C[cs]) THEN PrintT(<<"OUTCLASS", cs, ini, "static">>) ELSE PrintT(<<"BAD", cs, ini, "panic", "panic">>)
  /\ pm' = PF!Halt(pm, "reported") /\ im' = PF!Halt(im, "reported")
  /\ UNCHANGED <<cs, ini, kp, ki, cn>>

\* A behaviour that has been compared to its end - both sides ended, or the side that has to move is out of
\* fuel - is counted: <<"END", case, init, how the P-Code side ended | "fuel", control observations matched>>
Exhausted == (PF!Running(pm) \/ IR!Running(im)) /\ (IF Turn = "p" THEN kp ELSE ki) >= Fuel
Finish(C) ==
  /\ ~Reported(pm)
  /\ ((kp + ki > 0) \/ InitOK(C[cs])) = TRUE
  /\ ObsAgreeOf(C[cs], pm, im) = TRUE
  /\ PF!IsOutClass(pm) = FALSE
  /\ ((~PF!Running(pm) /\ ~IR!Running(im)) \/ Exhausted) = TRUE
  /\ PrintT(<<"END", cs, ini, IF Exhausted THEN "fuel" ELSE pm.pc.t, cn>>)
  /\ pm' = PF!Halt(pm, "reported") /\ im' = PF!Halt(im, "reported")
  /\ UNCHANGED <<cs, ini, kp, ki, cn>>

NextR(C) == Next(C) \/ ReportInit(C) \/ Finish(C)
Spec(C) == Init(C) /\ [][NextR(C)]_vars
=============================================================================
