------------------------------ MODULE WalkBase ------------------------------
(***************************************************************************)
(* Shared vocabulary of the walker specifications over the interprocedural *)
(* graph of Cfg.tla (TaintWalk: C15, ParamWalk: C14): registers read by    *)
(* an expression, calling conventions of a project, lookup tables, and a   *)
(* frontier-iterated reachability operator.  Definitions only.             *)
(*                                                                         *)
(* PROJECT ENCODING (harness/src/irenc.rs `project`):                      *)
(*   PJ   = [program |-> P, sp |-> var, cconvs |-> <<cc...>>, ...]         *)
(*   cc   = [name, params |-> <<var>>, fparams |-> <<expr>>,               *)
(*           rets |-> <<var>>, frets |-> <<expr>>, saved |-> <<var>>]      *)
(*   var  = [n |-> name, s |-> size, t |-> is_temp]                        *)
(*   expr = [k |-> "var", v] | [k |-> "const", c] | [k |-> "bin", op, l, r]*)
(*        | [k |-> "un", op, a] | [k |-> "cast", op, s, a]                 *)
(*        | [k |-> "sub", low, s, a] | [k |-> "unknown", s]                *)
(*   def  = [tid, k |-> "assign", v, e] | [k |-> "load", v, a]             *)
(*        | [k |-> "store", a, e]                                          *)
(*   ext  = [tid, name, cconv, params |-> <<arg>>, rets |-> <<arg>>, noret]*)
(*   arg  = [k |-> "reg", e] | [k |-> "stack", a, s]                       *)
(* A register is identified by its NAME (the generated programs use one    *)
(* size per name; sub-registers do not occur after normalisation).         *)
(***************************************************************************)
EXTENDS Cfg, TLC

\* TLC evaluates a function constructor lazily and re-evaluates its body at EVERY application;
\* Table(f) forces the function to an explicit table once (TLCEval), so lookups are lookups.
Table(f) == TLCEval(f)

SeqRange(s) == {s[i] : i \in DOMAIN s}

\* names of the registers an expression reads (Expression::input_vars)
RECURSIVE InputVars(_)
InputVars(e) ==
  CASE e.k = "var" -> {e.v.n}
    [] e.k = "bin" -> InputVars(e.l) \cup InputVars(e.r)
    [] e.k \in {"un", "cast", "sub"} -> InputVars(e.a)
    [] OTHER -> {}          \* const, unknown
VarNames(vs) == {vs[i].n : i \in DOMAIN vs}
ExprVars(es) == UNION {InputVars(es[i]) : i \in DOMAIN es}

(***************************************************************************)
(* Calling conventions (Project::get_standard_calling_convention,          *)
(* get_specific_calling_convention, get_calling_convention)                *)
(***************************************************************************)
HasCconv(PJ, name) == \E i \in DOMAIN PJ.cconvs : PJ.cconvs[i].name = name
CconvNamed(PJ, name) == PJ.cconvs[CHOOSE i \in DOMAIN PJ.cconvs : PJ.cconvs[i].name = name]
HasStdCconv(PJ) == HasCconv(PJ, "__stdcall") \/ HasCconv(PJ, "__cdecl") \/ HasCconv(PJ, "__thiscall")
StdCconv(PJ) ==
  IF HasCconv(PJ, "__stdcall") THEN CconvNamed(PJ, "__stdcall")
  ELSE IF HasCconv(PJ, "__cdecl") THEN CconvNamed(PJ, "__cdecl")
  ELSE CconvNamed(PJ, "__thiscall")
\* convention of a function / of a call whose annotation is `name` ("" = none): the named one if it
\* exists, else the standard one
SpecificCconv(PJ, name) == IF name # "" /\ HasCconv(PJ, name) THEN CconvNamed(PJ, name) ELSE StdCconv(PJ)
SubCconv(PJ, subTid) == SpecificCconv(PJ, PJ.program.subs[SubByTid(PJ.program, subTid)].cconv)
ExternCconv(PJ, ext) == IF ext.cconv # "" THEN CconvNamed(PJ, ext.cconv) ELSE StdCconv(PJ)
\* every project of the input class can resolve all conventions it mentions
CconvsResolvable(PJ) ==
  /\ HasStdCconv(PJ)
  /\ \A i \in DOMAIN PJ.program.externs :
       PJ.program.externs[i].cconv # "" => HasCconv(PJ, PJ.program.externs[i].cconv)

\* all parameter registers: integer ones plus the registers the float parameter expressions read
ParamRegs(cc) == VarNames(cc.params) \cup ExprVars(cc.fparams)
IntRetRegs(cc) == VarNames(cc.rets)
AllRetRegs(cc) == VarNames(cc.rets) \cup ExprVars(cc.frets)
SavedRegs(cc) == VarNames(cc.saved)

(***************************************************************************)
(* Lookup tables (computed once per program and passed around)             *)
(***************************************************************************)
\* jump TID -> jump term
JmpTable(P) ==
  LET refs == JmpRefs(P)
  IN  Table([t \in {JmpAt(P, c).tid : c \in refs} |-> JmpAt(P, CHOOSE c \in refs : JmpAt(P, c).tid = t)])
\* extern TID -> extern symbol
ExternTable(P) == Table([t \in ExternTids(P) |-> P.externs[CHOOSE i \in DOMAIN P.externs : P.externs[i].tid = t]])
\* node -> set of outgoing edges
OutTable(E) ==
  LET N == {e.src : e \in E} \cup {e.dst : e \in E}
  IN  Table([n \in N |-> {e \in E : e.src = n}])
\* registers read by the register arguments / by the address expressions of the stack arguments
RegArgVars(args) == UNION {IF args[i].k = "reg" THEN InputVars(args[i].e) ELSE {} : i \in DOMAIN args}
StackArgAddrVars(args) == UNION {IF args[i].k = "stack" THEN InputVars(args[i].a) ELSE {} : i \in DOMAIN args}
=============================================================================
