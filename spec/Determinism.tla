---------------------------- MODULE Determinism ----------------------------
(***************************************************************************)
(* C23.  Warnings reach the output stage in an arbitrary order (hash-map   *)
(* iteration, check order, collector thread); the pipeline sorts them by   *)
(* the total order on complete records.  The output must be a function of  *)
(* (input, configuration): every run of the same input yields the same     *)
(* output.                                                                  *)
(*                                                                         *)
(* The observation machine: `seen` is the output of the first run of the   *)
(* current input; Run(out) is enabled iff it agrees with `seen`.           *)
(***************************************************************************)
EXTENDS Integers, Sequences, FiniteSets
NoneYet == <<"none">>
RunOK(seen, out) == seen = NoneYet \/ seen = out
NextSeen(seen, out) == IF seen = NoneYet THEN out ELSE seen

(***************************************************************************)
(* Why sorting suffices (model-checked by mc/MC_Determinism): for a bag W  *)
(* of records over a totally ordered key, Sort(p(W)) is the same sequence  *)
(* for every arrival order p; whereas keeping the LAST record per address  *)
(* (LogThread de-duplication, C25) depends on the arrival order, so        *)
(* upstream arrival orders of same-address records must be deterministic.  *)
(***************************************************************************)
RECURSIVE InsertSorted(_, _)
InsertSorted(s, x) == IF s = <<>> THEN <<x>>
                      ELSE IF x <= Head(s) THEN <<x>> \o s ELSE <<Head(s)>> \o InsertSorted(Tail(s), x)
RECURSIVE SortSeq(_)
SortSeq(s) == IF s = <<>> THEN <<>> ELSE InsertSorted(SortSeq(Tail(s)), Head(s))
\* last-wins de-duplication by address: records are <<addr, payload>>
RECURSIVE LastPerAddr(_, _)
LastPerAddr(s, acc) == IF s = <<>> THEN acc
                       ELSE LastPerAddr(Tail(s), [a \in DOMAIN acc \cup {Head(s)[1]} |->
                                                     IF a = Head(s)[1] THEN Head(s)[2] ELSE acc[a]])
=============================================================================
