---------------------------- MODULE FormatString ----------------------------
(***************************************************************************)
(* The supported printf/scanf format-string grammar of the analyzer as a   *)
(* GENERATIVE state machine, and the variadic argument list a format       *)
(* string consumes (oracle of property C20; to be reused by the model of   *)
(* calculate_parameter_locations and of the format-string checkers).       *)
(*                                                                         *)
(* A format string is a sequence of TOKENS                                 *)
(*   Lit(c)                 one character of literal text, c # '%'         *)
(*   Esc                    the escape "%%" - prints '%', consumes nothing *)
(*   Conv(flag,width,prec,spec)                                            *)
(*        '%' [flag] [width] [prec] spec   with                            *)
(*        flag  : at most ONE of  + - # 0                                  *)
(*        width : decimal digits (possibly none)                           *)
(*        prec  : nothing, or '.' followed by decimal digits (possibly     *)
(*                none)                                                    *)
(*        spec  : one of the listed conversion / length forms (AllForms)   *)
(* Characters are code points (TLC cannot index strings); a token is a     *)
(* record [k, c, flag, width, prec, spec] whose unused fields are 0 / <<>>.*)
(*                                                                         *)
(* The machine appends one token per step and keeps                        *)
(*   text      the format string produced so far                           *)
(*   args      the arguments the format consumes, in order (data types)    *)
(*   rejected  TRUE once a long / long long / long double form occurred:   *)
(*             such a format must be rejected as a whole, not mis-parsed   *)
(* Expect(tokens) / Text(tokens) are the folds of the same step functions, *)
(* so a recorded (tokens, text, result) triple can be judged directly.     *)
(* '%' occurs in a format only as the first character of Esc or Conv, so   *)
(* whatever follows an Esc - digits, dots, conversion letters - is literal *)
(* text.  Scan(text) is an independent left-to-right reader of the same    *)
(* grammar; mc/MC_FormatString checks Scan(Text(ts)) = Expect(ts), i.e. the*)
(* grammar is uniquely readable and Expect is well-defined on strings.     *)
(***************************************************************************)
EXTENDS Integers, Sequences

(***************************************************************************)
(* Characters                                                              *)
(***************************************************************************)
Ord == [c |-> 99, C |-> 67, d |-> 100, i |-> 105, o |-> 111, u |-> 117, x |-> 120, X |-> 88,
        e |-> 101, E |-> 69, f |-> 102, F |-> 70, g |-> 103, G |-> 71, a |-> 97, A |-> 65,
        n |-> 110, p |-> 112, s |-> 115, S |-> 83, h |-> 104, l |-> 108, L |-> 76]
Pct == 37                                  \* '%'
Dot == 46                                  \* '.'
FlagChars == {43, 45, 35, 48}              \* + - # 0
Digits == 48..57
S1(a) == <<Ord[a]>>
S2(a, b) == <<Ord[a], Ord[b]>>
S3(a, b, c) == <<Ord[a], Ord[b], Ord[c]>>

(***************************************************************************)
(* The listed conversion and length forms and their documented data types  *)
(* (Datatype::from).  char arguments are passed promoted to int, float     *)
(* arguments promoted to double; %p is documented as Integer.              *)
(***************************************************************************)
CharForms == {S1("c"), S1("C")}
IntegerForms == {S1("d"), S1("i"), S1("u"), S1("o"), S1("p"), S1("x"), S1("X"),
                 S2("h", "i"), S2("h", "d"), S2("h", "u")}
PointerForms == {S1("s"), S1("S"), S1("n")}
DoubleForms == {S1("f"), S1("F"), S1("e"), S1("E"), S1("a"), S1("A"), S1("g"), S1("G"),
                S2("l", "f"), S2("l", "g"), S2("l", "e"), S2("l", "a"),
                S2("l", "F"), S2("l", "G"), S2("l", "E"), S2("l", "A")}
LongForms == {S2("l", "i"), S2("l", "d"), S2("l", "u")}
LongLongForms == {S3("l", "l", "i"), S3("l", "l", "d"), S3("l", "l", "u")}
LongDoubleForms == {S2("L", "f"), S2("L", "g"), S2("L", "e"), S2("L", "a"),
                    S2("L", "F"), S2("L", "G"), S2("L", "E"), S2("L", "A")}
\* forms the analyzer cannot locate yet: a format containing one is rejected
UnsupportedForms == LongForms \cup LongLongForms \cup LongDoubleForms
AllForms == CharForms \cup IntegerForms \cup PointerForms \cup DoubleForms \cup UnsupportedForms

TypeOf(spec) ==
  CASE spec \in CharForms -> "Char"
    [] spec \in IntegerForms -> "Integer"
    [] spec \in PointerForms -> "Pointer"
    [] spec \in DoubleForms -> "Double"
    [] spec \in LongForms -> "Long"
    [] spec \in LongLongForms -> "LongLong"
    [] spec \in LongDoubleForms -> "LongDouble"
    [] OTHER -> "?"                           \* not a listed form (outside the grammar)

\* size of a variadic argument of the given type; `sizes` = the data type sizes of the target
\* (record with fields char, double, float, integer, long_double, long_long, long, pointer, short)
ArgSize(type, sizes) ==
  CASE type = "Char" -> sizes.integer          \* default argument promotion
    [] type = "Integer" -> sizes.integer
    [] type = "Pointer" -> sizes.pointer
    [] type = "Double" -> sizes.double

(***************************************************************************)
(* Tokens                                                                  *)
(***************************************************************************)
LitTok(c) == [k |-> "lit", c |-> c, flag |-> <<>>, width |-> <<>>, prec |-> <<>>, spec |-> <<>>]
EscTok == [k |-> "esc", c |-> 0, flag |-> <<>>, width |-> <<>>, prec |-> <<>>, spec |-> <<>>]
ConvTok(flag, width, prec, spec) ==
  [k |-> "conv", c |-> 0, flag |-> flag, width |-> width, prec |-> prec, spec |-> spec]

AllIn(s, set) == \A j \in 1..Len(s) : s[j] \in set
FlagOK(f) == f = <<>> \/ (Len(f) = 1 /\ f[1] \in FlagChars)            \* one optional flag
WidthOK(w) == AllIn(w, Digits)
PrecOK(p) == p = <<>> \/ (p[1] = Dot /\ AllIn(Tail(p), Digits))
TokenOK(t) ==
  CASE t.k = "lit" -> t.c # Pct /\ t.c >= 0
    [] t.k = "esc" -> TRUE
    [] t.k = "conv" -> FlagOK(t.flag) /\ WidthOK(t.width) /\ PrecOK(t.prec) /\ t.spec \in AllForms
    [] OTHER -> FALSE
\* the supported grammar = the quantifier of the property
InGrammar(ts) == \A j \in 1..Len(ts) : TokenOK(ts[j])

(***************************************************************************)
(* Step functions of one token                                             *)
(***************************************************************************)
TokText(t) ==
  CASE t.k = "lit" -> <<t.c>>
    [] t.k = "esc" -> <<Pct, Pct>>
    [] t.k = "conv" -> <<Pct>> \o t.flag \o t.width \o t.prec \o t.spec
TokArgs(t) == IF t.k = "conv" THEN <<TypeOf(t.spec)>> ELSE <<>>
TokRejects(t) == t.k = "conv" /\ t.spec \in UnsupportedForms

(***************************************************************************)
(* The generative machine                                                  *)
(***************************************************************************)
VARIABLES tokens, text, args, rejected
fvars == <<tokens, text, args, rejected>>

Init == tokens = <<>> /\ text = <<>> /\ args = <<>> /\ rejected = FALSE
Emit(t) == /\ tokens' = Append(tokens, t)
           /\ text' = text \o TokText(t)
           /\ args' = args \o TokArgs(t)
           /\ rejected' = (rejected \/ TokRejects(t))
Lit(c) == c # Pct /\ Emit(LitTok(c))
Esc == Emit(EscTok)
Conv(flag, width, prec, spec) == /\ TokenOK(ConvTok(flag, width, prec, spec))
                                 /\ Emit(ConvTok(flag, width, prec, spec))

(***************************************************************************)
(* Folds: what a token sequence spells and what it consumes                *)
(***************************************************************************)
RECURSIVE Text(_)
Text(ts) == IF ts = <<>> THEN <<>> ELSE TokText(Head(ts)) \o Text(Tail(ts))
RECURSIVE ArgsOf(_)
ArgsOf(ts) == IF ts = <<>> THEN <<>> ELSE TokArgs(Head(ts)) \o ArgsOf(Tail(ts))
Expect(ts) == [rejected |-> \E j \in 1..Len(ts) : TokRejects(ts[j]), args |-> ArgsOf(ts)]
\* the parser's answer for a machine state: an error iff rejected, else the (type, size) list
Answer(rej, as, sizes) ==
  IF rej THEN [ok |-> FALSE, args |-> <<>>]
  ELSE [ok |-> TRUE, args |-> [j \in 1..Len(as) |-> [t |-> as[j], s |-> ArgSize(as[j], sizes)]]]
ExpectSized(ts, sizes) == Answer(Expect(ts).rejected, Expect(ts).args, sizes)
\* Init followed by Emit(ts[1]) ... Emit(ts[n]) as ONE macro step (a whole format string per step;
\* invariant FoldsAgree of mc/MC_FormatString: the single steps reach exactly this state)
Run(ts) == \E e \in {Expect(ts)} :
             /\ tokens' = ts
             /\ text' = Text(ts)
             /\ args' = e.args
             /\ rejected' = e.rejected

(***************************************************************************)
(* Scan: an independent reader of format TEXT, left to right.  At a '%':   *)
(* "%%" is skipped; otherwise one optional flag, digits, an optional '.'   *)
(* with digits, and then the (unique) form that follows.  Text outside the *)
(* grammar yields the marker "?" and scanning stops.                       *)
(***************************************************************************)
PrefixAt(f, txt, j) == j + Len(f) - 1 <= Len(txt) /\ \A m \in 1..Len(f) : txt[j + m - 1] = f[m]
RECURSIVE SkipDigits(_, _)
SkipDigits(txt, j) == IF j <= Len(txt) /\ txt[j] \in Digits THEN SkipDigits(txt, j + 1) ELSE j
RECURSIVE ScanFrom(_, _)
ScanFrom(txt, j) ==
  IF j > Len(txt) THEN <<>>
  ELSE IF txt[j] # Pct THEN ScanFrom(txt, j + 1)
  ELSE IF j < Len(txt) /\ txt[j + 1] = Pct THEN ScanFrom(txt, j + 2)
  ELSE LET j1 == IF j < Len(txt) /\ txt[j + 1] \in FlagChars THEN j + 2 ELSE j + 1
           j2 == SkipDigits(txt, j1)
           j3 == IF j2 <= Len(txt) /\ txt[j2] = Dot THEN SkipDigits(txt, j2 + 1) ELSE j2
           fs == {f \in AllForms : PrefixAt(f, txt, j3)}
       IN IF fs = {} THEN <<"?">>
          ELSE LET f == CHOOSE g \in fs : \A h \in fs : Len(h) <= Len(g)
               IN <<f>> \o ScanFrom(txt, j3 + Len(f))
Scan(txt) ==
  LET fs == ScanFrom(txt, 1) IN
  [rejected |-> \E j \in 1..Len(fs) : fs[j] \in UnsupportedForms,
   args |-> [j \in 1..Len(fs) |-> IF fs[j] \in AllForms THEN TypeOf(fs[j]) ELSE "?"]]
\* no listed form is a proper prefix of another one: the form after the precision is unique
PrefixFree == \A f, g \in AllForms : (f # g /\ Len(f) <= Len(g)) => SubSeq(g, 1, Len(f)) # f
=============================================================================
