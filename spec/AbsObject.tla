------------------------------ MODULE AbsObject ------------------------------
(***************************************************************************)
(* X05 - the memory model of the pointer inference:                        *)
(*   analysis/pointer_inference/object/{mod,value_access}.rs  AbstractObject *)
(*   analysis/pointer_inference/object_list/{mod,list_manipulation}.rs     *)
(*                                                       AbstractObjectList *)
(*                                                                         *)
(* STATEMENT.  For every history of                                        *)
(*   add_abstract_object / insert, set_value (list and object level),      *)
(*   merge_value, assume_arbitrary_writes_to_object, mark_as_not_unique,   *)
(*   merge, clone and get_value                                            *)
(* on abstract object lists, with pointers that are sets of (object        *)
(* identifier, offset interval) targets, possibly with an absolute part or *)
(* the top flag, and non-empty values, the abstract memory                 *)
(* OVER-APPROXIMATES every concrete memory consistent with the history:    *)
(*  (W) after a write of value v through pointer p every cell (id, o, s)   *)
(*      of the new state                                                   *)
(*        - contains v            if some concretisation of p addresses    *)
(*                                exactly that cell (same offset and size),*)
(*        - admits "unknown"      if some concretisation of p overwrites   *)
(*                                only a part of it,                       *)
(*        - contains what it contained before, unless the write CERTAINLY  *)
(*          overwrote it - which is the case only for a STRONG UPDATE:     *)
(*          p has exactly one target, no absolute part, no top flag, an    *)
(*          exact offset, and the target object is unique; any other write *)
(*          only adds possibilities (weak update).                         *)
(*      A strong update REPLACES the cell: reading it back with the        *)
(*      written size yields exactly v (this clause is exact, all others    *)
(*      are inclusions).  Uniqueness is never gained by a write; the       *)
(*      pointer-target set of every object p may address contains the      *)
(*      identifiers v refers to.                                           *)
(*  (R) a read through q returns a value that contains the content of      *)
(*      every cell some concretisation of q addresses (unknown - the top   *)
(*      flag - where the list holds no cell of exactly that offset and     *)
(*      size, and for the top flag of q).                                  *)
(*  (M) merging two lists over-approximates both; an object added under an *)
(*      identifier that is already present makes that object non-unique    *)
(*      and over-approximates both; assume_arbitrary_writes leaves only    *)
(*      cells that admit "unknown"; mark_as_not_unique and clone change    *)
(*      nothing else.                                                      *)
(*  (I) in every state the cells of an object do not overlap, no cell      *)
(*      holds Top, and the pointer-target set of an object contains every  *)
(*      identifier a stored cell refers to.  No call panics.               *)
(* Nothing is said about precision (which cells survive, how values are    *)
(* merged, whether a set_value reports an error), about the object type,   *)
(* or about the identifier-manipulating methods.                           *)
(*                                                                         *)
(* CONCRETE MODEL the statement is relative to (model-checked in           *)
(* mc/MC_AbsObject).  An identifier that is a key of the list denotes one  *)
(* or more concrete memory objects ("instances"; exactly one if the        *)
(* abstract object is unique); identifiers that are not keys denote no     *)
(* object.  An instance is a store of typed concrete cells (MemRegion.tla's*)
(* "flat" machine): a write of s bytes at offset w destroys every cell it  *)
(* overlaps and creates the cell (w, s); reading (o, s) yields the member  *)
(* stored in exactly that cell, else "unknown".  Members are absolute      *)
(* values, (identifier, offset) pointers, or "unknown".  A pointer denotes *)
(* the set of (identifier, offset) pairs of its relative targets; its      *)
(* absolute part and its top flag denote memory OUTSIDE the list (global   *)
(* memory is handled by State::load_value / store_value, not by the list). *)
(* gamma of an abstract value: the absolute / relative members it lists;   *)
(* with contains_top_values EVERYTHING (this is how the code itself uses   *)
(* the flag: an inexact read returns nothing but the flag).                *)
(*                                                                         *)
(* The per-object cell store is MemRegion.tla (C05) in its "flagged"       *)
(* domain; this module adds the list, the pointers, the reference          *)
(* operations (L...) that mirror the code, the soundness step relations    *)
(* (...OK) that the trace specification trace/T_X05 evaluates on recorded  *)
(* steps of the real AbstractObjectList, and the concrete product machine. *)
(* Interval-valued cell contents of the real code are PROJECTED to         *)
(* MemRegion.tla's value shape (an exact small value, or BVTOP = any       *)
(* value); the projection is monotone, so no sound result is rejected      *)
(* (what intervals denote is C02/C03's subject).                           *)
(***************************************************************************)
EXTENDS Integers, FiniteSets, Sequences

\* the cell store of C05 and its wire projection, used on region VALUES only
MR == INSTANCE MemRegionWire WITH dom <- "flagged", cells <- <<>>

VARIABLES
  lists,   \* [Lists -> abstract object list]; a list is a function  id |-> object
  conc     \* [Lists -> concrete memory]     ; id |-> sequence of instances (flat regions)
avars == <<lists, conc>>

Lists == {"A", "B"}
OtherL(x) == IF x = "A" THEN "B" ELSE "A"
D == "flagged"
ABSENT == MR!ABSENT
BVTOP  == MR!BVTOP

-----------------------------------------------------------------------------
(* VALUES: MemRegion.tla's record [s, abs, rel, top]                        *)
TopV(s)    == MR!TopOf(D, s)
EmptyV(s)  == MR!FlagVal(s, ABSENT, MR!NoRel, FALSE)
IsTopV(v)  == MR!IsTop(D, v)
IsEmptyV(v) == v.abs = ABSENT /\ ~v.top /\ \A i \in DOMAIN v.rel : v.rel[i] = ABSENT
JoinV(a, b) == MR!MergeV(D, a, b)
FlagV(v)   == [v EXCEPT !.top = TRUE]
RelIds(v)  == {i \in DOMAIN v.rel : v.rel[i] # ABSENT}

\* gamma(a) \subseteq gamma(b) for optional BitvectorDomain elements / for values
InclB(a, b) == a = ABSENT \/ b = BVTOP \/ a = b
Incl(a, b) ==
  /\ a.s = b.s
  /\ \/ b.top
     \/ /\ ~a.top
        /\ InclB(a.abs, b.abs)
        /\ \A i \in DOMAIN a.rel : InclB(a.rel[i], b.rel[i])

(* concrete members as integers: UNK, an absolute value n (0 <= n < 100),   *)
(* the pointer (identifier i, offset n) as 100 * i + n                      *)
UNK == BVTOP
MAbs(n) == n
MRel(i, n) == 100 * i + n
InG(m, v) ==
  \/ v.top
  \/ /\ m # UNK
     /\ IF m < 100 THEN v.abs = BVTOP \/ v.abs = m
        ELSE LET i == m \div 100 IN i \in DOMAIN v.rel /\ (v.rel[i] = BVTOP \/ v.rel[i] = m % 100)

-----------------------------------------------------------------------------
(* OBJECTS AND LISTS                                                        *)
Obj(u, refs, mem) == [uniq |-> u, refs |-> refs, mem |-> mem]
NewObj == Obj(TRUE, {}, MR!EmptyRegion)
RdR(c, o, s) == MR!Read(D, c, o, s)              \* MemRegion::get
CellIds(ob) == UNION {RelIds(ob.mem[o]) : o \in DOMAIN ob.mem}

(* POINTERS.  [tg |-> sequence of targets, abs |-> BOOLEAN, top |-> BOOLEAN]; *)
(* a target is [id, k, lo, hi, st]: k = "iv" the offsets lo, lo+st, .., hi  *)
(* (lo = hi: an exact offset), k = "top" every offset.  An identifier       *)
(* occurs in at most one target.                                            *)
Tgt(id, k, lo, hi, st) == [id |-> id, k |-> k, lo |-> lo, hi |-> hi, st |-> st]
Ptr(tg, abs, top) == [tg |-> tg, abs |-> abs, top |-> top]
Stride(t) == IF t.st <= 0 THEN 1 ELSE t.st
Exact(t) == t.k = "iv" /\ t.lo = t.hi
MayHit(t, o) == t.k = "top" \/ (t.lo <= o /\ o <= t.hi /\ (o - t.lo) % Stride(t) = 0)
NumOffs(t) == (t.hi - t.lo) \div Stride(t) + 1
OffSet(t) == {t.lo + k * Stride(t) : k \in 0..(NumOffs(t) - 1)}
TargetsOf(p, id) == {i \in 1..Len(p.tg) : p.tg[i].id = id}
SingleTarget(p) == Len(p.tg) = 1 /\ ~p.abs /\ ~p.top              \* get_if_unique_target
WellFormedPtr(p) ==
  /\ \A i, j \in 1..Len(p.tg) : p.tg[i].id = p.tg[j].id => i = j
  /\ \A i \in 1..Len(p.tg) : p.tg[i].k = "iv" => p.tg[i].lo <= p.tg[i].hi
  /\ Len(p.tg) > 0 \/ p.abs \/ p.top
\* THE STRONG-UPDATE RULE
Strong(L, p) ==
  /\ SingleTarget(p) /\ Exact(p.tg[1])
  /\ p.tg[1].id \in DOMAIN L /\ L[p.tg[1].id].uniq

Overlap(p, s, o, n) == p < o + n /\ o < p + s      \* byte ranges [p,p+s) and [o,o+n)

-----------------------------------------------------------------------------
(* REFERENCE OPERATIONS (mirror the code; deterministic).  They are what    *)
(* mc/MC_AbsObject proves sound; the trace specification never compares a   *)
(* recorded state with them.                                                *)

\* AbstractObject::set_value (strongAllowed) / merge_value (~strongAllowed)
ObjWrite(ob, t, v, strongAllowed) ==
  LET m == ob.mem
      m2 == IF Exact(t)
              THEN IF strongAllowed /\ ob.uniq THEN MR!RAdd(D, m, t.lo, v)
                   ELSE MR!RAdd(D, m, t.lo, JoinV(RdR(m, t.lo, v.s), v))
            ELSE IF t.k = "iv" THEN MR!RMarkInterval(D, m, t.lo, t.hi, v.s)
            ELSE MR!RMarkAll(D, m)
  IN [ob EXCEPT !.mem = m2, !.refs = @ \cup RelIds(v)]

RECURSIVE WeakAll(_, _, _, _)
WeakAll(L, tg, i, v) ==
  IF i > Len(tg) THEN L
  ELSE LET t == tg[i] IN
       WeakAll(IF t.id \in DOMAIN L THEN [L EXCEPT ![t.id] = ObjWrite(@, t, v, FALSE)] ELSE L, tg, i + 1, v)

\* AbstractObjectList::set_value (every target that is a key of the list is written)
LSet(L, p, v) ==
  IF SingleTarget(p)
    THEN LET t == p.tg[1] IN IF t.id \in DOMAIN L THEN [L EXCEPT ![t.id] = ObjWrite(@, t, v, TRUE)] ELSE L
    ELSE WeakAll(L, p.tg, 1, v)
\* get_object_mut(id).merge_value(v, offset)
LMergeValue(L, t, v) == IF t.id \in DOMAIN L THEN [L EXCEPT ![t.id] = ObjWrite(@, t, v, FALSE)] ELSE L

RECURSIVE GetAll(_, _, _, _, _)
GetAll(L, tg, i, s, acc) ==
  IF i > Len(tg) THEN acc
  ELSE LET t == tg[i]
           r == IF t.id \in DOMAIN L /\ Exact(t) THEN JoinV(acc, RdR(L[t.id].mem, t.lo, s)) ELSE FlagV(acc)
       IN GetAll(L, tg, i + 1, s, r)
\* AbstractObjectList::get_value
LGet(L, q, s) == LET r == GetAll(L, q.tg, 1, s, EmptyV(s)) IN IF q.top THEN FlagV(r) ELSE r

\* AbstractObject::merge
ObjJoin(a, b) == IF a = b THEN a ELSE Obj(a.uniq /\ b.uniq, a.refs \cup b.refs, MR!RMerge(D, a.mem, b.mem))
\* AbstractObjectList::merge
LMerge(L1, L2) ==
  [id \in DOMAIN L1 \cup DOMAIN L2 |->
     IF id \in DOMAIN L1 /\ id \in DOMAIN L2 THEN ObjJoin(L1[id], L2[id])
     ELSE IF id \in DOMAIN L1 THEN L1[id] ELSE L2[id]]
\* AbstractObjectList::insert (add_abstract_object = insert of a new empty object)
LInsert(L, id, ob) ==
  [j \in DOMAIN L \cup {id} |->
     IF j # id THEN L[j]
     ELSE IF id \in DOMAIN L THEN ObjJoin([L[id] EXCEPT !.uniq = FALSE], ob) ELSE ob]
\* assume_arbitrary_writes_to_object(id, add)
LArbitrary(L, id, add) ==
  IF id \in DOMAIN L THEN [L EXCEPT ![id] = [@ EXCEPT !.mem = MR!RMarkAll(D, @), !.refs = @ \cup add]] ELSE L
\* get_object_mut(id).mark_as_not_unique()
LNonUnique(L, id) == IF id \in DOMAIN L THEN [L EXCEPT ![id] = [@ EXCEPT !.uniq = FALSE]] ELSE L

-----------------------------------------------------------------------------
(* SOUNDNESS STEP RELATIONS between a list L and its successor L2.          *)

\* b over-approximates a: every constraint (cell) of b is implied by what a says about its range
ObjIncl(a, b) ==
  /\ b.uniq => a.uniq
  /\ a.refs \subseteq b.refs
  /\ \A o \in DOMAIN b.mem : Incl(RdR(a.mem, o, b.mem[o].s), b.mem[o])

\* (W), one cell c2 = L2[id].mem[o] after a write of v through p
CellWriteOK(L, p, v, id, o, c2, strong) ==
  LET s     == c2.s
      T     == TargetsOf(p, id)
      hitE  == \E i \in T : v.s = s /\ MayHit(p.tg[i], o)
      hitP  == \E i \in T : \E w \in (o - v.s + 1)..(o + s - 1) : MayHit(p.tg[i], w) /\ ~(w = o /\ v.s = s)
      certain == strong /\ T # {} /\ Overlap(p.tg[1].lo, v.s, o, s)
  IN /\ hitE => Incl(v, c2)
     /\ hitP => c2.top
     /\ ~certain => Incl(RdR(L[id].mem, o, s), c2)

WriteOK(L, p, v, L2, weakOnly) ==
  LET strong == ~weakOnly /\ Strong(L, p) IN
  /\ \A id \in DOMAIN L :
       /\ id \in DOMAIN L2
       /\ L2[id].uniq => L[id].uniq
       /\ L[id].refs \subseteq L2[id].refs
       /\ \A o \in DOMAIN L2[id].mem : CellWriteOK(L, p, v, id, o, L2[id].mem[o], strong)
       /\ TargetsOf(p, id) # {} => RelIds(v) \subseteq L2[id].refs
  /\ strong => RdR(L2[p.tg[1].id].mem, p.tg[1].lo, v.s) = v          \* the exact clause

\* (R)
GetOK(L, q, s, res) ==
  /\ res.s = s
  /\ q.top => res.top
  /\ \A i \in 1..Len(q.tg) :
       LET t == q.tg[i] IN
       t.id \in DOMAIN L =>
         LET m == L[t.id].mem IN
         IF t.k = "top" \/ NumOffs(t) > Cardinality(DOMAIN m)      \* some addressed offset holds no cell
           THEN res.top
           ELSE \A o \in OffSet(t) : Incl(RdR(m, o, s), res)

\* (M)
MergeOK(La, Lb, L2) ==
  \A j \in DOMAIN La \cup DOMAIN Lb :
    /\ j \in DOMAIN L2
    /\ j \in DOMAIN La => ObjIncl(La[j], L2[j])
    /\ j \in DOMAIN Lb => ObjIncl(Lb[j], L2[j])
InsertOK(L, id, ob, L2) ==
  /\ \A j \in DOMAIN L : j \in DOMAIN L2 /\ ObjIncl(L[j], L2[j])
  /\ id \in DOMAIN L2 /\ ObjIncl(ob, L2[id])
  /\ id \in DOMAIN L => ~L2[id].uniq
  /\ ob.refs \subseteq L2[id].refs
ArbitraryOK(L, id, add, L2) ==
  \A j \in DOMAIN L :
    /\ j \in DOMAIN L2
    /\ IF j = id THEN /\ L2[j].uniq => L[j].uniq
                      /\ L[j].refs \subseteq L2[j].refs
                      /\ \A o \in DOMAIN L2[j].mem : L2[j].mem[o].top
                      /\ add \subseteq L2[j].refs
       ELSE ObjIncl(L[j], L2[j])
NonUniqueOK(L, id, L2) ==
  /\ \A j \in DOMAIN L : j \in DOMAIN L2 /\ ObjIncl(L[j], L2[j])
  /\ id \in DOMAIN L => ~L2[id].uniq

\* (I)
ObjInv(ob) ==
  /\ MR!NoOverlapR(ob.mem) /\ MR!NoTopStoredR(D, ob.mem) /\ MR!SizesPositiveR(ob.mem)
  /\ CellIds(ob) \subseteq ob.refs
ListInv(L) == \A id \in DOMAIN L : ObjInv(L[id])

-----------------------------------------------------------------------------
(* THE MACHINE: abstract step relations (predicates on lists, lists').  A   *)
(* bounded instance binds lists' to a candidate and adds the concrete step  *)
(* (below); the trace specification binds lists' to the recorded state.     *)
Frame(x) == lists'[OtherL(x)] = lists[OtherL(x)]

StrongWrite(x, p, v) == x \in Lists /\ Strong(lists[x], p) /\ WriteOK(lists[x], p, v, lists'[x], FALSE) /\ Frame(x)
WeakWrite(x, p, v)   == x \in Lists /\ ~Strong(lists[x], p) /\ WriteOK(lists[x], p, v, lists'[x], FALSE) /\ Frame(x)
Write(x, p, v)       == StrongWrite(x, p, v) \/ WeakWrite(x, p, v)
MergeValue(x, t, v)  == x \in Lists /\ WriteOK(lists[x], Ptr(<<t>>, FALSE, FALSE), v, lists'[x], TRUE) /\ Frame(x)
Read(x, q, s, res)   == x \in Lists /\ GetOK(lists[x], q, s, res)
MergeLists(dst, src) == dst \in Lists /\ MergeOK(lists[dst], lists[src], lists'[dst]) /\ Frame(dst)
Insert(x, id, ob)    == x \in Lists /\ InsertOK(lists[x], id, ob, lists'[x]) /\ Frame(x)
Arbitrary(x, id, add) == x \in Lists /\ ArbitraryOK(lists[x], id, add, lists'[x]) /\ Frame(x)
NonUnique(x, id)     == x \in Lists /\ NonUniqueOK(lists[x], id, lists'[x]) /\ Frame(x)
Copy(dst, src)       == dst \in Lists /\ lists'[dst] = lists[src] /\ Frame(dst)
Reset                == lists' = [x \in Lists |-> <<>>]

-----------------------------------------------------------------------------
(* THE CONCRETE SIDE.  conc[x][id] is the sequence of instances of id.      *)
FlatRead(c, o, s) == MR!Read("flat", c, o, s).abs             \* the member in cell (o, s), else UNK
FlatWrite(c, w, s, m) == MR!RAdd("flat", c, w, MR!FlatVal(s, m))
FlatCells(c) == {<<o, c[o].s>> : o \in DOMAIN c}

InGammaObj(insts, ob) ==
  /\ ob.uniq => Len(insts) <= 1
  /\ \A k \in 1..Len(insts) :
       /\ \A o \in DOMAIN ob.mem : InG(FlatRead(insts[k], o, ob.mem[o].s), ob.mem[o])
       /\ \A o \in DOMAIN insts[k] : insts[k][o].abs >= 100 => (insts[k][o].abs \div 100) \in ob.refs
InGammaList(C, L) == DOMAIN C \subseteq DOMAIN L /\ \A id \in DOMAIN C : InGammaObj(C[id], L[id])
Sound == \A x \in Lists : InGammaList(conc[x], lists[x])

\* concrete targets of p in memory C: <<target index, instance, offset>>, offsets from the window W
ConcTargets(C, p, W) ==
  {tr \in (1..Len(p.tg)) \X (1..2) \X W :
     LET t == p.tg[tr[1]] IN t.id \in DOMAIN C /\ tr[2] <= Len(C[t.id]) /\ MayHit(t, tr[3])}

(* The members of gamma(v) a write of v may store.  Like the absolute part / top flag of a   *)
(* pointer, a value of unknown origin (top flag) is NOT a pointer to an object of the list:  *)
(* the pointer-target sets only track pointers of known origin (the code's own assumption).  *)
WMembers(v, CU) == {m \in CU : InG(m, v) /\ (m >= 100 => v.rel[m \div 100] # ABSENT)}

(* The concrete successors of a memory C (of one list) under an operation, as SETS.        *)
\* the write lands on one concrete target with one member of gamma(v) (members from CU), or -
\* if the pointer has an absolute part / the top flag, or the write is only possible - nowhere
CWrite(C, p, v, maySkip, CU, W) ==
  (IF p.abs \/ p.top \/ maySkip THEN {C} ELSE {})
  \cup {[C EXCEPT ![p.tg[tr[1]].id][tr[2]] = FlatWrite(@, tr[3], v.s, m)] :
          tr \in ConcTargets(C, p, W), m \in WMembers(v, CU)}

\* what a read through q of s bytes may concretely return
ConcReads(C, q, s, W) ==
  {FlatRead(C[q.tg[tr[1]].id][tr[2]], tr[3], s) : tr \in ConcTargets(C, q, W)} \cup (IF q.top THEN {UNK} ELSE {})

\* the instances an abstract object may stand for (one instance; members from CU)
ConcOf(ob, CU) ==
  LET cellsOf == DOMAIN ob.mem
      choices == {f \in [cellsOf -> CU] : \A o \in cellsOf : InG(f[o], ob.mem[o])
                                          /\ (f[o] >= 100 => (f[o] \div 100) \in ob.refs)}
  IN {[o \in {p \in cellsOf : f[p] # UNK} |-> MR!FlatVal(ob.mem[o].s, f[o])] : f \in choices}
\* a new instance of id appears
CInsert(C, id, ob, CU) ==
  {[j \in DOMAIN C \cup {id} |-> IF j # id THEN C[j] ELSE IF id \in DOMAIN C THEN Append(C[id], c) ELSE <<c>>] :
     c \in ConcOf(ob, CU)}
\* the execution came along either path
CMerge(Cd, Cs) == {Cd, Cs}
\* arbitrary writes: nothing happened, or every cell of every instance was destroyed
CArbitrary(C, id) ==
  {C} \cup (IF id \in DOMAIN C THEN {[C EXCEPT ![id] = [k \in DOMAIN @ |-> MR!EmptyRegion]]} ELSE {})
=============================================================================
