------------------------------- MODULE LogMsg -------------------------------
(* Messages of the log collector of cwe_checker (utils/log.rs) and the       *)
(* REFERENCE SEMANTICS of LogThread::collect_and_deduplicate as pure         *)
(* operators.  No variables: shared by the concurrent machine LogThread.tla, *)
(* by its abstraction LogThreadAbs.tla and by the trace specification.       *)
(*                                                                           *)
(* A message is a record  [id, kind, txt, addrs]                             *)
(*   kind  "log"   LogThreadMsg::Log with location = None   (address-less)   *)
(*         "alog"  LogThreadMsg::Log with location = Some(tid); addrs =      *)
(*                 <<tid.address>>                                           *)
(*         "cwe"   LogThreadMsg::Cwe(w); addrs = w.addresses (non-empty: a   *)
(*                 warning without address makes the collector panic on      *)
(*                 purpose and is outside the property)                      *)
(*         "terminate"  LogThreadMsg::Terminate                              *)
(*   id    identity of the SEND (ghost; unique per send; never compared with *)
(*         anything the implementation returns)                              *)
(*   txt   the observable content (text / description); two different sends  *)
(*         may carry the same content                                        *)
(*   addrs addresses as integers (the harness formats them as fixed-width    *)
(*         hex strings, so the string order of the code's BTreeMap keys is   *)
(*         the integer order)                                                *)
(* What the collector stores and returns is the PAYLOAD [kind, txt, addrs].  *)
EXTENDS Integers, Sequences, FiniteSets, TLC

Terminate == [id |-> 0, kind |-> "terminate", txt |-> 0, addrs |-> <<>>]
NoMsg     == [id |-> 0, kind |-> "none", txt |-> 0, addrs |-> <<>>]

IsTerminate(m) == m.kind = "terminate"
IsPlain(m) == m.kind = "log"
IsALog(m)  == m.kind = "alog"
IsCwe(m)   == m.kind = "cwe"
HasKey(m)  == Len(m.addrs) > 0
\* de-duplication key: the address of the log's location; the FIRST address of a warning
Key(m)     == m.addrs[1]
Payload(m) == [kind |-> m.kind, txt |-> m.txt, addrs |-> m.addrs]
Payloads(q) == [i \in 1..Len(q) |-> Payload(q[i])]

-----------------------------------------------------------------------------
(* The collector's local state and one iteration of its receive loop.        *)
(*   general : Seq(payload)          general_logs      (Vec, push)           *)
(*   byAddr  : address -> payload    logs_with_address (BTreeMap, insert)    *)
(*   cwes    : address -> payload    collected_cwes    (BTreeMap, insert)    *)
EmptyFold == [general |-> <<>>, byAddr |-> <<>>, cwes |-> <<>>]

Put(f, a, v) == (a :> v) @@ f          \* f with a mapped to v (TLC module: left operand wins)

FoldStep(f, m) ==
  IF IsPlain(m) THEN [f EXCEPT !.general = Append(@, Payload(m))]
  ELSE IF IsALog(m) THEN [f EXCEPT !.byAddr = Put(@, Key(m), Payload(m))]   \* insert: last wins
  ELSE IF IsCwe(m) THEN [f EXCEPT !.cwes = Put(@, Key(m), Payload(m))]      \* keyed by FIRST address
  ELSE f

\* Fold of the first n messages of q / of all of q
RECURSIVE FoldUpTo(_, _)
FoldUpTo(q, n) == IF n = 0 THEN EmptyFold ELSE FoldStep(FoldUpTo(q, n - 1), q[n])
Fold(q) == FoldUpTo(q, Len(q))

\* Position of the first Terminate in a channel history (Len+1 if there is none), and the
\* messages before it: exactly what the collector processes (messages behind Terminate are dropped).
RECURSIVE FirstTermFrom(_, _)
FirstTermFrom(chan, i) == IF i > Len(chan) \/ IsTerminate(chan[i]) THEN i ELSE FirstTermFrom(chan, i + 1)
FirstTerm(chan) == FirstTermFrom(chan, 1)
HasTerm(chan) == FirstTerm(chan) <= Len(chan)
Prefix(chan) == SubSeq(chan, 1, FirstTerm(chan) - 1)

RECURSIVE SortedSeq(_)
SortedSeq(S) == IF S = {} THEN <<>>
                ELSE LET x == CHOOSE x \in S : \A y \in S : x <= y
                     IN <<x>> \o SortedSeq(S \ {x})
ValuesInKeyOrder(f) == LET ks == SortedSeq(DOMAIN f) IN [i \in 1..Len(ks) |-> f[ks[i]]]

\* What the code returns: (addressed logs in key order, then the general logs ; warnings in key order)
Returned(f) == [logs |-> ValuesInKeyOrder(f.byAddr) \o f.general,
                cwes |-> ValuesInKeyOrder(f.cwes)]

-----------------------------------------------------------------------------
(* THE PROPERTY (C25), stated declaratively on                               *)
(*   Q     the messages in front of the first Terminate, in channel order,   *)
(*   done  the ids of the sends that completed before collection was         *)
(*         requested,                                                        *)
(*   res   the returned pair [logs, cwes] of payload sequences.              *)
(* The order of the returned warnings / addressed logs is NOT part of the    *)
(* property (the code happens to return them in key order, see Returned).    *)

\* clause 1: every message whose send completed before the request is taken into account ...
DeliveredOK(Q, done) == \A id \in done : \E i \in 1..Len(Q) : Q[i].id = id
\* ... and shows up in the result unless a later message for the same address replaced it
Represented(m, res) ==
  CASE IsPlain(m) -> \E i \in 1..Len(res.logs) : res.logs[i] = Payload(m)
    [] IsALog(m)  -> \E i \in 1..Len(res.logs) : IsALog(res.logs[i]) /\ HasKey(res.logs[i]) /\ Key(res.logs[i]) = Key(m)
    [] IsCwe(m)   -> \E i \in 1..Len(res.cwes) : HasKey(res.cwes[i]) /\ Key(res.cwes[i]) = Key(m)
    [] OTHER      -> TRUE
ReturnedOK(Q, done, res) == \A i \in 1..Len(Q) : Q[i].id \in done => Represented(Q[i], res)

\* clause 2: address-less logs keep their (linearised) send order; none lost, none invented
GeneralOrderOK(Q, res) == SelectSeq(res.logs, IsPlain) = SelectSeq(Payloads(Q), IsPlain)

\* clause 3: per reporting address exactly the last warning is kept
KeysOf(Q, kind) == {Key(Q[i]) : i \in {j \in 1..Len(Q) : Q[j].kind = kind}}
LastOf(Q, kind, a) ==
  LET I == {i \in 1..Len(Q) : Q[i].kind = kind /\ Key(Q[i]) = a}
  IN Payload(Q[CHOOSE i \in I : \A j \in I : j <= i])
ExactlyLast(Q, kind, seq) ==
  /\ Len(seq) = Cardinality(KeysOf(Q, kind))
  /\ \A a \in KeysOf(Q, kind) : \E i \in 1..Len(seq) : seq[i] = LastOf(Q, kind, a)
LastWinsOK(Q, res) == ExactlyLast(Q, "cwe", res.cwes)
\* what the code does for logs with a location (left open by the property statement; modelled)
ALogLastWinsOK(Q, res) == ExactlyLast(Q, "alog", SelectSeq(res.logs, IsALog))
WellKinded(res) == /\ \A i \in 1..Len(res.logs) : IsPlain(res.logs[i]) \/ IsALog(res.logs[i])
                   /\ \A i \in 1..Len(res.cwes) : IsCwe(res.cwes[i])

PropertyOK(Q, res) == WellKinded(res) /\ GeneralOrderOK(Q, res) /\ LastWinsOK(Q, res) /\ ALogLastWinsOK(Q, res)

-----------------------------------------------------------------------------
(* The same requirement on a result, stated on the FOLDED state f = Fold(Q)  *)
(* (used by the abstraction and by trace validation, which never see Q).     *)
(* MC_LogThread checks  ResultMatches(Fold(Q), r) <=> PropertyOK(Q, r)  on   *)
(* the returned result and on corrupted variants of it.                      *)
IsPermOfValues(seq, f) ==
  /\ Len(seq) = Cardinality(DOMAIN f)
  /\ \A a \in DOMAIN f : \E i \in 1..Len(seq) : seq[i] = f[a]
ResultMatches(f, res) ==
  /\ WellKinded(res)
  /\ SelectSeq(res.logs, IsPlain) = f.general
  /\ IsPermOfValues(SelectSeq(res.logs, IsALog), f.byAddr)
  /\ IsPermOfValues(res.cwes, f.cwes)
=============================================================================
