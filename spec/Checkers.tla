------------------------------ MODULE Checkers ------------------------------
(***************************************************************************)
(* Exact warning sets of the syntactic and the reachability-based checkers *)
(* of cwe_checker as FUNCTIONS OF (program, configuration).                 *)
(*                                                                         *)
(*   C16  W676  dangerous-function check   (checkers/cwe_676.rs)            *)
(*        W782  ioctl check                (checkers/cwe_782.rs)            *)
(*        W426  untrusted search path      (checkers/cwe_426.rs)            *)
(*        W332  insufficient PRNG entropy  (checkers/cwe_332.rs)            *)
(*   C17  W367sites  TOCTOU                (checkers/cwe_367.rs)            *)
(*        W243  chroot without chdir       (checkers/cwe_243.rs)            *)
(*        both on top of IntraReach        (utils/graph_utils.rs)           *)
(*                                                                         *)
(* Definitions only.  Programs are encoded as in Cfg.tla (harness/src/      *)
(* irenc.rs); additionally inspected here: sub.name, sub.addr, jmp.addr,    *)
(* ext.name.  A WARNING is the record                                       *)
(*     [tids |-> <<..>>, addresses |-> <<..>>, symbols |-> <<..>>,          *)
(*      other |-> <<<<..>>..>>]                                             *)
(* of the fields of CweWarning the properties name (the free-text           *)
(* description is not part of any property).  Warning multisets are BAGS    *)
(* (Cfg!BagOfImage); the order of warnings is not specified.                *)
(*                                                                         *)
(* Input class: extern symbols have pairwise different names.  C17 (needs   *)
(* the graph): well-formed normalised programs (Cfg!WellFormed).  C16 is     *)
(* syntactic: CallsTo ranges over ALL jumps of ALL blocks, so a call that is *)
(* the second jump of a block (`[CBranch; Call]`) counts like any other      *)
(* (T_C16!BlockShapeC16).                                                   *)
(***************************************************************************)
EXTENDS Cfg

Range(s) == {s[i] : i \in DOMAIN s}

Warning(tids, addresses, symbols, other) ==
  [tids |-> tids, addresses |-> addresses, symbols |-> symbols, other |-> other]
\* projection of a recorded warning to the same record shape
ProjWarning(w) == Warning(w.tids, w.addresses, w.symbols, w.other)
WarningBag(ws) == SeqBag([i \in DOMAIN ws |-> ProjWarning(ws[i])])

(***************************************************************************)
(* Symbols                                                                 *)
(***************************************************************************)
ExternIx(P) == DOMAIN P.externs
Imported(P, name) == \E i \in ExternIx(P) : P.externs[i].name = name
\* TIDs of the extern symbols whose name is in the set `names`
TidsOfNames(P, names) == {P.externs[i].tid : i \in {x \in ExternIx(P) : P.externs[x].name \in names}}
ExternOfTid(P, t) == P.externs[CHOOSE i \in ExternIx(P) : P.externs[i].tid = t]
UniqueExternNames(P) == \A i, j \in ExternIx(P) : P.externs[i].name = P.externs[j].name => i = j

\* direct calls (occurrences <<s, b, j>>) whose target is one of the TIDs
CallsTo(P, tids) == {c \in JmpRefs(P) : JmpAt(P, c).k = "call" /\ JmpAt(P, c).t \in tids}
CallsToIn(P, s, tids) == {c \in CallsTo(P, tids) : c[1] = s}
SubName(P, s) == P.subs[s].name

(***************************************************************************)
(* C16                                                                     *)
(***************************************************************************)
\* CWE676: one warning per call to an imported symbol whose name is on the configured list.
W676(P, symbols) ==
  BagOfImage(CallsTo(P, TidsOfNames(P, Range(symbols))),
             LAMBDA c : LET j == JmpAt(P, c) IN
                        Warning(<<j.tid>>, <<j.addr>>, <<SubName(P, c[1])>>,
                                <<<<"dangerous_function", ExternOfTid(P, j.t).name>>>>))

\* CWE782: one warning per call to ioctl.
W782(P) ==
  BagOfImage(CallsTo(P, TidsOfNames(P, {"ioctl"})),
             LAMBDA c : LET j == JmpAt(P, c) IN Warning(<<j.tid>>, <<j.addr>>, <<SubName(P, c[1])>>, <<>>))

\* CWE426: every function that calls both `system` and a configured privilege-changing symbol.
W426(P, symbols) ==
  BagOfImage({s \in SubIx(P) : /\ CallsToIn(P, s, TidsOfNames(P, {"system"})) # {}
                               /\ CallsToIn(P, s, TidsOfNames(P, Range(symbols))) # {}},
             LAMBDA s : Warning(<<P.subs[s].tid>>, <<P.subs[s].addr>>, <<SubName(P, s)>>, <<>>))

\* CWE332: every configured (initializer, generator) pair whose generator is imported while the
\* initializer is not.  The warning carries the two names only in its text, so a warning is
\* represented by the SET of configured names occurring in it.
PairNames(pairs) == UNION {{pairs[i][1], pairs[i][2]} : i \in DOMAIN pairs}
W332(P, pairs) ==
  BagOfImage({i \in DOMAIN pairs : Imported(P, pairs[i][2]) /\ ~Imported(P, pairs[i][1])},
             LAMBDA i : {pairs[i][1], pairs[i][2]})
\* the same representation of the recorded warnings (words = white-space separated description)
Words332(ws, pairs) == SeqBag([i \in DOMAIN ws |-> Range(ws[i].words) \cap PairNames(pairs)])

(***************************************************************************)
(* IntraReach: the search of is_sink_call_reachable_from_source_call.      *)
(* From a start node follow Block, Jump, CallCombine, CrCallStub,           *)
(* ReturnCombine and ExternCallStub edges (never Call / CrReturnStub, which *)
(* leave the function), but do not traverse the ExternCallStub edge of a    *)
(* call to the symbol `stop` ("do not search past another source call").    *)
(* E is the edge SET of the program's graph; the operators are written so   *)
(* that TLC iterates a frontier over a successor table computed once.       *)
(***************************************************************************)
WalkKinds == {"Block", "Jump", "CallCombine", "CrCallStub", "ReturnCombine", "ExternCallStub"}
\* call TID -> target TID for the direct calls of the program
CallTarget(P) ==
  LET calls == {c \in JmpRefs(P) : JmpAt(P, c).k = "call"}
  IN  [t \in {JmpAt(P, c).tid : c \in calls} |-> JmpAt(P, CHOOSE c \in calls : JmpAt(P, c).tid = t).t]
\* is e the stub edge of a direct call to the symbol with TID sym
StubOf(CT, e, sym) == e.k = "ExternCallStub" /\ e.jmp \in DOMAIN CT /\ CT[e.jmp] = sym

RECURSIVE Closure(_, _, _)
\* least set containing `visited` closed under the successor table; `frontier` = nodes not yet expanded
Closure(succ, visited, frontier) ==
  IF frontier = {} THEN visited
  ELSE LET new == UNION {succ[n] : n \in frontier} \ visited
       IN  Closure(succ, visited \cup new, new)
NodesOfEdges(E) == {e.src : e \in E} \cup {e.dst : e \in E}
SuccTable(E, N) == [n \in N |-> {e.dst : e \in {x \in E : x.src = n}}]

IntraReach(P, E, start, stop) ==
  LET CT == CallTarget(P)
      E2 == {e \in E : e.k \in WalkKinds /\ ~StubOf(CT, e, stop)}
      N == NodesOfEdges(E) \cup {start}
  IN  Closure(SuccTable(E2, N), {start}, {start})
\* TIDs of the calls to `sink` whose stub edge leaves a node reachable from start
\* (the sink test comes first: it also applies when sink = stop)
ReachableSinkCalls(P, E, start, stop, sink) ==
  LET CT == CallTarget(P)
      R == IntraReach(P, E, start, stop)
  IN  {e.jmp : e \in {x \in E : x.src \in R /\ StubOf(CT, x, sink)}}

(***************************************************************************)
(* C17                                                                     *)
(***************************************************************************)
\* calls to the symbol named `name` that have a return site (only these get a stub edge)
ReturningCallsToName(P, name) == {c \in CallsTo(P, TidsOfNames(P, {name})) : JmpAt(P, c).ret # NoTid}
RetStart(P, c) == StartOf(P, c[1], JmpAt(P, c).ret)

\* CWE367: the check calls (source) from which a use call (sink) is reachable without passing
\* another check call.  Result: set of call occurrences; UseCalls(c) the acceptable reported uses.
W367sites(P, E, source, sink) ==
  IF Imported(P, source) /\ Imported(P, sink)
  THEN LET src == CHOOSE t \in TidsOfNames(P, {source}) : TRUE
           snk == CHOOSE t \in TidsOfNames(P, {sink}) : TRUE
       IN  {c \in ReturningCallsToName(P, source) : ReachableSinkCalls(P, E, RetStart(P, c), src, snk) # {}}
  ELSE {}
UseCalls367(P, E, c, source, sink) ==
  ReachableSinkCalls(P, E, RetStart(P, c), CHOOSE t \in TidsOfNames(P, {source}) : TRUE,
                     CHOOSE t \in TidsOfNames(P, {sink}) : TRUE)
\* The implementation names a check call by the TID of its return-site block; the property only
\* says "at a call to the check function", so either identifier of the call site is accepted.
SiteIds(P, c) == {JmpAt(P, c).tid, JmpAt(P, c).ret}

\* CWE243: a chroot call is reported iff chdir is not imported, or no chdir call is reachable after
\* it (IntraReach from its return site, stopping at further chroot calls; nothing is reachable
\* after a call without return site) and its function does not call both chdir and a configured
\* privilege-dropping function.
SubCallsChdirAndPriv(P, s, privs) ==
  /\ CallsToIn(P, s, TidsOfNames(P, {"chdir"})) # {}
  /\ CallsToIn(P, s, TidsOfNames(P, Range(privs))) # {}
ChdirReachable(P, E, c) ==
  /\ JmpAt(P, c).ret # NoTid
  /\ ReachableSinkCalls(P, E, RetStart(P, c), CHOOSE t \in TidsOfNames(P, {"chroot"}) : TRUE,
                        CHOOSE t \in TidsOfNames(P, {"chdir"}) : TRUE) # {}
W243(P, E, privs) ==
  BagOfImage({c \in CallsTo(P, TidsOfNames(P, {"chroot"})) :
                \/ ~Imported(P, "chdir")
                \/ ~ChdirReachable(P, E, c) /\ ~SubCallsChdirAndPriv(P, c[1], privs)},
             LAMBDA c : LET j == JmpAt(P, c) IN Warning(<<j.tid>>, <<j.addr>>, <<SubName(P, c[1])>>, <<>>))
=============================================================================
