------------------------------ MODULE Strings ------------------------------
(***************************************************************************)
(* Bounded string languages, shared by Bricks.tla and CharIncl.tla.        *)
(*                                                                         *)
(* A string is a sequence of code points (naturals); a language is a set   *)
(* of strings.  Every operator takes the length bound n explicitly and     *)
(* returns only strings of length <= n ("bounded language"): this is the   *)
(* bounded concretisation the string-domain properties are stated over.    *)
(* The module has no constants so that modules with different alphabets /  *)
(* bounds can be EXTENDed together.                                        *)
(***************************************************************************)
EXTENDS Integers, Sequences, FiniteSets

Eps == << >>                                       \* the empty string
SMin(a, b) == IF a <= b THEN a ELSE b
SMax(a, b) == IF a >= b THEN a ELSE b
Range(s) == {s[i] : i \in DOMAIN s}                \* set of the elements of a sequence (JSON array -> set)

(* all strings over alphabet A of length <= n (built by Append so that every member is a tuple) *)
RECURSIVE AllStr(_, _)
AllStr(A, n) ==
  IF n = 0 THEN {Eps}
  ELSE LET P == AllStr(A, n - 1)
       IN  P \cup {Append(u, c) : u \in {v \in P : Len(v) = n - 1}, c \in A}

Short(X, n) == {w \in X : Len(w) <= n}             \* the members of X of length <= n

(* bounded concatenation of languages: { u.v : u \in X, v \in Y, |u.v| <= n } *)
Cat(X, Y, n) == UNION {{u \o v : v \in {w \in Y : Len(w) <= n - Len(u)}} : u \in Short(X, n)}

(* X^k, bounded:  k-fold concatenations of members of X that are no longer than n *)
RECURSIVE Pow(_, _, _)
Pow(X, k, n) == IF k = 0 THEN {Eps} ELSE Cat(Pow(X, k - 1, n), X, n)

(* the characters occurring in a string *)
CharsOf(w) == {w[i] : i \in DOMAIN w}

(* Independent membership-style definition used by the model-checking instances to cross-check Pow: *)
(* w is a concatenation of exactly k members of X.                                                  *)
IsPrefix(s, w) == Len(s) <= Len(w) /\ SubSeq(w, 1, Len(s)) = s
RECURSIVE Splits(_, _, _)
Splits(w, X, k) ==
  IF k = 0 THEN w = Eps
  ELSE \E s \in X : IsPrefix(s, w) /\ Splits(SubSeq(w, Len(s) + 1, Len(w)), X, k - 1)
=============================================================================
