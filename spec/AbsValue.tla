------------------------------ MODULE AbsValue ------------------------------
(***************************************************************************)
(* Tagged abstract values, so that containers (DomainMap.tla,              *)
(* MemRegionGamma.tla) and the merge laws of C03 are written once for all  *)
(* value domains:                                                          *)
(*   [k |-> "iv",    iv    |-> interval]            IntervalDomain         *)
(*   [k |-> "bvd",   bvd   |-> [w, top, v]]         BitvectorDomain        *)
(*   [k |-> "dd",    dd    |-> data domain value]   DataDomain<Interval>   *)
(*   [k |-> "taint", taint |-> [w, t]]              Taint                  *)
(* gamma(BitvectorDomain): Value v -> {v};  Top w -> all vectors of w bytes*)
(***************************************************************************)
EXTENDS DataDom, Taint

SubsetBvd(x, y) == x.w = y.w /\ (y.top \/ (~x.top /\ x.v = y.v))
InGammaBvd(v, x) == Len(v) = x.w /\ (x.top \/ v = x.v)

SubsetV(a, b, seed) ==
  /\ a.k = b.k
  /\ CASE a.k = "iv" -> Subset(a.iv, b.iv, seed)
       [] a.k = "bvd" -> SubsetBvd(a.bvd, b.bvd)
       [] a.k = "dd" -> SubsetD(a.dd, b.dd, seed)
       [] a.k = "taint" -> SubsetT(a.taint, b.taint)
\* gamma(v) is the whole type (a data domain value never is: identifiers are unbounded)
IsAllV(v) ==
  CASE v.k = "iv" -> IvIsAll(v.iv)
    [] v.k = "bvd" -> v.bvd.top
    [] v.k = "dd" -> FALSE
    [] v.k = "taint" -> IsAllT(v.taint)
\* the element `new_top(size)` / `top()` of the domain of v.  NOTE: for "dd" and "taint" this is
\* not the greatest element: gamma = {top member} resp. {clean}.
TopV(v) ==
  CASE v.k = "iv" -> [k |-> "iv", iv |-> IvTop(v.iv.w)]
    [] v.k = "bvd" -> [k |-> "bvd", bvd |-> [w |-> v.bvd.w, top |-> TRUE, v |-> <<>>]]
    [] v.k = "dd" -> [k |-> "dd", dd |-> [w |-> v.dd.w, rel |-> <<>>, abs |-> <<>>, top |-> TRUE]]
    [] v.k = "taint" -> [k |-> "taint", taint |-> TaintTop(v.taint.w)]
GammaEqV(a, b, seed) == SubsetV(a, b, seed) /\ SubsetV(b, a, seed + 5)

\* C03 for a scalar domain
UpperV(x, y, m, seed) == SubsetV(x, m, seed) /\ SubsetV(y, m, seed + 1)
IdemV(x, mxx, seed) == GammaEqV(mxx, x, seed)
AbsorbV(m, m2, seed) == GammaEqV(m2, m, seed)
=============================================================================
