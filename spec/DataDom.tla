------------------------------ MODULE DataDom ------------------------------
(***************************************************************************)
(* Concretisation of `DataDomain<IntervalDomain>` (pointer/value sets with *)
(* offsets) and its soundness relations (C03 merge, C04 refinement).       *)
(*                                                                         *)
(* A value is a record                                                     *)
(*   [w |-> bytes, rel |-> <<[id |-> name, off |-> interval], ...>>,       *)
(*    abs |-> <<>> or <<interval>>, top |-> BOOLEAN]                        *)
(* gamma(d) is a set of TAGGED members (the three parts are disjoint):     *)
(*   [k |-> "abs", v]      an absolute value v  \in gamma(abs)             *)
(*   [k |-> "rel", id, v]  identifier id plus offset v \in gamma(off(id))  *)
(*   [k |-> "top"]         a value of unknown origin (contains_top_values) *)
(* Identifiers are symbolic: two different ids are different members.      *)
(* A monitor that knows the concrete value rho(id) of the identifiers uses *)
(* InGammaDConc (below).                                                   *)
(***************************************************************************)
EXTENDS Interval

DdMember(k, id, v) == [k |-> k, id |-> id, v |-> v]
DdTopMember == DdMember("top", "", <<>>)
DdRelIdx(d, id) == {i \in 1..Len(d.rel) : d.rel[i].id = id}
DdHasId(d, id) == DdRelIdx(d, id) # {}
DdOff(d, id) == d.rel[CHOOSE i \in DdRelIdx(d, id) : TRUE].off
DdIds(d) == {d.rel[i].id : i \in 1..Len(d.rel)}
DdHasAbs(d) == Len(d.abs) = 1

InGammaD(m, d) ==
  CASE m.k = "top" -> d.top
    [] m.k = "abs" -> DdHasAbs(d) /\ InGamma(m.v, d.abs[1])
    [] m.k = "rel" -> DdHasId(d, m.id) /\ InGamma(m.v, DdOff(d, m.id))

\* members to quantify over (complete for parts of <= 2 bytes with <= limit+1 members, else sampled)
MembersD(d, seed, limit) ==
  (IF d.top THEN {DdTopMember} ELSE {})
  \cup (IF DdHasAbs(d) THEN {DdMember("abs", "", v) : v \in Conc(d.abs[1], seed, limit)} ELSE {})
  \cup UNION {{DdMember("rel", d.rel[i].id, v) : v \in Conc(d.rel[i].off, seed + i, limit)} : i \in 1..Len(d.rel)}

\* Concrete reading for monitors (C13): v is a bit vector, Rho(id) the concrete value of an identifier
\* (or <<>> if unknown - then nothing can be excluded).  Top admits everything.
InGammaDConc(v, d, Rho(_)) ==
  \/ d.top
  \/ DdHasAbs(d) /\ InGamma(v, d.abs[1])
  \/ \E i \in 1..Len(d.rel) : LET b == Rho(d.rel[i].id) IN b = <<>> \/ InGamma(BvSub(v, b), d.rel[i].off)

WellFormedD(d) ==
  /\ \A i \in 1..Len(d.rel) : d.rel[i].off.w = d.w /\ WellFormed(d.rel[i].off)
  /\ \A i, j \in 1..Len(d.rel) : d.rel[i].id = d.rel[j].id => i = j
  /\ Len(d.abs) \in {0, 1}
  /\ (DdHasAbs(d) => d.abs[1].w = d.w /\ WellFormed(d.abs[1]))

(***************************************************************************)
(* C03.  gamma(x) \subseteq gamma(y): because the parts are disjoint and   *)
(* every interval has at least one member (its start) the inclusion        *)
(* decomposes into the inclusions of the parts.                            *)
(***************************************************************************)
SubsetD(x, y, seed) ==
  /\ x.w = y.w
  /\ (x.top => y.top)
  /\ (DdHasAbs(x) => DdHasAbs(y) /\ Subset(x.abs[1], y.abs[1], seed))
  /\ \A i \in 1..Len(x.rel) : /\ DdHasId(y, x.rel[i].id)
                               /\ Subset(x.rel[i].off, DdOff(y, x.rel[i].id), seed + i)
GammaEqD(x, y, seed) == SubsetD(x, y, seed) /\ SubsetD(y, x, seed + 7)
UpperD(x, y, m, seed) == SubsetD(x, m, seed) /\ SubsetD(y, m, seed + 1)
IdemD(x, mxx, seed) == GammaEqD(mxx, x, seed)
AbsorbD(m, m2, seed) == GammaEqD(m2, m, seed)

(***************************************************************************)
(* C04.  A result is [ok |-> BOOLEAN, v |-> data domain value].  Only the  *)
(* ABSOLUTE part is refined by a comparison with a constant: the relative  *)
(* and Top members must all be preserved.                                  *)
(***************************************************************************)
\* the absolute / relative part of a result as an interval result (ok = FALSE: part missing)
DdAbsRes(r, dflt) == IF r.ok /\ DdHasAbs(r.v) THEN [ok |-> TRUE, v |-> r.v.abs[1]] ELSE [ok |-> FALSE, v |-> dflt]
DdRelRes(r, id, dflt) == IF r.ok /\ DdHasId(r.v, id) THEN [ok |-> TRUE, v |-> DdOff(r.v, id)] ELSE [ok |-> FALSE, v |-> dflt]
RefineD(kind, x, c, r, seed) ==
  /\ (r.ok => r.v.w = x.w)
  /\ (x.top => r.ok /\ r.v.top)
  /\ \A i \in 1..Len(x.rel) : LET rr == DdRelRes(r, x.rel[i].id, x.rel[i].off)
                               IN rr.ok /\ Subset(x.rel[i].off, rr.v, seed + i)
  /\ (DdHasAbs(x) => Refine(kind, x.abs[1], c, DdAbsRes(r, x.abs[1]), seed))
(***************************************************************************)
(* Intersection.  The tagged members are symbolic; CONCRETELY a relative   *)
(* member (id, o) denotes rho(id) + o, which - depending on the            *)
(* environment rho - can be ANY bit vector, and a Top member is any value. *)
(* Soundness for all environments therefore makes the following members of *)
(* x (and, mirrored, of y) feasible in the intersection:                   *)
(*  (i)   absolute members that are also absolute members of y;            *)
(*  (ii)  ALL absolute members of x as soon as y has a relative target or  *)
(*        the Top flag;                                                    *)
(*  (iii) relative members (id, o) with o in the offsets of id on both     *)
(*        sides;                                                           *)
(*  (iv)  the Top member if both sides have it.                            *)
(* Nothing else is demanded: in particular (id1, o1) against (id2, o2)     *)
(* with id1 # id2 may be dropped ("different identifiers do not intersect" *)
(* is the documented, modelled deviation of DataDomain::intersect).        *)
(* A feasible member counts as represented by the result r if r has the    *)
(* Top flag, or holds it in the matching part; an absolute member of x     *)
(* that is feasible only through y's relative targets is also represented  *)
(* when r keeps ALL relative members of y (then rho(id)+o is in r whenever *)
(* it is in y - returning y itself would be sound).                        *)
(***************************************************************************)
\* the absolute / relative part of r as an interval result; a Top flag represents everything
DdAbsRep(r, dflt) == IF r.ok /\ r.v.top THEN [ok |-> TRUE, v |-> IvTop(dflt.w)] ELSE DdAbsRes(r, dflt)
DdRelRep(r, id, dflt) == IF r.ok /\ r.v.top THEN [ok |-> TRUE, v |-> IvTop(dflt.w)] ELSE DdRelRes(r, id, dflt)
\* r keeps every relative member of y
DdKeepsRel(y, r, seed) ==
  r.ok /\ \A i \in 1..Len(y.rel) : LET rr == DdRelRep(r, y.rel[i].id, y.rel[i].off)
                                     IN rr.ok /\ Subset(y.rel[i].off, rr.v, seed + i)
\* clauses (i) and (ii) for the absolute part of x against y
DdAbsKept(x, y, r, seed) ==
  DdHasAbs(x) =>
    LET ra == DdAbsRep(r, x.abs[1])
        all == ra.ok /\ Subset(x.abs[1], ra.v, seed)
    IN /\ (DdHasAbs(y) => Intersect(x.abs[1], y.abs[1], ra, seed))                      \* (i)
       /\ (y.top => all)                                                                \* (ii) Top flag
       /\ (~y.top /\ Len(y.rel) > 0 => (all \/ DdKeepsRel(y, r, seed + 20)))            \* (ii) relative target
IntersectD(x, y, r, seed) ==
  /\ x.w = y.w
  /\ (r.ok => r.v.w = x.w)
  /\ (x.top /\ y.top => r.ok /\ r.v.top)                                               \* (iv)
  /\ DdAbsKept(x, y, r, seed)
  /\ DdAbsKept(y, x, r, seed + 40)
  /\ \A i \in 1..Len(x.rel) :                                                         \* (iii)
       DdHasId(y, x.rel[i].id) =>
         Intersect(x.rel[i].off, DdOff(y, x.rel[i].id), DdRelRep(r, x.rel[i].id, x.rel[i].off), seed + i)
=============================================================================
