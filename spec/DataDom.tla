------------------------------ MODULE DataDom ------------------------------
(***************************************************************************)
(* Concretisation of `DataDomain<IntervalDomain>` (pointer/value sets with *)
(* offsets) and its soundness relations (C03 merge, C04 refinement).       *)
(*                                                                         *)
(* A value is a record                                                     *)
(*   [w |-> bytes, rel |-> <<[id |-> name, off |-> interval], ...>>,       *)
(*    abs |-> <<>> or <<interval>>, top |-> BOOLEAN]                        *)
(* gamma(d) is a set of TAGGED members (the three parts are disjoint):     *)
(*   [k |-> "abs", v]      an absolute value v  \in gamma(abs)             *)
(*   [k |-> "rel", id, v]  identifier id plus offset v \in gamma(off(id))  *)
(*   [k |-> "top"]         a value of unknown origin (contains_top_values) *)
(* Identifiers are symbolic: two different ids are different members.      *)
(* A monitor that knows the concrete value rho(id) of the identifiers uses *)
(* InGammaDConc (below).                                                   *)
(***************************************************************************)
EXTENDS Interval

DdMember(k, id, v) == [k |-> k, id |-> id, v |-> v]
DdTopMember == DdMember("top", "", <<>>)
DdRelIdx(d, id) == {i \in 1..Len(d.rel) : d.rel[i].id = id}
DdHasId(d, id) == DdRelIdx(d, id) # {}
DdOff(d, id) == d.rel[CHOOSE i \in DdRelIdx(d, id) : TRUE].off
DdIds(d) == {d.rel[i].id : i \in 1..Len(d.rel)}
DdHasAbs(d) == Len(d.abs) = 1

InGammaD(m, d) ==
  CASE m.k = "top" -> d.top
    [] m.k = "abs" -> DdHasAbs(d) /\ InGamma(m.v, d.abs[1])
    [] m.k = "rel" -> DdHasId(d, m.id) /\ InGamma(m.v, DdOff(d, m.id))

\* members to quantify over (complete for parts of <= 2 bytes with <= limit+1 members, else sampled)
MembersD(d, seed, limit) ==
  (IF d.top THEN {DdTopMember} ELSE {})
  \cup (IF DdHasAbs(d) THEN {DdMember("abs", "", v) : v \in Conc(d.abs[1], seed, limit)} ELSE {})
  \cup UNION {{DdMember("rel", d.rel[i].id, v) : v \in Conc(d.rel[i].off, seed + i, limit)} : i \in 1..Len(d.rel)}

\* Concrete reading for monitors (C13): v is a bit vector, Rho(id) the concrete value of an identifier
\* (or <<>> if unknown - then nothing can be excluded).  Top admits everything.
InGammaDConc(v, d, Rho(_)) ==
  \/ d.top
  \/ DdHasAbs(d) /\ InGamma(v, d.abs[1])
  \/ \E i \in 1..Len(d.rel) : LET b == Rho(d.rel[i].id) IN b = <<>> \/ InGamma(BvSub(v, b), d.rel[i].off)

WellFormedD(d) ==
  /\ \A i \in 1..Len(d.rel) : d.rel[i].off.w = d.w /\ WellFormed(d.rel[i].off)
  /\ \A i, j \in 1..Len(d.rel) : d.rel[i].id = d.rel[j].id => i = j
  /\ Len(d.abs) \in {0, 1}
  /\ (DdHasAbs(d) => d.abs[1].w = d.w /\ WellFormed(d.abs[1]))

(***************************************************************************)
(* C03.  gamma(x) \subseteq gamma(y): because the parts are disjoint and   *)
(* every interval has at least one member (its start) the inclusion        *)
(* decomposes into the inclusions of the parts.                            *)
(***************************************************************************)
SubsetD(x, y, seed) ==
  /\ x.w = y.w
  /\ (x.top => y.top)
  /\ (DdHasAbs(x) => DdHasAbs(y) /\ Subset(x.abs[1], y.abs[1], seed))
  /\ \A i \in 1..Len(x.rel) : /\ DdHasId(y, x.rel[i].id)
                               /\ Subset(x.rel[i].off, DdOff(y, x.rel[i].id), seed + i)
GammaEqD(x, y, seed) == SubsetD(x, y, seed) /\ SubsetD(y, x, seed + 7)
UpperD(x, y, m, seed) == SubsetD(x, m, seed) /\ SubsetD(y, m, seed + 1)
IdemD(x, mxx, seed) == GammaEqD(mxx, x, seed)
AbsorbD(m, m2, seed) == GammaEqD(m2, m, seed)

(***************************************************************************)
(* C04.  A result is [ok |-> BOOLEAN, v |-> data domain value].  Only the  *)
(* ABSOLUTE part is refined by a comparison with a constant: the relative  *)
(* and Top members must all be preserved.                                  *)
(***************************************************************************)
\* the absolute / relative part of a result as an interval result (ok = FALSE: part missing)
DdAbsRes(r, dflt) == IF r.ok /\ DdHasAbs(r.v) THEN [ok |-> TRUE, v |-> r.v.abs[1]] ELSE [ok |-> FALSE, v |-> dflt]
DdRelRes(r, id, dflt) == IF r.ok /\ DdHasId(r.v, id) THEN [ok |-> TRUE, v |-> DdOff(r.v, id)] ELSE [ok |-> FALSE, v |-> dflt]
RefineD(kind, x, c, r, seed) ==
  /\ (r.ok => r.v.w = x.w)
  /\ (x.top => r.ok /\ r.v.top)
  /\ \A i \in 1..Len(x.rel) : LET rr == DdRelRes(r, x.rel[i].id, x.rel[i].off)
                               IN rr.ok /\ Subset(x.rel[i].off, rr.v, seed + i)
  /\ (DdHasAbs(x) => Refine(kind, x.abs[1], c, DdAbsRes(r, x.abs[1]), seed))
\* members of both values are members of the result (symbolic members; see the module header)
IntersectD(x, y, r, seed) ==
  /\ x.w = y.w
  /\ (r.ok => r.v.w = x.w)
  /\ (x.top /\ y.top => r.ok /\ r.v.top)
  /\ (DdHasAbs(x) /\ DdHasAbs(y) => Intersect(x.abs[1], y.abs[1], DdAbsRes(r, x.abs[1]), seed))
  /\ \A i \in 1..Len(x.rel) :
       DdHasId(y, x.rel[i].id) =>
         Intersect(x.rel[i].off, DdOff(y, x.rel[i].id), DdRelRes(r, x.rel[i].id, x.rel[i].off), seed + i)
=============================================================================
