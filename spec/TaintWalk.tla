------------------------------ MODULE TaintWalk ------------------------------
(***************************************************************************)
(* C15: the NULL-dereference check (checkers/cwe_476.rs, cwe_476/context.rs,*)
(* analysis/taint) flags EXACTLY the unchecked flows of the return value of *)
(* a configured allocation function -- for programs in which that value     *)
(* flows only through registers.                                            *)
(*                                                                         *)
(* The specification is a nondeterministic WALKER over the edges of the     *)
(* interprocedural graph of Cfg.tla.  A walker state is                     *)
(*        [n |-> node, T |-> set of tainted register names]                 *)
(* and the walk starts at the return site of a source call c (a direct call *)
(* with return site to an extern symbol whose name is configured) with      *)
(* T = the registers the symbol's register return values read.              *)
(* Rule set (DESIGN.md section 6, C15; validated against the real checker): *)
(*   assign  v := e   v becomes tainted iff e reads a tainted register,     *)
(*                    else untainted                                        *)
(*   load    v := [a] tainted address -> SINK; else v becomes untainted     *)
(*   store   [a] := e tainted address -> SINK   (a tainted VALUE leaves the *)
(*                    input class "flows only through registers": OOB)      *)
(*   jump             blocked if the condition of the conditional jump      *)
(*                    taken -- or of the untaken conditional before an      *)
(*                    unconditional jump -- reads a tainted register        *)
(*   extern call      SINK if a declared register parameter reads a tainted *)
(*                    register; else T /\ callee-saved(symbol's convention) *)
(*                    and on to the return site                             *)
(*   indirect call    same with the parameter registers of the standard     *)
(*                    convention                                            *)
(*   internal call    SINK if a parameter register of the callee's          *)
(*                    convention is tainted; else, only if the call has a   *)
(*                    return site and the callee a returning block,         *)
(*                    T /\ callee-saved(callee's convention) at the return  *)
(*                    site                                                  *)
(*   return           SINK if an integer return register (function's own    *)
(*                    convention) is tainted AND the function is called     *)
(*                    with a return site somewhere in the program           *)
(*   T = {}           the path dies                                         *)
(* Warn(C, c) == a SINK is reachable.   Requirement:                        *)
(*        c is reported  <=>  Warn(C, c)       for every source call c.     *)
(* Definitions only; T_C15 binds them to recorded runs.                     *)
(***************************************************************************)
EXTENDS WalkBase

\* Everything that is computed once per project: PJ, the edge set of its graph and lookup tables.
Context(PJ) ==
  LET P == PJ.program
      E == DOMAIN Graph(P).edges
  IN  [PJ |-> PJ, P |-> P, E |-> E, out |-> OutTable(E), jmp |-> JmpTable(P), ext |-> ExternTable(P)]

Tainted(e, T) == InputVars(e) \cap T # {}
State(n, T) == [n |-> n, T |-> T]

\* result of walking through the defs of a block
Res(k, T) == [k |-> k, T |-> T]
RECURSIVE RunDefs(_, _, _)
RunDefs(defs, i, T) ==
  IF i > Len(defs) THEN Res("ok", T)
  ELSE IF T = {} THEN Res("dead", {})
  ELSE LET d == defs[i] IN
       CASE d.k = "assign" -> RunDefs(defs, i + 1, IF Tainted(d.e, T) THEN T \cup {d.v.n} ELSE T \ {d.v.n})
         [] d.k = "load" -> IF Tainted(d.a, T) THEN Res("sink", T) ELSE RunDefs(defs, i + 1, T \ {d.v.n})
         [] d.k = "store" -> IF Tainted(d.a, T) THEN Res("sink", T)
                             ELSE IF Tainted(d.e, T) THEN Res("oob", T)
                             ELSE RunDefs(defs, i + 1, T)

\* does the conditional jump with TID t (if it is one) test a tainted register
CondTainted(C, t, T) == t # NoTid /\ C.jmp[t].k = "cbranch" /\ Tainted(C.jmp[t].c, T)

\* One step of the walker along edge e from state s (s.T # {}):
\*   [sink |-> BOOLEAN, oob |-> BOOLEAN, next |-> set of successor states]
Out(sink, oob, next) == [sink |-> sink, oob |-> oob, next |-> next]
Live(n, T) == IF T = {} THEN {} ELSE {State(n, T)}
StepEdge(C, s, e) ==
  LET T == s.T IN
  CASE e.k = "Block" ->
         LET r == RunDefs(BlkOfNode(C.P, s.n).defs, 1, T)
         IN  Out(r.k = "sink", r.k = "oob", IF r.k = "ok" THEN Live(e.dst, r.T) ELSE {})
    [] e.k = "Jump" ->
         IF CondTainted(C, e.jmp, T) \/ CondTainted(C, e.untaken, T)
         THEN Out(FALSE, FALSE, {}) ELSE Out(FALSE, FALSE, {State(e.dst, T)})
    [] e.k = "ExternCallStub" ->
         LET j == C.jmp[e.jmp] IN
         IF j.k = "call"
         THEN LET x == C.ext[j.t] IN
              IF RegArgVars(x.params) \cap T # {} THEN Out(TRUE, FALSE, {})
              ELSE Out(FALSE, FALSE, Live(e.dst, T \cap SavedRegs(ExternCconv(C.PJ, x))))
         ELSE \* indirect call: standard convention
              IF ParamRegs(StdCconv(C.PJ)) \cap T # {} THEN Out(TRUE, FALSE, {})
              ELSE Out(FALSE, FALSE, Live(e.dst, T \cap SavedRegs(StdCconv(C.PJ))))
    [] e.k = "CallCombine" -> Out(FALSE, FALSE, {State(e.dst, T)})
    [] e.k = "Call" ->            \* into the callee (e.dst = its entry): parameters checked, no flow
         Out(ParamRegs(SubCconv(C.PJ, e.dst.sub)) \cap T # {}, FALSE, {})
    [] e.k = "CrCallStub" -> Out(FALSE, FALSE, {State(e.dst, T)})
    [] e.k = "ReturnCombine" ->   \* s.n = CallReturn(call site, returning block of callee sub2)
         LET cc == SubCconv(C.PJ, s.n.sub2) IN
         IF ParamRegs(cc) \cap T # {} THEN Out(FALSE, FALSE, {})      \* (already a SINK at the Call edge)
         ELSE Out(FALSE, FALSE, Live(e.dst, T \cap SavedRegs(cc)))
    [] e.k = "CrReturnStub" ->    \* the function returns to a caller inside the program
         Out(IntRetRegs(SubCconv(C.PJ, s.n.sub)) \cap T # {}, FALSE, {})

\* a walker standing on a CallReturn node came from the call site (CrCallStub); the CrReturnStub
\* edge is taken from the BlkEnd of a returning block
Step(C, s) ==
  LET outs == {StepEdge(C, s, e) : e \in (IF s.n \in DOMAIN C.out THEN C.out[s.n] ELSE {})}
  IN  Out(\E o \in outs : o.sink, \E o \in outs : o.oob, UNION {o.next : o \in outs})

\* all walker states reachable from the start state: frontier iteration
RECURSIVE Explore(_, _, _, _, _)
Explore(C, visited, frontier, sink, oob) ==
  IF frontier = {} THEN [sink |-> sink, oob |-> oob, states |-> visited]
  ELSE LET rs == {Step(C, s) : s \in frontier}
           new == UNION {r.next : r \in rs} \ visited
       IN  Explore(C, visited \cup new, new, sink \/ \E r \in rs : r.sink, oob \/ \E r \in rs : r.oob)

(***************************************************************************)
(* Source calls and the verdict                                            *)
(***************************************************************************)
\* direct calls with return site to an extern symbol whose name is configured
SourceCalls(C, symbols) ==
  {c \in JmpRefs(C.P) : LET j == JmpAt(C.P, c) IN
     /\ j.k = "call" /\ j.t \in DOMAIN C.ext /\ C.ext[j.t].name \in SeqRange(symbols)
     /\ j.ret # NoTid}
InitialTaint(C, c) == RegArgVars(C.ext[JmpAt(C.P, c).t].rets)
Walk(C, c) ==
  LET T0 == InitialTaint(C, c)
      s0 == Live(StartOf(C.P, c[1], JmpAt(C.P, c).ret), T0)
  IN  Explore(C, s0, s0, FALSE, FALSE)
Warn(C, c) == Walk(C, c).sink
\* the source call stays inside "the value flows only through registers"
InClassCall(C, c) == ~Walk(C, c).oob
=============================================================================
