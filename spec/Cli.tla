-------------------------------- MODULE Cli --------------------------------
(***************************************************************************)
(* The command line pipeline of cwe_checker (src/caller/src/main.rs,       *)
(* run_with_ghidra) as a state machine, and the predicates on its output.  *)
(*                                                                         *)
(*   Start -> Selected -> [FnSigs -> PI -> [StrAbs]] -> Run(m)* -> Sorted  *)
(*         -> Printed -> exit 0                                            *)
(*                                                                         *)
(* One transition per linearisation point; the real binary reports each    *)
(* one through the cfg(cwe_checker_verif) hook ("VERIF-EVENT").  The       *)
(* machine is written as a step FUNCTION on a record so that the bounded   *)
(* model (mc/MC_Cli) and the trace specifications (T_C21, T_C22) share it. *)
(***************************************************************************)
EXTENDS Integers, Sequences, FiniteSets

\* get_modules() order
Known == <<"CWE78", "CWE119", "CWE134", "CWE190", "CWE215", "CWE243", "CWE252", "CWE332", "CWE337",
           "CWE367", "CWE416", "CWE426", "CWE467", "CWE476", "CWE560", "CWE676", "CWE782", "CWE789", "Memory">>
KnownSet == {Known[i] : i \in 1..Len(Known)}
\* checkers::MODULES_LKM (mentions CWE457, which is not a known module)
ModulesLkm == {"CWE134", "CWE190", "CWE215", "CWE252", "CWE416", "CWE457", "CWE467", "CWE476", "CWE676", "CWE789"}
DependOnPI == {"CWE119", "CWE134", "CWE190", "CWE252", "CWE337", "CWE416", "CWE476", "CWE789", "Memory"}
DependOnStrAbs == {"CWE78"}

\* warning names a module may emit
Emits(m) == CASE m = "CWE119" -> {"CWE119", "CWE125", "CWE787"}
              [] m = "CWE416" -> {"CWE415", "CWE416"}
              [] m = "Memory" -> {"CWE476"}
              [] OTHER -> {m}

SeqToSet(s) == {s[i] : i \in 1..Len(s)}
NoDup(s) == Cardinality(SeqToSet(s)) = Len(s)

(***************************************************************************)
(* Module selection.  partial: the set of non-empty names given with       *)
(* --partial (hasPartial = FALSE: no flag).  An unknown name aborts.       *)
(***************************************************************************)
SelectionValid(hasPartial, partial) == hasPartial => partial \subseteq KnownSet
Select(hasPartial, partial, isLkm) ==
  IF hasPartial THEN partial
  ELSE IF isLkm THEN ModulesLkm \cap KnownSet
  ELSE KnownSet \ {"CWE78"}
NeedsStrAbs(S) == S \cap DependOnStrAbs # {}
NeedsPI(S) == NeedsStrAbs(S) \/ S \cap DependOnPI # {}

(***************************************************************************)
(* The machine.  m = [phase, stage, sel, ran, n]                           *)
(*   phase : "start" | "run" | "sorted" | "printed"                        *)
(*   stage : "none" | "fnsigs" | "pi" | "strabs"   (analyses computed)     *)
(***************************************************************************)
InitM == [phase |-> "start", stage |-> "none", sel |-> {}, ran |-> {}, n |-> 0, total |-> 0]
AnalysesReady(m) ==
  IF NeedsStrAbs(m.sel) THEN m.stage = "strabs"
  ELSE IF NeedsPI(m.sel) THEN m.stage = "pi"
  ELSE m.stage = "none"

\* ev = [ev, modules, lkm, partial, module, n] (the normalised hook record);
\* arg = [hasPartial, partial (set), isLkm]: what the command line / input asked for.
\* Result: [ok, m]
Step(m, ev, arg) ==
  CASE ev.ev = "selected" ->
         [ok |-> /\ m.phase = "start"
                 /\ SelectionValid(arg.hasPartial, arg.partial)
                 /\ NoDup(ev.modules)                                  \* each check once
                 /\ SeqToSet(ev.modules) = Select(arg.hasPartial, arg.partial, arg.isLkm)
                 /\ ev.lkm = arg.isLkm,
          m |-> [m EXCEPT !.phase = "run", !.sel = SeqToSet(ev.modules)]]
    [] ev.ev = "fn_sigs_computed" ->
         [ok |-> m.phase = "run" /\ m.stage = "none" /\ m.ran = {} /\ NeedsPI(m.sel),
          m |-> [m EXCEPT !.stage = "fnsigs"]]
    [] ev.ev = "pi_computed" ->
         [ok |-> m.phase = "run" /\ m.stage = "fnsigs" /\ m.ran = {},
          m |-> [m EXCEPT !.stage = "pi"]]
    [] ev.ev = "string_abstraction_computed" ->
         [ok |-> m.phase = "run" /\ m.stage = "pi" /\ m.ran = {} /\ NeedsStrAbs(m.sel),
          m |-> [m EXCEPT !.stage = "strabs"]]
    [] ev.ev = "run" ->
         [ok |-> m.phase = "run" /\ AnalysesReady(m) /\ ev.module \in m.sel \ m.ran /\ ev.n >= 0,
          m |-> [m EXCEPT !.ran = @ \cup {ev.module}, !.total = @ + ev.n]]
    [] ev.ev = "sorted" ->
         [ok |-> m.phase = "run" /\ AnalysesReady(m) /\ m.ran = m.sel /\ ev.n = m.total,
          m |-> [m EXCEPT !.phase = "sorted", !.n = ev.n]]
    [] ev.ev = "printed" ->
         [ok |-> m.phase = "sorted", m |-> [m EXCEPT !.phase = "printed"]]
    [] OTHER -> [ok |-> FALSE, m |-> m]

RECURSIVE RunHook(_, _, _, _)
\* fold Step over a hook sequence; result [ok, m, at] (at = index of the first rejected hook event, 0 if none)
RunHook(m, hook, arg, i) ==
  IF i > Len(hook) THEN [ok |-> TRUE, m |-> m, at |-> 0]
  ELSE LET r == Step(m, hook[i], arg) IN
       IF r.ok THEN RunHook(r.m, hook, arg, i + 1) ELSE [ok |-> FALSE, m |-> m, at |-> i]

(***************************************************************************)
(* Output predicates.  A warning record carries name, version, addresses,  *)
(* tids, symbols and `key`, the order-preserving flat integer encoding of  *)
(* the complete record under the analyzer's canonical order (derived Ord   *)
(* of CweWarning: strings end with -1, string lists with -2, lists of      *)
(* lists with -3).                                                          *)
(***************************************************************************)
RECURSIVE LexLeFrom(_, _, _)
LexLeFrom(a, b, i) ==
  IF i > Len(a) THEN TRUE
  ELSE IF i > Len(b) THEN FALSE
  ELSE IF a[i] < b[i] THEN TRUE
  ELSE IF a[i] > b[i] THEN FALSE
  ELSE LexLeFrom(a, b, i + 1)
LexLe(a, b) == LexLeFrom(a, b, 1)
Sorted(out) == \A i \in 1..(Len(out) - 1) : LexLe(out[i].key, out[i+1].key)

\* versions: sequence of [name, version] as printed by --module-versions
VersionOf(versions, mod) == LET i == CHOOSE i \in 1..Len(versions) : versions[i].name = mod IN versions[i].version
HasVersion(versions, mod) == \E i \in 1..Len(versions) : versions[i].name = mod
\* the warning was emitted by module mod
EmittedBy(w, mod, versions) == w.name \in Emits(mod) /\ HasVersion(versions, mod) /\ w.version = VersionOf(versions, mod)
WarningsAllowed(out, sel, versions) == \A i \in 1..Len(out) : \E mod \in sel : EmittedBy(out[i], mod, versions)
\* --module-versions names every known check exactly once
VersionsComplete(versions) ==
  /\ Len(versions) = Len(Known)
  /\ {versions[i].name : i \in 1..Len(versions)} = KnownSet
\* restriction of an output to the warnings of the modules in S, same order
FilterOut(out, S, versions) == SelectSeq(out, LAMBDA w : \E mod \in S : EmittedBy(w, mod, versions))
Digests(out) == [i \in 1..Len(out) |-> out[i].digest]
=============================================================================
