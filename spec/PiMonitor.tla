----------------------------- MODULE PiMonitor -----------------------------
(***************************************************************************)
(* C13: pointer inference never excludes values that can occur at runtime. *)
(*                                                                         *)
(* A MONITOR MACHINE: the concrete IR machine of IR.tla runs one function  *)
(* from an initial register file while the RECORDED RESULT of the pointer  *)
(* inference (the real analysis, run by the harness) is checked against    *)
(* every concrete state at the two points at which the analysis attaches   *)
(* a state to a block (the nodes of its control flow graph):               *)
(*                                                                         *)
(*   BlkStart(b)  just before the first Def of block b                     *)
(*   BlkEnd(b)    after all Defs of b, before its jumps                    *)
(*                                                                         *)
(* The specification is the SOUNDNESS RELATION of the analysis, not a      *)
(* model of its algorithm: any recorded result that over-approximates the  *)
(* concrete executions is accepted, however imprecise.                     *)
(*                                                                         *)
(*   Sound           whenever an execution is at BlkStart(b), the analysis *)
(*                   has a state for that node (a block the analysis       *)
(*                   considers unreachable is never reached) and the       *)
(*                   concrete value of EVERY register of the register set  *)
(*                   is a member of the concretisation of the register's   *)
(*                   abstract value in that state.                         *)
(*   NullDerefHalts  whenever an execution is at BlkEnd(b) - it completed  *)
(*                   all Defs of b - the analysis has a state for BlkEnd(b)*)
(*                   (the analysis drops the state at a memory access it   *)
(*                   treats as a CERTAIN NULL dereference; such an access  *)
(*                   never completes).                                     *)
(*                                                                         *)
(* CONCRETISATION.  An abstract value is a DataDomain over IntervalDomain  *)
(* (DataDom.tla / Interval.tla):  relative targets id |-> offset interval, *)
(* an optional absolute interval, a Top flag.  Abstract identifiers are    *)
(* symbolic names for values of the ENTRY state of the function; the       *)
(* identifier environment of a case says what each one stands for:         *)
(*   k = "stack"       the stack pointer at entry                          *)
(*   k = "reg"         the value of parameter register `reg` at entry      *)
(*   k = "stackparam"  the `size` bytes of memory at (entry SP + off) at   *)
(*                     entry                                               *)
(*   k = "unknown"     anything else (nested parameters, global memory..): *)
(*                     nothing is known about its value, so a value that   *)
(*                     may be relative to it is never excluded.            *)
(* Rho maps an identifier to that concrete value (<<>> = unknown), and     *)
(*   InGammaV(v, d) ==  d.top  \/  v \in gamma(d.abs)                      *)
(*                  \/ \E (id |-> off) \in d.rel :                         *)
(*                        Rho(id) unknown \/ (v - Rho(id)) \in gamma(off)  *)
(* (DataDom!InGammaDConc).                                                 *)
(*                                                                         *)
(* NULL PAGE.  The machine HALTS at a load or store whose address lies in  *)
(* (-1024, 1024) (signed): such an access traps.  This is the window the   *)
(* analysis uses for "NULL dereference" (state/access_handling.rs).        *)
(*                                                                         *)
(* A CASE (one line of the harness' ndjson, harness/src/props/c13.rs):     *)
(*   blocks    the function (sequence of blk records of IR.tla), entry     *)
(*             block first                                                 *)
(*   sp, physregs, le, seed     the IR environment; physregs = the         *)
(*             project's register set, which `Sound` quantifies over       *)
(*   abs       abs[b] = [has |-> BOOLEAN, regs |-> sequence of DataDom     *)
(*             records, one per physregs[r]]: the analysis state at        *)
(*             BlkStart(blocks[b]);  has = FALSE: no state ("NoState")     *)
(*   endstate  endstate[b] = the analysis has a state at BlkEnd(blocks[b]) *)
(*   ids       the identifier environment, records [id, k, reg, off, size] *)
(*   inits     initial register files (sequences of [n, v]); every         *)
(*             behaviour starts in the entry block with one of them and    *)
(*             an arbitrary but fixed initial memory (IR!InitMem)          *)
(*                                                                         *)
(* The sequence of cases is a PARAMETER C of Init / Next / the invariants  *)
(* (the binding module passes a cached constant, e.g. the deserialised     *)
(* trace file).  Every behaviour is deterministic; Init picks (case,       *)
(* initial state) and TLC explores all of them.  Fuel bounds the number of *)
(* blocks executed per behaviour.                                          *)
(*                                                                         *)
(* The membership predicate the machine evaluates in every state is        *)
(* FastInGammaV (linear-time comparisons, singleton intervals by equality);*)
(* the REFERENCE definition is InGammaV = DataDom!InGammaDConc over        *)
(* Interval!InGamma, and mc/MC_PiMonitor checks that the two agree.  Rho   *)
(* is fixed along a behaviour and carried in the variable rho.             *)
(*                                                                         *)
(* REPORTING.  The variable ok caches the verdict of the current state.    *)
(* Entering a violating state prints                                       *)
(*   <<"BAD", case, init, kind, block index, register, steps>>             *)
(* with kind \in {"nostate", "escape", "nullderef"}, and the state has no  *)
(* successors, so ONE run reports every violating (case, initial state).   *)
(* With INVARIANTS Sound / NullDerefHalts (the *_cex configurations) TLC   *)
(* stops at the first one and prints the concrete path to it.              *)
(***************************************************************************)
EXTENDS IR, DataDom, TLC
CONSTANTS Fuel
VARIABLES cs,      \* index of the case
          ini,     \* index of the initial register file
          m,       \* state of the IR machine (observations are dropped: they are not needed)
          ph,      \* "start": at BlkStart(m.pc.t)    "end": at BlkEnd(m.pc.t)
          nb,      \* number of blocks entered
          ok,      \* verdict of this state (cached; see PiVerdict)
          rho      \* the concrete values of the abstract identifiers in this behaviour (RhoMap)
vars == <<cs, ini, m, ph, nb, ok, rho>>

(***************************************************************************)
(* Environment of a behaviour                                              *)
(***************************************************************************)
PiEnv(case, i) == [seed |-> (case.seed + 37 * i) % 65521, le |-> case.le,
                   sp |-> case.sp, physregs |-> case.physregs]
PiEntry(case) == case.blocks[1].tid

\* the value of register `name` in an initial register file (<<>> if it has none)
PiInitReg(init, name) ==
  LET c == {j \in 1..Len(init) : init[j].n = name}
  IN IF c = {} THEN <<>> ELSE init[CHOOSE j \in c : TRUE].v

(***************************************************************************)
(* Identifier environment and concretisation                               *)
(***************************************************************************)
PiIdKind(case, id) ==
  LET c == {j \in 1..Len(case.ids) : case.ids[j].id = id}
  IN IF c = {} THEN [k |-> "unknown", reg |-> "", off |-> 0, size |-> 0]
     ELSE case.ids[CHOOSE j \in c : TRUE]

\* concrete value an identifier stands for in the behaviour (case, i);  <<>> = unknown
Rho(case, i, id) ==
  LET e == PiIdKind(case, id)
      init == case.inits[i]
      sp0 == PiInitReg(init, case.sp.n)
  IN CASE e.k = "stack" -> sp0
       [] e.k = "reg" -> PiInitReg(init, e.reg)
       [] e.k = "stackparam" ->
            IF sp0 = <<>> \/ e.size < 1 THEN <<>>
            ELSE LoadBytes(EmptyFcn, AddrPlus(sp0, e.off), e.size, PiEnv(case, i))
       [] OTHER -> <<>>
\* Rho is fixed along a behaviour: the machine carries it as the function  id |-> value
RhoMap(case, i) == Norm([id \in {case.ids[j].id : j \in 1..Len(case.ids)} |-> Rho(case, i, id)])
\* ... looked up as a value of w bytes (an identifier of another width cannot be subtracted: unknown)
RhoAt(rm, id, w) == IF id \in DOMAIN rm /\ Len(rm[id]) = w THEN rm[id] ELSE <<>>

\* REFERENCE definition: v (a concrete register value) is represented by the abstract value d
\* (DataDom!InGammaDConc over Interval!InGamma).
\* Poison (an unassigned register) stands for "any value" and is never excluded.
InGammaV(v, d, rm) ==
  \/ IsPoison(v)
  \/ Len(v) # d.w
  \/ InGammaDConc(v, d, LAMBDA id : RhoAt(rm, id, Len(v)))

\* The same predicate as the machine evaluates it (millions of times): linear-time comparisons of
\* IR.tla, singleton intervals by equality.  mc/MC_PiMonitor checks  FastInGammaV = InGammaV.
FastInIv(v, x) ==
  /\ Len(v) = x.w
  /\ IF x.s = x.e THEN v = x.s
     ELSE /\ FSLe(x.s, v) /\ FSLe(v, x.e)
          /\ IF BvIsZero(x.st) THEN v = x.s ELSE (x.st = IvOne8 \/ BvDivides(x.st, FSub(v, x.s)))
FastInGammaV(v, d, rm) ==
  \/ IsPoison(v)
  \/ Len(v) # d.w
  \/ d.top
  \/ DdHasAbs(d) /\ FastInIv(v, d.abs[1])
  \/ \E j \in 1..Len(d.rel) :
        LET b == RhoAt(rm, d.rel[j].id, Len(v)) IN b = <<>> \/ FastInIv(FSub(v, b), d.rel[j].off)

(***************************************************************************)
(* The concrete machine with a trapping NULL page                          *)
(***************************************************************************)
NullWindow == 1024
NearNull(a) == LET w == Len(a)
               IN FSLt(BvFromInt(0 - NullWindow, w), a) /\ FSLt(a, BvFromInt(NullWindow, w))

\* one Def; a load / store to an address in the NULL window halts the machine
PiStepDef(d, st, env) ==
  IF d.k \in {"load", "store"}
  THEN LET a == EvalExpr(d.a, st.regs)
       IN IF ~IsPoison(a) /\ NearNull(a) THEN Halt(st, "nullderef") ELSE StepDef(d, st, env)
  ELSE StepDef(d, st, env)
PiRunDefs(defs, st, env) ==
  LET RECURSIVE go(_, _)
      go(s, i) == IF i > Len(defs) \/ ~Running(s) THEN s ELSE go(PiStepDef(defs[i], s, env), i + 1)
  IN go(st, 1)
\* Observations are not needed by this monitor; dropping them (and the observation counter, which only
\* seeds the havoc of calls) makes a machine state that repeats - a loop that does not progress - the
\* same TLC state under PiView, so the behaviour ends there.
DropObs(st) == [st EXCEPT !.obs = <<>>, !.n = 0]

(***************************************************************************)
(* Verdict of a machine state: [ok, kind, blk, reg]                        *)
(***************************************************************************)
PiOK == [ok |-> TRUE, kind |-> "", blk |-> 0, reg |-> ""]
PiBad(kind, b, reg) == [ok |-> FALSE, kind |-> kind, blk |-> b, reg |-> reg]
PiVerdict(case, rm, st, phase) ==
  IF ~Running(st) THEN PiOK
  ELSE LET b == BlockIndex(case.blocks, st.pc.t) IN
       IF b = 0 THEN PiOK                                 \* left the function: the next step is a dead end
       ELSE IF phase = "start"
       THEN IF ~case.abs[b].has THEN PiBad("nostate", b, "")
            ELSE LET P == case.physregs
                     bad == {r \in 1..Len(P) : ~FastInGammaV(ReadVar(P[r], st.regs), case.abs[b].regs[r], rm)}
                 IN IF bad = {} THEN PiOK
                    ELSE PiBad("escape", b, P[CHOOSE r \in bad : \A r2 \in bad : r <= r2].n)
       ELSE IF ~case.endstate[b] THEN PiBad("nullderef", b, "") ELSE PiOK

\* the invariants (state predicates over the uncached verdict)
Sound(C) == PiVerdict(C[cs], rho, m, ph).kind \notin {"nostate", "escape"}
NullDerefHalts(C) == PiVerdict(C[cs], rho, m, ph).kind # "nullderef"

\* verdict of a state that is being entered; a violation is printed
Judge(c, i, st, phase, steps, case, rm) ==
  LET v == PiVerdict(case, rm, st, phase)
  IN IF v.ok THEN TRUE ELSE ~PrintT(<<"BAD", c, i, v.kind, v.blk, v.reg, steps>>)

(***************************************************************************)
(* The machine                                                             *)
(***************************************************************************)
Init(C) == \E c \in 1..Len(C) : \E i \in 1..Len(C[c].inits) :
  /\ cs = c /\ ini = i /\ nb = 0 /\ ph = "start"
  /\ m = Start(PiEntry(C[c]), C[c].inits[i], PiEnv(C[c], i))
  /\ rho = RhoMap(C[c], i)
  /\ ok = Judge(c, i, m, "start", 0, C[c], rho)

\* BlkStart(b) -> BlkEnd(b): execute the Defs of the block (or halt at a NULL access)
AtBlkStart(case) ==
  LET env == PiEnv(case, ini)
      b == BlockIndex(case.blocks, m.pc.t)
  IN /\ ph = "start"
     /\ nb < Fuel
     /\ m' = IF b = 0 THEN DropObs(DeadEnd(m, env))
             ELSE DropObs(PiRunDefs(case.blocks[b].defs, m, env))
     /\ ph' = IF b = 0 THEN "start" ELSE "end"
     /\ nb' = nb + 1

\* BlkEnd(b) -> BlkStart(b'): execute the jumps of the block
AtBlkEnd(case) ==
  LET env == PiEnv(case, ini)
      b == BlockIndex(case.blocks, m.pc.t)
  IN /\ ph = "end"
     /\ m' = DropObs(StepJmp(case.blocks[b], m, env, case.blocks))
     /\ ph' = "start"
     /\ nb' = nb

\* (state predicates are written as `P = TRUE': TLC would otherwise split their inner disjunctions
\* into several identical successor computations)
Next(C) ==
  /\ ok = TRUE                                  \* a violating state stops
  /\ Running(m) = TRUE
  /\ IF ph = "start" THEN AtBlkStart(C[cs]) ELSE AtBlkEnd(C[cs])
  /\ UNCHANGED <<cs, ini, rho>>
  /\ ok' = Judge(cs, ini, m', ph', nb', C[cs], rho)

Spec(C) == Init(C) /\ [][Next(C)]_vars
\* VIEW: the step counter is bookkeeping (rho and ok are functions of the rest)
PiView == <<cs, ini, m, ph>>
=============================================================================
