---------------------------- MODULE MC_AbsObject ----------------------------
(***************************************************************************)
(* Bounded instance of AbsObject.tla (mode M): the PRODUCT of two abstract *)
(* object lists "A", "B" with one concrete memory each.  TLC explores all  *)
(* histories up to Depth operations (from the empty lists, or from every   *)
(* preset, see MCInit) over                                                *)
(*   NObj object identifiers x offsets 0..OffHi x cell sizes Sizes x       *)
(*   NVals absolute values (+ one pointer value, + Top)                    *)
(* and checks in every reachable state                                     *)
(*   Sound        the concrete memory is in gamma(abstract list)           *)
(*   ListsInv     (I) of the statement                                     *)
(*   RefAccepted  the reference operation's own result satisfies the step  *)
(*                relation the trace specification uses (T_X05 would       *)
(*                accept the code the reference mirrors)                   *)
(*   ReadSound    every value a read may concretely return is in gamma of  *)
(*                the reference read result - and (in the states that are  *)
(*                not on the last level) of EVERY result value that GetOK  *)
(*                accepts                                                  *)
(* The abstract successor of a step is the reference result, but with       *)
(* Variants = TRUE every list that differs from it in ONE cell / one        *)
(* uniqueness flag / one pointer-target entry and that the step relation    *)
(* (WriteOK, MergeOK, InsertOK ...) ACCEPTS is judged in the step as well:  *)
(* it must cover EVERY concrete successor (VarOK; the verdict is kept in    *)
(* the variable `ok`).  These relations and gamma are cell-wise, so this    *)
(* shows that the step relations accept only sound successors (they are     *)
(* not too weak).                                                           *)
(* The concrete step picks every concretisation: target, instance, offset, *)
(* member of gamma(value), "elsewhere" for absolute / top pointers, either *)
(* side of a merge.                                                        *)
(***************************************************************************)
EXTENDS AbsObject, TLC
CONSTANTS NObj, OffHi, Sizes, NVals, Depth, PtrVal, TopVal, Variants, TwoLists, Presets

VARIABLES ok,         \* the reference result of the last step satisfied the step relation
          n           \* length of the history (a variable, not TLCGet("level"): with several workers TLC's
                      \* level of a state depends on the discovery order and the bounded graph would differ
                      \* from run to run)
mvars == <<lists, conc, ok, n>>

Ids == 1..NObj
Off == 0..OffHi
S1 == CHOOSE s \in Sizes : \A t \in Sizes : s <= t
SMax == CHOOSE s \in Sizes : \A t \in Sizes : s >= t
W == (1 - SMax)..OffHi                       \* concrete offsets of accesses that can touch the window
CU == {UNK} \cup (0..(NVals - 1)) \cup (IF PtrVal THEN {MRel(1, 0)} ELSE {})
UsedLists == IF TwoLists THEN Lists ELSE {"A"}

AbsVal(s, k) == MR!FlagVal(s, k, MR!NoRel, FALSE)
PtrV(s) == MR!FlagVal(s, ABSENT, [MR!NoRel EXCEPT ![1] = 0], FALSE)
GenVals ==
  {AbsVal(s, k) : s \in Sizes, k \in 0..(NVals - 1)}
  \cup (IF PtrVal THEN {PtrV(S1)} ELSE {})
  \cup (IF TopVal THEN {TopV(S1), FlagV(AbsVal(S1, 0))} ELSE {})

TSpecs(id) ==
  {Tgt(id, "iv", o, o, 0) : o \in Off}
  \cup {Tgt(id, "iv", 0, 1, 1), Tgt(id, "top", 0, 0, 0)}
  \cup (IF OffHi >= 2 THEN {Tgt(id, "iv", 0, 2, 2)} ELSE {})
TS2(id) == {Tgt(id, "iv", 0, 0, 0), Tgt(id, "iv", 1, 1, 0), Tgt(id, "iv", 0, 1, 1), Tgt(id, "top", 0, 0, 0)}
\* single-target pointers plain and with the top flag; the absolute part (same effect on a write as the top
\* flag) only on the exact target 0; two-target pointers
Ptrs ==
  {Ptr(<<t>>, FALSE, tp) : t \in UNION {TSpecs(id) : id \in Ids}, tp \in BOOLEAN}
  \cup {Ptr(<<Tgt(id, "iv", 0, 0, 0)>>, TRUE, FALSE) : id \in Ids}
  \cup (IF NObj >= 2 THEN {Ptr(<<t1, t2>>, FALSE, FALSE) : t1 \in TS2(1), t2 \in TS2(2)} ELSE {})
ReadPtrs == Ptrs \cup {Ptr(<<>>, TRUE, FALSE), Ptr(<<>>, FALSE, TRUE)}

\* objects to insert: the new empty object (add_abstract_object), an object holding one cell
InsObjs == {NewObj, Obj(TRUE, {}, MR!RAdd(D, MR!EmptyRegion, 0, AbsVal(S1, 0)))}

\* ---------------------------------------------------------------- variants of a reference result
CellVals ==
  UNION {{AbsVal(s, 0), AbsVal(s, 1), AbsVal(s, BVTOP), FlagV(AbsVal(s, 0)), TopV(s)} : s \in Sizes}
  \cup (IF PtrVal THEN {PtrV(S1)} ELSE {})
Var(L) ==
  IF ~Variants THEN {L}
  ELSE {L}
       \cup {[L EXCEPT ![id] = [@ EXCEPT !.mem = MR!RAdd(D, @, o, c), !.refs = @ \cup RelIds(c)]] :
               id \in DOMAIN L, o \in Off, c \in CellVals}
       \cup {[L EXCEPT ![id] = [@ EXCEPT !.uniq = ~@]] : id \in DOMAIN L}
       \cup UNION {{[L EXCEPT ![id] = [@ EXCEPT !.refs = @ \ {i}]] : i \in L[id].refs} : id \in DOMAIN L}
\* candidate read results: every unflagged value over the alphabet, and Top (a flagged value is gamma-equal to Top)
ResVals(s) ==
  {MR!FlagVal(s, a, [MR!NoRel EXCEPT ![1] = r], FALSE) :
     a \in {ABSENT, 0, 1, BVTOP}, r \in (IF PtrVal THEN {ABSENT, 0} ELSE {ABSENT})}
  \cup {TopV(s)}

\* every accepted one-change variant of the reference result covers every concrete successor
Witness(k) == TLCSet(k, TLCGet(k) + 1)
VarOK(ref, Pred(_), CS) ==
  Variants => \A L2 \in Var(ref) \ {ref} : Pred(L2) => (Witness(5) /\ \A C2 \in CS : InGammaList(C2, L2))

\* one step of list x: abstract successor = the reference result, concrete successor = any of CS;
\* ok' records that the step relation accepts the reference result and only sound variants
Step(k, x, ref, Pred(_), CS) ==
  /\ CS # {}
  /\ Witness(10 + k)                                  \* action k was taken (instead of -coverage: cheaper)
  /\ ok' = (Pred(ref) /\ VarOK(ref, Pred, CS))
  /\ lists' = [lists EXCEPT ![x] = ref]
  /\ \E C2 \in CS : conc' = [conc EXCEPT ![x] = C2]

\* ---------------------------------------------------------------- actions
(* Initial states.  Presets = FALSE: two empty lists.  Presets = TRUE: every identifier is, independently, *)
(* absent / a new unique object / unique with the cell (0, abs 0) / non-unique with two empty instances /  *)
(* non-unique with the UNFLAGGED cell (0, abs 0) in both instances (what `insert` of an equal object      *)
(* leaves) - all of them states the reference machine reaches by inserts alone (InitReachable below),      *)
(* so that short histories start where weak updates matter.                                               *)
Cell0 == MR!RAdd(D, MR!EmptyRegion, 0, AbsVal(S1, 0))
CCell0 == FlatWrite(MR!EmptyRegion, 0, S1, 0)
PresetObj(k) == CASE k = 1 -> NewObj
                  [] k = 2 -> Obj(TRUE, {}, Cell0)
                  [] k = 3 -> Obj(FALSE, {}, MR!EmptyRegion)
                  [] k = 4 -> Obj(FALSE, {}, Cell0)
PresetConc(k) == CASE k = 1 -> <<MR!EmptyRegion>>
                   [] k = 2 -> <<CCell0>>
                   [] k = 3 -> <<MR!EmptyRegion, MR!EmptyRegion>>
                   [] k = 4 -> <<CCell0, CCell0>>
MCInit ==
  /\ ok = TRUE /\ n = 0
  /\ IF ~Presets THEN lists = [x \in Lists |-> <<>>] /\ conc = [x \in Lists |-> <<>>]
     ELSE \E f \in [Ids -> 0..4] :
            LET present == {id \in Ids : f[id] # 0}
                L == [id \in present |-> PresetObj(f[id])]
                C == [id \in present |-> PresetConc(f[id])] IN
            /\ lists = [x \in Lists |-> IF x \in UsedLists THEN L ELSE <<>>]
            /\ conc = [x \in Lists |-> IF x \in UsedLists THEN C ELSE <<>>]
\* the presets are what inserts produce (checked in the initial states)
InitReachable ==
  n > 0 \/ ~Presets \/
  \A id \in DOMAIN lists["A"] :
    LET ob == lists["A"][id]
        one == Obj(TRUE, {}, ob.mem) IN
    IF ob.uniq THEN ob \in InsObjs ELSE LInsert(LInsert(<<>>, id, one), id, one)[id] = ob /\ one \in InsObjs

DoInsert ==
  \E x \in UsedLists, id \in Ids, ob \in InsObjs :
    /\ id \in DOMAIN conc[x] => Len(conc[x][id]) < 2
    /\ Step(1, x, LInsert(lists[x], id, ob), LAMBDA L2 : InsertOK(lists[x], id, ob, L2), CInsert(conc[x], id, ob, CU))

DoStrongWrite ==
  \E x \in UsedLists, p \in Ptrs, v \in GenVals :
    /\ Strong(lists[x], p)
    /\ Step(2, x, LSet(lists[x], p, v), LAMBDA L2 : WriteOK(lists[x], p, v, L2, FALSE), CWrite(conc[x], p, v, FALSE, CU, W))

DoWeakWrite ==
  \E x \in UsedLists, p \in Ptrs, v \in GenVals :
    /\ ~Strong(lists[x], p)
    /\ Step(3, x, LSet(lists[x], p, v), LAMBDA L2 : WriteOK(lists[x], p, v, L2, FALSE), CWrite(conc[x], p, v, FALSE, CU, W))

DoMergeValue ==
  \E x \in UsedLists, id \in Ids, v \in GenVals : \E t \in TSpecs(id) :
    /\ id \in DOMAIN lists[x]
    /\ LET p == Ptr(<<t>>, FALSE, FALSE) IN
       Step(4, x, LMergeValue(lists[x], t, v), LAMBDA L2 : WriteOK(lists[x], p, v, L2, TRUE), CWrite(conc[x], p, v, TRUE, CU, W))

DoArbitrary ==
  \E x \in UsedLists, id \in Ids, add \in {{}, {1}} :
    /\ id \in DOMAIN lists[x]
    /\ Step(5, x, LArbitrary(lists[x], id, add), LAMBDA L2 : ArbitraryOK(lists[x], id, add, L2), CArbitrary(conc[x], id))

DoNonUnique ==
  \E x \in UsedLists, id \in Ids :
    /\ id \in DOMAIN lists[x] /\ lists[x][id].uniq
    /\ Step(6, x, LNonUnique(lists[x], id), LAMBDA L2 : NonUniqueOK(lists[x], id, L2), {conc[x]})

DoMerge ==
  \E dst \in UsedLists :
    /\ TwoLists
    /\ LET src == OtherL(dst) IN
       Step(7, dst, LMerge(lists[dst], lists[src]), LAMBDA L2 : MergeOK(lists[dst], lists[src], L2), CMerge(conc[dst], conc[src]))

DoCopy ==
  \E dst \in UsedLists :
    /\ TwoLists /\ lists[dst] # lists[OtherL(dst)]
    /\ lists' = [lists EXCEPT ![dst] = lists[OtherL(dst)]]
    /\ conc' = [conc EXCEPT ![dst] = conc[OtherL(dst)]]
    /\ ok' = TRUE
    /\ Witness(18)

\* histories of at most Depth operations (a guard, not a CONSTRAINT: TLC evaluates the invariants on
\* every GENERATED state that violates a constraint, without deduplication)
MCNext ==
  /\ n < Depth /\ n' = n + 1
  /\ (DoInsert \/ DoStrongWrite \/ DoWeakWrite \/ DoMergeValue \/ DoArbitrary \/ DoNonUnique \/ DoMerge \/ DoCopy)

\* ---------------------------------------------------------------- invariants
ListsInv == \A x \in Lists : ListInv(lists[x])
RefAccepted == ok
ReadSound ==
  \A x \in UsedLists, q \in ReadPtrs, s \in Sizes :
    LET res == LGet(lists[x], q, s)
        ms  == ConcReads(conc[x], q, s, W) IN
    /\ GetOK(lists[x], q, s, res)
    /\ \A m \in ms : InG(m, res)
    /\ (Variants /\ ~q.abs /\ n < Depth) => \A r2 \in ResVals(s) : GetOK(lists[x], q, s, r2) => \A m \in ms : InG(m, r2)

(* Non-vacuity witnesses (counted with TLCSet/TLCGet; read by lib/checks/x05.py):       *)
(* 1 a unique object holds an unflagged cell; 2 a NON-unique object holds an unflagged  *)
(* cell; 3 two instances of one identifier differ in a cell; 4 a cell lists two         *)
(* possibilities or BVTOP without the flag (a weak update / merge that kept precision); *)
(* 5 a variant (not the reference result) was accepted                                  *)
Count ==
  /\ (\E x \in Lists : \E id \in DOMAIN lists[x] : lists[x][id].uniq /\ \E o \in DOMAIN lists[x][id].mem : ~lists[x][id].mem[o].top) => Witness(1)
  /\ (\E x \in Lists : \E id \in DOMAIN lists[x] : ~lists[x][id].uniq /\ \E o \in DOMAIN lists[x][id].mem : ~lists[x][id].mem[o].top) => Witness(2)
  /\ (\E x \in Lists : \E id \in DOMAIN conc[x] : Len(conc[x][id]) = 2 /\ conc[x][id][1] # conc[x][id][2]) => Witness(3)
  /\ (\E x \in Lists : \E id \in DOMAIN lists[x] : \E o \in DOMAIN lists[x][id].mem :
        LET c == lists[x][id].mem[o] IN ~c.top /\ (c.abs = BVTOP \/ (c.abs # ABSENT /\ RelIds(c) # {}))) => Witness(4)
ASSUME \A k \in 1..18 : TLCSet(k, 0)
\* transitions taken per action, in the order DoInsert DoStrongWrite DoWeakWrite DoMergeValue DoArbitrary DoNonUnique DoMerge DoCopy
PostCount == PrintT(<<"WITNESS", [k \in 1..5 |-> TLCGet(k)]>>) /\ PrintT(<<"ACTIONS", [k \in 1..8 |-> TLCGet(10 + k)]>>)
=============================================================================
