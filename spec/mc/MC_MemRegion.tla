---------------------------- MODULE MC_MemRegion ----------------------------
(***************************************************************************)
(* Bounded instance of MemRegion.tla (mode M): TLC explores ALL reachable  *)
(* states of two regions over a small offset window - no history variable, *)
(* so this is every operation sequence of any length over the alphabet     *)
(* below - and checks NoOverlap, NoTopStored and the read / merge clauses   *)
(* (for every argument) in every reachable state; the small instance       *)
(* MC_MemRegion_props.cfg checks the same clauses as action properties     *)
(* ReadAfterWrite and MergeOnly on every transition.  Run with            *)
(* -coverage 1: every action below must be taken; the MERGECASES line *)
(* counts the states witnessing each case of the region merge              *)
(* (lib/checks/c05.py reads both).                                         *)
(*                                                                         *)
(* Alphabet: offsets -NegOff..OffHi (negative offsets included), cell sizes  *)
(* Sizes, generator values per domain (flat: NVals bit vectors + Top;      *)
(* flagged: absolute values, a relative value, the empty value, a flagged  *)
(* value, Top - their closure under merge is reached by the machine).      *)
(* FreeB = FALSE freezes region B to a partner chosen by Init from a fixed *)
(* list of 12 (the first NPart of them); FreeB = TRUE lets both move.      *)
(***************************************************************************)
EXTENDS MemRegion, TLC
CONSTANTS NegOff, OffHi, Sizes, Doms, NVals, ShiftMag, FreeB, NPart

\* (TLC configuration files cannot spell negative numbers)
OffLo == 0 - NegOff
Off == OffLo..OffHi
Shifts == ShiftMag \cup {0 - k : k \in ShiftMag}

GenVals(D) ==
  IF D = "flat"
    THEN {FlatVal(s, a) : s \in Sizes, a \in {BVTOP} \cup (1..NVals)}
    ELSE {FlagVal(s, a, NoRel, FALSE) : s \in Sizes, a \in (1..NVals) \cup {ABSENT}}     \* absolute values and the empty value
         \cup {FlagVal(s, ABSENT, [NoRel EXCEPT ![1] = 1], FALSE) : s \in Sizes}          \* pointer relative to identifier 1
         \cup {FlagVal(s, 1, NoRel, TRUE) : s \in Sizes}                                  \* value with the top flag
         \cup {TopOf(D, s) : s \in Sizes}                                                 \* Top

Movable == IF FreeB THEN Regions ELSE {"A"}

\* partner regions for the frozen B (built with the machine's own operators)
Seq2Region(D, adds) ==
  LET RECURSIVE F(_, _)
      F(c, i) == IF i > Len(adds) THEN c ELSE F(RAdd(D, c, adds[i][1], adds[i][2]), i + 1)
  IN F(EmptyRegion, 1)
V(D, s, k) == IF D = "flat" THEN FlatVal(s, k) ELSE FlagVal(s, k, NoRel, FALSE)
\* the partners are given as sequences of <<offset, value>> additions (so that the history
\* carrying instance can replay their construction on the real type); an instance uses the
\* first NPart of them
PartnerSeq(D) ==
  LET s1 == CHOOSE s \in Sizes : \A t \in Sizes : s <= t
      s2 == CHOOSE s \in Sizes : s > s1 /\ \A t \in Sizes : t > s1 => s <= t
      mid == (OffLo + OffHi) \div 2
  IN << <<>>,
        <<<<mid, V(D, s2, 1)>>>>,
        <<<<OffLo, V(D, s1, 2)>>, <<OffLo + s1, V(D, s1, 1)>>>>,
        <<<<mid - 1, V(D, s2, 1)>>, <<mid + 1, V(D, s1, 1)>>>>,
        [i \in 1..(OffHi - OffLo + 1) |-> <<OffLo + i - 1, V(D, s1, 1)>>],
        <<<<OffLo, V(D, s1, 1)>>>>,
        <<<<OffLo, V(D, s2, 1)>>>>,
        <<<<mid, V(D, s1, 1)>>>>,
        <<<<mid, V(D, s2, 2)>>>>,
        <<<<OffHi, V(D, s1, 1)>>>>,
        <<<<OffHi, V(D, s2, 2)>>>>,
        <<<<OffLo, V(D, s1, 1)>>, <<mid, V(D, s2, 1)>>, <<OffHi, V(D, s1, 2)>>>> >>
PartnerAdds(D) == {PartnerSeq(D)[i] : i \in 1..(IF NPart < 12 THEN NPart ELSE 12)}
Partners(D) == {Seq2Region(D, a) : a \in PartnerAdds(D)}

MCInit ==
  /\ dom \in Doms
  /\ IF FreeB THEN cells = [r \in Regions |-> EmptyRegion]
     ELSE \E b \in Partners(dom) : cells = [r \in Regions |-> IF r = "A" THEN EmptyRegion ELSE b]

\* one named action per public mutator (names appear in the coverage output)
DoAdd        == \E r \in Movable, o \in Off, v \in GenVals(dom) : Add(r, o, v)
DoRemove     == \E r \in Movable, o \in Off, n \in Sizes : Remove(r, o, n)
DoWriteTop   == \E r \in Movable, o \in Off, s \in Sizes : MergeWriteTop(r, o, s)
DoMarkIntv   == \E r \in Movable, a \in Off, b \in Off, s \in Sizes : MarkIntervalTop(r, a, b, s)
DoMarkAll    == \E r \in Movable : MarkAllTop(r)
DoShift      == \E r \in Movable, k \in Shifts :
                   /\ \A p \in DOMAIN cells[r] : p + k \in Off      \* stay inside the window
                   /\ Shift(r, k)
DoMerge      == \E dst \in Movable, src \in Regions : Merge(dst, src)
DoCopy       == \E dst \in Movable : Copy(dst, Other(dst))
DoNewTop     == \E r \in Movable : NewTop(r)
DoSetValues  == \E r \in Movable : \E S \in SUBSET (DOMAIN cells[r]), w \in GenVals(dom) :
                   /\ Cardinality(S) \in 1..2 /\ w.s = CHOOSE s \in Sizes : TRUE
                   /\ SetValues(r, S, w)
DoClearTop   == \E r \in Movable : ClearTop(r)

MCNext == DoAdd \/ DoRemove \/ DoWriteTop \/ DoMarkIntv \/ DoMarkAll \/ DoShift \/ DoMerge
          \/ DoCopy \/ DoNewTop \/ DoSetValues \/ DoClearTop
MCSpec == MCInit /\ [][MCNext]_vars

\* ------------------------------------------------------------------ properties
\* the read / merge clauses, evaluated in every reachable state for every argument
ReadClauses ==
  \A r \in Movable :
    /\ ReadAfterWriteAt(dom, cells[r], Off, GenVals(dom))
    /\ FrameAt(dom, cells[r], Off, GenVals(dom), Sizes)
    /\ TouchedAt(dom, cells[r], Off, GenVals(dom), Sizes)
MergeClause == MergeKeepsOnlyAt(dom, cells["A"], cells["B"])
\* ... and as action properties (checked by the small instance MC_MemRegion_props.cfg)
ReadAfterWrite == [][ReadAfterWriteOn(Movable, Off, GenVals(dom))]_vars
MergeOnly == [][MergeKeepsOnlyOn(Movable)]_vars

\* clear_top_values is the identity on every reachable state
ClearTopNoop == \A r \in Regions : DropTop(dom, cells[r]) = cells[r]
\* observers agree with each other: iter lists exactly the cells get_unsized finds, ascending
ObserversAgree ==
  \A r \in Regions :
    LET it == Iter(cells[r]) IN
    /\ Len(it) = Cardinality(DOMAIN cells[r])
    /\ \A i \in DOMAIN it : ReadUnsized(cells[r], it[i][1]) = <<it[i][2]>>
                            /\ Read(dom, cells[r], it[i][1], it[i][2].s) = it[i][2]
    /\ \A i \in 1..(Len(it) - 1) : it[i][1] < it[i + 1][1]
    /\ IsTopRegion(cells[r]) <=> it = <<>>
\* merge is idempotent (the implementation short-circuits self == other) and commutative
MergeAlgebra ==
  /\ \A r \in Regions : RMerge(dom, cells[r], cells[r]) = cells[r]
  /\ RMerge(dom, cells["A"], cells["B"]) = RMerge(dom, cells["B"], cells["A"])

(* Coverage witnesses for the cases of the region merge: TLC's -coverage    *)
(* counts how often each conjunct below was TRUE (see c05.py).             *)
MergeCases(c1, c2) == {MergeCase(c1, c2, p) : p \in DOMAIN c1 \cup DOMAIN c2}
Witness(k) == TLCSet(k, TLCGet(k) + 1)
CountCases ==
  LET c1 == cells["A"]  c2 == cells["B"]  P == DOMAIN c1 \cup DOMAIN c2 IN
  /\ (\E p \in P : MergeCase(c1, c2, p) = "both" /\ ~IsTop(dom, MergeCand(dom, c1, c2, p))) => Witness(1)
  /\ (\E p \in P : MergeCase(c1, c2, p) = "both" /\ IsTop(dom, MergeCand(dom, c1, c2, p))) => Witness(2)
  /\ (\E p \in P : MergeCase(c1, c2, p) = "sizes") => Witness(3)
  /\ (\E p \in P : MergeCase(c1, c2, p) = "single" /\ ~IsTop(dom, MergeCand(dom, c1, c2, p))) => Witness(4)
  /\ (\E p \in P : MergeCase(c1, c2, p) = "single" /\ IsTop(dom, MergeCand(dom, c1, c2, p))) => Witness(5)
  /\ (\E p \in P : MergeCase(c1, c2, p) = "overlap") => Witness(6)
ASSUME \A k \in 1..6 : TLCSet(k, 0)
PostCases == PrintT(<<"MERGECASES", [k \in 1..6 |-> TLCGet(k)]>>)
=============================================================================
