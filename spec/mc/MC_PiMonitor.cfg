CONSTANTS
  Fuel = 20
INIT MInit
NEXT MNext
VIEW PiView
CHECK_DEADLOCK FALSE
