\* liveness, thorough tier: hand-picked cyclic graphs on 3 nodes (1->2->3->1; 1<->2 with 3->3 fed by
\* 2; the 3-cycle with the chord 2->1; the 3-cycle with a self-loop), all transfers / starts / bounds
CONSTANTS
  NN = 3
  MaxE = 4
  StartVals = {0, 1, 3}
  Defaults = {0}
  FamIdx = {1, 2, 3, 4, 5, 6}
  Bounds <- BoundsInf1
  EdgeSets <- CyclicEdgeSets3
SPECIFICATION FairSpec
PROPERTY Termination
CHECK_DEADLOCK FALSE
