---------------------------- MODULE MC_PiMonitor ----------------------------
(* Self-check of the pointer-inference monitor (PiMonitor.tla) on hand-      *)
(* written functions with hand-written "analysis results", 4 initial states  *)
(* each: abstractions that ARE sound must never be reported, the unsound     *)
(* ones must be reported with the right kind.  The driver compares the set   *)
(* of reported cases with Expected (lib/checks/c13.py).  In addition the     *)
(* fast membership predicate the machine evaluates (FastInGammaV) is checked *)
(* against the reference definition (InGammaV = DataDom!InGammaDConc over    *)
(* Interval!InGamma) on a grid of values x abstract values (ASSUME).         *)
EXTENDS PiMonitor
V(n, s) == [n |-> n, s |-> s, t |-> FALSE]
Var(n) == [k |-> "var", v |-> V(n, 8)]
B8(n) == BvFromInt(n, 8)
Const(n) == [k |-> "const", c |-> B8(n)]
Bin(op, l, r) == [k |-> "bin", op |-> op, l |-> l, r |-> r]
Asg(t, v, e) == [tid |-> t, k |-> "assign", v |-> V(v, 8), e |-> e]
Ld(t, v, a) == [tid |-> t, k |-> "load", v |-> V(v, 8), a |-> a]
St(t, a, e) == [tid |-> t, k |-> "store", a |-> a, e |-> e]
Br(t, to) == [tid |-> t, addr |-> "0", k |-> "branch", t |-> to]
CBr(t, to, c) == [tid |-> t, addr |-> "0", k |-> "cbranch", t |-> to, c |-> c]
Ret(t) == [tid |-> t, addr |-> "0", k |-> "return", e |-> Var("RAX")]
Blk(t, defs, jmps) == [tid |-> t, addr |-> "0", defs |-> defs, jmps |-> jmps, ind |-> <<>>]

\* abstract values
Iv(s, e, st) == [w |-> 8, s |-> B8(s), e |-> B8(e), st |-> BvFromNat(st, 8)]
IvC(c) == Iv(c, c, 0)
DTop == [w |-> 8, rel |-> <<>>, abs |-> <<>>, top |-> TRUE]
DTop1 == [w |-> 1, rel |-> <<>>, abs |-> <<>>, top |-> TRUE]
DAbs(iv) == [w |-> 8, rel |-> <<>>, abs |-> <<iv>>, top |-> FALSE]
DRel(id, iv) == [w |-> 8, rel |-> <<[id |-> id, off |-> iv]>>, abs |-> <<>>, top |-> FALSE]
DBoth(id, iv, a) == [w |-> 8, rel |-> <<[id |-> id, off |-> iv]>>, abs |-> <<a>>, top |-> FALSE]

Regs == <<V("RAX", 8), V("RBX", 8), V("RDI", 8), V("SP", 8), V("ZF", 1)>>
Ids == << [id |-> "stack", k |-> "stack", reg |-> "SP", off |-> 0, size |-> 8],
          [id |-> "pRDI", k |-> "reg", reg |-> "RDI", off |-> 0, size |-> 8],
          [id |-> "sp16", k |-> "stackparam", reg |-> "SP", off |-> 16, size |-> 8],
          [id |-> "nested", k |-> "unknown", reg |-> "", off |-> 0, size |-> 0] >>
SP0 == <<0, 0, 0, 0, 16, 0, 0, 0>>
Inits == [i \in 1..4 |-> << [n |-> "RAX", v |-> B8(i - 2)], [n |-> "RBX", v |-> B8(7)],
                            [n |-> "RDI", v |-> <<i, 2, 3, 4, 5, 6, 7, 200>>],
                            [n |-> "SP", v |-> SP0], [n |-> "ZF", v |-> <<i % 2>>] >>]
\* state of a block: values of RAX, RBX, RDI (SP = stack+0, ZF = Top unless stated)
AbsRegs(rax, rbx, rdi) == [has |-> TRUE, regs |-> <<rax, rbx, rdi, DRel("stack", IvC(0)), DTop1>>]
AbsTop == AbsRegs(DTop, DTop, DTop)
NoState == [has |-> FALSE, regs |-> <<>>]
Case(name, blocks, abs, endstate) ==
  [name |-> name, blocks |-> blocks, sp |-> V("SP", 8), physregs |-> Regs, le |-> TRUE, seed |-> 5,
   abs |-> abs, endstate |-> endstate, ids |-> Ids, inits |-> Inits]

\* b0: defs ; goto b1.   b1: return
Two(defs) == << Blk("b0", defs, <<Br("j0", "b1")>>), Blk("b1", <<>>, <<Ret("j1")>>) >>
\* b0: if RAX == RAX goto b1 else b2
Fork == << Blk("b0", <<>>, <<CBr("j0", "b1", Bin("IntEqual", Var("RAX"), Var("RAX"))), Br("j1", "b2")>>),
           Blk("b1", <<>>, <<Ret("j2")>>), Blk("b2", <<>>, <<Ret("j3")>>) >>
\* b0: RAX := 0 ; b1: RAX := RAX + 4 ; if RAX < 16 goto b1 ; b2: return
Loop == << Blk("b0", <<Asg("d0", "RAX", Const(0))>>, <<Br("j0", "b1")>>),
           Blk("b1", <<Asg("d1", "RAX", Bin("IntAdd", Var("RAX"), Const(4)))>>,
                     <<CBr("j1", "b1", Bin("IntSLess", Var("RAX"), Const(16))), Br("j2", "b2")>>),
           Blk("b2", <<>>, <<Ret("j3")>>) >>
SetC == <<Asg("d0", "RAX", Const(5))>>
SetRel == <<Asg("d0", "RBX", Bin("IntSub", Var("SP"), Const(8))), Asg("d1", "RAX", Bin("IntAdd", Var("RDI"), Const(1)))>>
LdParam == <<Ld("d0", "RAX", Bin("IntAdd", Var("SP"), Const(16)))>>
Access(addr) == <<Asg("d0", "RAX", Const(addr)), St("d1", Var("RAX"), Var("RBX"))>>
TT == <<TRUE, TRUE>>

HandCases == <<
  Case("const-ok", Two(SetC), <<AbsTop, AbsRegs(DAbs(IvC(5)), DTop, DRel("pRDI", IvC(0)))>>, TT),              \* 1
  Case("const-bad", Two(SetC), <<AbsTop, AbsRegs(DAbs(IvC(6)), DTop, DTop)>>, TT),                              \* 2 escape RAX
  Case("rel-ok", Two(SetRel), <<AbsTop, AbsRegs(DRel("pRDI", IvC(1)), DRel("stack", IvC(-8)), DTop)>>, TT),     \* 3
  Case("rel-bad", Two(SetRel), <<AbsTop, AbsRegs(DRel("pRDI", IvC(1)), DRel("stack", IvC(-16)), DTop)>>, TT),   \* 4 escape RBX
  Case("nostate-reached", Fork, <<AbsTop, NoState, AbsTop>>, <<TRUE, TRUE, TRUE>>),                             \* 5 nostate
  Case("nostate-unreached", Fork, <<AbsTop, AbsTop, NoState>>, <<TRUE, TRUE, FALSE>>),                          \* 6
  Case("null-halts", Two(Access(8)), <<AbsTop, NoState>>, <<FALSE, FALSE>>),                                    \* 7
  Case("null-claimed-on-stack-access", Two(<<St("d0", Bin("IntSub", Var("SP"), Const(8)), Var("RBX"))>>),
       <<AbsTop, AbsTop>>, <<FALSE, TRUE>>),                                                                    \* 8 nullderef
  Case("stride-ok", Loop, <<AbsTop, AbsRegs(DAbs(Iv(0, 12, 4)), DTop, DTop), AbsRegs(DAbs(IvC(16)), DTop, DTop)>>,
       <<TRUE, TRUE, TRUE>>),                                                                                   \* 9
  Case("stride-bad", Loop, <<AbsTop, AbsRegs(DAbs(Iv(0, 12, 3)), DTop, DTop), AbsTop>>, <<TRUE, TRUE, TRUE>>),  \* 10 escape RAX
  Case("stackparam-ok", Two(LdParam), <<AbsTop, AbsRegs(DRel("sp16", IvC(0)), DTop, DTop)>>, TT),               \* 11
  Case("stackparam-bad", Two(LdParam), <<AbsTop, AbsRegs(DRel("sp16", IvC(1)), DTop, DTop)>>, TT),              \* 12 escape RAX
  Case("unknown-id", Two(SetC), <<AbsTop, AbsRegs(DRel("nested", IvC(0)), DRel("never-listed", IvC(0)), DTop)>>, TT),  \* 13
  Case("window-edge-1024", Two(Access(1024)), <<AbsTop, AbsTop>>, <<FALSE, TRUE>>),                             \* 14 nullderef (completes)
  Case("window-edge-1023", Two(Access(-1023)), <<AbsTop, NoState>>, <<FALSE, FALSE>>),                          \* 15 (halts)
  Case("mixed", Two(SetC), <<AbsTop, AbsRegs(DBoth("pRDI", Iv(-4, 4, 1), Iv(0, 8, 1)), DTop, DTop)>>, TT),      \* 16 (abs part)
  Case("entry-bad", Two(SetC), <<AbsRegs(DTop, DAbs(IvC(8)), DTop), AbsTop>>, TT) >>                            \* 17 escape RBX at entry
Expected == {2, 4, 5, 8, 10, 12, 14, 17}

MInit == Init(HandCases)
MNext == Next(HandCases)
MSound == Sound(HandCases)
MNullDerefHalts == NullDerefHalts(HandCases)

(***************************************************************************)
(* FastInGammaV = InGammaV on a grid                                       *)
(***************************************************************************)
GridNums == {-1024, -20, -16, -5, -1, 0, 1, 3, 4, 5, 12, 16, 100}
GridV == {B8(n) : n \in GridNums} \cup {IvMinBv(8), IvMaxBv(8), SP0, <<1, 2, 3, 4>>, Poison}
GridIv == {Iv(s, e, st) : s \in {-16, -1, 0, 4}, e \in {-1, 0, 4, 16}, st \in {0, 1, 3, 4, 16}}
          \cup {IvTop(8), [w |-> 8, s |-> B8(0), e |-> IvMaxBv(8), st |-> <<0, 0, 0, 0, 1, 0, 0, 0>>],
                [w |-> 8, s |-> IvMinBv(8), e |-> B8(-4), st |-> BvFromNat(12, 8)]}
GridRho == [id \in {"stack", "pRDI", "odd", "none"} |->
              CASE id = "stack" -> SP0 [] id = "pRDI" -> B8(4) [] id = "odd" -> <<1, 2>> [] id = "none" -> <<>>]
GridD == {DAbs(x) : x \in GridIv} \cup {DRel(id, x) : id \in {"pRDI", "odd", "none", "unlisted"}, x \in GridIv}
         \cup {DBoth("pRDI", x, IvC(5)) : x \in GridIv} \cup {DTop, DTop1, [DAbs(IvC(3)) EXCEPT !.top = TRUE]}
ASSUME FastAgrees == \A v \in GridV : \A d \in GridD : FastInGammaV(v, d, GridRho) = InGammaV(v, d, GridRho)
=============================================================================
