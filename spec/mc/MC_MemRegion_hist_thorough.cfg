\* spec -> impl, thorough, flat: transition coverage of the complete state graph over offsets -1..2, sizes 1/2
CONSTANTS
  NegOff = 1
  OffHi = 2
  Sizes = {1, 2}
  Doms = {"flat"}
  NVals = 1
  ShiftMag = {1, 2}
  FreeB = FALSE
  NPart = 12
  Depth = 0
  NWalks = 1
  Seed = 1
INIT HInit
NEXT HNext
VIEW View
ACTION_CONSTRAINT PrintEvery
INVARIANTS NoOverlap NoTopStored
CHECK_DEADLOCK FALSE
