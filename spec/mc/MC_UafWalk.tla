------------------------------ MODULE MC_UafWalk ------------------------------
(***************************************************************************)
(* Mode M for X06: UafWalk.tla evaluated on HAND-WRITTEN programs whose     *)
(* expected warnings were derived by hand from the statement of UafWalk.tla *)
(* (not from the code): use after free, double free, free in the callee     *)
(* then use in the caller, dangling pointer passed to a callee that         *)
(* dereferences it, re-allocation clears, a branch where only one path      *)
(* frees, free inside a loop, allocation inside a loop (class boundary),    *)
(* de-duplication at a join (May # Must), pointers kept in a stack slot     *)
(* under the x86-64 call discipline, a clean program, flagged-in-callee,    *)
(* second parameter of an extern call, callee that does not dereference,    *)
(* flagging at the call kept behind it.  Every scenario                     *)
(* is taken with the configuration {free} and with NO deallocation symbol   *)
(* (then nothing may ever be reported).                                     *)
(* TLC walks over the scenarios (one state each), checks the expectations   *)
(* and PRINTS every scenario as JSON; the plan hands them to the harness,   *)
(* which runs the real checker on them, and T_X06 judges the recorded runs  *)
(* (the field `expect` of such an event must equal the reported set).       *)
(***************************************************************************)
EXTENDS UafWalk, Json, SequencesExt

\* ---- term constructors (encoding of harness/src/irenc.rs) ----
V(n) == [n |-> n, s |-> 8, t |-> FALSE]
ZF == [n |-> "ZF", s |-> 1, t |-> FALSE]
EV(n) == [k |-> "var", v |-> V(n)]
\* constants -32768 .. 32767 as 8-byte little-endian arrays
EC(x) == [k |-> "const", c |-> IF x >= 0 THEN <<x % 256, x \div 256, 0, 0, 0, 0, 0, 0>>
                                ELSE <<(65536 + x) % 256, (65536 + x) \div 256, 255, 255, 255, 255, 255, 255>>]
Plus(n, c) == [k |-> "bin", op |-> "IntAdd", l |-> EV(n), r |-> EC(c)]
Cp(t, a, b) == [tid |-> t, k |-> "assign", v |-> V(a), e |-> EV(b)]           \* a := b
Zero(t, a) == [tid |-> t, k |-> "assign", v |-> V(a), e |-> EC(0)]
Ld(t, a, b, c) == [tid |-> t, k |-> "load", v |-> V(a), a |-> Plus(b, c)]      \* a := load [b + c]
St(t, b, c) == [tid |-> t, k |-> "store", a |-> Plus(b, c), e |-> EC(1)]       \* store [b + c] := 1
Spill(t, c, a) == [tid |-> t, k |-> "store", a |-> Plus("RSP", c), e |-> EV(a)]
Sp(t, c) == [tid |-> t, k |-> "assign", v |-> V("RSP"), e |-> Plus("RSP", c)]
Flag(t) == [tid |-> t, k |-> "assign", v |-> ZF, e |-> [k |-> "unknown", s |-> 1]]
JBr(t, to) == [tid |-> t, addr |-> t, k |-> "branch", t |-> to]
JCb(t, to) == [tid |-> t, addr |-> t, k |-> "cbranch", t |-> to, c |-> [k |-> "var", v |-> ZF]]
JCall(t, to, ret) == [tid |-> t, addr |-> t, k |-> "call", t |-> to, ret |-> ret]
JRet(t) == [tid |-> t, addr |-> t, k |-> "return", e |-> EC(0)]
Blk(t, defs, jmps) == [tid |-> t, addr |-> t, defs |-> defs, jmps |-> jmps, ind |-> <<>>]
Sub(t, blocks) == [tid |-> t, addr |-> t, name |-> t, cconv |-> "", blocks |-> blocks]
RegArg(n) == [k |-> "reg", e |-> EV(n)]
Ext(name, params, rets) ==
  [tid |-> "extern_" \o name, name |-> name, cconv |-> "", params |-> params, rets |-> rets, noret |-> FALSE, varargs |-> FALSE]
StdCc == [name |-> "__stdcall", params |-> <<V("RDI"), V("RSI"), V("RDX"), V("RCX"), V("R8"), V("R9")>>, fparams |-> <<>>,
          rets |-> <<V("RAX"), V("RDX")>>, frets |-> <<>>, saved |-> <<V("RBP"), V("RBX"), V("RSP"), V("R12"), V("R13")>>]
Externs == <<Ext("malloc", <<RegArg("RDI")>>, <<RegArg("RAX")>>), Ext("free", <<RegArg("RDI")>>, <<>>),
             Ext("puts", <<RegArg("RDI")>>, <<RegArg("RAX")>>),
             Ext("memcmp", <<RegArg("RDI"), RegArg("RSI"), RegArg("RDX")>>, <<RegArg("RAX")>>)>>
Regs == <<V("RAX"), V("RBX"), V("RDI"), V("RSI"), V("RDX"), V("RCX"), V("R8"), V("R9"), V("R10"), V("R12"), V("R13"), V("RBP"), V("RSP"), ZF>>
Proj(arch, subs) == [program |-> [subs |-> subs, externs |-> Externs, entry_points |-> <<>>], sp |-> V("RSP"), regs |-> Regs,
                     arch |-> arch, cconvs |-> <<StdCc>>]
W416(t) == <<"CWE416", t>>
W415(t) == <<"CWE415", t>>

\* malloc, keep the pointer in RBX, free it through RDI: the common prefix (no stack discipline: non-x86 architecture)
Prefix == <<Blk("b0", <<>>, <<JCall("c0", "extern_malloc", "b1")>>),
            Blk("b1", <<Cp("d10", "RBX", "RAX"), Cp("d11", "RDI", "RBX")>>, <<JCall("c1", "extern_free", "b2")>>)>>

(***************************************************************************)
(* The scenarios: [name, project, may, must, outclass] for dealloc = {free} *)
(***************************************************************************)
Scenarios == <<
  \* 1. use after free: the first access is reported, the second one is a duplicate of the same object
  [name |-> "use after free",
   project |-> Proj("aarch64", <<Sub("sub_f", Prefix \o <<Blk("b2", <<Ld("d20", "R10", "RBX", 8), St("d21", "RBX", 0)>>, <<JRet("r2")>>)>>)>>),
   may |-> {W416("d20")}, must |-> {W416("d20")}, outclass |-> FALSE],
  \* 2. double free
  [name |-> "double free",
   project |-> Proj("aarch64", <<Sub("sub_f", Prefix \o <<Blk("b2", <<Cp("d20", "RDI", "RBX")>>, <<JCall("c2", "extern_free", "b3")>>),
                                                         Blk("b3", <<>>, <<JRet("r3")>>)>>)>>),
   may |-> {W415("c2")}, must |-> {W415("c2")}, outclass |-> FALSE],
  \* 3. the callee frees its parameter, the caller uses its own copy afterwards
  [name |-> "free in callee, use in caller",
   project |-> Proj("aarch64", <<Sub("sub_f", <<Blk("b0", <<>>, <<JCall("c0", "extern_malloc", "b1")>>),
                                               Blk("b1", <<Cp("d10", "RBX", "RAX"), Cp("d11", "RDI", "RBX")>>, <<JCall("c1", "sub_g", "b2")>>),
                                               Blk("b2", <<Ld("d20", "R10", "RBX", 0)>>, <<JRet("r2")>>)>>),
                                 Sub("sub_g", <<Blk("g0", <<>>, <<JCall("gc0", "extern_free", "g1")>>),
                                               Blk("g1", <<>>, <<JRet("gr1")>>)>>)>>),
   may |-> {W416("d20")}, must |-> {W416("d20")}, outclass |-> FALSE],
  \* 4. a dangling pointer is handed to a callee that dereferences it: reported at the call, nothing inside the callee
  [name |-> "dangling parameter of a dereferencing callee",
   project |-> Proj("aarch64", <<Sub("sub_f", Prefix \o <<Blk("b2", <<Cp("d20", "RDI", "RBX")>>, <<JCall("c2", "sub_g", "b3")>>),
                                                         Blk("b3", <<>>, <<JRet("r3")>>)>>),
                                 Sub("sub_g", <<Blk("g0", <<Ld("gd0", "R10", "RDI", 0)>>, <<JRet("gr0")>>)>>)>>),
   may |-> {W416("c2")}, must |-> {W416("c2")}, outclass |-> FALSE],
  \* 5. a new allocation into the same register: the access goes to the new object
  [name |-> "re-allocation clears",
   project |-> Proj("aarch64", <<Sub("sub_f", Prefix \o <<Blk("b2", <<>>, <<JCall("c2", "extern_malloc", "b3")>>),
                                                         Blk("b3", <<Cp("d30", "RBX", "RAX"), Ld("d31", "R10", "RBX", 0)>>, <<JRet("r3")>>)>>)>>),
   may |-> {}, must |-> {}, outclass |-> FALSE],
  \* 6. only one branch frees: the access behind the join is reported (dangling on one path, flagged on none)
  [name |-> "one path frees",
   project |-> Proj("aarch64", <<Sub("sub_f", <<Blk("b0", <<>>, <<JCall("c0", "extern_malloc", "b1")>>),
                                               Blk("b1", <<Cp("d10", "RBX", "RAX"), Flag("d11")>>, <<JCb("j10", "b3"), JBr("j11", "b2")>>),
                                               Blk("b2", <<Cp("d20", "RDI", "RBX")>>, <<JCall("c2", "extern_free", "b3")>>),
                                               Blk("b3", <<Ld("d30", "R10", "RBX", 0)>>, <<JRet("r3")>>)>>)>>),
   may |-> {W416("d30")}, must |-> {W416("d30")}, outclass |-> FALSE],
  \* 7. the allocation site is passed again while its object exists: the id is not unique -> class boundary
  [name |-> "allocation in a loop",
   project |-> Proj("aarch64", <<Sub("sub_f", Prefix \o <<Blk("b2", <<Ld("d20", "R10", "RBX", 0), Flag("d21")>>, <<JCb("j20", "b0"), JBr("j21", "b3")>>),
                                                         Blk("b3", <<>>, <<JRet("r3")>>)>>)>>),
   may |-> {}, must |-> {}, outclass |-> TRUE],
  \* 8. access and free in a loop behind one allocation: the access of the second round is reported; the free of the
  \*    second round is no double free, because the access before it has flagged the object on every path
  [name |-> "free in a loop",
   project |-> Proj("aarch64", <<Sub("sub_f", <<Blk("b0", <<>>, <<JCall("c0", "extern_malloc", "b1")>>),
                                               Blk("b1", <<Cp("d10", "RBX", "RAX")>>, <<JBr("j10", "b2")>>),
                                               Blk("b2", <<Ld("d20", "R10", "RBX", 0), Cp("d21", "RDI", "RBX")>>, <<JCall("c2", "extern_free", "b3")>>),
                                               Blk("b3", <<Flag("d30")>>, <<JCb("j30", "b2"), JBr("j31", "b4")>>),
                                               Blk("b4", <<>>, <<JRet("r4")>>)>>)>>),
   may |-> {W416("d20")}, must |-> {W416("d20")}, outclass |-> FALSE],
  \* 9. de-duplication at a join: behind the join the object is flagged on one path and dangling on the other; whether
  \*    the second access is reported depends on the order of the fixpoint iteration (May, not Must)
  [name |-> "flagged on one path only",
   project |-> Proj("aarch64", <<Sub("sub_f", Prefix \o <<Blk("b2", <<Flag("d20")>>, <<JCb("j20", "b4"), JBr("j21", "b3")>>),
                                                         Blk("b3", <<Ld("d30", "R10", "RBX", 0)>>, <<JBr("j30", "b4")>>),
                                                         Blk("b4", <<Ld("d40", "R10", "RBX", 0)>>, <<JRet("r4")>>)>>)>>),
   may |-> {W416("d30"), W416("d40")}, must |-> {W416("d30")}, outclass |-> FALSE],
  \* 10. x86-64: the pointer lives in a stack slot; every call is prepared by RSP := RSP - 8 and pops the return address
  [name |-> "stack slot, x86-64 call discipline",
   project |-> Proj("x86_64", <<Sub("sub_f", <<Blk("b0", <<Sp("d00", -8)>>, <<JCall("c0", "extern_malloc", "b1")>>),
                                              Blk("b1", <<Spill("d10", -16, "RAX"), Ld("d11", "RDI", "RSP", -16), Sp("d12", -8)>>, <<JCall("c1", "extern_free", "b2")>>),
                                              Blk("b2", <<Ld("d20", "RAX", "RSP", -16), Ld("d21", "R10", "RAX", 0), Sp("d22", 8)>>, <<JRet("r2")>>)>>)>>),
   may |-> {W416("d21")}, must |-> {W416("d21")}, outclass |-> FALSE],
  \* 11. nothing is used or freed after the free
  [name |-> "clean",
   project |-> Proj("aarch64", <<Sub("sub_f", <<Blk("b0", <<>>, <<JCall("c0", "extern_malloc", "b1")>>),
                                               Blk("b1", <<Cp("d10", "RBX", "RAX"), St("d11", "RBX", 8), Cp("d12", "RDI", "RBX")>>, <<JCall("c1", "extern_free", "b2")>>),
                                               Blk("b2", <<Zero("d20", "RBX")>>, <<JRet("r2")>>)>>)>>),
   may |-> {}, must |-> {}, outclass |-> FALSE],
  \* 12. the callee uses the pointer after freeing it: reported inside the callee; "flagged in the callee" is not handed
  \*     to the caller, whose later access is a duplicate
  [name |-> "freed and flagged in the callee",
   project |-> Proj("aarch64", <<Sub("sub_f", <<Blk("b0", <<>>, <<JCall("c0", "extern_malloc", "b1")>>),
                                               Blk("b1", <<Cp("d10", "RBX", "RAX"), Cp("d11", "RDI", "RBX")>>, <<JCall("c1", "sub_g", "b2")>>),
                                               Blk("b2", <<Ld("d20", "R10", "RBX", 0)>>, <<JRet("r2")>>)>>),
                                 Sub("sub_g", <<Blk("g0", <<Cp("gd0", "RBX", "RDI")>>, <<JCall("gc0", "extern_free", "g1")>>),
                                               Blk("g1", <<Ld("gd1", "R10", "RBX", 0)>>, <<JRet("gr1")>>)>>)>>),
   may |-> {W416("gd1")}, must |-> {W416("gd1")}, outclass |-> FALSE],
  \* 13. every parameter of an extern call is checked: the first one points to a live object, the second one dangles
  [name |-> "second parameter dangles",
   project |-> Proj("aarch64", <<Sub("sub_f", <<Blk("b0", <<>>, <<JCall("c0", "extern_malloc", "b1")>>),
                                               Blk("b1", <<Cp("d10", "RBX", "RAX")>>, <<JCall("c1", "extern_malloc", "b2")>>),
                                               Blk("b2", <<Cp("d20", "R12", "RAX"), Cp("d21", "RDI", "RBX")>>, <<JCall("c2", "extern_free", "b3")>>),
                                               Blk("b3", <<Cp("d30", "RDI", "R12"), Cp("d31", "RSI", "RBX")>>, <<JCall("c3", "extern_memcmp", "b4")>>),
                                               Blk("b4", <<>>, <<JRet("r4")>>)>>)>>),
   may |-> {W416("c3")}, must |-> {W416("c3")}, outclass |-> FALSE],
  \* 14. a dangling pointer handed to a callee that only copies it: no access, nothing reported
  [name |-> "dangling parameter of a callee that does not dereference it",
   project |-> Proj("aarch64", <<Sub("sub_f", Prefix \o <<Blk("b2", <<Cp("d20", "RDI", "RBX")>>, <<JCall("c2", "sub_g", "b3")>>),
                                                         Blk("b3", <<>>, <<JRet("r3")>>)>>),
                                 Sub("sub_g", <<Blk("g0", <<Cp("gd0", "RAX", "RDI")>>, <<JRet("gr0")>>)>>)>>),
   may |-> {}, must |-> {}, outclass |-> FALSE],
  \* 15. the warning at the call flags the object: the caller's access behind the call is a duplicate
  [name |-> "flagged at the call, used behind it",
   project |-> Proj("aarch64", <<Sub("sub_f", Prefix \o <<Blk("b2", <<Cp("d20", "RDI", "RBX")>>, <<JCall("c2", "sub_g", "b3")>>),
                                                         Blk("b3", <<Ld("d30", "R10", "RBX", 0)>>, <<JRet("r3")>>)>>),
                                 Sub("sub_g", <<Blk("g0", <<Ld("gd0", "R10", "RDI", 0)>>, <<JRet("gr0")>>)>>)>>),
   may |-> {W416("c2")}, must |-> {W416("c2")}, outclass |-> FALSE]
>>

Configs == <<{"free"}, {}>>
VARIABLES s, c
vars == <<s, c>>
Init == s = 1 /\ c = 1
Next == \/ c = 1 /\ c' = 2 /\ s' = s
        \/ c = 2 /\ s < Len(Scenarios) /\ c' = 1 /\ s' = s + 1
Spec == Init /\ [][Next]_vars

Sc == Scenarios[s]
Expect(field) == IF c = 1 THEN Sc[field] ELSE {}
\* the scenario as the harness reads it (and the expectation T_X06 compares the real checker's report with, where May = Must)
AsJson == ToJson([name |-> Sc.name, project |-> Sc.project,
                  config |-> [dealloc |-> IF c = 1 THEN <<"free">> ELSE <<>>, full_path |-> TRUE],
                  exact |-> ~(c = 1 /\ Sc.outclass) /\ Expect("may") = Expect("must"),
                  expect |-> SetToSeq({[name |-> w[1], tid |-> w[2]] : w \in Expect("must")})])
A == Analyse(Sc.project, Configs[c])
InClass == InClassSyntax(Sc.project)
HandDerived ==
  /\ PrintT(AsJson)
  /\ InClass
  /\ IF c = 1 /\ Sc.outclass THEN A.bad # {}
     ELSE A.bad = {} /\ A.may = Expect("may") /\ A.must = Expect("must")
\* some intermediate facts of scenario 3 (callee frees): the signature of g, the points-to set at the access,
\* the state of the parameter at g's return
Intermediate ==
  (s = 3 /\ c = 1) =>
     /\ ParamsOf(A.sig["sub_g"]) = {"RDI"} /\ DerefOf(A.sig["sub_g"]) = {"RDI"}
     /\ A.at["d20"] = {Obj("c0")}
     /\ A.uaf[EndNode("g1", "sub_g")].may[Par("RDI")] = {"D"}
     /\ A.uaf[Node("BlkStart", "b2", "sub_f", NoTid, NoTid)].may[Obj("c0")] = {"D"}
=============================================================================
