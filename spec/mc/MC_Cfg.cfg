CONSTANT Layouts <- LayoutsQuick
INIT Init
NEXT Next
INVARIANT Sane
CHECK_DEADLOCK FALSE
