\* problems of MC_Fixpoint.cfg (quick instance: 2 nodes): all with at most one edge, a sample of 8
\* transfer assignments per partial problem with 2 or 3 edges
CONSTANTS
  NN = 2
  MaxE = 3
  StartVals = {0, 1, 3}
  Defaults = {0, 1}
  FamIdx = {1, 2, 3, 4, 5, 6}
  Bounds <- BoundsInf1
  FullUpTo = 1
  SampleT = 8
INIT DInit
NEXT DNext
CHECK_DEADLOCK FALSE
