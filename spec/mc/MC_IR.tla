------------------------------ MODULE MC_IR ------------------------------
(* Self-check of the IR reference semantics (IR.tla): memory laws on all    *)
(* 1-byte/2-byte cases around a page boundary, expression evaluation        *)
(* against BVInt on all 1-byte operand pairs, poison discipline, call havoc *)
(* conventions and the observation sequence of a hand-written block.        *)
EXTENDS IR, BVInt, TLC
VARIABLES a, b
Init == a \in U8 /\ b = 0
InitQ == a \in {0, 1, 2, 3, 5, 8, 16, 31, 64, 100, 127, 128, 129, 200, 254, 255} /\ b = 0   \* quick tier
Next == b < 255 /\ b' = b + 1 /\ a' = a

V(n, s) == [n |-> n, s |-> s, t |-> FALSE]
T(n, s) == [n |-> n, s |-> s, t |-> TRUE]
Var(n, s) == [k |-> "var", v |-> V(n, s)]
Tmp(n, s) == [k |-> "var", v |-> T(n, s)]
Const(c) == [k |-> "const", c |-> c]
Bin(op, l, r) == [k |-> "bin", op |-> op, l |-> l, r |-> r]
Un(op, x) == [k |-> "un", op |-> op, a |-> x]
Cast(op, s, x) == [k |-> "cast", op |-> op, s |-> s, a |-> x]
Sub(low, s, x) == [k |-> "sub", low |-> low, s |-> s, a |-> x]

EnvLE == [seed |-> 7, le |-> TRUE, sp |-> V("SP", 4),
          physregs |-> <<V("R1", 4), V("SP", 4), V("ZF", 1), V("R2", 1)>>]
EnvBE == [EnvLE EXCEPT !.le = FALSE]
Regs == [x \in {"X", "Y", "SP", "R1"} |->
           CASE x = "X" -> <<a>> [] x = "Y" -> <<b>> [] x = "SP" -> <<0, 16, 0, 0>> [] x = "R1" -> <<a, b, 1, 2>>]
St0 == [regs |-> Regs, mem |-> EmptyFcn, obs |-> <<>>, n |-> 0, pc |-> [k |-> "blk", t |-> "b0"]]

\* addresses a + 256*k near the wrap-around of the low byte
Addr == <<a, 255, 255, 255>>

MemLaws == \A env \in {EnvLE, EnvBE} :
  LET m1 == StoreBytes(EmptyFcn, Addr, <<b, a>>, env)
      m2 == StoreBytes(m1, AddrPlus(Addr, 1), <<7>>, env)
  IN /\ LoadBytes(m1, Addr, 2, env) = <<b, a>>                                    \* read after write
     /\ LoadBytes(m1, Addr, 1, env) = (IF env.le THEN <<b>> ELSE <<a>>)           \* endianness
     /\ LoadBytes(EmptyFcn, Addr, 1, env) = <<InitMem(Addr, env.seed)>>           \* background
     /\ LoadBytes(m1, AddrPlus(Addr, 2), 1, env) = <<InitMem(AddrPlus(Addr, 2), env.seed)>>
     /\ LoadBytes(m2, Addr, 2, env) = (IF env.le THEN <<b, 7>> ELSE <<7, a>>)     \* overlapping store
     /\ AddrPlus(AddrPlus(Addr, 5), -5) = Addr
     /\ InitMem(Addr, 7) \in 0..255
     /\ HavocByte(7, a, b, 3) \in 0..255

\* EvalExpr agrees with the integer transcription on every 1-byte binary operation
AsBv(r, w) == IF r = IUnknown THEN BvUnknown ELSE BvFromNat(r, w)
ExprAgree == \A op \in IAllBinOps \ {"IntDiv", "IntSDiv", "IntRem", "IntSRem"} :
   EvalExpr(Bin(op, Var("X", 1), Var("Y", 1)), Regs) = AsBv(IBinOp(op, a, b), BinResultSize(op, 1, 1))
DivTotal == \A op \in {"IntDiv", "IntSDiv", "IntRem", "IntSRem"} :
   LET r == EvalExpr(Bin(op, Var("X", 1), Var("Y", 1)), Regs)
   IN IF b = 0 THEN r = (IF op \in {"IntDiv", "IntSDiv"} THEN <<255>> ELSE <<a>>)
      ELSE r = AsBv(IBinOp(op, a, b), 1)

\* the linear-time operators of IR.tla agree with BV.tla on 2- and 3-byte vectors
WideOps == EqualWidthOps \ {"IntDiv", "IntSDiv", "IntRem", "IntSRem"}
WideAgree ==
  LET x2 == <<a, b>>  y2 == <<b, (a * 7 + 3) % 256>>
      x3 == <<a, b, 255 - a>>  y3 == <<b, a, (b * 5 + 1) % 256>>
  IN /\ \A op \in WideOps : IrBinOp(op, x2, y2) = BvBinOp(op, x2, y2) /\ IrBinOp(op, x3, y3) = BvBinOp(op, x3, y3)
     /\ \A op \in WideOps : IrBinOp(op, x2, x2) = BvBinOp(op, x2, x2)
     /\ IrUnOp("Int2Comp", x3) = BvNeg(x3)
     /\ (a + b > 0 => /\ FUDivRem(y2, x2) = BvUDivRem(y2, x2)
                      /\ \A op \in {"IntDiv", "IntSDiv", "IntRem", "IntSRem"} : IrBinOp(op, y2, x2) = BvBinOp(op, y2, x2))
     /\ AddrSeq(<<a, b, 255>>, 3) = <<AddrPlus(<<a, b, 255>>, 0), AddrPlus(<<a, b, 255>>, 1), AddrPlus(<<a, b, 255>>, 2)>>
     /\ AddrPlus(<<a, b, 255>>, 2) = BvAdd(<<a, b, 255>>, <<2, 0, 0>>)
     /\ AddrPlus(<<a, b, 0>>, -3) = BvSub(<<a, b, 0>>, <<3, 0, 0>>)

\* the invalid rewrite of DESIGN.md section 7 really is invalid in this semantics, the valid one is valid
RewriteSanity ==
  LET d == Bin("IntSub", Var("X", 1), Var("Y", 1))
      eq0 == EvalExpr(Bin("IntEqual", d, Const(<<0>>)), Regs)
      eq1 == EvalExpr(Bin("IntEqual", d, Const(<<1>>)), Regs)
      ne == EvalExpr(Bin("IntNotEqual", Var("X", 1), Var("Y", 1)), Regs)
      eq == EvalExpr(Bin("IntEqual", Var("X", 1), Var("Y", 1)), Regs)
  IN /\ eq0 = eq
     /\ ((a - b) % 256 = 2 => eq1 # ne)

PoisonLaws ==
  /\ EvalExpr(Tmp("$U1", 1), Regs) = Poison                                   \* unassigned temporary
  /\ EvalExpr(Bin("IntAdd", Var("X", 1), Tmp("$U1", 1)), Regs) = Poison        \* propagates
  /\ EvalExpr(Var("X", 2), Regs) = Poison                                      \* wrong size
  /\ EvalExpr(Bin("IntAdd", Var("X", 1), Var("R1", 4)), Regs) = Poison         \* ill-sized operation
  /\ EvalExpr(Sub(3, 2, Var("R1", 4)), Regs) = Poison
  /\ EvalExpr(Sub(1, 2, Var("R1", 4)), Regs) = <<b, 1>>
  /\ EvalExpr(Cast("IntSExt", 2, Var("X", 1)), Regs) = <<a, IF a >= 128 THEN 255 ELSE 0>>
  /\ EvalExpr([k |-> "unknown", s |-> 4], Regs) = Poison
  /\ EvalExpr(Bin("Piece", Var("X", 1), Var("Y", 1)), Regs) = <<b, a>>
  /\ EvalExpr(Un("BoolNegate", Const(<<a % 2>>)), Regs) = <<1 - (a % 2)>>

\* a hand-written block:  $U1 := X + Y ; [SP-4] := R1 ; R1 := [SP-4] ; ZF := $U1 == 0 ; call f -> b1
Blk0 == [tid |-> "b0", addr |-> "1000", ind |-> <<>>,
  defs |-> << [tid |-> "d1", k |-> "assign", v |-> T("$U1", 1), e |-> Bin("IntAdd", Var("X", 1), Var("Y", 1))],
              [tid |-> "d2", k |-> "store", a |-> Bin("IntSub", Var("SP", 4), Const(<<4, 0, 0, 0>>)), e |-> Var("R1", 4)],
              [tid |-> "d3", k |-> "load", v |-> V("R1", 4), a |-> Bin("IntAdd", Var("SP", 4), Const(<<252, 255, 255, 255>>))],
              [tid |-> "d4", k |-> "assign", v |-> V("ZF", 1), e |-> Bin("IntEqual", Tmp("$U1", 1), Const(<<0>>))] >>,
  jmps |-> << [tid |-> "j1", addr |-> "1008", k |-> "call", t |-> "f", ret |-> "b1"] >>]
BlockRun ==
  LET s == RunBlock(Blk0, St0, EnvLE, <<Blk0>>)
      zf == IF (a + b) % 256 = 0 THEN <<1>> ELSE <<0>>
      slot == <<252, 15, 0, 0>>
  IN /\ s.n = 3 /\ Len(s.obs) = 3
     /\ s.obs[1] = Obs("write", slot, 4, <<a, b, 1, 2>>, "", NoRegs, NoMem)
     /\ s.obs[2] = Obs("read", slot, 4, <<a, b, 1, 2>>, "", NoRegs, NoMem)
     /\ s.obs[3].k = "call" /\ s.obs[3].t = "f"
     /\ s.obs[3].regs = << <<a, b, 1, 2>>, <<0, 16, 0, 0>>, zf, Poison >>     \* R2 never assigned
     /\ DOMAIN s.obs[3].mem = {AddrPlus(slot, i) : i \in 0..3}
     /\ s.pc = [k |-> "blk", t |-> "b1"]
     \* havoc conventions: SP kept, flags boolean, temporaries and non-registers unassigned
     /\ s.regs["SP"] = <<0, 16, 0, 0>>
     /\ DOMAIN s.regs = {"R1", "SP", "ZF", "R2"}
     /\ s.regs["ZF"] \in {<<0>>, <<1>>} /\ s.regs["R2"] \in {<<0>>, <<1>>}
     /\ Len(s.regs["R1"]) = 4
     /\ DOMAIN s.mem = {AddrPlus(<<0, 16, 0, 0>>, i) : i \in (0 - 8)..7}
     \* control: unknown block = dead end; return ends the run
     /\ StepBlock(<<Blk0>>, s, EnvLE).pc = [k |-> "end", t |-> "deadend"]
     /\ StepBlock(<<Blk0>>, s, EnvLE).obs[4].k = "deadend"

\* conditional / indirect control flow
BlkC == [tid |-> "c0", addr |-> "2000", ind |-> <<"c1">>, defs |-> <<>>,
  jmps |-> << [tid |-> "j1", addr |-> "2000", k |-> "cbranch", t |-> "c1", c |-> Bin("IntLess", Var("X", 1), Var("Y", 1))],
              [tid |-> "j2", addr |-> "2000", k |-> "branchind", e |-> Var("R1", 4)] >>]
BlkT == [tid |-> "c1", addr |-> "2010", abv |-> <<a, b, 1, 2>>, ind |-> <<>>, defs |-> <<>>,
  jmps |-> << [tid |-> "j3", addr |-> "2010", k |-> "return", e |-> Var("R1", 4)] >>]
BlkU == [BlkT EXCEPT !.tid = "c2"]
Control ==
  LET st == [St0 EXCEPT !.pc.t = "c0"]
      s == StepBlock(<<BlkC, BlkT>>, st, EnvLE)
      u == StepBlock(<<BlkC, BlkU>>, st, EnvLE)
      p == StepBlock(<<BlkC>>, [st EXCEPT !.regs = Del(@, "X")], EnvLE)
  IN /\ s.pc = [k |-> "blk", t |-> "c1"]
     /\ (a < b => s.n = 0)                                                    \* conditional branch taken
     /\ (a >= b => s.n = 1 /\ s.obs[1].k = "indjmp" /\ s.obs[1].a = <<a, b, 1, 2>>)
     /\ (a >= b => u.pc = [k |-> "end", t |-> "indjmp"])                     \* c2 is not a known target
     /\ p.pc = [k |-> "end", t |-> "stuck"] /\ p.obs[1].k = "stuck"           \* branch on an unassigned variable
     /\ StepBlock(<<BlkC, BlkT>>, s, EnvLE).pc = [k |-> "end", t |-> "return"]
=============================================================================
