CONSTANT N = 3
INIT Init
NEXT Next
INVARIANT Agree
CHECK_DEADLOCK FALSE
