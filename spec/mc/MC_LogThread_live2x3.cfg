SPECIFICATION Spec
CONSTANTS
  Senders <- Senders2
  Script <- Script2
PROPERTIES CollectorTerminates CollectReturns DropReturns
CHECK_DEADLOCK FALSE
