INIT Init
NEXT Next
INVARIANT BinAgree UnAgree BoolNegAgree CastAgree Wide
CHECK_DEADLOCK FALSE
