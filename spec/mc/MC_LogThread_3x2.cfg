SPECIFICATION SafetySpec
CONSTANTS
  Senders <- Senders3
  Script <- Script3
INVARIANTS TypeOK Delivered GeneralOrder LastWins FoldRefinement OneTerminate OracleAgree
PROPERTIES Refines AbsInit
CHECK_DEADLOCK FALSE
