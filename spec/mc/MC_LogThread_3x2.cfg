SPECIFICATION SafetySpec
CONSTANTS
  Senders <- Senders3
  Script <- Script3
INVARIANTS TypeOK Delivered GeneralOrder LastWins FoldRefinement OneTerminate
PROPERTIES Refines AbsInit OracleAgree
CHECK_DEADLOCK FALSE
