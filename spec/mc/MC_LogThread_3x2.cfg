SPECIFICATION Spec
CONSTANTS
  Senders <- Senders3
  Script <- Script3
INVARIANTS TypeOK Delivered GeneralOrder LastWins FoldRefinement OneTerminate OracleAgree
PROPERTIES Refines AbsInit CollectorTerminates CollectReturns DropReturns
CHECK_DEADLOCK FALSE
