---------------------------- MODULE MC_Fixpoint ----------------------------
(***************************************************************************)
(* Bounded model-checking instance of Fixpoint.tla (mode M of C07).        *)
(*                                                                         *)
(* The fixpoint problem itself is part of the explored space: the initial  *)
(* states choose the edge set (any set of at most MaxE of the NN*NN        *)
(* possible edges, self-loops included), the start values, the default     *)
(* value and the step bound; the first step (MCSetup) chooses one transfer *)
(* function per edge from a small monotone family.  From there TLC         *)
(* explores EVERY schedule of the machine: Pop of any worklist node,       *)
(* UpdateEdge of any pending out-edge (with both admitted readings of the  *)
(* source value), so every priority order and every out-edge order is      *)
(* covered.                                                                *)
(*                                                                         *)
(* Lattice: the subsets of {1,2} ordered by inclusion, join = union,       *)
(* encoded 1 = {}, 2 = {1}, 3 = {2}, 4 = {1,2}  (0 = None).                *)
(* Node symmetry: start values are chosen non-increasing in the node       *)
(* number; every problem is isomorphic to one of that form because the     *)
(* edge set ranges over ALL subsets.                                       *)
(***************************************************************************)
EXTENDS Fixpoint, TLC

CONSTANTS NN,         \* number of nodes
          MaxE,       \* maximal number of edges
          StartVals,  \* admissible start values (0 = none)
          Defaults,   \* admissible default values (0 = none)
          Bounds,     \* admissible step bounds (-1 = Inf)
          FamIdx      \* which members of the transfer family (below) an edge may get

\* (TLC configuration files cannot write negative numbers: the .cfg files substitute these)
BoundsInf12 == {Inf, 1, 2}
BoundsInf1  == {Inf, 1}

Dec(k) == CASE k = 1 -> {} [] k = 2 -> {1} [] k = 3 -> {2} [] k = 4 -> {1, 2}
Enc(S) == CHOOSE k \in 1..4 : Dec(k) = S
JoinTab == [a \in 1..4 |-> [b \in 1..4 |-> Enc(Dec(a) \cup Dec(b))]]

(* The transfer family (as functions on sets, then tabulated):             *)
(*   1 identity            2 add 1              3 drop 1                   *)
(*   4 guard: None unless 1 \in x               5 always None (blocked)    *)
(*   6 non-distributive: x if {1,2} \subseteq x, else x \ {2}              *)
FamFn(i, x) ==
  CASE i = 1 -> Enc(x)
    [] i = 2 -> Enc(x \cup {1})
    [] i = 3 -> Enc(x \ {1})
    [] i = 4 -> IF 1 \in x THEN Enc(x) ELSE None
    [] i = 5 -> None
    [] i = 6 -> IF {1, 2} \subseteq x THEN Enc(x) ELSE Enc(x \ {2})
Fam == [i \in 1..6 |-> [k \in 1..4 |-> FamFn(i, Dec(k))]]

\* self-checks of this instance's own ingredients
ASSUME \A i \in 1..6 : MonotoneTable([join |-> JoinTab], Fam[i])
ASSUME Join([join |-> JoinTab], Fam[6][2], Fam[6][3]) # Fam[6][Join([join |-> JoinTab], 2, 3)]   \* 6 is not distributive

\* edge number p in 1..NN*NN  <->  <<src, dst>>
PairOf(p) == <<((p - 1) \div NN) + 1, ((p - 1) % NN) + 1>>
RECURSIVE SortedSeq(_)
SortedSeq(S) == IF S = {} THEN <<>>
                ELSE LET m == CHOOSE m \in S : \A x \in S : m <= x IN <<m>> \o SortedSeq(S \ {m})
EdgeSeq(S) == LET s == SortedSeq(S) IN [i \in 1..Len(s) |-> PairOf(s[i])]
EdgeSets == {S \in SUBSET (1..NN * NN) : Cardinality(S) <= MaxE}
\* hand-picked cyclic graphs on 3 nodes for the liveness instance (MC_Fixpoint_cyc3.cfg substitutes
\* them for EdgeSets): the 3-cycle, a 2-cycle feeding a self-loop, the 3-cycle with a chord
CyclicEdgeSets3 == {{2, 6, 7}, {2, 4, 6, 9}, {2, 4, 6, 7}, {1, 2, 6, 7}}
StartTuples == {st \in [1..NN -> StartVals] : \A i \in 1..NN - 1 : st[i] >= st[i + 1]}

Partial(S, st, d, b) ==
  [n |-> NN, edges |-> EdgeSeq(S), join |-> JoinTab, tr |-> <<>>, start |-> st, default |-> d, maxsteps |-> b]

MCInit ==
  /\ phase = "pick"
  /\ cfg \in {Partial(S, st, d, b) : S \in EdgeSets, st \in StartTuples, d \in Defaults, b \in Bounds}
  /\ lfp = <<>> /\ val = <<>> /\ wl = {} /\ steps = <<>> /\ cur = NoCur /\ unstable = {}

\* choose the transfer of every edge; the machine is then in its initial state for that problem
MCSetup ==
  /\ phase = "pick"
  /\ \E t \in [1..Len(cfg.edges) -> FamIdx] :
       Reset([cfg EXCEPT !.tr = [e \in 1..Len(cfg.edges) |-> Fam[t[e]]]])

\* (Next of Fixpoint.tla, spelled out so that TLC's coverage reports every action separately;
\*  constant quantifier bounds for the same reason; all actions of Fixpoint are disabled in phase "pick")
MCCore == \/ MCSetup
          \/ Start
          \/ \E v \in 1..NN : PopVisit(v)
          \/ \E v \in 1..NN : PopDefer(v)
          \/ \E e \in 1..MaxE, x \in 1..4 : UpdateEdgeWith(e, x)   \* = \E e \in Edges(cfg) : UpdateEdge(e)
          \/ FinishNode
          \/ Finish
MCNext == MCCore \/ \E v \in 1..NN : Requeue(v)
MCSpec == MCInit /\ [][MCNext]_vars
\* liveness: the solver's own steps under weak fairness, no needless re-queues (they could go on forever)
FairSpec == MCInit /\ [][MCCore]_vars /\ WF_vars(MCCore)

Chosen == phase # "pick"
\* the explored problems are inside the class of C07, and the Kleene LFP is the least solution
\* in the sense of the property statement (checked once per problem, in its "ready" state)
ConfigInClass == phase = "ready" => InClass(cfg)
LfpIsLeast    == phase = "ready" => IsLeastSolution(cfg, lfp)

MCTypeOK            == Chosen => TypeOK
MCStepBound         == Chosen => StepBound
MCBelowLFP          == Chosen => BelowLFP
MCAboveStart        == Chosen => AboveStart
MCWorklistInv       == Chosen => WorklistInv
MCResult            == Chosen => Result
MCHonestStabilized  == Chosen => HonestStabilized
MCStabilizedIsLeast == Chosen => StabilizedIsLeast
=============================================================================
