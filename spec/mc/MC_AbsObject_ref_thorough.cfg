\* thorough: reference machine, 2 objects x offsets 0..2 x sizes 1/2, 2 values + pointer value + Top, all histories of <= 3 operations
CONSTANTS
  NObj = 2
  OffHi = 2
  Sizes = {1, 2}
  NVals = 2
  Depth = 3
  PtrVal = TRUE
  TopVal = TRUE
  Variants = FALSE
  TwoLists = FALSE
  Presets = FALSE
INIT MCInit
NEXT MCNext
INVARIANTS Sound ListsInv RefAccepted ReadSound InitReachable Count
POSTCONDITION PostCount
CHECK_DEADLOCK FALSE
