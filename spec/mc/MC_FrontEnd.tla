---------------------------- MODULE MC_FrontEnd ----------------------------
(* Self-check of the front-end monitor (FrontEndMonitor.tla / PcodeFn.tla), *)
(* mode M: hand-written P-Code functions over a miniature architecture      *)
(* (2-byte pointers, register A with the sub-registers AL / AH) with        *)
(* hand-written IR counterparts, 4 initial states each.  Pairs that ARE     *)
(* equivalent under the statement must never be reported - among them the   *)
(* alignment decisions of the module header: reads in another order or      *)
(* twice (A4), a different NUMBER of reads in front of a call (A1: same     *)
(* havoc stream), a callee that never returns against the artificial sink   *)
(* (A5), an entry block that is not the first one (F1), an indirect jump    *)
(* that continues at a hint (A7).  Every planted defect must be reported    *)
(* as BAD, every behaviour outside the input class as OUTCLASS and not as   *)
(* BAD.  The driver compares the reported sets with ExpectedBad /           *)
(* ExpectedOutclass (lib/checks/x08.py).  Invariants: the refinement        *)
(* self-checks IStepOK (IStepR without renumbering is IR!StepBlock) and     *)
(* PStepOK (PcodeFn!StepBlock refines Pcode!RunBlock).                      *)
EXTENDS FrontEndMonitor

\* ---- P-Code terms
N == [k |-> "none", n |-> "", s |-> 0, c |-> <<>>, a |-> <<>>]
Reg(n, s) == [k |-> "reg", n |-> n, s |-> s, c |-> <<>>, a |-> <<>>]
Uniq(n, s) == [k |-> "uniq", n |-> n, s |-> s, c |-> <<>>, a |-> <<>>]
Cst(c) == [k |-> "const", n |-> "", s |-> Len(c), c |-> c, a |-> <<>>]
Ram(lo, hi, s) == [k |-> "ram", n |-> "", s |-> s, c |-> <<>>, a |-> <<lo, hi, 0, 0, 0, 0, 0, 0>>]
Op(m, out, i0, i1, i2) == [tid |-> "op", m |-> m, out |-> out, in0 |-> i0, in1 |-> i1, in2 |-> i2]
PJ(m, t, v, ret, c, hints) == [tid |-> "pj", m |-> m, t |-> t, v |-> v, ret |-> ret, c |-> c, hints |-> hints]
PBranch(t) == PJ("BRANCH", t, N, "", N, <<>>)
PCBranch(t, c) == PJ("CBRANCH", t, N, "", c, <<>>)
PCall(f, r) == PJ("CALL", f, N, r, N, <<>>)
PRet(v) == PJ("RETURN", "", v, "", N, <<>>)
PInd(v, hints) == PJ("BRANCHIND", "", v, "", N, hints)
PBlk(t, abv, defs, jmps) == [tid |-> t, abv |-> abv, defs |-> defs, jmps |-> jmps]
PFn(blocks) == [tid |-> "f", abv |-> <<0, 16>>, blocks |-> blocks]

\* ---- IR terms
V(n, s) == [n |-> n, s |-> s, t |-> FALSE]
T(n, s) == [n |-> n, s |-> s, t |-> TRUE]
Var(n, s) == [k |-> "var", v |-> V(n, s)]
Tmp(n, s) == [k |-> "var", v |-> T(n, s)]
Const(c) == [k |-> "const", c |-> c]
Bin(o, l, r) == [k |-> "bin", op |-> o, l |-> l, r |-> r]
Un(o, a) == [k |-> "un", op |-> o, a |-> a]
Sub(low, s, a) == [k |-> "sub", low |-> low, s |-> s, a |-> a]
Asg(v, e) == [tid |-> "d", k |-> "assign", v |-> v, e |-> e]
Ld(v, a) == [tid |-> "d", k |-> "load", v |-> v, a |-> a]
St(a, e) == [tid |-> "d", k |-> "store", a |-> a, e |-> e]
Br(to) == [tid |-> "j", addr |-> "0", k |-> "branch", t |-> to]
CBr(to, c) == [tid |-> "j", addr |-> "0", k |-> "cbranch", t |-> to, c |-> c]
BrInd(e) == [tid |-> "j", addr |-> "0", k |-> "branchind", e |-> e]
Ret(e) == [tid |-> "j", addr |-> "0", k |-> "return", e |-> e]
Call(f, r) == [tid |-> "j", addr |-> "0", k |-> "call", t |-> f, ret |-> r]
Blk(t, abv, defs, jmps, ind) == [tid |-> t, addr |-> "0", abv |-> abv, defs |-> defs, jmps |-> jmps, ind |-> ind]
Fn(blocks) == [tid |-> "f", blocks |-> blocks]

\* ---- the architecture
R(reg, base, lsb, size) == [reg |-> reg, base |-> base, lsb |-> lsb, size |-> size]
Table == << R("A", "A", 0, 2), R("AL", "A", 0, 1), R("AH", "A", 1, 1), R("B", "B", 0, 2), R("SP", "SP", 0, 2),
            R("PC", "PC", 0, 2), R("ZF", "ZF", 0, 1) >>
Phys == << V("A", 2), V("B", 2), V("SP", 2), V("PC", 2), V("ZF", 1) >>
A0 == <<0, 16>>     \* block addresses
A1 == <<16, 16>>
A2 == <<32, 16>>
InitA == << <<5, 0>>, <<5, 1>>, A2, <<255, 0>> >>
Inits == [i \in 1..4 |-> [x \in {"A", "B", "SP", "PC", "ZF"} |->
            CASE x = "A" -> InitA[i] [] x = "B" -> <<i, 7>> [] x = "SP" -> <<0, 240>> [] x = "PC" -> <<9, 9>> [] x = "ZF" -> <<i % 2>>]]
Case(name, pfn, irfn, panic) ==
  [name |-> name, regtable |-> Table, ptr |-> 2, le |-> TRUE, seed |-> 11, sp |-> V("SP", 2), physregs |-> Phys,
   noret |-> <<"exit">>, pfn |-> pfn, irfn |-> irfn, panic |-> panic, inits |-> Inits]

A == Var("A", 2)
B == Var("B", 2)
SP == Var("SP", 2)
AHx == Sub(1, 1, A)
ALx == Sub(0, 1, A)

\* ---- the reference function:
\*   b0: AL = AL + 1 ; ZF = (AH == 0) ; if ZF goto b1 else b2
\*   b1: SP = SP - 2 ; [SP] = 0x1020 ; call g, return to b2
\*   b2: B = ram[0x2000] + ram[0x2002] ; $U1 = B + A ; [SP] = $U1 ; PC = [SP] ; return PC
P0(callee) == PBlk("b0", A0, << Op("INT_ADD", Reg("AL", 1), Reg("AL", 1), Cst(<<1>>), N),
                                Op("INT_EQUAL", Reg("ZF", 1), Reg("AH", 1), Cst(<<0>>), N) >>,
                       << PCBranch("b1", Reg("ZF", 1)), PBranch("b2") >>)
P1(callee) == PBlk("b1", A1, << Op("INT_SUB", Reg("SP", 2), Reg("SP", 2), Cst(<<2, 0>>), N),
                                Op("STORE", N, Cst(<<1>>), Reg("SP", 2), Cst(A2)) >>,
                       << PCall(callee, "b2") >>)
P2 == PBlk("b2", A2, << Op("INT_ADD", Reg("B", 2), Ram(0, 32, 2), Ram(2, 32, 2), N),
                        Op("INT_ADD", Uniq("$U1", 2), Reg("B", 2), Reg("A", 2), N),
                        Op("STORE", N, Cst(<<1>>), Reg("SP", 2), Uniq("$U1", 2)),
                        Op("LOAD", Reg("PC", 2), Cst(<<1>>), Reg("SP", 2), N) >>,
                     << PRet(Reg("PC", 2)) >>)
PRef(callee) == PFn(<< P0(callee), P1(callee), P2 >>)
PRefShuffled == PFn(<< P2, P1("g"), P0("g") >>)                       \* F1: the entry block is the last one

\* ---- its translation (what the lifter + optimiser make of it)
I0(piece) == Blk("b0", A0, << Asg(V("A", 2), piece), Asg(V("ZF", 1), Bin("IntEqual", AHx, Const(<<0>>))) >>,
                 << CBr("b1", Var("ZF", 1)), Br("b2") >>, <<>>)
PieceOK == Bin("Piece", AHx, Bin("IntAdd", ALx, Const(<<1>>)))
PieceSwapped == Bin("Piece", Bin("IntAdd", ALx, Const(<<1>>)), AHx)
I1(callee, ret, withstore) ==
  Blk("b1", A1, << Asg(V("SP", 2), Bin("IntSub", SP, Const(<<2, 0>>))) >> \o (IF withstore THEN << St(SP, Const(A2)) >> ELSE <<>>),
      << Call(callee, ret) >>, <<>>)
L0 == Ld(T("$load_temp0", 2), Const(<<0, 32>>))
L1 == Ld(T("$load_temp1", 2), Const(<<2, 32>>))
LX == Ld(T("$load_temp2", 2), Const(<<4, 32>>))
Sum == Asg(V("B", 2), Bin("IntAdd", Tmp("$load_temp0", 2), Tmp("$load_temp1", 2)))
TailDefs == << St(SP, Bin("IntAdd", B, A)), Ld(V("PC", 2), SP) >>
I2(loads) == Blk("b2", A2, loads \o << Sum >> \o TailDefs, << Ret(Var("PC", 2)) >>, <<>>)
\* the load of PC from [SP] moved in front of the store to [SP]
I2Late == Blk("b2", A2, << L0, L1, Sum, Ld(V("PC", 2), SP), St(SP, Bin("IntAdd", B, A)) >>, << Ret(Var("PC", 2)) >>, <<>>)
Sink == Blk("sink", <<255, 255>>, <<>>, <<>>, <<>>)
IRef(callee, loads) == Fn(<< I0(PieceOK), I1(callee, "b2", TRUE), I2(loads) >>)

\* ---- A1: the P-Code block reads ram[0x2000] twice in front of a call, the IR loads it once
PDup == PFn(<< PBlk("b0", A0, << Op("INT_ADD", Reg("B", 2), Ram(0, 32, 2), Ram(0, 32, 2), N) >>, << PCall("g", "b2") >>), P2 >>)
IDup == Fn(<< Blk("b0", A0, << L0, Asg(V("B", 2), Bin("IntAdd", Tmp("$load_temp0", 2), Tmp("$load_temp0", 2))) >>, << Call("g", "b2") >>, <<>>),
              I2(<<L0, L1>>) >>)

\* ---- A1/A4: indirect call through an implicit RAM operand (a read of the jump itself on the P-Code side, a Load Def on the IR side)
PCallRam == PFn(<< PBlk("b0", A0, <<>>, << PJ("CALLIND", "", Ram(0, 32, 2), "b2", N, <<>>) >>), P2 >>)
ICallRam == Fn(<< Blk("b0", A0, << L0 >>, << [tid |-> "j", addr |-> "0", k |-> "callind", e |-> Tmp("$load_temp0", 2), ret |-> "b2"] >>, <<>>), I2(<<L0, L1>>) >>)

\* ---- A7: indirect jump through A with the hint b2 (initial state 3: A = address of b2)
PIndF == PFn(<< PBlk("b0", A0, <<>>, << PInd(Reg("A", 2), <<A2, <<1, 1>>>>) >>), P2 >>)
IIndF(ind) == Fn(<< Blk("b0", A0, <<>>, << BrInd(A) >>, ind), I2(<<L0, L1>>) >>)

\* ---- input class
PNotBool == PFn(<< PBlk("b0", A0, << Op("BOOL_NEGATE", Reg("ZF", 1), Reg("AL", 1), N, N) >>, << PBranch("b2") >>), P2 >>)
INotBool == Fn(<< Blk("b0", A0, << Asg(V("ZF", 1), Un("BoolNegate", ALx)) >>, << Br("b2") >>, <<>>), I2(<<L0>>) >>)      \* (wrong as well)
Mask(c) == Op("INT_AND", Reg("SP", 2), Reg("SP", 2), Cst(c), N)
PMask(ops) == PFn(<< PBlk("b0", A0, << Op("INT_SUB", Reg("SP", 2), Reg("SP", 2), Cst(<<2, 0>>), N) >> \o ops, << PBranch("b2") >>), P2 >>)
IMask(e) == Fn(<< Blk("b0", A0, << Asg(V("SP", 2), e) >>, << Br("b2") >>, <<>>), I2(<<L0, L1>>) >>)
\* SP - 2 is 14 above the next multiple of 16 below it (entry SP aligned): SP := (SP - 2) & -16 = SP - 16
SpOK == Bin("IntSub", SP, Const(<<16, 0>>))
SpBad == Bin("IntSub", SP, Const(<<2, 0>>))

HandCases == <<
  Case("same", PRef("g"), IRef("g", <<L0, L1>>), ""),                                                      \*  1 equivalent
  Case("reads-swapped", PRef("g"), IRef("g", <<L1, L0>>), ""),                                             \*  2 equivalent (A4)
  Case("read-twice", PRef("g"), IRef("g", <<L0, L1, L0>>), ""),                                            \*  3 equivalent (A4)
  Case("extra-read", PRef("g"), IRef("g", <<L0, L1, LX>>), ""),                                            \*  4 DIFFERENT
  Case("read-behind-write", PRef("g"), Fn(<< I0(PieceOK), I1("g", "b2", TRUE), I2Late >>), ""),           \*  5 DIFFERENT
  Case("piece-swapped", PRef("g"), Fn(<< I0(PieceSwapped), I1("g", "b2", TRUE), I2(<<L0, L1>>) >>), ""), \*  6 DIFFERENT
  Case("store-missing", PRef("g"), Fn(<< I0(PieceOK), I1("g", "b2", FALSE), I2(<<L0, L1>>) >>), ""),     \*  7 DIFFERENT
  Case("noret-sink", PRef("exit"), Fn(<< I0(PieceOK), I1("exit", "sink", TRUE), I2(<<L0, L1>>), Sink >>), ""),   \*  8 equivalent (A5)
  Case("noret-continues", PRef("exit"), IRef("exit", <<L0, L1>>), ""),                                     \*  9 DIFFERENT
  Case("entry-last", PRefShuffled, IRef("g", <<L0, L1>>), ""),                                             \* 10 equivalent (F1)
  Case("reads-before-call", PDup, IDup, ""),                                                               \* 11 equivalent (A1)
  Case("indjmp-hint", PIndF, IIndF(<<"b2">>), ""),                                                         \* 12 equivalent (A7)
  Case("indjmp-hint-lost", PIndF, IIndF(<<>>), ""),                                                        \* 13 DIFFERENT (initial state 3)
  Case("not-boolean", PNotBool, INotBool, ""),                                                             \* 14 outside the class (dynamic)
  Case("mask", PMask(<< Mask(<<240, 255>>) >>), IMask(SpOK), ""),                                          \* 15 equivalent (C3)
  Case("mask-wrong", PMask(<< Mask(<<240, 255>>) >>), IMask(SpBad), ""),                                   \* 16 DIFFERENT
  Case("two-masks", PMask(<< Mask(<<240, 255>>), Mask(<<224, 255>>) >>), IMask(SpBad), ""),                \* 17 outside the class (static)
  Case("no-alignment-mask", PMask(<< Mask(<<15, 0>>) >>), IMask(SpBad), ""),                               \* 18 outside the class (static)
  Case("panic", PRef("g"), Fn(<<>>), "panic in normalize_optimize: boom"),                                 \* 19 DIFFERENT (panic)
  Case("callind-ram", PCallRam, ICallRam, "") >>                                                           \* 20 equivalent (A1, A4)
ExpectedBad == {4, 5, 6, 7, 9, 13, 16, 19}
ExpectedOutclass == {14, 17, 18}

MInit == Init(HandCases)
MNext == NextR(HandCases)
ObsAgree == ObsAgreeOf(HandCases[cs], pm, im)
IStepOK == IStepIsStepBlock(HandCases[cs])
PStepOK == PStepRefinesBlock(HandCases[cs])
=============================================================================
