\* spec -> impl, quick, flagged: transition coverage of the complete state graph over the single offset 0, sizes 1/2 (value semantics of the flagged domain)
CONSTANTS
  NegOff = 0
  OffHi = 0
  Sizes = {1, 2}
  Doms = {"flagged"}
  NVals = 1
  ShiftMag = {1}
  FreeB = FALSE
  NPart = 3
  Depth = 0
  NWalks = 1
  Seed = 1
INIT HInit
NEXT HNext
VIEW View
ACTION_CONSTRAINT PrintEvery
INVARIANTS NoOverlap NoTopStored
CHECK_DEADLOCK FALSE
