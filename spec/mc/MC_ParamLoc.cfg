SPECIFICATION MCSpec
CONSTANTS
  MaxLen = 4
  NIs = {0, 1, 2, 3, 4, 5, 6}
  NFs = {0, 1, 2, 3, 4, 5, 6, 7, 8}
  Ks = {0, 1, 2, 3}
  ModelIds = {1, 2, 3, 4}
  Emitting = TRUE
INVARIANT InClass ClosedFormAgrees StackIndependent NoSharing InBounds InOrder Counters
CHECK_DEADLOCK FALSE
