-------------------------- MODULE MC_LogThreadLive --------------------------
(* Liveness of LogThread.tla under weak fairness of the collector thread and *)
(* of the owner (senders need none): after collect() was called or the       *)
(* LogThread was dropped the collector terminates and the owner's call       *)
(* returns - whatever the senders do, including sends racing with the        *)
(* request and sends behind Terminate.                                       *)
(*   MC_LogThreadLive_21.cfg   2 senders, 2 + 1 messages (quick tier)        *)
(*   MC_LogThreadLive_2x3.cfg  2 senders x 3 messages    (thorough tier)     *)
EXTENDS LogThread
M(id, kind, txt, addrs) == [id |-> id, kind |-> kind, txt |-> txt, addrs |-> addrs]
Senders2 == {1, 2}
Script21 == <<
  << M(1, "cwe", 1, <<1>>),    M(2, "log", 2, <<>>) >>,
  << M(4, "cwe", 4, <<1, 2>>) >> >>
Script2x3 == <<
  << M(1, "cwe", 1, <<1>>),    M(2, "log", 2, <<>>),   M(3, "cwe", 3, <<1, 2>>) >>,
  << M(4, "cwe", 4, <<2, 1>>), M(5, "alog", 5, <<1>>), M(6, "log", 2, <<>>) >> >>
=============================================================================
