-------------------------- MODULE MC_ExprRewrite --------------------------
(* Bounded instance for X02 (mode M): validates the specification side      *)
(* independently of the code.  TLC enumerates ALL 1-byte values a, b of the *)
(* variables x, y (flags p = a mod 2, q = b mod 2) and checks               *)
(*   IdentitiesHold    every pair of ExprRewrite!Identities - the algebraic *)
(*                     facts the rules of trivial_operation_substitution.rs *)
(*                     rely on - evaluates to the same value under          *)
(*                     IR!EvalExpr, constants c1 = b, c2 from a boundary    *)
(*                     set and a-dependent; both sides are in the input     *)
(*                     class, of equal size, the right side introduces no   *)
(*                     variable;                                            *)
(*   NearMissesRefuted every pair of NonIdentities is distinguished by some *)
(*                     valuation (evaluated once, in the state a = b = 0,   *)
(*                     over all 65536 valuations): the oracle can tell an   *)
(*                     unsound rule from a sound one;                       *)
(*   PredicatesBind    the predicates of the statement accept hand-written  *)
(*                     sound rewrites and reject hand-written unsound ones  *)
(*                     (wrong value, wrong size, new variable), and the     *)
(*                     syntactic functions agree with hand-computed values; *)
(*   IdentitiesInClass both sides of every identity are in the statement's  *)
(*                     input class, equal size, no new variable;            *)
(*   AdmissibleLaws    admissibility (boolean operands are 0/1).            *)
EXTENDS ExprRewrite, TLC
VARIABLES a, b
Init == a \in 0..255 /\ b = 0
InitQ == a \in {0, 1, 2, 127, 128, 255} /\ b = 0      \* quick tier
Next == b < 255 /\ b' = b + 1 /\ a' = a

\* (:> and @@, not a function constructor: TLC would re-evaluate the constructor on every variable read)
AllVal(x, y) == "x" :> <<x>> @@ "y" :> <<y>> @@ "p" :> <<x % 2>> @@ "q" :> <<y % 2>>
Val == AllVal(a, b)
C2Set == {0, 1, 128, 255, (a * 7 + 3) % 256}

IdentitiesHold ==
  /\ \A p \in Id2 : PairHolds(p, Val)
  /\ (b = 0 => \A p \in Id1 : PairHolds(p, Val))          \* one variable: x (and p = x mod 2)
  /\ \A c2 \in C2Set : \A p \in IdArith(b, c2) : PairHolds(p, Val)
\* the pairs are inside the statement's input class (state independent: evaluated in one state per constant c1 = b)
IdentitiesInClass ==
  /\ (a = 2 /\ b = 1) => \A p \in IdFixed : PairInClass(p)
  /\ (a = 2) => \A c2 \in C2Set : \A p \in IdArith(b, c2) : PairInClass(p)

NearMissesRefuted ==
  (a = 0 /\ b = 1) =>
     \A p \in NonIdentities : /\ InClass(p.l) /\ InClass(p.r) /\ SizeOf(p.l) = SizeOf(p.r)
                              /\ \E x \in 0..255 : \E y \in 0..255 : PairDiffers(p, AllVal(x, y))

\* hand-written rewrites: e, r, what the statement must say about them on ALL 1-byte valuations
d == XBin("IntSub", X, Y)
Good == { Pair(XBin("IntEqual", XBin("IntSub", X, P), Zero), XBin("IntEqual", X, P)),
          Pair(XBin("IntXOr", X, X), Zero),
          Pair(XBin("BoolXOr", P, One), XUn("BoolNegate", P)),
          Pair(XSub(0, 1, XCast("IntZExt", 8, X)), X),
          Pair(XBin("IntAdd", X, P), XBin("IntAdd", X, P)) }
GoodSlow == Pair(XBin("IntEqual", d, Zero), XBin("IntEqual", X, Y))       \* two byte variables: 65536 valuations
BadValue == { Pair(XBin("IntEqual", d, One), XBin("IntNotEqual", X, Y)),
              Pair(XBin("BoolOr", P, One), P),
              Pair(XUn("BoolNegate", XBin("IntLess", X, One)), XBin("IntLessEqual", X, One)) }
PredicatesBind ==
  (a = 1 /\ b = 1) =>
    /\ \A p \in Good : WellSizedSame(p.l, p.r) /\ VarsSubset(p.r, p.l) /\ EquivalentAll1(p.l, p.r)
    /\ \A p \in BadValue : WellSizedSame(p.l, p.r) /\ VarsSubset(p.r, p.l) /\ ~EquivalentAll1(p.l, p.r)
    /\ ~WellSizedSame(XBin("IntXOr", W4, W4), Zero)                                   \* size changed
    /\ ~WellSizedSame(X, XBin("IntAdd", X, XCast("IntZExt", 2, Y)))                   \* ill-sized result
    /\ ~WellSizedSame(X, [k |-> "unknown", s |-> 1])
    /\ ~VarsSubset(XBin("IntAnd", X, Y), XBin("IntAnd", X, X))                        \* new variable
    /\ ~InClass(XBin("IntAdd", XVar("x", 1), XSub(0, 1, XVar("x", 2))))               \* one name, two sizes
    /\ ~InClass(XBin("BoolAnd", XBin("Piece", X, Y), XBin("Piece", X, Y)))            \* boolean connective on 2 bytes
    /\ ~InClass(XBin("FloatAdd", X, Y))
    /\ SizeOf(W4) = 4 /\ Depth(W4) = 3 /\ Depth(X) = 0 /\ Vars(W4) = {X.v, Y.v}
    /\ SizeOf(XBin("IntLess", W4, W4)) = 1 /\ Depth(XSub(0, 1, XCast("IntSExt", 8, W4))) = 5
    /\ BoolNames(XBin("BoolAnd", P, XUn("BoolNegate", XBin("IntAnd", Q, X)))) = {"p"}
    /\ BoolNames(XUn("BoolNegate", Q)) = {"q"}
    \* substitution and builder predicates
    /\ ForAllVals1(LAMBDA v : SubstValue(XBin("IntSub", X, P), X.v, XBin("IntAdd", X, One), XBin("IntSub", XBin("IntAdd", X, One), P), v), {"x", "p"}, {})
    /\ ~ForAllVals1(LAMBDA v : SubstValue(XBin("IntSub", X, P), X.v, XBin("IntAdd", X, One), XBin("IntSub", X, P), v), {"x", "p"}, {})
    /\ SubstSyntax(XBin("IntSub", X, Y), X.v, XBin("IntAdd", X, One), XBin("IntSub", XBin("IntAdd", X, One), Y))
    /\ ~SubstSyntax(XBin("IntSub", X, X), X.v, Y, XBin("IntSub", Y, X))               \* an occurrence was left
    /\ ForAllVals1(LAMBDA v : PlusConstValue(X, <<255, 255, 255, 255, 255, 255, 255, 255>>, XBin("IntAdd", X, Ones), v), {"x"}, {})
    /\ ForAllVals1(LAMBDA v : PlusConstValue(X, <<0, 1, 0, 0, 0, 0, 0, 0>>, XBin("IntAdd", X, Zero), v), {"x"}, {})          \* 256 truncates to 0
    /\ ~ForAllVals1(LAMBDA v : PlusConstValue(X, <<1, 0, 0, 0, 0, 0, 0, 0>>, XBin("IntAdd", X, Ones), v), {"x"}, {})
    /\ ForAllVals1(LAMBDA v : PlusValue(X, P, XBin("IntAdd", X, P), v), {"x", "p"}, {})
    /\ ~ForAllVals1(LAMBDA v : PlusValue(X, P, XBin("IntSub", X, P), v), {"x", "p"}, {})

\* all 65536 valuations of two byte variables (thorough instance only: a = 3 is not an initial value of the quick one)
PredicatesBind2 == (a = 3 /\ b = 1) => EquivalentAll1(GoodSlow.l, GoodSlow.r)

AdmissibleLaws ==
  /\ Admissible(XBin("BoolAnd", P, Q), Val)
  /\ Admissible(XBin("BoolAnd", X, Q), Val) = (a <= 1)
  /\ Admissible(XUn("BoolNegate", XBin("IntAdd", P, Q)), Val) = ((a % 2) + (b % 2) <= 1)
  /\ Admissible(XBin("IntAnd", X, Y), Val)
  /\ SameValue(XBin("BoolAnd", X, One), X, Val)                 \* differs only on inadmissible valuations
  /\ (a <= 1 => EvalExpr(XBin("BoolAnd", X, One), Val) = <<a>>)
=============================================================================
