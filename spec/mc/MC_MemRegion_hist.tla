-------------------------- MODULE MC_MemRegion_hist --------------------------
(***************************************************************************)
(* spec -> impl: TLC GENERATES operation histories of the MemRegion        *)
(* machine; the harness replays them on the real MemRegion<T> and the      *)
(* recording of the replay is validated by trace/T_C05 like any trace.     *)
(*                                                                         *)
(* The instance of MC_MemRegion is extended by the history variable `hist` *)
(* (sequence of operation records, field names of MemRegionWire.tla).      *)
(*  - breadth-first mode (cfg MC_MemRegion_hist*.cfg): `hist` is hidden    *)
(*    from the fingerprint by VIEW, so TLC visits every reachable STATE    *)
(*    once (along a shortest history) but evaluates the action constraint  *)
(*    PrintEvery on EVERY TRANSITION: one history per (reachable state,    *)
(*    enabled operation) pair, i.e. transition coverage of the instance's  *)
(*    complete state graph, is printed and replayed on the real code.      *)
(*  - random-walk mode (cfg MC_MemRegion_walk.cfg): NWalks independent      *)
(*    pseudo-random histories of Depth operations per domain; operation    *)
(*    kind (weighted) and arguments are drawn inside the specification by  *)
(*    a small linear congruential generator over the variable `rnd`        *)
(*    seeded by the constant Seed (the driver writes VERIF_SEED into the   *)
(*    configuration), so the histories are a function of the seed.         *)
(*    PrintAtDepth prints each walk once.  (`-simulate` was measured 50x   *)
(*    slower - it evaluates every enabled operation at every step although *)
(*    it follows one - and TLC's RandomElement ignores -seed here.)        *)
(* A printed line is  <<"H", dom, "<JSON array of operation records>">>.   *)
(***************************************************************************)
EXTENDS MC_MemRegion, MemRegionWire, Json
CONSTANTS Depth, NWalks, Seed
VARIABLES hist, walk, rnd

RECURSIVE SetToSeq(_)
SetToSeq(T) == IF T = {} THEN <<>> ELSE LET m == CHOOSE x \in T : \A y \in T : x <= y IN <<m>> \o SetToSeq(T \ {m})

Op1(ev, r)              == [ev |-> ev, r |-> r]
OpAdd(r, o, v)          == [ev |-> "add", r |-> r, off |-> o, val |-> VW(v), via |-> IF o % 2 = 0 THEN "add" ELSE "index"]
OpRemove(r, o, n)       == [ev |-> "remove", r |-> r, off |-> o, n |-> n]
OpWTop(r, o, s)         == [ev |-> "wtop", r |-> r, off |-> o, s |-> s]
OpMTop(r, a, b, s)      == [ev |-> "mtop", r |-> r, a |-> a, b |-> b, s |-> s]
OpShift(r, k)           == [ev |-> "shift", r |-> r, k |-> k]
Op2(ev, d, s)           == [ev |-> ev, dst |-> d, src |-> s]
OpSetVals(r, S, w)      == [ev |-> "setvals", r |-> r, offs |-> SetToSeq(S), val |-> VW(w)]

\* the enabled operation records in the current state (same alphabet as MC_MemRegion)
Alphabet ==
  {OpAdd(r, o, v) : r \in Movable, o \in Off, v \in GenVals(dom)}
  \cup {OpRemove(r, o, n) : r \in Movable, o \in Off, n \in Sizes}
  \cup {OpWTop(r, o, s) : r \in Movable, o \in Off, s \in Sizes}
  \cup {OpMTop(r, a, b, s) : r \in Movable, a \in Off, b \in Off, s \in Sizes}
  \cup {Op1("alltop", r) : r \in Movable} \cup {Op1("newtop", r) : r \in Movable} \cup {Op1("cleartop", r) : r \in Movable}
  \cup {OpShift(r, k) : r \in Movable, k \in Shifts \cup {0}}
  \cup {Op2("merge", d, s) : d \in Movable, s \in Regions}
  \cup {Op2("copy", d, Other(d)) : d \in Movable}
  \cup UNION {{OpSetVals(r, S, w) : S \in {T \in SUBSET (DOMAIN cells[r]) : Cardinality(T) \in 1..2},
                                   w \in {v \in GenVals(dom) : v.s = CHOOSE s \in Sizes : TRUE}} : r \in Movable}

Guard(e) ==
  /\ e.ev = "shift" => \A p \in DOMAIN cells[e.r] : p + e.k \in Off     \* stay inside the window
  /\ e.ev = "mtop" => e.a <= e.b

HInit ==
  /\ walk \in 1..NWalks
  /\ dom \in Doms
  /\ rnd = (Seed * 7919 + walk * 1031 + (IF dom = "flat" THEN 0 ELSE 17)) % 65537
  /\ IF FreeB THEN cells = [r \in Regions |-> EmptyRegion] /\ hist = <<>>
     ELSE \E a \in PartnerAdds(dom) :
            /\ cells = [r \in Regions |-> IF r = "A" THEN EmptyRegion ELSE Seq2Region(dom, a)]
            /\ hist = [i \in DOMAIN a |-> OpAdd("B", a[i][1], a[i][2])]

HNext == \E e \in Alphabet : Guard(e) /\ Apply(e) /\ hist' = Append(hist, e) /\ UNCHANGED <<walk, rnd>>

\* ---- pseudo-random walk
Lcg(x) == (x * 75 + 74) % 65537
RECURSIVE LcgN(_, _)
LcgN(x, i) == IF i = 0 THEN x ELSE LcgN(Lcg(x), i - 1)
Draw(k) == LcgN(rnd, k)          \* k-th draw of this step
Pick(q, d) == q[(d % Len(q)) + 1]
Kinds == <<"add", "add", "add", "add", "add", "add", "add", "remove", "wtop", "wtop", "mtop", "mtop",
           "shift", "merge", "merge", "merge", "copy", "setvals", "setvals", "alltop", "cleartop", "newtop">>
SizeSeq == SetToSeq(Sizes)
ValSeq(D, s) ==
  IF D = "flat" THEN <<FlatVal(s, 1), FlatVal(s, 2), FlatVal(s, 1), FlatVal(s, BVTOP)>>
  ELSE <<FlagVal(s, 1, NoRel, FALSE), FlagVal(s, 2, NoRel, FALSE), FlagVal(s, ABSENT, [NoRel EXCEPT ![1] = 1], FALSE),
         FlagVal(s, 1, NoRel, TRUE), FlagVal(s, ABSENT, NoRel, FALSE), FlagVal(s, 1, [NoRel EXCEPT ![2] = 2], FALSE),
         TopOf(D, s)>>
RandOp ==
  LET k == Pick(Kinds, Draw(1))
      r == IF Draw(2) % 2 = 0 THEN "A" ELSE "B"
      o == OffLo + (Draw(3) % (OffHi - OffLo + 1))
      sz == Pick(SizeSeq, Draw(4))
      v == Pick(ValSeq(dom, sz), Draw(5))
      o2 == o + (Draw(6) % 4)
      sh == Pick(SetToSeq(Shifts \cup {0}), Draw(6))
      keys == SetToSeq(DOMAIN cells[r])
  IN CASE k = "add"     -> OpAdd(r, o, v)
       [] k = "remove"  -> OpRemove(r, o, sz)
       [] k = "wtop"    -> IF keys # <<>> /\ Draw(6) % 2 = 0                  \* hit a stored cell exactly
                             THEN LET p == Pick(keys, Draw(3)) IN OpWTop(r, p, cells[r][p].s)
                             ELSE OpWTop(r, o, sz)
       [] k = "mtop"    -> OpMTop(r, o, o2, sz)
       [] k = "shift"   -> IF \A p \in DOMAIN cells[r] : p + sh \in Off THEN OpShift(r, sh) ELSE OpShift(r, 0)
       [] k = "merge"   -> Op2("merge", r, IF Draw(6) % 8 = 0 THEN r ELSE Other(r))
       [] k = "copy"    -> Op2("copy", r, Other(r))
       [] k = "setvals" -> OpSetVals(r, IF keys = <<>> THEN {} ELSE {Pick(keys, Draw(3)), Pick(keys, Draw(6))}, Pick(ValSeq(dom, 1), Draw(5)))
       [] OTHER         -> Op1(k, r)
HNextWalk ==
  /\ Len(hist) < Depth
  /\ LET e == RandOp IN Apply(e) /\ hist' = Append(hist, e)
  /\ rnd' = Draw(7)
  /\ UNCHANGED walk

View == <<dom, cells>>
PrintEvery   == PrintT(<<"H", dom, ToJson(hist')>>)
PrintAtDepth == Len(hist') < Depth \/ PrintT(<<"H", dom, ToJson(hist')>>)
=============================================================================
