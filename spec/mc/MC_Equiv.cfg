CONSTANTS
  Fuel = 40
INIT MInit
NEXT MNext
CHECK_DEADLOCK FALSE
