SPECIFICATION Spec
CONSTANTS
  Senders <- Senders2
  Script <- ScriptL
PROPERTIES CollectorTerminates CollectReturns DropReturns
CHECK_DEADLOCK FALSE
