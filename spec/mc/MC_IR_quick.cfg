INIT InitQ
NEXT Next
INVARIANT MemLaws ExprAgree DivTotal WideAgree RewriteSanity PoisonLaws BlockRun Control
CHECK_DEADLOCK FALSE
