--------------------------- MODULE MC_Callgraph ---------------------------
(***************************************************************************)
(* Self-check of Callgraph.tla (mode M): for EVERY call graph on N         *)
(* functions (all 2^(N*N) edge sets incl. self-calls and cycles; the call  *)
(* 1 -> 2 is doubled to have parallel calls; every function additionally   *)
(* has an extern call and an indirect call that must not count) the        *)
(* fixpoint definition OnPath agrees with the definition by explicit       *)
(* enumeration of walks: a call is on a path from s to t iff some node     *)
(* sequence s = n0, n1, ..., nk = t (k <= 2N-1) follows call edges and     *)
(* contains the call's edge.                                               *)
(***************************************************************************)
EXTENDS Callgraph, TLC
CONSTANT N
F == 1..N
VARIABLES g, done        \* the edge set, a subset of F \X F; chosen in two steps (parallel search)
FName(i) == <<"f1", "f2", "f3", "f4">>[i]
CallTid(u, v, n) == <<"c11", "c12", "c13", "c14", "c21", "c22", "c23", "c24", "c31", "c32", "c33", "c34",
                      "c41", "c42", "c43", "c44">>[(u - 1) * 4 + v] \o (IF n = 1 THEN "" ELSE "'")
J(tid, k, t, ret) == [tid |-> tid, k |-> k, t |-> t, ret |-> ret]
B(tid, jmps) == [tid |-> tid, defs |-> <<>>, jmps |-> jmps, ind |-> <<>>]
\* function u: one block per possible callee v (a call if <<u,v>> \in E, else a dead end), a
\* second call block for 1 -> 2, an extern call and an indirect call
Blocks(E, u) ==
  [v \in F |-> B(FName(u) \o "_b" \o FName(v),
                 IF <<u, v>> \in E THEN <<J(CallTid(u, v, 1), "call", FName(v), "")>> ELSE <<>>)]
  \o (IF u = 1 /\ <<1, 2>> \in E THEN <<B("f1_dup", <<J(CallTid(1, 2, 2), "call", FName(2), "")>>)>> ELSE <<>>)
  \o <<B(FName(u) \o "_x", <<J(FName(u) \o "_cx", "call", "ext", FName(u) \o "_i")>>),
       B(FName(u) \o "_i", <<J(FName(u) \o "_ci", "callind", "", "")>>)>>
Prog(E) == [subs |-> [u \in F |-> [tid |-> FName(u), blocks |-> Blocks(E, u)]],
            externs |-> <<[tid |-> "ext", noret |-> FALSE]>>]

\* node sequences of length 2 .. 2N (walks with 1 .. 2N-1 edges)
Seqs == UNION {[1..k -> F] : k \in 2..(2 * N)}
IsWalk(E, w) == \A i \in 1..(Len(w) - 1) : <<w[i], w[i + 1]>> \in E
EdgesOn(w) == {<<w[i], w[i + 1]>> : i \in 1..(Len(w) - 1)}
\* W = all walks of the graph (computed once per graph)
WalkEdges(W, s, t) == UNION {EdgesOn(w) : w \in {x \in W : x[1] = s /\ x[Len(x)] = t}}
TidsOf(pairs) == {CallTid(p[1], p[2], 1) : p \in pairs} \cup (IF <<1, 2>> \in pairs THEN {CallTid(1, 2, 2)} ELSE {})

Init == g \in SUBSET ({1} \X F) /\ done = FALSE
Next == /\ ~done
        /\ \E h \in SUBSET ((F \ {1}) \X F) : g' = g \cup h
        /\ done' = TRUE
Agree == done => LET P == Prog(g)
                     W == {x \in Seqs : IsWalk(g, x)}
                 IN  /\ UniqueTids(P)
                     /\ \A s \in F : \A t \in F : OnPath(P, FName(s), FName(t)) = TidsOf(WalkEdges(W, s, t))
=============================================================================
