SPECIFICATION SSpec
CONSTANT CountsSet <- Quick
CONSTRAINT Emit
CHECK_DEADLOCK FALSE
