SPECIFICATION MCSpec
CONSTANTS
  MaxLen = 4
  Alphabet <- AlphaA
  Emitting = TRUE
INVARIANT Grammar FoldsAgree ScanAgrees
CHECK_DEADLOCK FALSE
