\* quick: TWO objects (pointers with two targets), offsets 0..1, size 1, one absolute value + one pointer value; from every pair of presets one operation; variants judged
CONSTANTS
  NObj = 2
  OffHi = 1
  Sizes = {1}
  NVals = 1
  Depth = 1
  PtrVal = TRUE
  TopVal = FALSE
  Variants = TRUE
  TwoLists = FALSE
  Presets = TRUE
INIT MCInit
NEXT MCNext
INVARIANTS Sound ListsInv RefAccepted ReadSound InitReachable Count
POSTCONDITION PostCount
CHECK_DEADLOCK FALSE
