------------------------------ MODULE MC_BV ------------------------------
(* Self-check of the oracle: BV.tla (limb arithmetic on byte sequences)   *)
(* against BVInt.tla (plain integers) on ALL 1-byte operand pairs and all *)
(* operations; plus algebraic identities of BV at 2 bytes.                *)
EXTENDS BV, BVInt, TLC
VARIABLES a, b
Init == a \in U8 /\ b = 0
Next == b < 255 /\ b' = b + 1 /\ a' = a
AsBv(r, w) == IF r = IUnknown THEN BvUnknown ELSE BvFromNat(r, w)
BinAgree == \A op \in IAllBinOps :
   BvBinOp(op, <<a>>, <<b>>) = AsBv(IBinOp(op, a, b), BinResultSize(op, 1, 1))
UnAgree == \A op \in {"Int2Comp", "IntNegate"} : BvUnOp(op, <<a>>) = AsBv(IUnOp(op, a), 1)
BoolNegAgree == a \in {0, 1} => BvUnOp("BoolNegate", <<a>>) = AsBv(IUnOp("BoolNegate", a), 1)
CastAgree == \A op \in {"IntZExt", "IntSExt", "PopCount", "LzCount"} : \A s \in 1..3 :
   BvCast(op, <<a>>, s) = AsBv(ICast(op, a, s), s)
\* 2-byte sanity: operations on <<a,b>> agree with integer arithmetic on a + 256 b
N2 == a + 256 * b
Wide ==
   /\ BvToNat(<<a, b>>) = N2
   /\ BvFromNat(N2, 2) = <<a, b>>
   /\ BvNeg(<<a, b>>) = BvFromNat((65536 - N2) % 65536, 2)
   /\ BvMul(<<a, b>>, <<b, 0>>) = BvFromNat((N2 * b) % 65536, 2)
   /\ BvMul(<<a, b>>, <<0, a>>) = BvFromNat((256 * ((N2 * a) % 256)) % 65536, 2)
   /\ (N2 # 0 => BvUDiv(<<b, a>>, <<a, b>>) = BvFromNat((b + 256 * a) \div N2, 2))
   /\ (N2 # 0 => BvURem(<<b, a>>, <<a, b>>) = BvFromNat((b + 256 * a) % N2, 2))
   /\ BvShlN(<<a, b>>, b % 17) = BvFromNat(IF b % 17 >= 16 THEN 0 ELSE (N2 * (2 ^ (b % 17))) % 65536, 2)
   /\ BvShrN(<<a, b>>, a % 17) = BvFromNat(IF a % 17 >= 16 THEN 0 ELSE N2 \div (2 ^ (a % 17)), 2)
   /\ BvFromInt(ToS(a), 2) = BvSExt(<<a>>, 2)
   /\ BvPopCountN(<<a, b>>) = IPop(a) + IPop(b)
   /\ BvLzCountN(<<a, b>>) = (IF b = 0 THEN 8 + ILz(a) ELSE ILz(b))
=============================================================================
