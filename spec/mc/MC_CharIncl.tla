------------------------------ MODULE MC_CharIncl ------------------------------
(***************************************************************************)
(* Self-check of the oracle CharIncl.tla (mode M): TLC enumerates ALL      *)
(* pairs of character-inclusion values over the alphabet (certain a        *)
(* subset, possible a subset or Top, plus the domain's Top) and checks     *)
(*  - gamma(Top) = all strings, gamma((certain, Top)) = the strings that   *)
(*    contain every certain character                                      *)
(*  - gamma is empty iff certain is not a subset of possible (for          *)
(*    |certain| <= CIL)                                                    *)
(*  - the transfer functions DOCUMENTED in character_inclusion.rs satisfy   *)
(*    the relations CIMergeOK / CIAppendOK (the relations admit the        *)
(*    design: no alarm on correct code)                                    *)
(*  - the relations are not vacuous: a merge that takes the UNION of the   *)
(*    certain sets, or an append that INTERSECTS the possible sets, is     *)
(*    rejected for some pair (ASSUME NonVacuous).                          *)
(***************************************************************************)
EXTENDS CharIncl, TLC

Cs(S) == [top |-> FALSE, s |-> SetToSeq(S)]
CsTop == [top |-> TRUE, s |-> << >>]
CIVals == {[top |-> FALSE, c |-> Cs(C), p |-> Cs(P)] : C \in SUBSET CIAlphabet, P \in SUBSET CIAlphabet}
          \cup {[top |-> FALSE, c |-> Cs(C), p |-> CsTop] : C \in SUBSET CIAlphabet}
          \cup {CITop}

VARIABLES x, y
Null == [null |-> TRUE]
Init == x \in CIVals /\ y = Null
Next == y = Null /\ y' \in CIVals /\ x' = x

One == y = Null =>
  /\ CIWF(x)
  /\ (x.top => GammaCI(x) = CIAll)
  /\ (~x.top /\ x.p.top => GammaCI(x) = {w \in CIAll : Range(x.c.s) \subseteq CharsOf(w)})
  /\ (~x.top /\ Cardinality(CSet(x.c)) <= CIL => (GammaCI(x) = {} <=> ~(CSet(x.c) \subseteq CSet(x.p))))
  /\ \A w \in CIAll : (w \in GammaCI(x)) <=> InGammaCI(w, x)
  /\ CIMergeOK(x, x, x)

Two == y # Null =>
  /\ CIMergeOK(x, y, DocMerge(x, y))
  /\ CIAppendOK(x, y, DocAppend(x, y))
  /\ CIMergeOK(x, y, CITop) /\ CIAppendOK(x, y, CITop)
  /\ (CIMergeOK(x, y, x) <=> GammaCI(y) \subseteq GammaCI(x))

WrongMerge(a, b) == [top |-> FALSE, c |-> CsUnion(a.c, b.c), p |-> CsUnion(a.p, b.p)]      \* certain united
WrongAppend(a, b) == [top |-> FALSE, c |-> CsUnion(a.c, b.c), p |-> CsInter(a.p, b.p)]     \* possible intersected
ASSUME NonVacuous ==
  /\ \E a, b \in CIVals : ~a.top /\ ~b.top /\ ~CIMergeOK(a, b, WrongMerge(a, b))
  /\ \E a, b \in CIVals : ~a.top /\ ~b.top /\ ~CIAppendOK(a, b, WrongAppend(a, b))
  /\ Cardinality(CIVals) = 2 ^ Cardinality(CIAlphabet) * (2 ^ Cardinality(CIAlphabet) + 1) + 1
=============================================================================
