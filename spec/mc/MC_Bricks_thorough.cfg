CONSTANTS
  Alphabet = {97, 98}
  L = 4
  Elems <- ElemsThorough
  MaxSetSize = 2
  MaxB = 3
  MidSets <- MidSetsThorough
INIT Init
NEXT Next
INVARIANT OneBrick TwoBricks ThreeBricks
CHECK_DEADLOCK FALSE
