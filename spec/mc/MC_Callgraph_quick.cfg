CONSTANT N = 2
INIT Init
NEXT Next
INVARIANT Agree
CHECK_DEADLOCK FALSE
