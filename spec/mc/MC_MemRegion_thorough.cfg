\* thorough instance 1: flat domain; region A free over offsets -1..5, sizes 1/2/4; B frozen
CONSTANTS
  NegOff = 1
  OffHi = 5
  Sizes = {1, 2, 4}
  Doms = {"flat"}
  NVals = 2
  ShiftMag = {1, 2, 3}
  FreeB = FALSE
  NPart = 12
INIT MCInit
NEXT MCNext
INVARIANTS NoOverlap NoTopStored SizesPositive ClearTopNoop ObserversAgree MergeAlgebra MergeClause CountCases
POSTCONDITION PostCases
CHECK_DEADLOCK FALSE
