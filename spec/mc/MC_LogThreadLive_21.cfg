SPECIFICATION Spec
CONSTANTS
  Senders <- Senders2
  Script <- Script21
PROPERTIES CollectorTerminates CollectReturns DropReturns
CHECK_DEADLOCK FALSE
