SPECIFICATION SSpec
CONSTANT Counts <- C2211
CONSTRAINT Emit
CHECK_DEADLOCK FALSE
