\* thorough tier, 2 nodes: all 4 edges allowed at once, bounds Inf / 1 / 2.
CONSTANTS
  NN = 2
  MaxE = 4
  StartVals = {0, 1, 3}
  Defaults = {0, 1}
  FamIdx = {1, 2, 3, 4, 5, 6}
  Bounds <- BoundsInf12
SPECIFICATION MCSpec
INVARIANT ConfigInClass LfpIsLeast MCTypeOK MCStepBound MCBelowLFP MCAboveStart MCWorklistInv MCResult MCHonestStabilized MCStabilizedIsLeast
CHECK_DEADLOCK FALSE
