\* quick: TWO LISTS (copy / merge), one object, offsets 0..1, size 1; both lists start in the same preset; histories of <= 2 operations; variants judged
CONSTANTS
  NObj = 1
  OffHi = 1
  Sizes = {1}
  NVals = 2
  Depth = 2
  PtrVal = FALSE
  TopVal = FALSE
  Variants = TRUE
  TwoLists = TRUE
  Presets = TRUE
INIT MCInit
NEXT MCNext
INVARIANTS Sound ListsInv RefAccepted ReadSound InitReachable Count
POSTCONDITION PostCount
CHECK_DEADLOCK FALSE
