SPECIFICATION SimSpec
CONSTANTS
  MaxLen = 12
  Alphabet <- AlphaS
  Emitting = TRUE
INVARIANT Grammar FoldsAgree ScanAgrees
CHECK_DEADLOCK FALSE
