CONSTANTS
  AVals <- U8
INIT Init
NEXT Next
INVARIANT OpsAgree AliasLaws PoisonLaws RamLaws BlockRun
CHECK_DEADLOCK FALSE
