INIT Init
NEXT Next
INVARIANT IdentitiesHold IdentitiesInClass NearMissesRefuted PredicatesBind PredicatesBind2 AdmissibleLaws
CHECK_DEADLOCK FALSE
