--------------------------- MODULE MC_FixpointSim ---------------------------
(***************************************************************************)
(* Simulation instance of Fixpoint.tla for scopes whose set of problems is *)
(* too large to enumerate (4 nodes, up to 5 of the 16 edges: > 10^6        *)
(* partial problems, 6^5 transfer assignments each).  Run with             *)
(* `tlc -simulate`: every simulated behaviour first draws ONE problem at   *)
(* random (SimPick: edge set, start values, default, bound, transfers -    *)
(* TLC's RandomElement / RandomSubset, evaluated anew for every behaviour) *)
(* and then follows a random schedule of the machine; the invariants of    *)
(* MC_Fixpoint are checked on every state.                                 *)
(***************************************************************************)
EXTENDS MC_Fixpoint, Randomization

SimInit ==
  /\ phase = "pick" /\ cfg = Partial({}, [i \in 1..NN |-> 0], 0, Inf)
  /\ lfp = <<>> /\ val = <<>> /\ wl = {} /\ steps = <<>> /\ cur = NoCur /\ unstable = {}

SimPick ==
  /\ phase = "pick"
  /\ \E k \in 0..MaxE :
       LET S  == RandomSubset(k, 1..NN * NN)
           t  == RandomElement([1..k -> FamIdx])
           p  == Partial(S, RandomElement(StartTuples), RandomElement(Defaults), RandomElement(Bounds))
       IN Reset([p EXCEPT !.tr = [e \in 1..k |-> Fam[t[e]]]])

SimNext == \/ SimPick
           \/ Start
           \/ \E v \in 1..NN : PopVisit(v)
           \/ \E v \in 1..NN : PopDefer(v)
           \/ \E v \in 1..NN : Requeue(v)
           \/ \E e \in 1..MaxE, x \in 1..4 : UpdateEdgeWith(e, x)
           \/ FinishNode
           \/ Finish
SimSpec == SimInit /\ [][SimNext]_vars
=============================================================================
