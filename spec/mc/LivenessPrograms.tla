-------------------------- MODULE LivenessPrograms --------------------------
(***************************************************************************)
(* Hand-written small functions with HAND-DERIVED liveness (X03), shared   *)
(* by the bounded instances MC_Liveness (definitions of Liveness.tla       *)
(* against the hand-derived sets) and MC_LivenessSem (Liveness.tla against *)
(* the IR reference semantics).  Terms use the encoding of irenc.rs and    *)
(* are well-sized, so that IR.tla can execute them.                        *)
(*                                                                         *)
(* Physical registers: RAX RBX RCX RSP (8 bytes), ZF (1 byte).             *)
(* Names starting with $ are temporaries.                                  *)
(***************************************************************************)
EXTENDS Integers, Sequences

V(n) == [n |-> n, s |-> 8, t |-> FALSE]
Fl(n) == [n |-> n, s |-> 1, t |-> FALSE]
T8(n) == [n |-> n, s |-> 8, t |-> TRUE]
T1(n) == [n |-> n, s |-> 1, t |-> TRUE]
RAX == V("RAX")
RBX == V("RBX")
RCX == V("RCX")
RSP == V("RSP")
ZF == Fl("ZF")
PhysSeq == <<RAX, RBX, RCX, RSP, ZF>>
Phys == {RAX, RBX, RCX, RSP, ZF}

E(v) == [k |-> "var", v |-> v]
C8(x) == [k |-> "const", c |-> <<x, 0, 0, 0, 0, 0, 0, 0>>]
Bin(op, l, r) == [k |-> "bin", op |-> op, l |-> l, r |-> r]
Asg(t, v, e) == [tid |-> t, k |-> "assign", v |-> v, e |-> e]
Ld(t, v, a) == [tid |-> t, k |-> "load", v |-> v, a |-> a]
St(t, a, e) == [tid |-> t, k |-> "store", a |-> a, e |-> e]
Br(t, to) == [tid |-> t, addr |-> "0", k |-> "branch", t |-> to]
CBr(t, to, c) == [tid |-> t, addr |-> "0", k |-> "cbranch", t |-> to, c |-> c]
BrInd(t, e) == [tid |-> t, addr |-> "0", k |-> "branchind", e |-> e]
Ret(t, e) == [tid |-> t, addr |-> "0", k |-> "return", e |-> e]
Call(t, f, r) == [tid |-> t, addr |-> "0", k |-> "call", t |-> f, ret |-> r]
CallInd(t, e, r) == [tid |-> t, addr |-> "0", k |-> "callind", e |-> e, ret |-> r]
\* abv = the block's address (IR.tla resolves indirect jumps with it)
Blk(t, a, defs, jmps, ind) == [tid |-> t, addr |-> "0", abv |-> <<a, 0, 0, 0, 0, 0, 0, 0>>, defs |-> defs, jmps |-> jmps, ind |-> ind]
Fn(blocks) == [tid |-> "sub_f", addr |-> "0", name |-> "f", cconv |-> "", blocks |-> blocks]
Proj(f) == [program |-> [subs |-> <<f>>, externs |-> <<>>, entry_points |-> <<>>], sp |-> RSP, regs |-> PhysSeq,
            arch |-> "x", cconvs |-> <<>>]

(***************************************************************************)
(* 1. one block: overwritten register, temporaries, unused temporary       *)
(*    d1 RAX := RBX   d2 RAX := RCX   d3 $t := RAX   d4 ZF := $t == 0      *)
(*    d5 $u := RBX    return RCX                                           *)
(* backwards from Phys (return): d5 dead ($u is no register); d4 live,     *)
(* reads $t; d3 live, reads RAX; d2 live, reads RCX, kills RAX; d1 dead.   *)
(***************************************************************************)
P1 == Fn(<< Blk("b0", 0, << Asg("d1", RAX, E(RBX)), Asg("d2", RAX, E(RCX)), Asg("d3", T8("$t"), E(RAX)),
                            Asg("d4", ZF, Bin("IntEqual", E(T8("$t")), C8(0))), Asg("d5", T8("$u"), E(RBX)) >>,
                << Ret("j0", E(RCX)) >>, <<>>) >>)
(***************************************************************************)
(* 2. a loop (the fixpoint needs a second round for b1)                    *)
(*    b0: d1 RCX := RAX  d2 RBX := 0                      -> b1            *)
(*    b1: d3 RBX := RBX + RCX  d3b RCX := RCX - 1  d4 ZF := RCX == 0       *)
(*        d5 RAX := 5             if ZF -> b2 else -> b1                   *)
(*    b2: d6 RAX := RBX           return RAX                               *)
(* RAX is overwritten in b2 and not read in the loop: d5 is dead.          *)
(***************************************************************************)
P2 == Fn(<< Blk("b0", 0, << Asg("d1", RCX, E(RAX)), Asg("d2", RBX, C8(0)) >>, << Br("j0", "b1") >>, <<>>),
            Blk("b1", 16, << Asg("d3", RBX, Bin("IntAdd", E(RBX), E(RCX))), Asg("d3b", RCX, Bin("IntSub", E(RCX), C8(1))),
                             Asg("d4", ZF, Bin("IntEqual", E(RCX), C8(0))), Asg("d5", RAX, C8(5)) >>,
                << CBr("j1", "b2", E(ZF)), Br("j2", "b1") >>, <<>>),
            Blk("b2", 32, << Asg("d6", RAX, E(RBX)) >>, << Ret("j3", E(RAX)) >>, <<>>) >>)
(***************************************************************************)
(* 3. a chain of dead assignments: d2 is dead, so its read of RAX does not *)
(*    count and d1 is dead as well                                         *)
(*    d1 RAX := RBX  d2 RCX := RAX  d3 RCX := 1  d4 RAX := 2  return RBX   *)
(***************************************************************************)
P3 == Fn(<< Blk("b0", 0, << Asg("d1", RAX, E(RBX)), Asg("d2", RCX, E(RAX)), Asg("d3", RCX, C8(1)), Asg("d4", RAX, C8(2)) >>,
                << Ret("j0", E(RBX)) >>, <<>>) >>)
(***************************************************************************)
(* 4. loads and stores, a call                                             *)
(*    b0: d1 RAX := RBX + 8   d2 RAX := load [RAX]   d3 $t := RCX          *)
(*        d4 store [RSP] := $t   d5 RCX := load [RBX]   d6 RCX := 0        *)
(*        call ext -> b1                                                   *)
(*    b1: return RAX                                                       *)
(* d1 computes the address of d2 (which loads into the same register): it  *)
(* is live.  The load d5 writes a dead register.                           *)
(***************************************************************************)
P4 == Fn(<< Blk("b0", 0, << Asg("d1", RAX, Bin("IntAdd", E(RBX), C8(8))), Ld("d2", RAX, E(RAX)), Asg("d3", T8("$t"), E(RCX)),
                            St("d4", E(RSP), E(T8("$t"))), Ld("d5", RCX, E(RBX)), Asg("d6", RCX, C8(0)) >>,
                << Call("j0", "ext", "b1") >>, <<>>),
            Blk("b1", 16, <<>>, << Ret("j1", E(RAX)) >>, <<>>) >>)
(***************************************************************************)
(* 5. conditional return, indirect jump with known targets, dead end,      *)
(*    return through a temporary                                           *)
(*    b0: d1 RAX := 1   d2 $c := RBX == 0      if $c -> b1 ; return RCX    *)
(*    b1: d3 RAX := 2   d4 RBX := RCX          branchind RBX  {b2, b3}     *)
(*    b2: d5 RCX := RAX                        (no jump: dead end)         *)
(*    b3: d6 RAX := 3   d7 $r := RCX + 1       return $r                   *)
(* Nothing is dead: d1 is read by the return of b0, d7 by the return of b3.*)
(***************************************************************************)
P5 == Fn(<< Blk("b0", 0, << Asg("d1", RAX, C8(1)), Asg("d2", T1("$c"), Bin("IntEqual", E(RBX), C8(0))) >>,
                << CBr("j0", "b1", E(T1("$c"))), Ret("j1", E(RCX)) >>, <<>>),
            Blk("b1", 16, << Asg("d3", RAX, C8(2)), Asg("d4", RBX, E(RCX)) >>, << BrInd("j2", E(RBX)) >>, <<"b2", "b3">>),
            Blk("b2", 32, << Asg("d5", RCX, E(RAX)) >>, <<>>, <<>>),
            Blk("b3", 48, << Asg("d6", RAX, C8(3)), Asg("d7", T8("$r"), Bin("IntAdd", E(RCX), C8(1))) >>, << Ret("j3", E(T8("$r"))) >>, <<>>) >>)
(***************************************************************************)
(* 6. temporaries across a jump (live) and across a call (dead)            *)
(*    b0: d1 $t := RAX   d2 $u := RBX   d3 RCX := 7          -> b1         *)
(*    b1: d4 RBX := $t                  callind RCX -> b2                  *)
(*    b2: d5 RAX := $u                  return RCX                         *)
(***************************************************************************)
P6 == Fn(<< Blk("b0", 0, << Asg("d1", T8("$t"), E(RAX)), Asg("d2", T8("$u"), E(RBX)), Asg("d3", RCX, C8(7)) >>, << Br("j0", "b1") >>, <<>>),
            Blk("b1", 16, << Asg("d4", RBX, E(T8("$t"))) >>, << CallInd("j1", E(RCX), "b2") >>, <<>>),
            Blk("b2", 32, << Asg("d5", RAX, E(T8("$u"))) >>, << Ret("j2", E(RCX)) >>, <<>>) >>)
(***************************************************************************)
(* 7. an address computed only for a load into a dead register             *)
(*    d1 RAX := RBX + 8  d2 RCX := load [RAX]  d3 RCX := 1  d4 RAX := 0     *)
(*    return RBX                                                           *)
(* d1 is live as long as the load is there; without the load it is dead.   *)
(***************************************************************************)
P7 == Fn(<< Blk("b0", 0, << Asg("d1", RAX, Bin("IntAdd", E(RBX), C8(8))), Ld("d2", RCX, E(RAX)), Asg("d3", RCX, C8(1)), Asg("d4", RAX, C8(0)) >>,
                << Ret("j0", E(RBX)) >>, <<>>) >>)

Progs == <<P1, P2, P3, P4, P5, P6, P7>>

\* hand-derived: variables live at the START of every block, at the END of every block,
\* the dead assignments, and the removal sets (subsets of the assignments and loads) that are acceptable
ExpLiveIn == <<
  << {RBX, RCX, RSP} >>,
  << {RAX, RSP}, {RBX, RCX, RSP}, {RBX, RCX, RSP, ZF} >>,
  << {RBX, RSP, ZF} >>,
  << {RBX, RCX, RSP, ZF}, Phys >>,
  << {RBX, RCX, RSP, ZF}, {RCX, RSP, ZF}, {RAX, RBX, RSP, ZF}, {RBX, RCX, RSP, ZF} >>,
  << {RAX, RSP, ZF}, {RAX, RCX, RSP, ZF, T8("$t")}, {RBX, RCX, RSP, ZF, T8("$u")} >>,
  << {RBX, RSP, ZF} >> >>
ExpLiveOut == <<
  << Phys >>,
  << {RBX, RCX, RSP}, {RBX, RCX, RSP, ZF}, Phys >>,
  << Phys >>,
  << Phys, Phys >>,
  << Phys \cup {T1("$c")}, Phys, Phys, Phys \cup {T8("$r")} >>,
  << {RAX, RCX, RSP, ZF, T8("$t")}, Phys, Phys >>,
  << Phys >> >>
ExpDead == << {"d1", "d5"}, {"d5"}, {"d1", "d2"}, {}, {}, {"d2"}, {} >>
ExpAccepted == <<
  SUBSET {"d1", "d5"},
  SUBSET {"d5"},
  SUBSET {"d1", "d2"},
  {{}, {"d5"}},
  {{}},
  SUBSET {"d2"},
  {{}, {"d2"}, {"d1", "d2"}} >>
=============================================================================
