\* quick: reference machine only, 2 objects x offsets 0..1 x sizes 1/2 x 2 values, all histories of <= 3 operations from the empty list
CONSTANTS
  NObj = 2
  OffHi = 1
  Sizes = {1, 2}
  NVals = 2
  Depth = 3
  PtrVal = FALSE
  TopVal = FALSE
  Variants = FALSE
  TwoLists = FALSE
  Presets = FALSE
INIT MCInit
NEXT MCNext
INVARIANTS Sound ListsInv RefAccepted ReadSound InitReachable Count
POSTCONDITION PostCount
CHECK_DEADLOCK FALSE
