SPECIFICATION MCSpec
CONSTANTS
  MaxLen = 3
  Alphabet <- AlphaA
  Emitting = TRUE
INVARIANT Grammar FoldsAgree ScanAgrees
CHECK_DEADLOCK FALSE
