------------------------------- MODULE MC_Cli -------------------------------
(* Bounded model of the command line pipeline: all selections of size <= 2 *)
(* plus default / kernel-module / all-checks selections; every order of    *)
(* running the selected checks.                                             *)
EXTENDS Cli, TLC, SequencesExt
VARIABLES m, arg
Args == {[hasPartial |-> FALSE, partial |-> {}, isLkm |-> b] : b \in BOOLEAN}
        \cup {[hasPartial |-> TRUE, partial |-> S, isLkm |-> b] : S \in {T \in SUBSET KnownSet : Cardinality(T) <= 2} \cup {KnownSet}, b \in BOOLEAN}
Hook(k, mods, lkm, mod, n) == [ev |-> k, modules |-> mods, lkm |-> lkm, partial |-> FALSE, module |-> mod, n |-> n]
Candidates ==
   {Hook("selected", SetToSeq(Select(arg.hasPartial, arg.partial, arg.isLkm)), arg.isLkm, "", -1)}
   \cup {Hook(k, <<>>, FALSE, "", -1) : k \in {"fn_sigs_computed", "pi_computed", "string_abstraction_computed", "printed"}}
   \cup {Hook("run", <<>>, FALSE, mod, 0) : mod \in KnownSet}
   \cup {Hook("sorted", <<>>, FALSE, "", 0)}
Init == m = InitM /\ arg \in Args
Idx(mod) == CHOOSE i \in 1..Len(Known) : Known[i] = mod
\* all run orders for selections of <= 3 checks; get_modules() order for larger ones (2^18 run-sets otherwise)
OrderOK(h) == (h.ev = "run" /\ Cardinality(m.sel) > 3) => \A o \in m.sel \ m.ran : Idx(h.module) <= Idx(o)
Next == \E h \in Candidates : OrderOK(h) /\ Step(m, h, arg).ok /\ m' = Step(m, h, arg).m /\ UNCHANGED arg
Spec == Init /\ [][Next]_<<m, arg>> /\ WF_<<m, arg>>(Next)

TypeOK == m.ran \subseteq m.sel /\ m.sel \subseteq KnownSet
DefaultSkipsCWE78 == (~arg.hasPartial /\ ~arg.isLkm /\ m.phase # "start") => m.sel = KnownSet \ {"CWE78"}
LkmSubset == (~arg.hasPartial /\ arg.isLkm /\ m.phase # "start") => m.sel \subseteq ModulesLkm
PartialExact == (arg.hasPartial /\ m.phase # "start") => m.sel = arg.partial
AnalysesBeforeUse == /\ (m.ran \cap DependOnPI # {} => m.stage \in {"pi", "strabs"})
                     /\ (m.ran \cap DependOnStrAbs # {} => m.stage = "strabs")
NoUnneededAnalysis == (m.stage # "none" => NeedsPI(m.sel)) /\ (m.stage = "strabs" => NeedsStrAbs(m.sel))
PrintedMeansAllRan == m.phase \in {"sorted", "printed"} => m.ran = m.sel
Completes == <>(m.phase = "printed")
=============================================================================
