-------------------------- MODULE MC_FormatString --------------------------
(* Bounded instances of the generative format-string machine.               *)
(*  - TLC explores EVERY token sequence of length <= MaxLen over the token   *)
(*    alphabet of the instance (BFS) or simulates random longer ones, and    *)
(*    checks the specification against itself: the incremental machine       *)
(*    agrees with the folds Text/Expect, and the independent reader Scan     *)
(*    recovers from the TEXT alone exactly the arguments the TOKENS consume  *)
(*    (the grammar is uniquely readable; "%%" followed by conversion-like    *)
(*    literal text consumes nothing).                                        *)
(*  - spec -> impl: every explored behaviour is printed as one JSON line     *)
(*    {"tokens":[...],"text":[...]}; the harness feeds the text to the real  *)
(*    parser and T_C20 judges the recorded result.                           *)
EXTENDS FormatString, TLC, Json

CONSTANTS MaxLen, Alphabet, Emitting

D(s) == <<48 + s>>
\* literal characters that could be read as parts of a conversion
Lits == {LitTok(Ord.x), LitTok(Ord.d), LitTok(53), LitTok(Dot), LitTok(Ord.l)}
TenSpecs == {S1("d"), S1("s"), S1("c"), S1("f"), S1("n"), S2("h", "u"), S2("l", "f"),
             S2("l", "d"), S3("l", "l", "u"), S2("L", "G")}
Convs(flags, widths, precs, specs) ==
  {ConvTok(f, w, p, s) : f \in flags, w \in widths, p \in precs, s \in specs}

\* A: length 3 - literals, escape, 10 conversions plain and fully decorated
AlphaA == Lits \cup {EscTok} \cup Convs({<<>>}, {<<>>}, {<<>>}, TenSpecs)
               \cup Convs({<<48>>}, {<<53>>}, {<<Dot, 50>>}, TenSpecs)
\* B: length 2 - 10 conversions x 3 flags x 2 widths x 2 precisions
AlphaB == Lits \cup {EscTok} \cup
          Convs({<<>>, <<43>>, <<35>>}, {<<>>, <<49, 48>>}, {<<>>, <<Dot, 51>>}, TenSpecs)
\* B2 (thorough): length 2 - 10 conversions x 5 flags x 2 widths x 3 precisions
AlphaB2 == Lits \cup {EscTok} \cup
          Convs({<<>>, <<43>>, <<45>>, <<35>>, <<48>>}, {<<>>, <<49, 48>>}, {<<>>, <<Dot>>, <<Dot, 51>>}, TenSpecs)
\* C: length 1 - every listed form x 5 flags x 3 widths x 3 precisions
AlphaC == Lits \cup {EscTok} \cup
          Convs({<<>>, <<43>>, <<45>>, <<35>>, <<48>>}, {<<>>, <<48>>, <<50, 53, 54>>}, {<<>>, <<Dot>>, <<Dot, 48, 57>>}, AllForms)
\* E (thorough): length 3 - more literals and forms
AlphaE == AlphaA \cup {LitTok(Ord.h), LitTok(Ord.L), LitTok(48), LitTok(45), LitTok(Ord.s), LitTok(32)}
                 \cup Convs({<<>>, <<45>>}, {<<>>}, {<<>>, <<Dot>>}, {S1("x"), S1("p"), S1("S"), S1("E"), S2("h", "d"), S2("l", "A"), S2("l", "i"), S3("l", "l", "d"), S2("L", "f")})
\* S: simulation of long strings over a rich alphabet
AlphaS == AlphaE \cup AlphaB2

MCNext == /\ Len(tokens) < MaxLen
          /\ \E t \in Alphabet : Emit(t)
          /\ (Emitting => PrintT(ToJson([tokens |-> tokens', text |-> text'])))
MCSpec == Init /\ [][MCNext]_fvars
\* simulation (-simulate): one random token per step, so that exactly the simulated behaviour is printed
SimNext == /\ Len(tokens) < MaxLen
           /\ \E t \in {RandomElement(Alphabet)} : Emit(t)
           /\ (Emitting => PrintT(ToJson([tokens |-> tokens', text |-> text'])))
SimSpec == Init /\ [][SimNext]_fvars

\* the machine generates only formats of the supported grammar
Grammar == InGrammar(tokens)
\* incremental machine = folds
FoldsAgree == text = Text(tokens) /\ [rejected |-> rejected, args |-> args] = Expect(tokens)
\* unique readability: the text alone determines what is consumed
ScanAgrees == Scan(text) = Expect(tokens)
ASSUME PrefixFree
ASSUME \A t \in Alphabet : TokenOK(t)
=============================================================================
