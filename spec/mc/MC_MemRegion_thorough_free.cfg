\* thorough instance 2: BOTH regions free (every pair of reachable regions meets in merge / copy);
\* flat domain, offsets -1..2, sizes 1/2/4
CONSTANTS
  NegOff = 1
  OffHi = 2
  Sizes = {1, 2, 4}
  Doms = {"flat"}
  NVals = 2
  ShiftMag = {1, 2}
  FreeB = TRUE
  NPart = 12
INIT MCInit
NEXT MCNext
INVARIANTS NoOverlap NoTopStored SizesPositive ClearTopNoop ObserversAgree MergeAlgebra MergeClause CountCases
POSTCONDITION PostCases
CHECK_DEADLOCK FALSE
