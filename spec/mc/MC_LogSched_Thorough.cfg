SPECIFICATION SSpec
CONSTANT CountsSet <- Thorough
CONSTRAINT Emit
CHECK_DEADLOCK FALSE
