------------------------------ MODULE MC_Bricks ------------------------------
(***************************************************************************)
(* Self-check of the oracle Bricks.tla (mode M).  TLC enumerates all       *)
(* bricks b1, b2 (and a third one b3 from a smaller set) over a small      *)
(* element pool and all small bounds incl. "infinity", and checks          *)
(*  - Lang of Top = all strings, their number                              *)
(*  - the one-pass BrickLang against the definition BrickLangDef           *)
(*  - BrickLangDef against an independent MEMBERSHIP definition (Splits)   *)
(*    that uses no L+1 cap  => the cap for huge/unbounded max is justified *)
(*  - the concatenation law (bounded Cat is associative, LangSeq is Cat)   *)
(*  - the five normalisation rules of bricks.rs and the brick-wise merge   *)
(*    of widening.rs as LAWS of the semantics: each preserves / over-      *)
(*    approximates Lang.  So demanding NormOK (equality) and MergeOK of    *)
(*    the code is not stricter than the algorithm's own design.            *)
(***************************************************************************)
EXTENDS Bricks, TLC

CONSTANTS Elems,       \* pool of brick elements (strings)
          MaxSetSize,  \* bricks b1, b2 have |S| <= MaxSetSize
          MaxB,        \* finite bounds 0..MaxB
          MidSets      \* the second brick b2 ranges over the bricks whose set is in MidSets (all bounds)
Null == [null |-> TRUE]
ElemsQuick == {<< >>, <<97>>, <<98, 97>>}
ElemsThorough == {<< >>, <<97>>, <<98>>, <<97, 98>>, <<98, 98>>}
MidSetsQuick == {{<<97>>}, {<< >>, <<98, 97>>}}
MidSetsThorough == {S \in SUBSET ElemsThorough : Cardinality(S) <= 2}

SeqOf(S) == LET RECURSIVE F(_)
                F(T) == IF T = {} THEN << >> ELSE LET x == CHOOSE x \in T : TRUE IN <<x>> \o F(T \ {x})
            IN F(S)
Mk(S, m, M, inf) == [top |-> FALSE, seq |-> SeqOf(S), min |-> m, max |-> M, inf |-> inf]
TopBrick == [top |-> TRUE, seq |-> << >>, min |-> 0, max |-> 0, inf |-> FALSE]
EmptyBrick == Mk({}, 0, 0, FALSE)                       \* Brick::new(), the padding brick
Val(bs) == [top |-> FALSE, bricks |-> bs]
TopVal == [top |-> TRUE, bricks |-> << >>]

Sets == {S \in SUBSET Elems : Cardinality(S) <= MaxSetSize}
Bounds == {t \in (0..MaxB) \X (0..MaxB) \X {FALSE} : t[1] <= t[2]}
          \cup {<<m, 1048576, TRUE>> : m \in 0..2}                       \* the widening sentinel (clamped)
          \cup {<<0, L + 3, FALSE>>, <<L + 1, L + 2, FALSE>>, <<L + 2, L + 2, FALSE>>, <<L + 1, 1048576, TRUE>>,
                <<0, 1048576, FALSE>>}                                   \* bounds beyond the cap
BricksAll == {Mk(S, t[1], t[2], t[3]) : S \in Sets, t \in Bounds} \cup {TopBrick}
\* the second brick: sets in MidSets, finite bounds and [0, infinity] (bounds beyond the cap are a one-brick matter)
BricksMid == {b \in BricksAll : b.top \/ (Range(b.seq) \in MidSets /\ (b.max <= MaxB \/ (b.inf /\ b.min = 0)))}
BricksSmall == {Mk({<<97>>, <<98, 97>>}, 0, 2, FALSE), Mk({<< >>, <<98>>}, 1, 2, FALSE),
                Mk({<<97, 98>>}, 0, 1048576, TRUE), TopBrick}

VARIABLES b1, b2, b3
vars == <<b1, b2, b3>>
Init == b1 \in BricksAll /\ b2 = Null /\ b3 = Null
Next == \/ b2 = Null /\ b2' \in BricksMid /\ UNCHANGED <<b1, b3>>
        \/ b2 # Null /\ b3 = Null /\ b3' \in BricksSmall /\ UNCHANGED <<b1, b2>>

-----------------------------------------------------------------------------
(* state independent *)
ASSUME TopLaws ==
  /\ BrickLang(TopBrick) = All /\ Lang(TopVal) = All /\ Lang(Val(<<TopBrick>>)) = All
  /\ Cardinality(All) = (Cardinality(Alphabet) ^ (L + 1) - 1) \div (Cardinality(Alphabet) - 1)
  /\ Lang(Val(<< >>)) = {Eps} /\ BrickLang(EmptyBrick) = {Eps}
  /\ BrickLang(Mk({}, 1, 1, FALSE)) = {}
  /\ BrickLang(Mk({<<109, 111>>, <<100, 101>>}, 1, 2, FALSE)) =           \* the example of brick.rs
       Short({<<109, 111>>, <<100, 101>>, <<109, 111, 109, 111>>, <<100, 101, 100, 101>>,
              <<109, 111, 100, 101>>, <<100, 101, 109, 111>>}, L)

(* membership definition: w \in [S]^{m,M} iff w splits into k members of S for some m <= k <= M; *)
(* k <= max(m, |w|) is enough (drop or add empty pieces) -- no reference to L                     *)
InBrick(w, b) ==
  b.top \/ \E k \in b.min..(IF b.inf THEN SMax(b.min, Len(w)) ELSE SMin(b.max, SMax(b.min, Len(w)))) :
              Splits(w, Range(b.seq), k)

OneBrick == b2 = Null =>
  /\ BrickLang(b1) = BrickLangDef(b1)
  /\ BrickLangDef(b1) = {w \in All : InBrick(w, b1)}                     \* incl. CapLaw
  /\ BrickWF(b1)
  /\ Lang(Val(<<b1>>)) = BrickLang(b1)
  /\ NormOK(Val(<<b1>>), Val(<<b1>>)) /\ MergeOK(Val(<<b1>>), Val(<<b1>>), Val(<<b1>>))
  \* rule 1: the empty brick is the unit
  /\ Lang(Val(<<EmptyBrick, b1>>)) = BrickLang(b1) /\ Lang(Val(<<b1, EmptyBrick>>)) = BrickLang(b1)
  \* rule 3: [S]^{k,k} = [S^k]^{1,1}
  /\ (~b1.top /\ ~b1.inf /\ b1.min = b1.max /\ b1.min <= MaxB =>
        BrickLang(b1) = BrickLang(Mk(Pow(Range(b1.seq), b1.min, 1000), 1, 1, FALSE)))
  \* rule 5: [S]^{m,M} = [S^m]^{1,1} [S]^{0,M-m}
  /\ (~b1.top /\ b1.min >= 1 /\ b1.min <= MaxB /\ (b1.inf \/ b1.max > b1.min) =>
        BrickLang(b1) = Lang(Val(<<Mk(Pow(Range(b1.seq), b1.min, 1000), 1, 1, FALSE),
                                   Mk(Range(b1.seq), 0, b1.max - b1.min, b1.inf)>>)))

TwoBricks == (b2 # Null /\ b3 = Null) =>
  LET X == BrickLang(b1)
      Y == BrickLang(b2)
      XY == Lang(Val(<<b1, b2>>))
  IN
  /\ XY = Cat(X, Y, L)
  /\ XY = {w \in All : \E i \in 0..Len(w) : SubSeq(w, 1, i) \in X /\ SubSeq(w, i + 1, Len(w)) \in Y}
  /\ AppendOK(Val(<<b1>>), Val(<<b2>>), Val(<<b1, b2>>))
  \* rule 2: [S1]^{1,1} [S2]^{1,1} = [S1.S2]^{1,1}
  /\ (~b1.top /\ ~b2.top /\ <<b1.min, b1.max, b2.min, b2.max>> = <<1, 1, 1, 1>> =>
        XY = BrickLang(Mk(Cat(Range(b1.seq), Range(b2.seq), 1000), 1, 1, FALSE)))
  \* rule 4: [S]^{m1,M1} [S]^{m2,M2} = [S]^{m1+m2,M1+M2}   (infinity absorbing)
  /\ (~b1.top /\ ~b2.top /\ Range(b1.seq) = Range(b2.seq) =>
        XY = BrickLang(Mk(Range(b1.seq), b1.min + b2.min, SMin(b1.max + b2.max, 1048576), b1.inf \/ b2.inf)))
  \* brick-wise merge / widening: union of the sets, min of the mins, max of the maxes (or 0, infinity)
  /\ (~b1.top /\ ~b2.top =>
        LET m == Mk(Range(b1.seq) \cup Range(b2.seq), SMin(b1.min, b2.min), SMax(b1.max, b2.max), b1.inf \/ b2.inf)
            w == Mk(Range(b1.seq) \cup Range(b2.seq), 0, 1048576, TRUE)
        IN /\ MergeOK(Val(<<b1>>), Val(<<b2>>), Val(<<m>>))
           /\ X \cup Y \subseteq BrickLang(w))
  \* the relations are not vacuous: a result is rejected exactly when a member is lost
  /\ (MergeOK(Val(<<b1>>), Val(<<b2>>), Val(<<b1>>)) <=> Y \subseteq X)
  /\ (NormOK(Val(<<b1>>), Val(<<b2>>)) <=> X = Y)
  /\ MergeOK(Val(<<b1>>), Val(<<b2>>), TopVal) /\ WidenOK(Val(<<b1>>), Val(<<b2>>), Val(<<TopBrick>>))

ThreeBricks == b3 # Null =>
  LET X == BrickLang(b1)
      Y == BrickLang(b2)
      Z == BrickLang(b3)
  IN /\ Cat(Cat(X, Y, L), Z, L) = Cat(X, Cat(Y, Z, L), L)                \* bounded Cat is associative
     /\ Lang(Val(<<b1, b2, b3>>)) = Cat(X, Lang(Val(<<b2, b3>>)), L)     \* concatenation law
     /\ AppendOK(Val(<<b1>>), Val(<<b2, b3>>), Val(<<b1, b2, b3>>))
     /\ AppendOK(Val(<<b1, b2>>), Val(<<b3>>), Val(<<b1, b2, b3>>))
=============================================================================
