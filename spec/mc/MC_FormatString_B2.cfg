SPECIFICATION MCSpec
CONSTANTS
  MaxLen = 2
  Alphabet <- AlphaB2
  Emitting = TRUE
INVARIANT Grammar FoldsAgree ScanAgrees
CHECK_DEADLOCK FALSE
