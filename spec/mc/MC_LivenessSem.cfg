CONSTANTS
  Fuel = 24
INIT MInit
NEXT MNext
CHECK_DEADLOCK FALSE
