---------------------------- MODULE MC_LogThread ----------------------------
(* Bounded instances of LogThread.tla (mode M of C25): ALL interleavings of  *)
(* the senders' three-step sends, the collector and the owner (collect or    *)
(* drop, at any moment - in particular racing with sends).                   *)
(*   MC_LogThread_32.cfg    2 senders, 3 + 2 messages (quick tier)           *)
(*   MC_LogThread_2x3.cfg   2 senders x 3 messages over 2 addresses (safety) *)
(*   MC_LogThread_3x2.cfg   3 senders x 2 messages over 2 addresses (safety) *)
(*   MC_LogThread_cov.cfg   2 senders, 2 + 1 messages (action coverage)      *)
(* Liveness is checked by MC_LogThreadLive (separate runs: with fairness in  *)
(* the specification TLC keeps its liveness graph, several times slower).    *)
(* Checked: the three clauses of C25 (Delivered, GeneralOrder, LastWins),    *)
(* FoldRefinement, the refinement LogThread => LogThreadAbs (the machine     *)
(* trace validation uses), agreement of the two formulations of the result   *)
(* requirement (OracleAgree, on the result and on corrupted variants), and   *)
(* liveness (the collector terminates after CollectStart / DropStart).       *)
EXTENDS LogThread

M(id, kind, txt, addrs) == [id |-> id, kind |-> kind, txt |-> txt, addrs |-> addrs]

\* 2 x 3: same first address from both senders and twice from one sender, a multi-address
\* warning whose LAST address collides with another key, an addressed log on a warning's address
\* (separate maps), two address-less logs with identical content.
Senders2 == {1, 2}
Script2 == <<
  << M(1, "cwe", 1, <<1>>),    M(2, "log", 2, <<>>),   M(3, "cwe", 3, <<1, 2>>) >>,
  << M(4, "cwe", 4, <<2, 1>>), M(5, "alog", 5, <<1>>), M(6, "log", 2, <<>>) >> >>

\* quick tier: 2 senders, 3 + 2 messages (a fifth of the states of 2 x 3): both senders report
\* address 1, an addressed log on the same address, two address-less logs with identical content
Script32 == <<
  << M(1, "cwe", 1, <<1>>),    M(2, "log", 2, <<>>),   M(5, "alog", 5, <<1>>) >>,
  << M(4, "cwe", 4, <<1, 2>>), M(6, "log", 2, <<>>) >> >>

\* 3 x 2
Senders3 == {1, 2, 3}
Script3 == <<
  << M(1, "log", 1, <<>>),    M(2, "cwe", 2, <<2>>) >>,
  << M(3, "alog", 3, <<2>>),  M(4, "cwe", 4, <<2, 1>>) >>,
  << M(5, "alog", 5, <<2>>),  M(6, "log", 6, <<>>) >> >>

\* small instance (2 senders, 2 + 1 messages) run with -coverage in the quick tier: every action
\* of the machine must be taken (the 2 x 3 run is then done without the coverage overhead)
ScriptS == <<
  << M(1, "cwe", 1, <<1>>),    M(2, "log", 2, <<>>) >>,
  << M(4, "alog", 4, <<1>>) >> >>

AllMsgs == UNION {{Script[s][k] : k \in 1..Len(Script[s])} : s \in Senders}

-----------------------------------------------------------------------------
\* Refinement: every step of the concurrent machine is a step of LogThreadAbs or stutters, under
\*    fold <- Fold(Prefix(chan)),  termd <- HasTerm(chan)
A == INSTANCE LogThreadAbs WITH fold <- Fold(Prefix(chan)), termd <- HasTerm(chan)

AbsStep ==
  \/ UNCHANGED <<spc, cur, chan, opc, result>>        \* collector steps are invisible (cheap test first)
  \/ \E s \in Senders : A!SendStart(s, cur'[s]) \/ A!Enqueue(s) \/ A!SendEnd(s)
  \/ A!CollectStart \/ A!DropStart \/ A!SendTerminate \/ A!CollectEndExact \/ A!DropEnd
  \/ UNCHANGED A!avars
Refines == [][AbsStep]_vars
AbsInit == A!InitWith(Senders)

-----------------------------------------------------------------------------
\* the two formulations of "the result is right" agree - on the result and on wrong results
RemoveAt(seq, i) == SubSeq(seq, 1, i - 1) \o SubSeq(seq, i + 1, Len(seq))
Rev(seq) == [i \in 1..Len(seq) |-> seq[Len(seq) + 1 - i]]
Variants(r) ==
  {r, [r EXCEPT !.logs = Rev(@)], [r EXCEPT !.cwes = Rev(@)]}
  \cup {[r EXCEPT !.logs = RemoveAt(@, i)] : i \in 1..Len(r.logs)}
  \cup {[r EXCEPT !.cwes = RemoveAt(@, i)] : i \in 1..Len(r.cwes)}
  \cup {[r EXCEPT !.logs = Append(@, r.logs[i])] : i \in 1..Len(r.logs)}
  \cup {[r EXCEPT !.cwes = Append(@, r.cwes[i])] : i \in 1..Len(r.cwes)}
  \cup {[r EXCEPT !.cwes[i] = Payload(m)] : i \in 1..Len(r.cwes), m \in {x \in AllMsgs : IsCwe(x)}}
  \cup {[r EXCEPT !.logs[i] = Payload(m)] : i \in 1..Len(r.logs), m \in {x \in AllMsgs : ~IsCwe(x)}}
OracleAgreeAt == \A r \in Variants(result) : ResultMatches(Fold(Q), r) <=> PropertyOK(Q, r)
\* Q and result do not change once collect() has returned: checked on the CollectEnd step
\* (and, since CollectEnd can be delayed arbitrarily, every (Q, result) also occurs with all sends finished)
AllSent == \A s \in Senders : nsent[s] = Len(Script[s]) /\ spc[s] = "idle"
OracleAgree == [][CollectEnd /\ AllSent => OracleAgreeAt']_vars
=============================================================================
