INIT Init
NEXT Next
INVARIANT LastWinsIndependent
CHECK_DEADLOCK FALSE
