\* thorough instance 4: read / merge clauses (state and action form), both domains, offsets -1..1
CONSTANTS
  NegOff = 1
  OffHi = 1
  Sizes = {1, 2}
  Doms = {"flat", "flagged"}
  NVals = 1
  ShiftMag = {1, 2}
  FreeB = FALSE
INIT MCInit
NEXT MCNext
INVARIANTS NoOverlap NoTopStored SizesPositive ClearTopNoop ObserversAgree MergeAlgebra MergeClause CountCases ReadClauses
PROPERTIES ReadAfterWrite MergeOnly
POSTCONDITION PostCases
CHECK_DEADLOCK FALSE
