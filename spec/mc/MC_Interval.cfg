INIT Init
NEXT Next
INVARIANT GammaAgree IllFormed TopAll Wide Sampled Incl DivAgree
CHECK_DEADLOCK FALSE
