INIT Init
NEXT Next
INVARIANT GammaAgree IllFormed TopAll Wide Sampled Incl CondAgree Near DivAgree
CHECK_DEADLOCK FALSE
