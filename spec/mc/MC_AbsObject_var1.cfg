\* quick: ONE object, offsets 0..1, sizes 1/2, 2 values + Top + flagged value; from every preset all histories of <= 2 operations; every one-change variant of every reference result is judged
CONSTANTS
  NObj = 1
  OffHi = 1
  Sizes = {1, 2}
  NVals = 2
  Depth = 2
  PtrVal = FALSE
  TopVal = TRUE
  Variants = TRUE
  TwoLists = FALSE
  Presets = TRUE
INIT MCInit
NEXT MCNext
INVARIANTS Sound ListsInv RefAccepted ReadSound InitReachable Count
POSTCONDITION PostCount
CHECK_DEADLOCK FALSE
