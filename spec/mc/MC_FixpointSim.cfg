\* thorough tier, breadth: random problems and random schedules on 4 nodes with up to 5 edges
\* (module MC_FixpointSim, tlc -simulate)
CONSTANTS
  NN = 4
  MaxE = 5
  StartVals = {0, 1, 2, 3}
  Defaults = {0, 1}
  FamIdx = {1, 2, 3, 4, 5, 6}
  Bounds <- BoundsInf12
SPECIFICATION SimSpec
INVARIANT ConfigInClass MCTypeOK MCStepBound MCBelowLFP MCAboveStart MCWorklistInv MCResult MCHonestStabilized MCStabilizedIsLeast
CHECK_DEADLOCK FALSE
