--------------------------- MODULE MC_MemImage ---------------------------
(* Self-check of the memory-image oracle on small layouts, every address    *)
(* from 3 below the lowest base to 3 above the highest end, both byte       *)
(* orders.  The fast address order / offset of MemImage.tla is compared     *)
(* with the limb arithmetic of BV.tla, and the query specifications are     *)
(* checked against each other (a multi-byte read is the bytes of the        *)
(* single-byte reads; a string is the bytes read one by one up to the NUL;  *)
(* flag queries agree with the one-address interval; RoPointer agrees with  *)
(* read).  Layouts contain adjacent segments, segments whose addresses      *)
(* carry into higher bytes (..FE/..FF -> ..00) and across 2^24 and 2^32.    *)
EXTENDS MemImage, TLC

B(lo, b2, b3, b4, hi) == <<lo, b2, b3, b4, hi, 0, 0, 0>>
SegR(base, bytes, w) == [base |-> base, bytes |-> bytes, r |-> ~w, w |-> w, x |-> FALSE]
Layouts == <<
  \* two adjacent read-only segments and a writeable one after a gap of 1
  << SegR(B(16, 0, 0, 0, 0), <<104, 105, 0, 120>>, FALSE), SegR(B(20, 0, 0, 0, 0), <<121, 0, 122>>, FALSE),
     SegR(B(24, 0, 0, 0, 0), <<1, 2>>, TRUE) >>,
  \* list order differs from address order; carry into the second byte
  << SegR(B(1, 1, 0, 0, 0), <<0, 65, 66>>, FALSE), SegR(B(253, 0, 0, 0, 0), <<67, 68, 69, 70>>, FALSE) >>,
  \* across 2^24 (the low 24 bits wrap) with an empty segment at the same base as the next one
  << SegR(B(254, 255, 255, 0, 0), <<>>, FALSE), SegR(B(254, 255, 255, 0, 0), <<9, 8, 0, 7, 6>>, FALSE),
     SegR(B(3, 0, 0, 1, 0), <<5, 4, 0>>, TRUE) >>,
  \* across 2^32, writeable then read-only, adjacent; ill-formed UTF-8 in the second
  << SegR(B(253, 255, 255, 255, 0), <<1, 2, 3>>, TRUE), SegR(B(0, 0, 0, 0, 1), <<195, 164, 0, 255, 0, 97>>, FALSE) >>,
  \* at address 0
  << SegR(B(0, 0, 0, 0, 0), <<7, 0, 9>>, FALSE) >>
>>
Span == 24

\* img and the address table are state components only so that TLC computes them once per layout
VARIABLES lay, le, k, img, addrs
MinBase(L) == LET bs == {L[i].base : i \in 1..Len(L)} IN CHOOSE b \in bs : \A c \in bs : BvULe(b, c)
\* addrs[j+1] = lowest base of the layout - 3 + j   (mod 2^64)
AddrTable(L) == [j \in 1..(Span + 6) |-> Vec(BvAdd(BvSub(MinBase(L), BvFromNat(3, 8)), BvFromNat(j - 1, 8)))] \o <<>>
Init == /\ lay \in 1..Len(Layouts) /\ le \in BOOLEAN /\ k = 0
        /\ img = Image(Layouts[lay], le) /\ addrs = AddrTable(Layouts[lay])
Next == k < Span /\ k' = k + 1 /\ UNCHANGED <<lay, le, img, addrs>>
A(j) == addrs[j + 1]
a == A(k)

WellFormed == ImageOK(img)
OrderAgrees == \A j \in ({0, Span} \cup (k-2)..(k+2)) \cap 0..Span : /\ ALe(a, A(j)) = BvULe(a, A(j))
                                  /\ ALt(a, A(j)) = BvULt(a, A(j))
                                  /\ ALt(A(j), a) = BvULt(A(j), a)
OffsetAgrees == \A i \in 1..Len(img.segs) :
   /\ InSeg(img.segs[i], a) = (BvULe(img.segs[i].base, a) /\ BvULt(a, BvAdd(img.segs[i].base, BvFromNat(SegLen(img.segs[i]), 8))))
   /\ InSeg(img.segs[i], a) => Offset(img.segs[i], a) = BvToNat(BvSub(a, img.segs[i].base))
AtMostOne == Cardinality(SegIdx(img, a)) <= 1
\* a read of n bytes = the n single-byte reads, in the image's byte order; it fails/unknown accordingly
ReadBytewise == \A n \in {2, 3, 4} :
   LET r == ReadSpec(img, a, n)
       rs == [j \in 1..n |-> ReadSpec(img, A(k + j - 1), 1)]
   IN /\ r.k = "value" => \A j \in 1..n : rs[j].k = "value" /\ rs[j].v[1] = r.v[IF le THEN j ELSE n + 1 - j]
      /\ r.k = "unknown" => \A j \in 1..n : rs[j].k = "unknown"
      /\ (\E j \in 1..n : rs[j].k = "error") => r.k = "error"
      /\ Len(r.v) = (IF r.k = "value" THEN n ELSE 0)
GlobalAgrees == IsGlobalSpec(img, a) = (ReadSpec(img, a, 8).k # "error")
\* the string at a = the bytes read one by one, all non-zero, followed by a NUL in the same segment
StringBytewise ==
   StringDefined(img, a) =>
     LET s == StringSpec(img, a) IN
     s.k = "ok" => /\ \A j \in 1..Len(s.v) : ReadSpec(img, A(k + j - 1), 1).v = <<s.v[j]>> /\ s.v[j] # 0
                   /\ ReadSpec(img, A(k + Len(s.v)), 1).v = <<0>>
                   /\ SegIdx(img, A(k + Len(s.v))) = SegIdx(img, a)
FlagsAgree ==
   /\ IntervalSpecs(img, a, a, "w") = {IsWritableSpec(img, a)}
   /\ IsWritableSpec(img, a) \in IntervalSpecs(img, a, A(k + 1), "w")
   /\ (IsWritableSpec(img, a).k = "ok") = Mapped(img, a)
   /\ (ReadSpec(img, a, 1).k = "unknown") = (IsWritableSpec(img, a) = FlagOk(TRUE))
   /\ (ReadSpec(img, a, 1).k = "value") = (IsWritableSpec(img, a) = FlagOk(FALSE))
RoPointerAgrees ==
   LET p == RoPointerSpec(img, a) IN
   /\ (p.k = "ok") = (ReadSpec(img, a, 1).k = "value")
   /\ p.k = "ok" => <<p.v[p.i + 1]>> = ReadSpec(img, a, 1).v
Utf8Examples ==
   /\ Utf8OK(<<>>) /\ Utf8OK(<<65, 195, 164, 226, 130, 172, 240, 159, 152, 128>>)
   /\ ~Utf8OK(<<128>>) /\ ~Utf8OK(<<192, 128>>) /\ ~Utf8OK(<<224, 159, 128>>) /\ ~Utf8OK(<<237, 160, 128>>)
   /\ ~Utf8OK(<<244, 144, 128, 128>>) /\ ~Utf8OK(<<245, 128, 128, 128>>) /\ ~Utf8OK(<<226, 130>>)
   /\ Utf8OK(<<237, 159, 191>>) /\ Utf8OK(<<244, 143, 191, 191>>) /\ Utf8OK(<<224, 160, 128>>)
=============================================================================
