--------------------------- MODULE MC_LivenessSem ---------------------------
(***************************************************************************)
(* Mode M for X03: the reference liveness (Liveness.tla) against the IR     *)
(* reference semantics (IR.tla) -- two independently written parts of the   *)
(* specification must agree:                                                *)
(*   for every hand-written function of LivenessPrograms.tla and EVERY set  *)
(*   R of its assignments that Liveness judges acceptable, the function     *)
(*   without R emits the same observations as the function itself (memory   *)
(*   accesses, calls, returns with their target value, dead ends, each with *)
(*   all physical registers), from several initial states.                  *)
(* The product machine is EquivMonitor (C10); the cases are computed here.  *)
(* Sets containing a Load are left out: IR.tla makes every memory read an   *)
(* observation, while the X03 statement allows removing a load of a dead    *)
(* register.                                                                *)
(* Non-vacuity: the first three cases are REJECTED removals, one per way a  *)
(* liveness analysis can go wrong here (register read by a conditional      *)
(* return, temporary read by a return's target expression, address of a     *)
(* load); the monitor must report exactly these (lines <<"BAD", case, ..>>; *)
(* the driver compares the set of reported cases with Expected = {1, 2, 3}).*)
(***************************************************************************)
EXTENDS EquivMonitor, FiniteSets
LP == INSTANCE LivenessPrograms
LV == INSTANCE Liveness

AssignTids(f) == UNION {{f.blocks[b].defs[d].tid : d \in {x \in DOMAIN f.blocks[b].defs : f.blocks[b].defs[x].k = "assign"}} : b \in DOMAIN f.blocks}
Without(f, S) ==
  [f EXCEPT !.blocks = [b \in DOMAIN f.blocks |-> [f.blocks[b] EXCEPT !.defs = SelectSeq(@, LAMBDA d : d.tid \notin S)]]]

C8(x) == <<x, 0, 0, 0, 0, 0, 0, 0>>
Pick(s, i) == s[1 + (i % Len(s))]
Inits == [i \in 1..6 |-> << [n |-> "RAX", v |-> C8(Pick(<<1, 2, 3>>, i))], [n |-> "RBX", v |-> C8(Pick(<<0, 5>>, i))],
                           [n |-> "RCX", v |-> C8(Pick(<<32, 48, 7>>, i))], [n |-> "RSP", v |-> <<0, 112, 0, 0, 0, 0, 0, 0>>],
                           [n |-> "ZF", v |-> <<i % 2>>] >>]
Case(k, S) == [pass |-> "liveness", prog |-> k, removed |-> S, p1 |-> LP!Progs[k], p2 |-> Without(LP!Progs[k], S),
               sp |-> LP!RSP, le |-> TRUE, seed |-> 7, physregs |-> LP!PhysSeq, inits |-> Inits]

RECURSIVE SetToSeq(_)
SetToSeq(S) == IF S = {} THEN <<>> ELSE LET x == CHOOSE y \in S : TRUE IN <<x>> \o SetToSeq(S \ {x})
AcceptedPairs == UNION {{<<k, S>> : S \in {S2 \in SUBSET AssignTids(LP!Progs[k]) : LV!BadRemovalsOfSub(LP!Progs[k], S2, LP!Phys) = {}}} : k \in DOMAIN LP!Progs}
Cases == TLCEval(LET ps == SetToSeq(AcceptedPairs) IN [i \in DOMAIN ps |-> Case(ps[i][1], ps[i][2])])
\* one REJECTED removal per defect class of the implementation: conditional return (P5 d1), return through a temporary (P5 d7),
\* address of a load (P4 d1)
NegCases == << Case(5, {"d1"}), Case(5, {"d7"}), Case(4, {"d1"}) >>

ASSUME Cardinality(AcceptedPairs) = 4 + 2 + 4 + 1 + 1 + 2 + 1
ASSUME \A i \in DOMAIN NegCases : LV!BadRemovalsOfSub(NegCases[i].p1, NegCases[i].removed, LP!Phys) # {}

AllCases == TLCEval(NegCases \o Cases)
Expected == {1, 2, 3}
MInit == Init(AllCases)
MNext == Next(AllCases)
=============================================================================
