\* thorough: two lists, one object, offsets 0..1, size 1, presets, histories of <= 3 operations; variants judged
CONSTANTS
  NObj = 1
  OffHi = 1
  Sizes = {1}
  NVals = 2
  Depth = 3
  PtrVal = FALSE
  TopVal = TRUE
  Variants = TRUE
  TwoLists = TRUE
  Presets = TRUE
INIT MCInit
NEXT MCNext
INVARIANTS Sound ListsInv RefAccepted ReadSound InitReachable Count
POSTCONDITION PostCount
CHECK_DEADLOCK FALSE
