SPECIFICATION MCSpec
CONSTANTS
  MaxLen = 2
  Alphabet <- AlphaB
  Emitting = TRUE
INVARIANT Grammar FoldsAgree ScanAgrees
CHECK_DEADLOCK FALSE
