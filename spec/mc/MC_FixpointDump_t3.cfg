\* the problems of MC_Fixpoint_t3.cfg (thorough instance: 3 nodes); edge sets of 3 edges: a sample
\* of 12 transfer assignments per partial problem
CONSTANTS
  NN = 3
  MaxE = 3
  StartVals = {0, 1, 3}
  Defaults = {0}
  FamIdx = {1, 2, 4, 6}
  Bounds <- BoundsInf1
  FullUpTo = 2
  SampleT = 12
INIT DInit
NEXT DNext
CHECK_DEADLOCK FALSE
