\* liveness, thorough tier: all problems of the quick safety instance (2 nodes, up to 3 edges)
CONSTANTS
  NN = 2
  MaxE = 3
  StartVals = {0, 1, 3}
  Defaults = {0, 1}
  FamIdx = {1, 2, 3, 4, 5, 6}
  Bounds <- BoundsInf1
SPECIFICATION FairSpec
PROPERTY Termination
CHECK_DEADLOCK FALSE
