INIT Init
NEXT Next
INVARIANT TaintChecks
INVARIANT ParamChecks
INVARIANT ReachChecks
INVARIANT CallSiteChecks
CHECK_DEADLOCK FALSE
