\* quick instance 2: flagged domain (DataDomain<BitvectorDomain>); region A free over offsets -1..1,
\* sizes 1/2; region B frozen to one of 12 partner regions
CONSTANTS
  NegOff = 1
  OffHi = 1
  Sizes = {1, 2}
  Doms = {"flagged"}
  NVals = 1
  ShiftMag = {1, 2}
  FreeB = FALSE
INIT MCInit
NEXT MCNext
INVARIANTS NoOverlap NoTopStored SizesPositive ClearTopNoop ObserversAgree MergeAlgebra MergeClause CountCases
POSTCONDITION PostCases
CHECK_DEADLOCK FALSE
