\* quick instance 2: flagged domain (DataDomain<BitvectorDomain>); region A free over offsets -1..0,
\* sizes 1/2; region B frozen to one of NPart partner regions
CONSTANTS
  NegOff = 1
  OffHi = 0
  Sizes = {1, 2}
  Doms = {"flagged"}
  NVals = 1
  ShiftMag = {1}
  FreeB = FALSE
  NPart = 12
INIT MCInit
NEXT MCNext
INVARIANTS NoOverlap NoTopStored SizesPositive ClearTopNoop ObserversAgree MergeAlgebra MergeClause CountCases
POSTCONDITION PostCases
CHECK_DEADLOCK FALSE
