SPECIFICATION SSpec
CONSTANT Counts <- C222
CONSTRAINT Emit
CHECK_DEADLOCK FALSE
