\* thorough: both programs, both directions, two start values, 720 configurations (analyses); every order of
\* applying the equations
CONSTANTS
  ProgIdx = {1, 2}
  Dirs = {"fwd", "bwd"}
  StartVals = {1, 3}
  FamDef = {1, 2}
  FamJump = {1, 4, 5}
  FamSpec = {1, 4}
  FamCall = {1, 7}
  FamStub = {2}
  FamSplit = {1, 5}
  FamTwo = {1, 2, 3, 4, 5}
SPECIFICATION MCSpec
INVARIANT InClass LfpSolves BelowLFP FixpointIsLFP
CHECK_DEADLOCK FALSE
