INIT InitQ
NEXT Next
INVARIANT GammaAgree IllFormed TopAll WideQ SampledQ Incl CondAgree NearQ DivAgreeQ
CHECK_DEADLOCK FALSE
