INIT InitQ
NEXT Next
INVARIANT GammaAgree IllFormed TopAll WideQ SampledQ Incl DivAgreeQ
CHECK_DEADLOCK FALSE
