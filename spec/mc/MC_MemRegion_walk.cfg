\* spec -> impl, random walks: NWalks x 2 domains random histories of Depth operations, both regions free,
\* offsets -2..5, sizes 1/2/4 (deterministic in -seed; run with -workers 1)
CONSTANTS
  NegOff = 2
  OffHi = 5
  Sizes = {1, 2, 4}
  Doms = {"flat", "flagged"}
  NVals = 2
  ShiftMag = {1, 2, 3}
  FreeB = TRUE
  NPart = 12
  Depth = 40
  NWalks = 20
  Seed = 1
INIT HInit
NEXT HNextWalk
ACTION_CONSTRAINT PrintAtDepth
INVARIANTS NoOverlap NoTopStored
CHECK_DEADLOCK FALSE
