------------------------------ MODULE MC_Walk ------------------------------
(***************************************************************************)
(* Mode M for the walker / checker specifications (C14-C17): TLC evaluates *)
(* Checkers.tla, TaintWalk.tla and ParamWalk.tla on small HAND-WRITTEN      *)
(* projects whose expected results were derived by hand from the property   *)
(* statements (and mirror the situations of the repository's unit /         *)
(* acceptance tests: checked and unchecked malloc results, TOCTOU with an   *)
(* intermediate call, chroot with and without chdir).  This validates the   *)
(* specification's own definitions before they judge the implementation.    *)
(***************************************************************************)
EXTENDS Checkers, TLC
TW == INSTANCE TaintWalk
PW == INSTANCE ParamWalk

\* ---- term constructors (encoding of harness/src/irenc.rs) ----
V(n) == [n |-> n, s |-> 8, t |-> FALSE]
EV(n) == [k |-> "var", v |-> V(n)]
EC(x) == [k |-> "const", c |-> <<x, 0, 0, 0, 0, 0, 0, 0>>]
EB(op, a, b) == [k |-> "bin", op |-> op, l |-> a, r |-> b]
Asg(t, v, e) == [tid |-> t, k |-> "assign", v |-> V(v), e |-> e]
Ld(t, v, a) == [tid |-> t, k |-> "load", v |-> V(v), a |-> a]
St(t, a, e) == [tid |-> t, k |-> "store", a |-> a, e |-> e]
JBr(t, to) == [tid |-> t, addr |-> t, k |-> "branch", t |-> to]
JCb(t, to, c) == [tid |-> t, addr |-> t, k |-> "cbranch", t |-> to, c |-> c]
JCall(t, to, ret) == [tid |-> t, addr |-> t, k |-> "call", t |-> to, ret |-> ret]
JRet(t) == [tid |-> t, addr |-> t, k |-> "return", e |-> EC(0)]
Blk(t, defs, jmps) == [tid |-> t, addr |-> t, defs |-> defs, jmps |-> jmps, ind |-> <<>>]
Sub(t, name, blocks) == [tid |-> t, addr |-> t, name |-> name, cconv |-> "", blocks |-> blocks]
RegArg(n) == [k |-> "reg", e |-> EV(n)]
Ext(name, params, rets, noret) ==
  [tid |-> "extern_" \o name, name |-> name, cconv |-> "", params |-> params, rets |-> rets, noret |-> noret, varargs |-> FALSE]
StdCc == [name |-> "__stdcall", params |-> <<V("RDI"), V("RSI"), V("RDX")>>, fparams |-> <<>>,
          rets |-> <<V("RAX")>>, frets |-> <<>>, saved |-> <<V("RBX"), V("RBP"), V("RSP")>>]
Proj(subs, externs) == [program |-> [subs |-> subs, externs |-> externs], sp |-> V("RSP"), cconvs |-> <<StdCc>>]

Externs == <<Ext("malloc", <<RegArg("RDI")>>, <<RegArg("RAX")>>, FALSE),
             Ext("free", <<RegArg("RDI")>>, <<>>, FALSE),
             Ext("access", <<RegArg("RDI")>>, <<RegArg("RAX")>>, FALSE),
             Ext("open", <<RegArg("RDI")>>, <<RegArg("RAX")>>, FALSE),
             Ext("chroot", <<RegArg("RDI")>>, <<RegArg("RAX")>>, FALSE),
             Ext("chdir", <<RegArg("RDI")>>, <<RegArg("RAX")>>, FALSE),
             Ext("setuid", <<RegArg("RDI")>>, <<RegArg("RAX")>>, FALSE),
             Ext("exit", <<RegArg("RDI")>>, <<>>, TRUE)>>

(***************************************************************************)
(* Taint / parameter programs.  f:                                          *)
(*   b0: RBX := RDI; call malloc -> b1                                      *)
(*   b1: ZF := (COND == 0); cbranch b3 if ZF; branch b2                      *)
(*   b2: RCX := load RAX; RDX := RSI; return                                 *)
(*   b3: return                                                             *)
(* COND = RAX: the result is checked on both edges -> no warning.           *)
(* COND = RBX: the check is on another value      -> warning (load in b2).  *)
(* Parameters: RDI is read in b0 (and passed to malloc); RSI is read in b2  *)
(* only AFTER the call clobbered it (not callee-saved) -> not a parameter;  *)
(* RDX is never read.                                                       *)
(***************************************************************************)
TaintProg(cond) ==
  Proj(<<Sub("sub_f", "f",
          <<Blk("b0", <<Asg("d0", "RBX", EV("RDI"))>>, <<JCall("c0", "extern_malloc", "b1")>>),
            Blk("b1", <<Asg("d1", "ZF", EB("IntEqual", EV(cond), EC(0)))>>, <<JCb("j1", "b3", EV("ZF")), JBr("j2", "b2")>>),
            Blk("b2", <<Ld("d2", "RCX", EV("RAX")), Asg("d3", "RDX", EV("RSI"))>>, <<JRet("r2")>>),
            Blk("b3", <<>>, <<JRet("r3")>>)>>)>>, Externs)
MallocCall == <<1, 1, 1>>       \* sub 1, block 1, jump 1

TaintChecks ==
  LET CA == TW!Context(TaintProg("RAX"))
      CB == TW!Context(TaintProg("RBX"))
  IN  /\ TW!SourceCalls(CA, <<"malloc", "calloc">>) = {MallocCall}
      /\ ~TW!Warn(CA, MallocCall)
      /\ TW!Warn(CB, MallocCall)
      /\ TW!InClassCall(CA, MallocCall) /\ TW!InClassCall(CB, MallocCall)
ParamChecks ==
  /\ PW!MustBeParam(PW!Context(TaintProg("RAX")), "sub_f") = {"RDI"}
  \* a callee's reads are the caller's reads when the caller has not overwritten the register:
  \* g reads RSI and returns; f calls g first thing -> RSI must be a parameter of f, too;
  \* h calls the non-returning k (reads RDX, then exit(RDI) without return site): demanded of h by the
  \* property (Full), although the analysis only transfers reads of returning paths (Returning)
  /\ LET PJ == Proj(<<Sub("sub_f", "f", <<Blk("fb0", <<>>, <<JCall("fc0", "sub_g", "fb1")>>),
                                            Blk("fb1", <<Asg("fd1", "RAX", EV("RDX"))>>, <<JRet("fr1")>>)>>),
                      Sub("sub_g", "g", <<Blk("gb0", <<Asg("gd0", "RAX", EV("RSI"))>>, <<JRet("gr0")>>)>>),
                      Sub("sub_h", "h", <<Blk("hb0", <<>>, <<JCall("hc0", "sub_k", "hb1")>>),
                                            Blk("hb1", <<>>, <<JRet("hr1")>>)>>),
                      Sub("sub_k", "k", <<Blk("kb0", <<Asg("kd0", "RAX", EV("RDX"))>>, <<JCall("kc0", "extern_exit", "")>>)>>)>>,
                    Externs)
         C == PW!Context(PJ)
         A == PW!Analysis(C)
         M == A.full
         R == A.ret
     IN  /\ M["sub_g"] = {"RSI"} /\ R["sub_g"] = {"RSI"}
         /\ M["sub_f"] = {"RSI"} /\ R["sub_f"] = {"RSI"}   \* RDX is read in fb1 only after the call clobbered it
         /\ M["sub_k"] = {"RDX", "RDI"} /\ R["sub_k"] = {"RDX"}
         /\ M["sub_h"] = {"RDX", "RDI"} /\ R["sub_h"] = {}
         /\ PW!MissReasons(C, A, "sub_k", "RDI") = {"noreturn-call-read"}
         /\ PW!MissReasons(C, A, "sub_h", "RDX") = {"callee-nonreturning-path"}

(***************************************************************************)
(* Reachability programs.  f:  b0: call access -> b1;  b1: call MID -> b2;  *)
(* b2: call open -> b3;  b3: call chroot -> b4;  b4: call LAST -> b5;        *)
(* b5: return.   g: returns.   n: does not return (no jump).                *)
(***************************************************************************)
ReachProg(mid, last) ==
  Proj(<<Sub("sub_f", "f",
          <<Blk("b0", <<>>, <<JCall("c0", "extern_access", "b1")>>),
            Blk("b1", <<>>, <<JCall("c1", mid, "b2")>>),
            Blk("b2", <<>>, <<JCall("c2", "extern_open", "b3")>>),
            Blk("b3", <<>>, <<JCall("c3", "extern_chroot", "b4")>>),
            Blk("b4", <<>>, <<JCall("c4", last, "b5")>>),
            Blk("b5", <<>>, <<JRet("r5")>>)>>),
         Sub("sub_g", "g", <<Blk("gb0", <<>>, <<JRet("gr0")>>)>>),
         Sub("sub_n", "n", <<Blk("nb0", <<>>, <<>>)>>)>>, Externs)
Sites(PJ) == LET P == PJ.program IN W367sites(P, DOMAIN Graph(P).edges, "access", "open")
N243(PJ, privs) == LET P == PJ.program IN BagSize(W243(P, DOMAIN Graph(P).edges, privs))
ReachChecks ==
  \* an internal call to a returning function lies between check and use: still reachable
  /\ Sites(ReachProg("sub_g", "extern_chdir")) = {<<1, 1, 1>>}
  \* ... to a function that never returns: the use is not reachable
  /\ Sites(ReachProg("sub_n", "extern_chdir")) = {}
  \* a second check call in between: only the second one is reported
  /\ Sites(ReachProg("extern_access", "extern_chdir")) = {<<1, 2, 1>>}
  \* chroot followed by chdir: no warning; followed by something else: warning, unless the function
  \* calls chdir AND drops privileges; chdir not imported: always a warning
  /\ N243(ReachProg("sub_g", "extern_chdir"), <<>>) = 0
  /\ N243(ReachProg("sub_g", "extern_setuid"), <<"setuid">>) = 1
  /\ N243(ReachProg("extern_chdir", "extern_setuid"), <<"setuid">>) = 0
  /\ N243(ReachProg("extern_chdir", "extern_setuid"), <<"setgid">>) = 1
CallSiteChecks ==
  LET P == ReachProg("sub_g", "extern_chdir").program IN
  /\ BagSize(W676(P, <<"open", "gets", "open">>)) = 1
  /\ BagSize(W676(P, <<"open", "access", "chroot", "chdir">>)) = 4
  /\ BagSize(W782(P)) = 0
  /\ BagSize(W426(P, <<"setuid">>)) = 0
  \* generator imported and initialiser not: only (srand, open)
  /\ DOMAIN W332(P, <<<<"srand", "rand">>, <<"srand", "open">>, <<"open", "setuid">>>>) = {{"srand", "open"}}
  /\ WellFormed(P) /\ UniqueExternNames(P)
  \* a conditionally executed call (second jump after a conditional branch) is a call site like any other
  /\ LET Q == Proj(<<Sub("sub_c", "c", <<Blk("cb0", <<>>, <<JCb("cj0", "cb1", EV("ZF")), JCall("cc0", "extern_open", "cb1")>>),
                                          Blk("cb1", <<>>, <<JCall("cc1", "extern_open", "cb0")>>)>>)>>, Externs).program
     IN  BagSize(W676(Q, <<"open">>)) = 2

VARIABLE x
Init == x = 0
Next == x < 1 /\ x' = x + 1
AllChecks == TaintChecks /\ ParamChecks /\ ReachChecks /\ CallSiteChecks
=============================================================================
