INIT Init
NEXT Next
INVARIANT SortIndependent SortSorted
CHECK_DEADLOCK FALSE
