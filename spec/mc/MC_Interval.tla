---------------------------- MODULE MC_Interval ----------------------------
(* Sanity of gamma (Interval.tla) on 1-byte intervals: for every start, every stride 0..9    *)
(* and every admissible end with at most 8 members                                           *)
(*   - the bit-vector predicate InGamma, the integer predicate InGammaI and the explicit     *)
(*     enumeration start + k*stride describe the same set (integer predicate: all 256        *)
(*     candidates; bit-vector predicate: all candidates within 9 of the interval + boundaries);*)
(*   - WellFormed accepts exactly the well-formed shapes (and rejects the three broken       *)
(*     variants: end off the stride, stride 0 with two members, stride # 0 on a singleton);   *)
(*   - gamma(top) = all values, IvIsAll holds for no other interval;                          *)
(*   - Conc (complete enumeration) and, forced through the wide code path, Members          *)
(*     (sampling: IvCount / IvMember / IvSampleIdx) only produce members, including both ends;*)
(*   - Subset / GammaEq agree with the set definitions.                                       *)
(* Plus the same for sign-extended 8-byte copies of the interval (limb arithmetic).          *)
EXTENDS Interval, TLC
VARIABLES s, st
S8 == -128..127
Grid == {-128, -127, -65, -64, -2, -1, 0, 1, 2, 63, 64, 126, 127}
Init == s \in S8 /\ st = 0
InitQ == s \in (Grid \cup {v \in S8 : v % 8 = 5}) /\ st = 0          \* quick tier: 45 starts
Next == st < 9 /\ st' = st + 1 /\ s' = s
Bv(v, w) == BvFromInt(v, w)
St8(n) == BvFromNat(n, 8)
Iv(a, b, c, w) == [w |-> w, s |-> Bv(a, w), e |-> Bv(b, w), st |-> St8(c)]
\* admissible ends for (s, st): at most 8 members
Ends == IF st = 0 THEN {s} ELSE {s + k * st : k \in 1..7} \cap S8
Explicit(a, b, c) == IF c = 0 THEN {a} ELSE {a + k * c : k \in 0..((b - a) \div c)}

GammaAgree == \A e \in Ends :
   LET x == Iv(s, e, st, 1)  xi == IvI(x)  G == Explicit(s, e, st) IN
   /\ WellFormed(x)
   /\ xi = [w |-> 1, s |-> s, e |-> e, st |-> st]
   /\ GammaEnumI(xi) = G
   /\ \A v \in S8 : InGammaI(v, xi) <=> v \in G                                   \* all 256 candidates
   /\ \A v \in (((s - 9)..(e + 9)) \cup Grid) \cap S8 : InGamma(Bv(v, 1), x) <=> v \in G
   /\ Conc(x, 1, EnumLimit) = {Bv(v, 1) : v \in G}
   /\ ~IvIsAll(x)
   /\ ~InGamma(Bv(s, 2), x)                                           \* wrong width is never a member
IllFormed == \A e \in Ends :
   /\ (st > 1 /\ e < 127 => ~WellFormed(Iv(s, e + 1, st, 1)))          \* end off the stride
   /\ (st > 0 => ~WellFormed(Iv(s, e, 0, 1)))                          \* stride 0, two members
   /\ ~WellFormed(Iv(s, s, st + 1, 1))                                  \* stride on a singleton
   /\ (s > -128 => ~WellFormed(Iv(s, s - 1, 1, 1)))                     \* start > end
   /\ ~WellFormed([w |-> 1, s |-> Bv(s, 2), e |-> Bv(s, 2), st |-> St8(0)])   \* wrong width
TopAll ==
   /\ IvIsAll(IvTop(1)) /\ WellFormed(IvTop(1)) /\ \A v \in S8 : InGamma(Bv(v, 1), IvTop(1))
   /\ IvIsAll(IvTop(8)) /\ WellFormed(IvTop(8)) /\ InGamma(Bv(s, 8), IvTop(8))
   /\ IvConst(Bv(s, 1)) = Iv(s, s, 0, 1) /\ WellFormed(IvConst(Bv(s, 8)))
\* the same interval sign-extended to 8 bytes and shifted far away from zero (carries through limbs)
Far == <<0, 0, 0, 0, 1, 0, 0, 0>>                                      \* 2^32
WideOn(SS) == s \in SS => \A e \in Ends :
   LET x == Iv(s, e, st, 8)  G == Explicit(s, e, st)
       y == [x EXCEPT !.s = BvSub(@, Far), !.e = BvSub(@, Far)]
       big == [w |-> 8, s |-> Bv(s, 8), e |-> BvAdd(Bv(s, 8), BvMul(St8(7), <<0, 0, 0, st, 0, 0, 0, 0>>)),
               st |-> <<0, 0, 0, st, 0, 0, 0, 0>>]                     \* stride st * 2^24 (not "small")
   IN /\ WellFormed(x) /\ WellFormed(y) /\ WellFormed(big)
      /\ \A v \in (s - 2)..(e + 2) : InGamma(Bv(v, 8), x) <=> v \in G
      /\ \A v \in (s - 2)..(e + 2) : InGamma(BvSub(Bv(v, 8), Far), y) <=> v \in G
      /\ Members(x, s + 200) = {Bv(v, 8) : v \in G}                    \* <= 41 members: all of them
      /\ BvToNat(IvCount(x)) = Cardinality(G) - 1
      /\ (st > 0 => /\ InGamma(big.e, big) /\ ~InGamma(BvAdd(big.s, St8(st)), big)
                    /\ IvCount(big) = St8(7)
                    /\ Cardinality(Members(big, 5)) = 8 /\ \A m \in Members(big, 5) : InGamma(m, big))
Wide == WideOn(Grid)
WideQ == st \in {0, 1, 3, 8} => WideOn({-128, -1, 0, 127})     \* quick tier
\* the byte-wise fast paths of division / divisibility against the bitwise reference of BV.tla
DivAgreeOn(SS) == s \in SS =>
   \A b \in {St8(st + 1), <<0, 0, 0, st + 1, 0, 0, 0, 0>>, <<st + 1, 0, 0, 0, 1, 0, 0, 0>>, <<0, 0, 96 + st, 0, 0, 0, 0, 0>>} :
   \A a \in {Bv(s, 8), <<s % 256, 1, 2, 3, 4, 5, 6, 7>>, BvMul(b, <<(s + 128) % 256, 3, 0, 0, 0, 0, 0, 0>>), <<0, 0, 0, s % 256, 0, 0, 0, 0>>} :
      /\ BvUDivFast(a, b) = BvUDiv(a, b)
      /\ BvDivides(b, a) <=> BvIsZero(BvURem(a, b))
DivAgree == DivAgreeOn({-128, -1, 0, 77, 127})
DivAgreeQ == st \in {0, 2, 7} => DivAgreeOn({-1, 77})
\* sampling of long intervals: only members, both ends, the members around zero
SampledOn(k) == s % k = 0 =>
   LET lo == Bv(s * 1000 - 50000, 8)
       x == [w |-> 8, s |-> lo, e |-> BvAdd(lo, BvMul(St8(st + 1), St8(30000))), st |-> St8(st + 1)]
       M == Members(x, s + 128 + st)
   IN /\ WellFormed(x)
      /\ \A m \in M : InGamma(m, x)
      /\ x.s \in M /\ x.e \in M /\ Cardinality(M) >= 8
      /\ (BvSign(x.s) = 1 /\ BvSign(x.e) = 0 =>
            \E m \in M : BvSign(m) = 0 /\ BvToNat(m) < st + 1 /\ BvSub(m, St8(st + 1)) \in M)
      /\ ~IvIsAll(x) /\ Subset(x, IvTop(8), 3) /\ ~Subset(IvTop(8), x, 3) /\ GammaEq(x, x, 4)
      /\ \A m \in Members(IvTop(8), st) : Len(m) = 8
Sampled == SampledOn(4)
SampledQ == SampledOn(32)
\* the integer comparison conditions of C04 against the cross-checked BVInt operations and BV.tla
CondAgree == st = 0 => \A c \in S8 :
   /\ CondHoldsI("sle", s, c) <=> IBinOp("IntSLessEqual", ToU(s), ToU(c)) = 1
   /\ CondHoldsI("ule", s, c) <=> IBinOp("IntLessEqual", ToU(s), ToU(c)) = 1
   /\ CondHoldsI("sge", s, c) <=> IBinOp("IntSLessEqual", ToU(c), ToU(s)) = 1
   /\ CondHoldsI("uge", s, c) <=> IBinOp("IntLessEqual", ToU(c), ToU(s)) = 1
   /\ CondHoldsI("ne", s, c) <=> IBinOp("IntNotEqual", ToU(s), ToU(c)) = 1
   /\ \A k \in RefKinds : CondHoldsI(k, s, c) <=> CondHolds(k, Bv(s, 1), Bv(c, 1))
\* IvMembersNear: exactly the members with index within N+1 above / N below the bound
NearOn(SS) == s \in SS => \A e \in Ends : \A v \in {s - 3, s + 1, e, e + 2} \cap S8 :
   LET x == Iv(s, e, st, 8)
       G == Explicit(s, e, st)
       below == {g \in G : g <= v}
       kd == IF below = {} THEN 0 ELSE Cardinality(below) - 1
       want == {g \in G : \E k \in (kd - 1)..(kd + 2) : g = s + k * st}
   IN IvMembersNear(x, Bv(v, 8), 1) = {Bv(g, 8) : g \in want}
Near == NearOn(Grid)
NearQ == st \in {0, 1, 3, 8} => NearOn({-128, -1, 0, 120})
\* Subset / GammaEq against the set definitions (1 byte), partner intervals [t, t+3d] stride d
Incl == \A e \in Ends : \A t \in {s - 1, s, s + 1} \cap S8 : \A d \in {0, 1, st, 2 * st} :
   LET x == Iv(s, e, st, 1)
       te == IF d = 0 THEN t ELSE t + d * 3
       y == Iv(t, te, d, 1)
   IN te \in S8 =>
      /\ Subset(x, y, 1) <=> (Explicit(s, e, st) \subseteq Explicit(t, te, d))
      /\ GammaEq(x, y, 1) <=> (Explicit(s, e, st) = Explicit(t, te, d))
      /\ Subset(x, IvTop(1), 1) /\ ~Subset(IvTop(1), x, 1)
      /\ Upper(x, y, IvTop(1), 1)
=============================================================================
