SPECIFICATION MCSpec
CONSTANTS
  MaxLen = 1
  Alphabet <- AlphaC
  Emitting = TRUE
INVARIANT Grammar FoldsAgree ScanAgrees
CHECK_DEADLOCK FALSE
