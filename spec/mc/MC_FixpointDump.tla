-------------------------- MODULE MC_FixpointDump --------------------------
(***************************************************************************)
(* spec -> impl direction of C07: writes the fixpoint problems that the    *)
(* model-checking instance MC_Fixpoint explores (the cfg values of its     *)
(* "ready" states: every partial problem of MCInit completed by MCSetup)   *)
(* as ndjson to the file named by the environment variable C07_DUMP.  The  *)
(* harness replays them on the real solver under every priority order      *)
(* (harness/src/props/c07.rs, sub "mc") and T_C07 validates those runs.    *)
(*                                                                         *)
(* For edge sets with more than FullUpTo edges only SampleT transfer       *)
(* assignments per partial problem are written (a deterministic sample:    *)
(* the complete set would be several 10^5 problems for 3 nodes).           *)
(***************************************************************************)
EXTENDS MC_Fixpoint, Json, IOUtils, SequencesExt

CONSTANTS FullUpTo, SampleT

Complete(S, st, d, b, t) ==
  [Partial(S, st, d, b) EXCEPT !.tr = [e \in 1..Cardinality(S) |-> Fam[t[e]]]]

\* which transfer assignments of an edge set are written
RECURSIVE SqSum(_)
SqSum(S) == IF S = {} THEN 0 ELSE LET x == CHOOSE x \in S : TRUE IN x * x + SqSum(S \ {x})
Assignments(S, st, b) ==
  IF Cardinality(S) <= FullUpTo THEN [1..Cardinality(S) -> FamIdx]
  ELSE {[e \in 1..Cardinality(S) |-> ((SqSum(S) + 7 * st[1] + 3 * st[NN] + b + j * (2 * e + 1) + e * e * j) % 6) + 1] : j \in 1..SampleT} \cap [1..Cardinality(S) -> FamIdx]

Configs ==
  UNION {{Complete(S, st, d, b, t) : t \in Assignments(S, st, b)} :
           S \in EdgeSets, st \in StartTuples, d \in Defaults, b \in Bounds}

ASSUME ndJsonSerialize(IOEnv.C07_DUMP, SetToSeq(Configs))
ASSUME PrintT(<<"DUMPED", Cardinality(Configs)>>)

\* (a behaviour specification is required because the module has variables; it is trivial)
DInit == cfg = 0 /\ lfp = 0 /\ val = 0 /\ wl = 0 /\ steps = 0 /\ cur = 0 /\ unstable = 0 /\ phase = 0
DNext == FALSE /\ UNCHANGED vars
=============================================================================
