-------------------------- MODULE MC_InterprocFix --------------------------
(***************************************************************************)
(* Bounded instance of InterprocFix.tla (mode M of X01).                   *)
(*  (1) Hand-derived solutions: for the hand-written program PA (every     *)
(*      edge kind: defs, a conditional with both branches, an internal     *)
(*      call with TWO returning blocks - one of them ending in             *)
(*      `cbranch; return` -, an extern call stub) and hand-written         *)
(*      analyses over the chain 1 < 2 < 3 < 4 the least solution written   *)
(*      out by hand below must equal LFPOf, in both directions, including  *)
(*      the variants "the callee is never entered" (a return is NOT        *)
(*      propagated when the user's update_return wants both values),       *)
(*      "update_return takes whatever value exists" and "split_call_        *)
(*      stub answers None" (the combinator still exists).                  *)
(*  (2) Chaotic iteration: TLC chooses a program (PA, the recursive PB),   *)
(*      a direction, a start value and one member of a monotone family     *)
(*      per call-back kind, and then applies the equations ONE AT A TIME   *)
(*      IN EVERY ORDER.  Invariants: the assignment never exceeds LFPOf    *)
(*      (BelowLFP); when no equation changes anything the assignment IS    *)
(*      LFPOf (FixpointIsLFP); LFPOf solves the system (LfpSolves); the    *)
(*      generated analysis is in the class (InClass).  This validates the  *)
(*      Kleene definition against the equations it is meant to solve,      *)
(*      independently of any solver.                                       *)
(***************************************************************************)
EXTENDS InterprocFix

CONSTANTS ProgIdx,     \* which programs (1 = PA, 2 = PB)
          Dirs,        \* {"fwd", "bwd"}
          StartVals,   \* start values of the one start node
          FamDef, FamJump, FamSpec, FamCall, FamStub, FamSplit,   \* members of Fam per call-back kind
          FamTwo       \* members of Fam2 for update_return / update_callsite

----------------------------------------------------------------------------
(* program constructors (the fields Cfg.tla and InterprocFix.tla read)     *)
Df(tid) == [tid |-> tid]
Jm(tid, k, t, ret) == [tid |-> tid, k |-> k, t |-> t, ret |-> ret, c |-> [k |-> "none"]]
Cb(tid, t, flag) == [tid |-> tid, k |-> "cbranch", t |-> t, ret |-> "", c |-> [k |-> "var", v |-> [n |-> flag]]]
Bl(tid, defs, jmps) == [tid |-> tid, defs |-> defs, jmps |-> jmps, ind |-> <<>>]
Sb(tid, cconv, blocks) == [tid |-> tid, cconv |-> cconv, blocks |-> blocks]
Ex(tid) == [tid |-> tid, noret |-> FALSE]

PA == [subs |-> <<
         Sb("f", "cc_f", <<
            Bl("f0", <<Df("d1"), Df("d2")>>, <<Jm("k0", "call", "g", "f1")>>),
            Bl("f1", <<>>, <<Cb("c1", "f0", "ZF"), Jm("b1", "branch", "f2", "")>>),
            Bl("f2", <<Df("d3")>>, <<Jm("k2", "call", "x", "f3")>>),
            Bl("f3", <<>>, <<Jm("r3", "return", "", "")>>)>>),
         Sb("g", "cc_g", <<
            Bl("g0", <<Df("d4")>>, <<Cb("c4", "g1", "CF"), Jm("r4", "return", "", "")>>),
            Bl("g1", <<>>, <<Jm("r5", "return", "", "")>>)>>)>>,
       externs |-> <<Ex("x")>>]
\* f: f0: cbranch -> f1 else return;  f1: calls f itself, returns to f0
PB == [subs |-> <<
         Sb("f", "", <<
            Bl("f0", <<Df("d1")>>, <<Cb("c0", "f1", "ZF"), Jm("r0", "return", "", "")>>),
            Bl("f1", <<>>, <<Jm("k1", "call", "f", "f0")>>)>>)>>,
       externs |-> <<>>]
Progs == <<PA, PB>>
ASSUME WellFormed(PA) /\ WellFormed(PB) /\ GraphSane(PA) /\ GraphSane(PB)

BS(b, s) == Node("BlkStart", b, s, "", "")
BE(b, s) == Node("BlkEnd", b, s, "", "")
CS(b, s, b2, s2) == Node("CallSource", b, s, b2, s2)
CR(b, s, b2, s2) == Node("CallReturn", b, s, b2, s2)

----------------------------------------------------------------------------
(* (1) hand-derived solutions over the chain 1 < 2 < 3 < 4                 *)
Chain4 == [a \in 1..4 |-> [b \in 1..4 |-> IF a >= b THEN a ELSE b]]
Id4 == <<1, 2, 3, 4>>
Inc4 == <<2, 3, 4, 4>>
Non4 == <<0, 0, 0, 0>>
Ge3 == <<0, 0, 3, 4>>                  \* None unless the value is at least 3
Const2 == <<2, 2, 2, 2>>
E1(f, a, b, c, d, t) == [f |-> f, a |-> a, b |-> b, c |-> c, d |-> d, t |-> t]
\* two-value tables t[flow + 1][stub + 1]
Two(F(_, _)) == [i \in 1..5 |-> [j \in 1..5 |-> F(i - 1, j - 1)]]
Mx(a, b) == IF a >= b THEN a ELSE b
BothStub == Two(LAMBDA fl, st : IF fl # 0 /\ st # 0 THEN st ELSE 0)
BothFlow == Two(LAMBDA fl, st : IF fl # 0 /\ st # 0 THEN fl ELSE 0)
BothJoin == Two(LAMBDA fl, st : IF fl # 0 /\ st # 0 THEN Mx(fl, st) ELSE 0)
WhateverExists == Two(LAMBDA fl, st : IF fl = 0 THEN st ELSE IF st = 0 THEN fl ELSE Mx(fl, st))

\* forward analysis; `call` is the table of update_call, r4/r5 those of update_return per returning block
FwdA(call, r4, r5) ==
  [join |-> Chain4,
   t1 |-> <<E1("def", "d1", "", "", "", Inc4), E1("def", "d2", "", "", "", Id4), E1("def", "d3", "", "", "", Id4),
            E1("def", "d4", "", "", "", Inc4),
            E1("call", "k0", "g0", "g", "cc_g", call),
            E1("spec", "g0", "CF", "T", "", Ge3), E1("jump", "c4", "", "g1", "", Id4),
            E1("spec", "f1", "ZF", "T", "", Non4), E1("jump", "c1", "", "f0", "", Id4),
            E1("spec", "f1", "ZF", "F", "", Id4), E1("jump", "b1", "c1", "f2", "", Inc4),
            E1("stub", "k2", "", "", "", Const2)>>,
   t2 |-> <<E1("ret", "k0", "r4", "cc_g", "", r4), E1("ret", "k0", "r5", "cc_g", "", r5)>>]
FwdStart == <<[node |-> BS("f0", "f"), v |-> 1]>>
Asg(pairs) == [n \in {p[1] : p \in pairs} |-> (CHOOSE p \in pairs : p[1] = n)[2]]
V(v) == <<1, v, 0>>
FwdExpected1 == Asg({
  <<BS("f0", "f"), V(1)>>, <<BE("f0", "f"), V(2)>>, <<CS("f0", "f", "g0", "g"), V(2)>>,
  <<BS("g0", "g"), V(2)>>, <<BE("g0", "g"), V(3)>>, <<BS("g1", "g"), V(3)>>, <<BE("g1", "g"), V(3)>>,
  <<CR("f0", "f", "g0", "g"), <<2, 2, 3>>>>, <<CR("f0", "f", "g1", "g"), <<2, 2, 3>>>>,
  <<BS("f1", "f"), V(3)>>, <<BE("f1", "f"), V(3)>>, <<BS("f2", "f"), V(4)>>, <<BE("f2", "f"), V(4)>>,
  <<BS("f3", "f"), V(2)>>, <<BE("f3", "f"), V(2)>>})
\* the callee is never entered: the call-site value waits in the combinators, nothing returns
FwdExpected2 == Asg({
  <<BS("f0", "f"), V(1)>>, <<BE("f0", "f"), V(2)>>, <<CS("f0", "f", "g0", "g"), V(2)>>,
  <<BS("g0", "g"), Absent>>, <<BE("g0", "g"), Absent>>, <<BS("g1", "g"), Absent>>, <<BE("g1", "g"), Absent>>,
  <<CR("f0", "f", "g0", "g"), <<2, 2, 0>>>>, <<CR("f0", "f", "g1", "g"), <<2, 2, 0>>>>,
  <<BS("f1", "f"), Absent>>, <<BE("f1", "f"), Absent>>, <<BS("f2", "f"), Absent>>, <<BE("f2", "f"), Absent>>,
  <<BS("f3", "f"), Absent>>, <<BE("f3", "f"), Absent>>})
\* ... unless update_return takes whatever exists (here: the call-site value)
FwdExpected3 == [FwdExpected2 EXCEPT ![BS("f1", "f")] = V(2), ![BE("f1", "f")] = V(2), ![BS("f2", "f")] = V(3),
                                    ![BE("f2", "f")] = V(3), ![BS("f3", "f")] = V(2), ![BE("f3", "f")] = V(2)]
FwdLfp(A) == LFPOf(A, EdgeSystem(PA, A, "fwd", FwdStart, 0))

BwdA(splitcall, callsite) ==
  [join |-> Chain4,
   t1 |-> <<E1("def", "d1", "", "", "", Inc4), E1("def", "d2", "", "", "", Id4), E1("def", "d3", "", "", "", Id4),
            E1("def", "d4", "", "", "", Id4),
            E1("stub", "k2", "", "", "", Inc4),
            E1("jumpsite", "b1", "c1", "f1", "", Id4), E1("jumpsite", "c1", "", "f1", "", Non4),
            E1("jumpsite", "c4", "", "g0", "", Inc4),
            E1("splitret", "g", "", "", "", Id4), E1("splitcall", "", "", "", "", splitcall)>>,
   t2 |-> <<E1("callsite", "f", "k0", "k0", "", callsite)>>]
BwdStart == <<[node |-> BE("f3", "f"), v |-> 1]>>
BwdExpected1 == Asg({
  <<BE("f3", "f"), V(1)>>, <<BS("f3", "f"), V(1)>>, <<BE("f2", "f"), V(2)>>, <<BS("f2", "f"), V(2)>>,
  <<BE("f1", "f"), V(2)>>, <<BS("f1", "f"), V(2)>>,
  <<CR("f0", "f", "g0", "g"), V(2)>>, <<CR("f0", "f", "g1", "g"), V(2)>>,
  <<BE("g1", "g"), V(2)>>, <<BS("g1", "g"), V(2)>>, <<BE("g0", "g"), V(3)>>, <<BS("g0", "g"), V(3)>>,
  <<CS("f0", "f", "g0", "g"), <<2, 2, 3>>>>, <<BE("f0", "f"), V(3)>>, <<BS("f0", "f"), V(4)>>})
\* split_call_stub answers None: the combinator exists with an empty call-stub component
BwdExpected2 == [BwdExpected1 EXCEPT ![CS("f0", "f", "g0", "g")] = <<2, 0, 3>>, ![BE("f0", "f")] = Absent, ![BS("f0", "f")] = Absent]
BwdLfp(A) == LFPOf(A, EdgeSystem(PA, A, "bwd", BwdStart, 0))
\* a default value reaches the value-carrying nodes only
DefaultSys == EdgeSystem(PA, FwdA(Id4, BothStub, BothFlow), "fwd", <<>>, 2)

HandDerived ==
  /\ AnalysisInClass(FwdA(Id4, BothStub, BothFlow)) /\ AnalysisInClass(FwdA(Non4, WhateverExists, WhateverExists))
  /\ AnalysisInClass(BwdA(Id4, BothJoin)) /\ AnalysisInClass(BwdA(Non4, BothJoin))
  /\ EdgeSystem(PA, FwdA(Id4, BothStub, BothFlow), "fwd", FwdStart, 0).missing = {}
  /\ EdgeSystem(PA, BwdA(Id4, BothJoin), "bwd", BwdStart, 0).missing = {}
  /\ EdgeSystem(PA, FwdA(Id4, BothStub, BothFlow), "fwd", FwdStart, 0).wf
  /\ FwdLfp(FwdA(Id4, BothStub, BothFlow)) = FwdExpected1
  /\ FwdLfp(FwdA(Non4, BothStub, BothFlow)) = FwdExpected2
  /\ FwdLfp(FwdA(Non4, WhateverExists, WhateverExists)) = FwdExpected3
  /\ BwdLfp(BwdA(Id4, BothJoin)) = BwdExpected1
  /\ BwdLfp(BwdA(Non4, BothJoin)) = BwdExpected2
  /\ DefaultSys.init[BS("g1", "g")] = V(2) /\ DefaultSys.init[CR("f0", "f", "g1", "g")] = Absent
  /\ LFPOf(FwdA(Id4, BothStub, BothFlow), DefaultSys)[CR("f0", "f", "g1", "g")][1] = 2
ASSUME HandDerived

----------------------------------------------------------------------------
(* (2) chaotic iteration over a family of analyses on the subsets of {1,2} *)
Dec(k) == CASE k = 1 -> {} [] k = 2 -> {1} [] k = 3 -> {2} [] k = 4 -> {1, 2}
Enc(S) == CHOOSE k \in 1..4 : Dec(k) = S
JoinTab == [a \in 1..4 |-> [b \in 1..4 |-> Enc(Dec(a) \cup Dec(b))]]
(*   1 identity   2 add 1   3 drop 1   4 guard: None unless 1 \in x        *)
(*   5 always None   6 non-distributive: x if {1,2} \subseteq x else x\{2} *)
(*   7 add 2                                                               *)
FamFn(i, x) ==
  CASE i = 1 -> Enc(x)
    [] i = 2 -> Enc(x \cup {1})
    [] i = 3 -> Enc(x \ {1})
    [] i = 4 -> IF 1 \in x THEN Enc(x) ELSE 0
    [] i = 5 -> 0
    [] i = 6 -> IF {1, 2} \subseteq x THEN Enc(x) ELSE Enc(x \ {2})
    [] i = 7 -> Enc(x \cup {2})
Fam == [i \in 1..7 |-> [k \in 1..4 |-> FamFn(i, Dec(k))]]
(* two-value family (fl = interprocedural flow, st = call stub; 0 = None): *)
(*   1 both required, join   2 both required, the flow value               *)
(*   3 whatever exists (join)   4 the flow value, else the stub value + 1  *)
(*   5 the flow is enough (stub ignored)                                   *)
J0(a, b) == IF a = 0 THEN b ELSE IF b = 0 THEN a ELSE JoinTab[a][b]
Fam2Fn(i, fl, st) ==
  CASE i = 1 -> IF fl # 0 /\ st # 0 THEN JoinTab[fl][st] ELSE 0
    [] i = 2 -> IF fl # 0 /\ st # 0 THEN fl ELSE 0
    [] i = 3 -> J0(fl, st)
    [] i = 4 -> IF fl # 0 THEN J0(fl, IF st = 0 THEN 0 ELSE Fam[2][st]) ELSE IF st = 0 THEN 0 ELSE Fam[2][st]
    [] i = 5 -> fl
Fam2 == [i \in 1..5 |-> [a \in 1..5 |-> [b \in 1..5 |-> Fam2Fn(i, a - 1, b - 1)]]]

RECURSIVE SetToSeq(_)
SetToSeq(S) == IF S = {} THEN <<>> ELSE LET x == CHOOSE y \in S : TRUE IN <<x>> \o SetToSeq(S \ {x})
EmptyA == [join |-> JoinTab, t1 |-> <<>>, t2 |-> <<>>]
\* a choice: [p, dir, sv, def, jump, spec, call, stub, split, two]
FamOfKind(ch, f) ==
  CASE f = "def" -> ch.def [] f \in {"jump", "jumpsite"} -> ch.jump [] f = "spec" -> ch.spec
    [] f = "call" -> ch.call [] f = "stub" -> ch.stub [] f \in {"splitcall", "splitret"} -> ch.split
MkAnalysis(G, ch) ==
  LET ks == EdgeSystemG(Progs[ch.p], G, EmptyA, ch.dir, <<>>, 0).keys
      one == SetToSeq({k \in ks : k[1] \notin {"ret", "callsite"}})
      two == SetToSeq({k \in ks : k[1] \in {"ret", "callsite"}})
  IN  [join |-> JoinTab,
       t1 |-> [i \in DOMAIN one |-> E1(one[i][1], one[i][2], one[i][3], one[i][4], one[i][5], Fam[FamOfKind(ch, one[i][1])])],
       t2 |-> [i \in DOMAIN two |-> E1(two[i][1], two[i][2], two[i][3], two[i][4], two[i][5], Fam2[ch.two])]]
StartOf2(ch) ==
  IF ch.dir = "fwd" THEN <<[node |-> BS("f0", "f"), v |-> ch.sv]>>
  ELSE <<[node |-> BE(IF ch.p = 1 THEN "f3" ELSE "f0", "f"), v |-> ch.sv]>>

VARIABLES ch,     \* the chosen configuration
          an,     \* its analysis
          sys,    \* its equation system
          lfp,    \* ghost: LFPOf(an, sys)
          asg     \* the assignment being iterated
vars == <<ch, an, sys, lfp, asg>>

Choices == [p : ProgIdx, dir : Dirs, sv : StartVals, def : FamDef, jump : FamJump, spec : FamSpec, call : FamCall,
            stub : FamStub, split : FamSplit, two : FamTwo]
\* (a backward analysis has no spec / call call-backs, a forward one no split ones: fix the unused
\* choices so that no configuration is explored twice)
Relevant(c) == IF c.dir = "fwd" THEN c.split = CHOOSE x \in FamSplit : TRUE
               ELSE c.spec = (CHOOSE x \in FamSpec : TRUE) /\ c.call = (CHOOSE x \in FamCall : TRUE)

MCInit ==
  /\ ch \in {c \in Choices : Relevant(c)}
  /\ LET G == Graph(Progs[ch.p])
         A == MkAnalysis(G, ch)
         S == EdgeSystemG(Progs[ch.p], G, A, ch.dir, StartOf2(ch), 0)
     IN  an = A /\ sys = S /\ lfp = LFPOf(A, S) /\ asg = S.init

\* apply one equation that is not yet satisfied
ApplyOne(c) ==
  /\ c \in sys.ces
  /\ ~ClosedCE(an, asg, c)
  /\ asg' = [asg EXCEPT ![c.to] = XJoinT(an, @, ApplyCE(c, asg[c.from]))]
  /\ UNCHANGED <<ch, an, sys, lfp>>
MCNext == \E c \in sys.ces : ApplyOne(c)
MCSpec == MCInit /\ [][MCNext]_vars

AtStart == asg = sys.init
InClass == AtStart => AnalysisInClass(an) /\ sys.missing = {} /\ sys.wf
LfpSolves == AtStart => IsSolution(an, sys, lfp)
BelowLFP == \A n \in sys.nodes : XLeqT(an, asg[n], lfp[n])
FixpointIsLFP == (\A c \in sys.ces : ClosedCE(an, asg, c)) => asg = lfp
\* something is computed at all: the start value reaches other nodes in some configuration
\* (checked by the driver through -coverage of ApplyOne)
=============================================================================
