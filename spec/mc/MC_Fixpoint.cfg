\* quick tier: ALL problems on 2 nodes (any set of at most 3 of the 4 possible edges, self-loops
\* included; 6 transfers per edge; start values none / {} / {2} per node; default none / {};
\* bound Inf / 1) and ALL schedules of each, including needless re-queues and early give-ups.
CONSTANTS
  NN = 2
  MaxE = 3
  StartVals = {0, 1, 3}
  Defaults = {0, 1}
  FamIdx = {1, 2, 3, 4, 5, 6}
  Bounds <- BoundsInf1
SPECIFICATION MCSpec
INVARIANT ConfigInClass LfpIsLeast MCTypeOK MCStepBound MCBelowLFP MCAboveStart MCWorklistInv MCResult MCHonestStabilized MCStabilizedIsLeast
CHECK_DEADLOCK FALSE
