\* thorough: two objects, offsets 0..1, size 1, 2 values + pointer value + Top; every pair of presets; one operation; variants judged
CONSTANTS
  NObj = 2
  OffHi = 1
  Sizes = {1}
  NVals = 2
  Depth = 1
  PtrVal = TRUE
  TopVal = TRUE
  Variants = TRUE
  TwoLists = FALSE
  Presets = TRUE
INIT MCInit
NEXT MCNext
INVARIANTS Sound ListsInv RefAccepted ReadSound InitReachable Count
POSTCONDITION PostCount
CHECK_DEADLOCK FALSE
