\* quick instance 3 (small): the read / merge clauses of the property for every argument in every
\* reachable state (ReadClauses) AND as action properties on every transition; both domains
CONSTANTS
  NegOff = 0
  OffHi = 1
  Sizes = {1, 2}
  Doms = {"flat", "flagged"}
  NVals = 1
  ShiftMag = {1}
  FreeB = FALSE
  NPart = 12
INIT MCInit
NEXT MCNext
INVARIANTS NoOverlap NoTopStored SizesPositive ClearTopNoop ObserversAgree MergeAlgebra MergeClause CountCases ReadClauses
PROPERTIES ReadAfterWrite MergeOnly
POSTCONDITION PostCases
CHECK_DEADLOCK FALSE
