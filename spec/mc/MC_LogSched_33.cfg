SPECIFICATION SSpec
CONSTANT Counts <- C33
CONSTRAINT Emit
CHECK_DEADLOCK FALSE
