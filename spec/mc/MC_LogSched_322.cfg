SPECIFICATION SSpec
CONSTANT Counts <- C322
CONSTRAINT Emit
CHECK_DEADLOCK FALSE
