\* quick instance 1: flat domain (BitvectorDomain); region A free over offsets -1..2, sizes 1/2/4;
\* region B frozen to one of NPart partner regions
CONSTANTS
  NegOff = 1
  OffHi = 2
  Sizes = {1, 2, 4}
  Doms = {"flat"}
  NVals = 2
  ShiftMag = {1, 2, 3}
  FreeB = FALSE
  NPart = 12
INIT MCInit
NEXT MCNext
INVARIANTS NoOverlap NoTopStored SizesPositive ClearTopNoop ObserversAgree MergeAlgebra MergeClause CountCases
POSTCONDITION PostCases
CHECK_DEADLOCK FALSE
