SPECIFICATION SafetySpec
CONSTANTS
  Senders <- Senders2
  Script <- Script2
INVARIANTS TypeOK Delivered GeneralOrder LastWins FoldRefinement OneTerminate OracleAgree
PROPERTIES Refines AbsInit
CHECK_DEADLOCK FALSE
