SPECIFICATION Spec
CONSTANTS
  Senders <- Senders2
  Script <- Script2
INVARIANTS TypeOK Delivered GeneralOrder LastWins FoldRefinement OneTerminate OracleAgree
PROPERTIES Refines AbsInit CollectorTerminates CollectReturns DropReturns
CHECK_DEADLOCK FALSE
