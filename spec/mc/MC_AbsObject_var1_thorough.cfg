\* thorough: one object, offsets 0..2, sizes 1/2, 2 values + pointer value + Top + flagged value; presets; <= 2 operations; variants judged
CONSTANTS
  NObj = 1
  OffHi = 2
  Sizes = {1, 2}
  NVals = 2
  Depth = 2
  PtrVal = TRUE
  TopVal = TRUE
  Variants = TRUE
  TwoLists = FALSE
  Presets = TRUE
INIT MCInit
NEXT MCNext
INVARIANTS Sound ListsInv RefAccepted ReadSound InitReachable Count
POSTCONDITION PostCount
CHECK_DEADLOCK FALSE
