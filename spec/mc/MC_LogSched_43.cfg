SPECIFICATION SSpec
CONSTANT Counts <- C43
CONSTRAINT Emit
CHECK_DEADLOCK FALSE
