CONSTANTS
  AVals = {0, 1, 2, 3, 7, 8, 9, 15, 16, 17, 31, 64, 100, 127, 128, 129, 200, 253, 254, 255}
INIT Init
NEXT Next
INVARIANT OpsAgree AliasLaws PoisonLaws RamLaws BlockRun
CHECK_DEADLOCK FALSE
