CONSTANTS
  AVals = {0, 1, 7, 8, 127, 128, 129, 255}
INIT Init
NEXT Next
INVARIANT OpsAgree AliasLaws PoisonLaws RamLaws BlockRun
CHECK_DEADLOCK FALSE
