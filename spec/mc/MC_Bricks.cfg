CONSTANTS
  Alphabet = {97, 98}
  L = 3
  Elems <- ElemsQuick
  MaxSetSize = 2
  MaxB = 2
  MidSets <- MidSetsQuick
INIT Init
NEXT Next
INVARIANT OneBrick TwoBricks ThreeBricks
CHECK_DEADLOCK FALSE
