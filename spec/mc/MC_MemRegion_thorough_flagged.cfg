\* thorough instance 3: flagged domain, two absolute values; region A free over offsets -1..2, sizes 1/2
CONSTANTS
  NegOff = 1
  OffHi = 2
  Sizes = {1, 2}
  Doms = {"flagged"}
  NVals = 2
  ShiftMag = {1, 2}
  FreeB = FALSE
  NPart = 12
INIT MCInit
NEXT MCNext
INVARIANTS NoOverlap NoTopStored SizesPositive ClearTopNoop ObserversAgree MergeAlgebra MergeClause CountCases
POSTCONDITION PostCases
CHECK_DEADLOCK FALSE
