INIT Init
NEXT Next
INVARIANT WellFormed OrderAgrees OffsetAgrees AtMostOne ReadBytewise GlobalAgrees StringBytewise FlagsAgree RoPointerAgrees Utf8Examples
CHECK_DEADLOCK FALSE
