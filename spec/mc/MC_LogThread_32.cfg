SPECIFICATION SafetySpec
CONSTANTS
  Senders <- Senders2
  Script <- Script32
INVARIANTS TypeOK Delivered GeneralOrder LastWins FoldRefinement OneTerminate
PROPERTIES Refines AbsInit OracleAgree
CHECK_DEADLOCK FALSE
