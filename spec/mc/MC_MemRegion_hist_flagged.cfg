\* spec -> impl, thorough, flagged: transition coverage of the complete state graph over offsets 0..1, sizes 1/2
CONSTANTS
  NegOff = 0
  OffHi = 1
  Sizes = {1, 2}
  Doms = {"flagged"}
  NVals = 1
  ShiftMag = {1}
  FreeB = FALSE
  NPart = 12
  Depth = 0
  NWalks = 1
  Seed = 1
INIT HInit
NEXT HNext
VIEW View
ACTION_CONSTRAINT PrintEvery
INVARIANTS NoOverlap NoTopStored
CHECK_DEADLOCK FALSE
