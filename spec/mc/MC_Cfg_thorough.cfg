CONSTANT Layouts <- LayoutsThorough
INIT Init
NEXT Next
INVARIANT Sane
CHECK_DEADLOCK FALSE
