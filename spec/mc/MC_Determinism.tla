--------------------------- MODULE MC_Determinism ---------------------------
(* All arrival orders of all bags of <= 4 records over a 3-value key.       *)
EXTENDS Determinism, TLC
Keys == 1..3
VARIABLES arr, done     \* arr: the arrival sequence built so far
Init == arr = <<>> /\ done = FALSE
Next == \/ /\ Len(arr) < 4 /\ ~done /\ \E k \in Keys : arr' = Append(arr, k) /\ done' = FALSE
        \/ /\ ~done /\ done' = TRUE /\ arr' = arr
Perms(s) == {p \in [1..Len(s) -> 1..Len(s)] : \A i, j \in 1..Len(s) : i # j => p[i] # p[j]}
Permuted(s, p) == [i \in 1..Len(s) |-> s[p[i]]]
\* sorting makes the output independent of the arrival order
SortIndependent == done => \A p \in Perms(arr) : SortSeq(Permuted(arr, p)) = SortSeq(arr)
IsSorted(s) == \A i \in 1..(Len(s) - 1) : s[i] <= s[i + 1]
SortSorted == done => IsSorted(SortSeq(arr)) /\ Len(SortSeq(arr)) = Len(arr)
\* ... whereas last-wins de-duplication is order dependent: this invariant is EXPECTED to be violated
\* (checked separately by MC_Determinism_lastwins.cfg, which must report a violation)
AsRecs(s) == [i \in 1..Len(s) |-> <<1, s[i]>>]      \* all records at the same address
LastWinsIndependent == done => \A p \in Perms(arr) :
      LastPerAddr(AsRecs(Permuted(arr, p)), <<>>) = LastPerAddr(AsRecs(arr), <<>>)
=============================================================================
