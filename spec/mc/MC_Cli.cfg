SPECIFICATION Spec
INVARIANT TypeOK DefaultSkipsCWE78 LkmSubset PartialExact AnalysesBeforeUse NoUnneededAnalysis PrintedMeansAllRan
PROPERTY Completes
CHECK_DEADLOCK FALSE
