SPECIFICATION MCSpec
CONSTANTS
  MaxLen = 4
  NIs = {0, 1, 3, 6}
  NFs = {0, 1, 8}
  Ks = {0, 1, 3}
  ModelIds = {1, 2, 3}
  Emitting = TRUE
INVARIANT InClass ClosedFormAgrees StackIndependent NoSharing InBounds InOrder Counters
CHECK_DEADLOCK FALSE
