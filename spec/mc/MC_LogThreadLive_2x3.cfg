SPECIFICATION Spec
CONSTANTS
  Senders <- Senders2
  Script <- Script2x3
PROPERTIES CollectorTerminates CollectReturns DropReturns
CHECK_DEADLOCK FALSE
