\* thorough tier, 3 nodes: any set of at most 3 of the 9 possible edges, all schedules.
CONSTANTS
  NN = 3
  MaxE = 3
  StartVals = {0, 1, 3}
  Defaults = {0}
  Bounds <- BoundsInf12
SPECIFICATION MCSpec
INVARIANT ConfigInClass LfpIsLeast MCTypeOK MCStepBound MCBelowLFP MCAboveStart MCWorklistInv MCResult MCHonestStabilized MCStabilizedIsLeast
CHECK_DEADLOCK FALSE
