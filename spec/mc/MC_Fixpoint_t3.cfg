\* thorough tier, 3 nodes: any set of at most 3 of the 9 possible edges, all schedules.
\* (the always-blocked transfer 5 is left to the 2-node instances: 5^3 instead of 6^3 assignments)
CONSTANTS
  NN = 3
  MaxE = 3
  StartVals = {0, 1, 3}
  Defaults = {0}
  FamIdx = {1, 2, 3, 4, 6}
  Bounds <- BoundsInf1
SPECIFICATION MCSpec
INVARIANT ConfigInClass LfpIsLeast MCTypeOK MCStepBound MCBelowLFP MCAboveStart MCWorklistInv MCResult MCHonestStabilized MCStabilizedIsLeast
CHECK_DEADLOCK FALSE
