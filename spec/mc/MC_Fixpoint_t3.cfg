\* thorough tier, 3 nodes: any set of at most 3 of the 9 possible edges, all schedules.
\* (transfers: id, add 1, guard, non-distributive; drop 1 and always-blocked are left to the 2-node
\* instances: 4^3 instead of 6^3 assignments)
CONSTANTS
  NN = 3
  MaxE = 3
  StartVals = {0, 1, 3}
  Defaults = {0}
  FamIdx = {1, 2, 4, 6}
  Bounds <- BoundsInf1
SPECIFICATION MCSpec
INVARIANT ConfigInClass LfpIsLeast MCTypeOK MCStepBound MCBelowLFP MCAboveStart MCWorklistInv MCResult MCHonestStabilized MCStabilizedIsLeast
CHECK_DEADLOCK FALSE
