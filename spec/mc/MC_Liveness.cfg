INIT Init
NEXT Next
INVARIANT HandLiveness
INVARIANT HandAccepted
INVARIANT Fixpoint
INVARIANT AssignOnly
INVARIANT Structure
CHECK_DEADLOCK FALSE
