CONSTANTS
  CIAlphabet = {97, 98, 99}
  CIL = 2
INIT Init
NEXT Next
INVARIANT One Two
CHECK_DEADLOCK FALSE
