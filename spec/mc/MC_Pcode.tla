----------------------------- MODULE MC_Pcode -----------------------------
(* Self-check of the P-Code reference interpreter (Pcode.tla), mode M:     *)
(*  - OpsAgree: every integer / boolean mnemonic agrees with the           *)
(*    independent integer transcription BVInt.tla on all pairs (a, b) of   *)
(*    1-byte operands with a in AVals (MC_Pcode.cfg: 8 boundary values,   *)
(*    MC_Pcode_thorough.cfg: all 256) and b in 0..255, under the intended  *)
(*    mnemonic -> operation table below;                                   *)
(*  - AliasLaws: the register views (RegView / ReadReg / WriteReg) satisfy *)
(*    the byte-wise statement of aliasing for every ordered pair of views  *)
(*    of a table with nested sub-registers, lsb > 0, middle pieces and     *)
(*    same-name smaller registers;                                         *)
(*  - PoisonLaws, RamLaws, BlockRun: poison discipline, implicit memory    *)
(*    operands, and the observations of a hand-written block.              *)
EXTENDS Integers, Sequences, FiniteSets, TLC, BVInt
P == INSTANCE Pcode
I == INSTANCE IR
CONSTANTS AVals            \* values of the first operand (U8 in the thorough instance)
VARIABLES a, b
Init == a \in AVals /\ b = 0
Next == b < 255 /\ b' = b + 1 /\ a' = a

AsBv(r, w) == IF r = IUnknown THEN I!Poison ELSE [i \in 1..w |-> (r \div (256 ^ (i - 1))) % 256]

BinTable == << <<"INT_EQUAL", "IntEqual">>, <<"INT_NOTEQUAL", "IntNotEqual">>, <<"INT_LESS", "IntLess">>, <<"INT_SLESS", "IntSLess">>,
               <<"INT_LESSEQUAL", "IntLessEqual">>, <<"INT_SLESSEQUAL", "IntSLessEqual">>, <<"INT_ADD", "IntAdd">>, <<"INT_SUB", "IntSub">>,
               <<"INT_CARRY", "IntCarry">>, <<"INT_SCARRY", "IntSCarry">>, <<"INT_SBORROW", "IntSBorrow">>, <<"INT_XOR", "IntXOr">>,
               <<"INT_AND", "IntAnd">>, <<"INT_OR", "IntOr">>, <<"INT_LEFT", "IntLeft">>, <<"INT_RIGHT", "IntRight">>,
               <<"INT_SRIGHT", "IntSRight">>, <<"INT_MULT", "IntMult">>, <<"BOOL_XOR", "BoolXOr">>, <<"BOOL_AND", "BoolAnd">>,
               <<"BOOL_OR", "BoolOr">>, <<"PIECE", "Piece">> >>
DivTable == << <<"INT_DIV", "IntDiv">>, <<"INT_REM", "IntRem">>, <<"INT_SDIV", "IntSDiv">>, <<"INT_SREM", "IntSRem">> >>
ResSize(op) == IF op = "Piece" THEN 2
               ELSE IF op \in {"IntEqual", "IntNotEqual", "IntLess", "IntSLess", "IntLessEqual", "IntSLessEqual",
                               "IntCarry", "IntSCarry", "IntSBorrow", "BoolXOr", "BoolAnd", "BoolOr"} THEN 1 ELSE 1

OpsAgree ==
  /\ \A k \in 1..Len(BinTable) :
       P!EvalBin(BinTable[k][1], <<a>>, <<b>>, ResSize(BinTable[k][2])) = AsBv(IBinOp(BinTable[k][2], a, b), ResSize(BinTable[k][2]))
  /\ \A k \in 1..Len(DivTable) :                       \* division by zero: the convention of IR.tla
       P!EvalBin(DivTable[k][1], <<a>>, <<b>>, 1) =
         (IF b = 0 THEN (IF DivTable[k][2] \in {"IntDiv", "IntSDiv"} THEN <<255>> ELSE <<a>>) ELSE AsBv(IBinOp(DivTable[k][2], a, b), 1))
  /\ P!EvalUn("INT_NEGATE", <<a>>, 1) = AsBv(IUnOp("IntNegate", a), 1)
  /\ P!EvalUn("INT_2COMP", <<a>>, 1) = AsBv(IUnOp("Int2Comp", a), 1)
  /\ P!EvalUn("BOOL_NEGATE", <<a>>, 1) = AsBv(IUnOp("BoolNegate", a), 1)
  /\ P!EvalUn("COPY", <<a, b>>, 2) = <<a, b>>
  /\ \A s \in 1..3 : /\ P!EvalUn("INT_ZEXT", <<a>>, s) = AsBv(ICast("IntZExt", a, s), s)
                     /\ P!EvalUn("INT_SEXT", <<a>>, s) = AsBv(ICast("IntSExt", a, s), s)
                     /\ P!EvalUn("POPCOUNT", <<a>>, s) = AsBv(ICast("PopCount", a, s), s)
                     /\ P!EvalUn("LZCOUNT", <<a>>, s) = AsBv(ICast("LzCount", a, s), s)
  /\ P!EvalUn("INT_ZEXT", <<a, b>>, 1) = I!Poison                      \* an extension never shrinks
  /\ P!EvalUn("POPCOUNT", <<a, b>>, 1) = <<IPop(a) + IPop(b)>>
  \* SUBPIECE: in1 = number of low bytes dropped, the size lives in the output varnode
  /\ P!EvalBin("SUBPIECE", <<a, b, 7, 9>>, <<0, 0, 0, 0>>, 2) = <<a, b>>
  /\ P!EvalBin("SUBPIECE", <<a, b, 7, 9>>, <<1, 0, 0, 0>>, 2) = <<b, 7>>
  /\ P!EvalBin("SUBPIECE", <<a, b, 7, 9>>, <<3>>, 1) = <<9>>
  /\ P!EvalBin("SUBPIECE", <<a, b, 7, 9>>, <<3>>, 2) = I!Poison
  /\ P!EvalBin("PIECE", <<a, 1>>, <<b>>, 3) = <<b, a, 1>>                \* in0 is the most significant part
  \* inconsistent operand sizes and floating point are Poison
  /\ P!EvalBin("INT_ADD", <<a>>, <<b, 0>>, 1) = I!Poison
  /\ P!EvalBin("BOOL_AND", <<a, 0>>, <<b, 0>>, 1) = I!Poison
  /\ P!EvalBin("FLOAT_ADD", <<a, 0, 0, 0>>, <<b, 0, 0, 0>>, 4) = I!Poison
  /\ P!EvalUn("FLOAT_SQRT", <<a, 0, 0, 0>>, 4) = I!Poison
  \* shift amounts of any size
  /\ P!EvalBin("INT_LEFT", <<a>>, <<b, 0, 0, 0>>, 1) = AsBv(IBinOp("IntLeft", a, b), 1)
  /\ P!EvalBin("INT_RIGHT", <<a>>, <<b, 1>>, 1) = <<0>>

(***************************************************************************)
(* Aliasing                                                                *)
(***************************************************************************)
R(reg, base, lsb, size) == [reg |-> reg, base |-> base, lsb |-> lsb, size |-> size]
Table == << R("RAX", "RAX", 0, 8), R("EAX", "RAX", 0, 4), R("AX", "RAX", 0, 2), R("AL", "RAX", 0, 1), R("AH", "RAX", 1, 1),
            R("XMM0", "XMM0", 0, 16), R("XMM0_Qb", "XMM0", 8, 8), R("XMM0_Dc", "XMM0", 8, 4), R("XMM0_Db", "XMM0", 4, 4),
            R("ZF", "ZF", 0, 1) >>
\* (name, size): named registers and same-name smaller registers
Views == << <<"RAX", 8>>, <<"RAX", 6>>, <<"EAX", 4>>, <<"EAX", 3>>, <<"AX", 2>>, <<"AL", 1>>, <<"AH", 1>>, <<"XMM0", 16>>,
            <<"XMM0", 12>>, <<"XMM0_Qb", 8>>, <<"XMM0_Qb", 6>>, <<"XMM0_Dc", 4>>, <<"XMM0_Dc", 2>>, <<"XMM0_Db", 4>>, <<"ZF", 1>>,
            <<"R9", 8>> >>                            \* a register outside the table is a register of its own
Regs0 == [x \in {"RAX", "XMM0", "ZF", "R9"} |->
            CASE x = "RAX" -> [i \in 1..8 |-> 16 + i] [] x = "XMM0" -> [i \in 1..16 |-> 64 + i] [] x = "ZF" -> <<1>>
              [] x = "R9" -> [i \in 1..8 |-> 128 + i]]
View(k) == P!RegView(Table, Views[k][1], Views[k][2])
Val(k) == [i \in 1..Views[k][2] |-> (a + 3 * i) % 256]

AliasLaws ==
  LET kv == 1 + (b % Len(Views))                        \* b enumerates all ordered pairs of the 16 views
      ku == 1 + ((b \div Len(Views)) % Len(Views))
      v == View(kv)
      u == View(ku)
      regs1 == P!WriteReg(Table, v, Val(kv), Regs0)
      \* byte p (1-based position in the base register) after the write, stated byte-wise
      Byte(base, p) == IF base = v.base /\ p > v.lsb /\ p <= v.lsb + v.size THEN Val(kv)[p - v.lsb] ELSE Regs0[base][p]
  IN /\ P!ReadReg(v, regs1) = Val(kv)                                                    \* read after write
     /\ P!ReadReg(u, regs1) = [j \in 1..u.size |-> Byte(u.base, u.lsb + j)]             \* every other view sees exactly these bytes
     /\ DOMAIN regs1 = DOMAIN Regs0
     /\ \A x \in DOMAIN Regs0 : Len(regs1[x]) = Len(Regs0[x])
     /\ (ku = kv \/ u.base # v.base \/ u.lsb >= v.lsb + v.size \/ v.lsb >= u.lsb + u.size) \/ P!ReadReg(u, regs1) # P!ReadReg(u, Regs0)
            \/ \A j \in 1..u.size : Byte(u.base, u.lsb + j) = Regs0[u.base][u.lsb + j]

PoisonLaws ==
  LET kv == 1 + (b % Len(Views))
      v == View(kv)
      bs == P!BaseSize(Table, v.base, v.size)
      poisoned == P!WriteReg(Table, v, I!Poison, Regs0)
      again == P!WriteReg(Table, v, Val(kv), poisoned)
  IN /\ v.base \notin DOMAIN poisoned                                     \* Poison is tracked per base register
     /\ P!ReadReg(v, poisoned) = I!Poison
     /\ (v.lsb = 0 /\ v.size = bs) => again = P!WriteReg(Table, v, Val(kv), Regs0)       \* a complete overwrite heals
     /\ ~(v.lsb = 0 /\ v.size = bs) => v.base \notin DOMAIN again
     /\ P!WriteReg(Table, v, <<1>> \o Val(kv), Regs0) = poisoned          \* a value of the wrong size is Poison

(***************************************************************************)
(* Implicit memory operands, a block                                       *)
(***************************************************************************)
N == [k |-> "none", n |-> "", s |-> 0, c |-> <<>>, a |-> <<>>]
Reg(n, s) == [k |-> "reg", n |-> n, s |-> s, c |-> <<>>, a |-> <<>>]
Uniq(n, s) == [k |-> "uniq", n |-> n, s |-> s, c |-> <<>>, a |-> <<>>]
Cst(c) == [k |-> "const", n |-> "", s |-> Len(c), c |-> c, a |-> <<>>]
Ram(lo, s) == [k |-> "ram", n |-> "", s |-> s, c |-> <<>>, a |-> <<lo, 16, 96, 0, 0, 0, 0, 0>>]
Op(m, out, i0, i1, i2) == [tid |-> "t", m |-> m, out |-> out, in0 |-> i0, in1 |-> i1, in2 |-> i2]
Jmp(m, t, v, ret, c) == [tid |-> "j", m |-> m, t |-> t, v |-> v, ret |-> ret, c |-> c, hints |-> <<>>]
EnvLE == [seed |-> 7, le |-> TRUE, ptr |-> 8, regtable |-> Table]
EnvBE == [EnvLE EXCEPT !.le = FALSE]
Env4 == [EnvLE EXCEPT !.ptr = 4]
St0 == [regs |-> Regs0, uniq |-> I!EmptyFcn, mem |-> I!EmptyFcn, obs |-> <<>>, n |-> 0, pc |-> [k |-> "blk", t |-> "b0"]]
Addr8(lo) == <<lo, 16, 96, 0, 0, 0, 0, 0>>

RamLaws == \A env \in {EnvLE, EnvBE} :
  LET s1 == P!StepOp(Op("COPY", Ram(a, 2), Cst(<<b, 7>>), N, N), St0, env)            \* ram := const
      s2 == P!StepOp(Op("INT_ADD", Reg("AX", 2), Ram(a, 2), Cst(<<1, 0>>), N), s1, env)  \* AX := ram + 1
      s3 == P!StepOp(Op("STORE", N, Cst(<<1>>), Reg("R9", 8), Ram(a, 2)), s2, env)      \* [R9] := ram
      s4 == P!StepOp(Op("LOAD", Reg("AH", 1), Cst(<<1>>), Ram(a, 8), N), St0, env)      \* AH := [[ram]]
  IN /\ Len(s1.obs) = 1 /\ s1.obs[1].k = "write" /\ s1.obs[1].a = Addr8(a) /\ s1.obs[1].v = <<b, 7>> /\ s1.obs[1].s = 2
     /\ Len(s2.obs) = 2 /\ s2.obs[2].k = "read" /\ s2.obs[2].v = <<b, 7>> /\ s2.obs[2].a = Addr8(a)
     /\ P!ReadReg(P!RegView(Table, "AX", 2), s2.regs) = I!BvAdd(<<b, 7>>, <<1, 0>>)
     /\ P!ReadReg(P!RegView(Table, "RAX", 8), s2.regs) = I!BvAdd(<<b, 7>>, <<1, 0>>) \o SubSeq(Regs0["RAX"], 3, 8)
     /\ Len(s3.obs) = 4 /\ s3.obs[3].k = "read" /\ s3.obs[4].k = "write" /\ s3.obs[4].a = Regs0["R9"] /\ s3.obs[4].v = <<b, 7>>
     /\ I!LoadBytes(s3.mem, Regs0["R9"], 2, env) = <<b, 7>>
     /\ Len(s4.obs) = 2 /\ s4.obs[1].k = "read" /\ s4.obs[1].s = 8 /\ s4.obs[2].k = "read" /\ s4.obs[2].a = s4.obs[1].v /\ s4.obs[2].s = 1
     /\ P!ReadReg(P!RegView(Table, "AH", 1), s4.regs) = s4.obs[2].v
     /\ P!ReadVarnode(Ram(a, 1), St0, Env4).st.obs[1].a = <<a, 16, 96, 0>>              \* pointer-sized address

Blk(js) == [tid |-> "b0", defs |-> << Op("INT_LESS", Reg("AH", 1), Cst(<<a>>), Cst(<<b>>), N),
                                       Op("INT_ZEXT", Uniq("$U1", 4), Reg("AH", 1), N, N),
                                       Op("COPY", Reg("XMM0_Dc", 4), Uniq("$U1", 4), N, N) >>, jmps |-> js]
BlockRun ==
  LET cb == P!RunBlock(Blk(<<Jmp("CBRANCH", "t1", N, "", Reg("AH", 1)), Jmp("BRANCH", "t2", N, "", N)>>), St0, EnvLE)
      ij == P!RunBlock(Blk(<<Jmp("BRANCHIND", "", Ram(a, 8), "", N)>>), St0, EnvLE)
      ci == P!RunBlock(Blk(<<Jmp("CALLIND", "", Reg("XMM0_Qb", 8), "r", N)>>), St0, EnvLE)
      ca == P!RunBlock(Blk(<<Jmp("CALL", "f", N, "", N)>>), St0, EnvLE)
      re == P!RunBlock(Blk(<<Jmp("RETURN", "", Reg("R9", 8), "", N)>>), St0, EnvLE)
      lt == IF a < b THEN 1 ELSE 0
  IN /\ cb.pc = [k |-> "blk", t |-> IF a < b THEN "t1" ELSE "t2"] /\ cb.obs = <<>>
     /\ cb.regs["RAX"][2] = lt /\ cb.regs["RAX"][1] = Regs0["RAX"][1]
     /\ SubSeq(cb.regs["XMM0"], 9, 12) = <<lt, 0, 0, 0>> /\ SubSeq(cb.regs["XMM0"], 1, 8) = SubSeq(Regs0["XMM0"], 1, 8)
     /\ SubSeq(cb.regs["XMM0"], 13, 16) = SubSeq(Regs0["XMM0"], 13, 16)
     /\ Len(ij.obs) = 2 /\ ij.obs[1].k = "read" /\ ij.obs[2].k = "indjmp" /\ ij.obs[2].a = ij.obs[1].v /\ ij.pc.k = "end"
     /\ Len(ci.obs) = 1 /\ ci.obs[1].k = "callind" /\ ci.obs[1].a = <<lt, 0, 0, 0>> \o SubSeq(Regs0["XMM0"], 13, 16)
     /\ ci.pc = [k |-> "blk", t |-> "r"]
     /\ ca.obs[1].k = "call" /\ ca.obs[1].t = "f" /\ ca.pc = [k |-> "end", t |-> "call-noreturn"]
     /\ re.obs[1].k = "return" /\ re.obs[1].a = Regs0["R9"] /\ re.pc = [k |-> "end", t |-> "return"]
=============================================================================
