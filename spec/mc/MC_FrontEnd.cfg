CONSTANTS
  Fuel = 40
INIT MInit
NEXT MNext
INVARIANT IStepOK
INVARIANT PStepOK
CHECK_DEADLOCK FALSE
