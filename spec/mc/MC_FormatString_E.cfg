SPECIFICATION MCSpec
CONSTANTS
  MaxLen = 3
  Alphabet <- AlphaE
  Emitting = TRUE
INVARIANT Grammar FoldsAgree ScanAgrees
CHECK_DEADLOCK FALSE
