\* liveness, quick tier: every fair run of every problem on 2 nodes with at most 2 edges finishes
\* (Termination); the safety invariants are checked by MC_Fixpoint.cfg.  No CONSTRAINT: a
\* constraint could hide a cycle.
CONSTANTS
  NN = 2
  MaxE = 2
  StartVals = {0, 1, 3}
  Defaults = {0, 1}
  FamIdx = {1, 2, 3, 4, 5, 6}
  Bounds <- BoundsInf1
SPECIFICATION FairSpec
PROPERTY Termination
CHECK_DEADLOCK FALSE
