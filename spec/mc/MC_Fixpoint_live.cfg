\* liveness on 2 nodes: every fair run of every problem finishes (Termination); the safety
\* invariants are checked by MC_Fixpoint.cfg.  No CONSTRAINT: a constraint could hide a cycle.
CONSTANTS
  NN = 2
  MaxE = 3
  StartVals = {0, 1, 3}
  Defaults = {0}
  Bounds <- BoundsInf1
SPECIFICATION FairSpec
PROPERTY Termination
CHECK_DEADLOCK FALSE
