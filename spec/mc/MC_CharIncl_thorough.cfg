CONSTANTS
  CIAlphabet = {97, 98, 99}
  CIL = 3
INIT Init
NEXT Next
INVARIANT One Two
CHECK_DEADLOCK FALSE
