----------------------------- MODULE MC_Equiv -----------------------------
(* Self-check of the equivalence monitor (EquivMonitor.tla) on hand-written *)
(* function pairs, 24 initial states each: pairs that ARE equivalent must   *)
(* never be reported, the three defect patterns of DESIGN.md section 7 and  *)
(* a use of an unassigned temporary must be reported.  The driver compares  *)
(* the set of reported cases with Expected (lib/checks/c10.py).             *)
EXTENDS EquivMonitor
V(n, s) == [n |-> n, s |-> s, t |-> FALSE]
T(n, s) == [n |-> n, s |-> s, t |-> TRUE]
Var(n, s) == [k |-> "var", v |-> V(n, s)]
Tmp(n, s) == [k |-> "var", v |-> T(n, s)]
Const(c) == [k |-> "const", c |-> c]
Bin(op, l, r) == [k |-> "bin", op |-> op, l |-> l, r |-> r]
Asg(t, v, e) == [tid |-> t, k |-> "assign", v |-> v, e |-> e]
Ld(t, v, a) == [tid |-> t, k |-> "load", v |-> v, a |-> a]
St(t, a, e) == [tid |-> t, k |-> "store", a |-> a, e |-> e]
Br(t, to) == [tid |-> t, addr |-> "0", k |-> "branch", t |-> to]
CBr(t, to, c) == [tid |-> t, addr |-> "0", k |-> "cbranch", t |-> to, c |-> c]
Ret(t) == [tid |-> t, addr |-> "0", k |-> "return", e |-> Var("LR", 2)]
Call(t, f, r) == [tid |-> t, addr |-> "0", k |-> "call", t |-> f, ret |-> r]
Blk(t, defs, jmps) == [tid |-> t, addr |-> "0", defs |-> defs, jmps |-> jmps, ind |-> <<>>]
Fn(blocks) == [tid |-> "f", blocks |-> blocks]

X == Var("X", 1)
Y == Var("Y", 1)
SPm(n) == Bin("IntSub", Var("SP", 2), Const(<<n, 0>>))
Inits == [i \in 1..24 |-> << [n |-> "X", v |-> <<(i - 1) % 12>>], [n |-> "Y", v |-> <<5 + (i \div 13)>>],
                             [n |-> "ZF", v |-> <<i % 2>>], [n |-> "SP", v |-> <<0, 32>>], [n |-> "LR", v |-> <<i, 1>>] >>]
Case(name, p1, p2) == [pass |-> name, p1 |-> Fn(p1), p2 |-> Fn(p2), sp |-> V("SP", 2), le |-> TRUE, seed |-> 3,
                       physregs |-> <<V("X", 1), V("Y", 1), V("ZF", 1), V("SP", 2), V("LR", 2)>>, inits |-> Inits]

\* a loop with a store, a load, a call and a conditional exit
Loop == << Blk("b0", << Asg("d0", V("X", 1), Bin("IntAdd", X, Const(<<1>>))), St("d1", SPm(2), X),
                        Ld("d2", T("$U1", 1), SPm(2)), Asg("d3", V("ZF", 1), Bin("IntLess", Tmp("$U1", 1), Y)) >>,
               << CBr("j0", "b0", Var("ZF", 1)), Br("j1", "b1") >>),
           Blk("b1", <<>>, << Call("j2", "g", "b2") >>),
           Blk("b2", << St("d4", SPm(4), Y) >>, << Ret("j3") >>) >>
\* ZF := (X - Y) == c ; if ZF then [SP-2] := X ; return
Cmp(e) == << Blk("b0", << Asg("d0", V("ZF", 1), e) >>, << CBr("j0", "b1", Var("ZF", 1)), Br("j1", "b2") >>),
             Blk("b1", << St("d1", SPm(2), X) >>, << Br("j2", "b2") >>),
             Blk("b2", <<>>, << Ret("j3") >>) >>
D == Bin("IntSub", X, Y)
\* X := Y ; goto b1 ; b1: X := [SP-2] ; [SP-4] := X (resp. the stale Y) ; return
Stale(e) == << Blk("b0", << Asg("d0", V("X", 1), Y) >>, << Br("j0", "b1") >>),
               Blk("b1", << Ld("d1", V("X", 1), SPm(2)), St("d2", SPm(4), e) >>, << Ret("j1") >>) >>
\* entry block b0 is an empty forwarding block that is also the target of a back edge
EntryA == << Blk("b0", <<>>, << Br("j0", "b2") >>),
             Blk("b1", << St("d1", SPm(2), X) >>, << Ret("j1") >>),
             Blk("b2", << Asg("d2", V("X", 1), Bin("IntAdd", X, Const(<<1>>))) >>,
                       << CBr("j2", "b0", Bin("IntLess", X, Y)), Br("j3", "b1") >>) >>
EntryB == << Blk("b1", << St("d1", SPm(2), X) >>, << Ret("j1") >>),
             Blk("b2", << Asg("d2", V("X", 1), Bin("IntAdd", X, Const(<<1>>))) >>,
                       << CBr("j2", "b2", Bin("IntLess", X, Y)), Br("j3", "b1") >>) >>
EntryOK == << Blk("b0", <<>>, << Br("j0", "b2") >>), EntryB[1], EntryB[2] >>
\* $U1 := X + Y ; ZF := $U1 == 0 (dead, overwritten by the callee) ; call ; return
Dead(withdef) == << Blk("b0", (IF withdef THEN << Asg("d0", T("$U1", 1), Bin("IntAdd", X, Y)) >> ELSE <<>>) \o
                              << St("d1", SPm(2), Tmp("$U1", 1)) >>, << Ret("j0") >>) >>
DeadT(withdef) == << Blk("b0", << Asg("d0", T("$U1", 1), Bin("IntAdd", X, Y)) >> \o
                               (IF withdef THEN << Asg("d1", T("$U2", 1), Tmp("$U1", 1)) >> ELSE <<>>),
                               << Call("j0", "g", "b1") >>),
                    Blk("b1", <<>>, << Ret("j1") >>) >>

HandCases == <<
  Case("same", Loop, Loop),                                                              \* 1 equivalent
  Case("eq0", Cmp(Bin("IntEqual", D, Const(<<0>>))), Cmp(Bin("IntEqual", X, Y))),        \* 2 equivalent
  Case("eq1", Cmp(Bin("IntEqual", D, Const(<<1>>))), Cmp(Bin("IntNotEqual", X, Y))),     \* 3 DIFFERENT
  Case("stale", Stale(X), Stale(Y)),                                                     \* 4 DIFFERENT
  Case("entry", EntryA, EntryB),                                                         \* 5 DIFFERENT
  Case("entryok", EntryA, EntryOK),                                                      \* 6 equivalent
  Case("deadtemp", DeadT(TRUE), DeadT(FALSE)),                                           \* 7 equivalent (temporary dead at the call)
  Case("poison", Dead(TRUE), Dead(FALSE)) >>                                             \* 8 DIFFERENT (unassigned temporary stored)
Expected == {3, 4, 5, 8}
MInit == Init(HandCases)
MNext == Next(HandCases)
=============================================================================
