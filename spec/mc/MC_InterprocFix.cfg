\* quick: both programs, both directions; 48 configurations (analyses), every order of applying the equations
CONSTANTS
  ProgIdx = {1, 2}
  Dirs = {"fwd", "bwd"}
  StartVals = {1}
  FamDef = {2}
  FamJump = {1, 4}
  FamSpec = {4}
  FamCall = {1, 7}
  FamStub = {2}
  FamSplit = {1, 5}
  FamTwo = {1, 3, 4}
SPECIFICATION MCSpec
INVARIANT InClass LfpSolves BelowLFP FixpointIsLFP
CHECK_DEADLOCK FALSE
