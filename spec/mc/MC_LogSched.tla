----------------------------- MODULE MC_LogSched -----------------------------
(* spec -> impl direction of C25: TLC enumerates ALL sequential schedules of  *)
(* the specification LogThreadAbs for the given numbers of messages per      *)
(* sender (shapes) - every order of the senders' sends, with the owner's collect()    *)
(* or drop at every position (sends behind it included) - and prints each    *)
(* completed schedule once.  The driver (lib/checks/c25.py) turns the        *)
(* printed lines into a file; harness/src/props/c25.rs executes every        *)
(* schedule with ONE driver thread against the real LogThread and records    *)
(* the usual events, which T_C25 then validates.                             *)
(*                                                                           *)
(* "Sequential" = at most one operation is in progress (state constraint     *)
(* below): that is what a single driver thread can execute.  The internal    *)
(* steps Enqueue / SendTerminate are still separate steps of the machine.    *)
(* hist entries:  s > 0  sender s sends its next message;  0  collect();     *)
(*                -1  the LogThread is dropped.                              *)
EXTENDS LogThreadAbs

CONSTANT CountsSet     \* set of shapes; a shape c gives the number c[s] of messages of sender s
Quick == {<<3, 3>>, <<2, 2, 2>>}
Thorough == {<<3, 3>>, <<2, 2, 2>>, <<4, 3>>, <<3, 2, 2>>, <<2, 2, 1, 1>>}
VARIABLES Counts,      \* the shape of this behaviour (chosen initially, constant)
          hist, n
S == 1..Len(Counts)
svars == <<spc, cur, fold, termd, opc, result, Counts, hist, n>>

Idle == /\ \A s \in S : spc[s] = "idle"
        /\ opc \in {"idle", "collected", "dropped"}
Msg(s, k) == [id |-> 10 * s + k, kind |-> "log", txt |-> 10 * s + k, addrs |-> <<>>]

SInit == Counts \in CountsSet /\ InitWith(S) /\ hist = <<>> /\ n = [s \in S |-> 0]
SNext ==
  \/ \E s \in S : /\ Idle /\ n[s] < Counts[s]
                  /\ SendStart(s, Msg(s, n[s] + 1))
                  /\ hist' = Append(hist, s) /\ n' = [n EXCEPT ![s] = @ + 1] /\ UNCHANGED Counts
  \/ \E s \in S : (Enqueue(s) \/ SendEnd(s)) /\ UNCHANGED <<Counts, hist, n>>
  \/ Idle /\ CollectStart /\ hist' = Append(hist, 0) /\ UNCHANGED <<Counts, n>>
  \/ Idle /\ DropStart /\ hist' = Append(hist, -1) /\ UNCHANGED <<Counts, n>>
  \/ (SendTerminate \/ CollectEndExact \/ DropEnd) /\ UNCHANGED <<Counts, hist, n>>
SSpec == SInit /\ [][SNext]_svars

Complete == Idle /\ opc # "idle" /\ \A s \in S : n[s] = Counts[s]
\* CONSTRAINT: always TRUE; prints every completed schedule (hist is part of the state, so each
\* schedule is one state; the driver de-duplicates anyway)
Emit == IF Complete THEN PrintT(<<"SCHED", Counts, hist>>) ELSE TRUE
=============================================================================
