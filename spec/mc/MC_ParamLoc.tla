---------------------------- MODULE MC_ParamLoc ----------------------------
(* Bounded instances of the allocation machine spec/ParamLoc.tla (X04).      *)
(*  - Init chooses a call configuration: data model (x86-32, x86-64, a       *)
(*    32-bit and a 64-bit architecture without return address on the stack)  *)
(*    x NI integer x NF float parameter registers x K fixed parameters       *)
(*    placed as the convention places them (pointer-sized slots).            *)
(*  - Next places one more variadic argument (four actions: integer / float  *)
(*    class argument into a register / onto the stack): EVERY sequence of argument     *)
(*    types up to MaxLen over {Integer (int), Pointer (long / pointer),      *)
(*    Double, Char (promoted to int)} is explored (BFS).                     *)
(*  - The specification is checked against itself: machine = closed form =   *)
(*    macro step (ClosedFormAgrees), and the design invariants NoSharing,    *)
(*    InBounds, InOrder, Counters of ParamLoc.tla.                           *)
(*  - spec -> impl: every explored behaviour is printed as one JSON line     *)
(*    {"arch","ptr","ni","nf","k","args":[{t,s}],"locs":[{k,i,off,size}]};   *)
(*    the harness builds a Project / calling convention / extern symbol of   *)
(*    that shape, calls the real calculate_parameter_locations and T_X04     *)
(*    judges the recorded result.                                            *)
EXTENDS ParamLoc, TLC, Json

CONSTANTS MaxLen,     \* longest argument list
          NIs, NFs,   \* numbers of integer / float parameter registers
          Ks,         \* numbers of fixed parameters
          ModelIds,   \* subset of 1..4 (indices into Models)
          Emitting

\* data models: pointer size (= stack pointer size = slot size of fixed stack parameters)
Models == << [arch |-> "x86_32", ptr |-> 4], [arch |-> "x86_64", ptr |-> 8],
             [arch |-> "arm32", ptr |-> 4], [arch |-> "aarch64", ptr |-> 8] >>
\* the argument alphabet of a data model: int, long/pointer, double, char (passed as int)
ArgsOf(m) == { [t |-> "Integer", s |-> 4], [t |-> "Pointer", s |-> m.ptr],
               [t |-> "Double", s |-> 8], [t |-> "Char", s |-> 4] }

\* k fixed integer-class parameters placed by a convention with n integer registers
FixedOf(n, k, m) ==
  LET b == RetAddrSlot(m.arch, m.ptr)
  IN [j \in 1..k |-> IF j <= n THEN IReg(j) ELSE Slot(b + (j - n - 1) * m.ptr, m.ptr)]
Config(n, f, k, m) == [ni |-> n, nf |-> f, base |-> RetAddrSlot(m.arch, m.ptr), fixed |-> FixedOf(n, k, m)]

VARIABLE model
mvars == <<pvars, model>>

MCInit == \E n \in NIs, f \in NFs, k \in Ks, mi \in ModelIds :
            /\ model = Models[mi]
            /\ Start(Config(n, f, k, Models[mi]))
Behaviour == [arch |-> model.arch, ptr |-> model.ptr, ni |-> cfg.ni, nf |-> cfg.nf, k |-> Len(cfg.fixed),
              args |-> args', locs |-> locs']
\* one disjunct per action of the machine (so that -coverage counts each of them)
Step(A(_)) == /\ Len(args) < MaxLen
              /\ \E a \in ArgsOf(model) : A(a)
              /\ UNCHANGED model
              /\ (Emitting => PrintT(ToJson(Behaviour)))
MCIntToReg == Len(args) < MaxLen /\ Step(IntToReg)
MCIntToStack == Len(args) < MaxLen /\ Step(IntToStack)
MCFloatToReg == Len(args) < MaxLen /\ Step(FloatToReg)
MCFloatToStack == Len(args) < MaxLen /\ Step(FloatToStack)
MCNext == MCIntToReg \/ MCIntToStack \/ MCFloatToReg \/ MCFloatToStack
MCSpec == MCInit /\ [][MCNext]_mvars

\* the configurations are in the input class of the statement
InClass == Conforming(cfg) /\ ArgsOK(args)
\* incremental machine = closed form = macro step
ClosedFormAgrees ==
  /\ locs = Locate(cfg, args)
  /\ LET st == RunState(cfg, args) IN st.locs = locs /\ st.ni = ni /\ st.nf = nf /\ st.off = off
\* register and stack assignment are independent: the stack consumption is the sum of the spilled sizes
StackIndependent ==
  off = FirstFreeOffset(cfg) + StackBytesBefore(cfg, args, Len(args) + 1)
=============================================================================
