------------------------------ MODULE MC_Cfg ------------------------------
(***************************************************************************)
(* Self-check of Cfg.tla (mode M).                                         *)
(*  (1) Hand-derived graphs: the specification applied to small programs   *)
(*      must equal node/edge bags written out by hand below - among them   *)
(*      the three programs the repository's own graph tests use            *)
(*      (graph.rs mock_program: 16 nodes / 20 edges as asserted there;     *)
(*      graph.rs add_indirect_jumps: 2 / 2; forward_interprocedural_       *)
(*      fixpoint.rs mock_project), a program exercising every rule and a   *)
(*      program with conditionally executed calls (CBranch + call-like).   *)
(*  (2) All tiny programs: TLC enumerates every program with the block     *)
(*      layouts in Layouts over the jump-shape alphabet Shapes and checks  *)
(*      the internal consistency GraphSane of the definitions (edges       *)
(*      connect nodes of the graph, artificial nodes have the documented   *)
(*      degrees) and the counting identities Counts.                       *)
(***************************************************************************)
EXTENDS Cfg, TLC
CONSTANT Layouts        \* set of <<n1, n2>>: blocks of function 1 and 2 (n2 = -1: only one function)
LayoutsNone == {<<0, -1>>}
LayoutsQuick == {<<0, -1>>, <<1, -1>>, <<2, -1>>, <<1, 0>>, <<1, 1>>}
LayoutsThorough == LayoutsQuick \cup {<<2, 0>>, <<2, 1>>, <<1, 2>>, <<3, -1>>, <<2, 2>>}

J(tid, k, t, ret) == [tid |-> tid, k |-> k, t |-> t, ret |-> ret]
B(tid, jmps, ind) == [tid |-> tid, defs |-> <<>>, jmps |-> jmps, ind |-> ind]
S(tid, blocks) == [tid |-> tid, blocks |-> blocks]
X(tid, noret) == [tid |-> tid, noret |-> noret]
Prog(subs, externs) == [subs |-> subs, externs |-> externs]

BS(b, s) == Node("BlkStart", b, s, "", "")
BE(b, s) == Node("BlkEnd", b, s, "", "")
CS(b, s, b2, s2) == Node("CallSource", b, s, b2, s2)
CR(b, s, b2, s2) == Node("CallReturn", b, s, b2, s2)
BlockE(b, s) == Edge("Block", BS(b, s), BE(b, s), "", "")

(***************************************************************************)
(* H1: graph.rs tests::mock_program.  sub2's conditional jump targets a    *)
(* block of sub1, so sub1_blk1 and (through its call's return site)        *)
(* sub1_blk2 occur a second time for sub2.                                 *)
(***************************************************************************)
H1 == Prog(<<S("sub1", <<B("sub1_blk1", <<J("call", "call", "sub2", "sub1_blk2")>>, <<>>),
                         B("sub1_blk2", <<J("jump", "branch", "sub1_blk1", "")>>, <<>>)>>),
             S("sub2", <<B("sub2_blk1", <<J("cond_jump", "cbranch", "sub1_blk1", ""),
                                          J("jump2", "branch", "sub2_blk2", "")>>, <<>>),
                         B("sub2_blk2", <<J("return", "return", "", "")>>, <<>>)>>)>>, <<>>)
H1Nodes == <<
  BS("sub1_blk1", "sub1"), BE("sub1_blk1", "sub1"), BS("sub1_blk2", "sub1"), BE("sub1_blk2", "sub1"),
  BS("sub2_blk1", "sub2"), BE("sub2_blk1", "sub2"), BS("sub2_blk2", "sub2"), BE("sub2_blk2", "sub2"),
  BS("sub1_blk1", "sub2"), BE("sub1_blk1", "sub2"), BS("sub1_blk2", "sub2"), BE("sub1_blk2", "sub2"),
  CS("sub1_blk1", "sub1", "sub2_blk1", "sub2"), CS("sub1_blk1", "sub2", "sub2_blk1", "sub2"),
  CR("sub1_blk1", "sub1", "sub2_blk2", "sub2"), CR("sub1_blk1", "sub2", "sub2_blk2", "sub2") >>
H1Edges == <<
  BlockE("sub1_blk1", "sub1"), BlockE("sub1_blk2", "sub1"), BlockE("sub2_blk1", "sub2"),
  BlockE("sub2_blk2", "sub2"), BlockE("sub1_blk1", "sub2"), BlockE("sub1_blk2", "sub2"),
  \* sub1
  Edge("CallCombine", BE("sub1_blk1", "sub1"), CS("sub1_blk1", "sub1", "sub2_blk1", "sub2"), "call", ""),
  Edge("Call", CS("sub1_blk1", "sub1", "sub2_blk1", "sub2"), BS("sub2_blk1", "sub2"), "call", ""),
  Edge("Jump", BE("sub1_blk2", "sub1"), BS("sub1_blk1", "sub1"), "jump", ""),
  \* sub2 and its copies of sub1's blocks
  Edge("Jump", BE("sub2_blk1", "sub2"), BS("sub1_blk1", "sub2"), "cond_jump", ""),
  Edge("Jump", BE("sub2_blk1", "sub2"), BS("sub2_blk2", "sub2"), "jump2", "cond_jump"),
  Edge("CallCombine", BE("sub1_blk1", "sub2"), CS("sub1_blk1", "sub2", "sub2_blk1", "sub2"), "call", ""),
  Edge("Call", CS("sub1_blk1", "sub2", "sub2_blk1", "sub2"), BS("sub2_blk1", "sub2"), "call", ""),
  Edge("Jump", BE("sub1_blk2", "sub2"), BS("sub1_blk1", "sub2"), "jump", ""),
  \* return of sub2 to both call sites
  Edge("CrCallStub", CS("sub1_blk1", "sub1", "sub2_blk1", "sub2"), CR("sub1_blk1", "sub1", "sub2_blk2", "sub2"), "", ""),
  Edge("CrReturnStub", BE("sub2_blk2", "sub2"), CR("sub1_blk1", "sub1", "sub2_blk2", "sub2"), "", ""),
  Edge("ReturnCombine", CR("sub1_blk1", "sub1", "sub2_blk2", "sub2"), BS("sub1_blk2", "sub1"), "call", ""),
  Edge("CrCallStub", CS("sub1_blk1", "sub2", "sub2_blk1", "sub2"), CR("sub1_blk1", "sub2", "sub2_blk2", "sub2"), "", ""),
  Edge("CrReturnStub", BE("sub2_blk2", "sub2"), CR("sub1_blk1", "sub2", "sub2_blk2", "sub2"), "", ""),
  Edge("ReturnCombine", CR("sub1_blk1", "sub2", "sub2_blk2", "sub2"), BS("sub1_blk2", "sub2"), "call", "") >>
H1Entries == [t \in {"sub1", "sub2"} |-> IF t = "sub1" THEN BS("sub1_blk1", "sub1") ELSE BS("sub2_blk1", "sub2")]

(***************************************************************************)
(* H2: graph.rs tests::add_indirect_jumps (Program::mock_x64 has three     *)
(* extern symbols and the one function below).                             *)
(***************************************************************************)
H2 == Prog(<<S("sub", <<B("blk_00001000", <<J("indrect_jmp", "branchind", "", "")>>, <<"blk_00001000">>)>>)>>,
           <<X("free", FALSE), X("malloc", FALSE), X("other_function", FALSE)>>)
H2Nodes == <<BS("blk_00001000", "sub"), BE("blk_00001000", "sub")>>
H2Edges == <<BlockE("blk_00001000", "sub"),
             Edge("Jump", BE("blk_00001000", "sub"), BS("blk_00001000", "sub"), "indrect_jmp", "")>>

(***************************************************************************)
(* H3: forward_interprocedural_fixpoint.rs tests::mock_project             *)
(***************************************************************************)
H3 == Prog(<<S("called_function", <<B("callee block", <<J("ret", "return", "", "")>>, <<>>)>>),
             S("caller_function", <<B("caller_block_1", <<J("call", "call", "called_function", "caller_block_2")>>, <<>>),
                                    B("caller_block_2", <<J("jmp", "branch", "caller_block_1", "")>>, <<>>)>>)>>, <<>>)
H3Nodes == <<BS("callee block", "called_function"), BE("callee block", "called_function"),
             BS("caller_block_1", "caller_function"), BE("caller_block_1", "caller_function"),
             BS("caller_block_2", "caller_function"), BE("caller_block_2", "caller_function"),
             CS("caller_block_1", "caller_function", "callee block", "called_function"),
             CR("caller_block_1", "caller_function", "callee block", "called_function")>>
H3Edges == <<BlockE("callee block", "called_function"), BlockE("caller_block_1", "caller_function"),
             BlockE("caller_block_2", "caller_function"),
             Edge("CallCombine", BE("caller_block_1", "caller_function"),
                  CS("caller_block_1", "caller_function", "callee block", "called_function"), "call", ""),
             Edge("Call", CS("caller_block_1", "caller_function", "callee block", "called_function"),
                  BS("callee block", "called_function"), "call", ""),
             Edge("CrCallStub", CS("caller_block_1", "caller_function", "callee block", "called_function"),
                  CR("caller_block_1", "caller_function", "callee block", "called_function"), "", ""),
             Edge("CrReturnStub", BE("callee block", "called_function"),
                  CR("caller_block_1", "caller_function", "callee block", "called_function"), "", ""),
             Edge("ReturnCombine", CR("caller_block_1", "caller_function", "callee block", "called_function"),
                  BS("caller_block_2", "caller_function"), "call", ""),
             Edge("Jump", BE("caller_block_2", "caller_function"), BS("caller_block_1", "caller_function"), "jmp", "")>>

(***************************************************************************)
(* H4: every rule once.  f: recursion, two returning blocks, conditional   *)
(* followed by an indirect jump with a hint listed twice, extern calls     *)
(* with and without return site, indirect call, CallOther, call to an      *)
(* empty function, call without return site.  e is empty.                  *)
(***************************************************************************)
H4 == Prog(<<S("e", <<>>),
             S("f", <<B("f0", <<J("c0", "cbranch", "f1", ""), J("i0", "branchind", "", "")>>, <<"f2", "f2", "f3">>),
                      B("f1", <<J("k1", "call", "f", "f2")>>, <<>>),          \* recursive call, returns to f2
                      B("f2", <<J("k2", "call", "x", "f3")>>, <<>>),          \* extern call, returns to f3
                      B("f3", <<J("c3", "cbranch", "f4", ""), J("r3", "return", "", "")>>, <<>>),
                      B("f4", <<J("k4", "callind", "", "f5")>>, <<>>),
                      B("f5", <<J("k5", "call", "e", "f6")>>, <<>>),          \* call to the empty function: nothing
                      B("f6", <<J("k6", "callother", "", "f7")>>, <<"f0">>),  \* CallOther: nothing (hint ignored)
                      B("f7", <<J("r7", "return", "", "")>>, <<>>)>>),
             S("g", <<B("g0", <<J("kg0", "call", "f", "")>>, <<>>),           \* call without return site
                      B("g1", <<J("kg1", "call", "y", "")>>, <<>>),           \* extern call without return site
                      B("g2", <<J("kg2", "call", "f", "g1")>>, <<>>),
                      B("g3", <<>>, <<>>)>>)>>,
           <<X("x", FALSE), X("y", TRUE)>>)
FBlocks == <<"f0", "f1", "f2", "f3", "f4", "f5", "f6", "f7">>
GBlocks == <<"g0", "g1", "g2", "g3">>
H4NodeBag ==
  BagPlus(BagPlus(SeqBag([i \in 1..8 |-> BS(FBlocks[i], "f")]), SeqBag([i \in 1..8 |-> BE(FBlocks[i], "f")])),
  BagPlus(BagPlus(SeqBag([i \in 1..4 |-> BS(GBlocks[i], "g")]), SeqBag([i \in 1..4 |-> BE(GBlocks[i], "g")])),
          SeqBag(<<CS("f1", "f", "f0", "f"), CS("g0", "g", "f0", "f"), CS("g2", "g", "f0", "f"),
                   CR("f1", "f", "f3", "f"), CR("f1", "f", "f7", "f"),
                   CR("g2", "g", "f3", "f"), CR("g2", "g", "f7", "f")>>)))
H4EdgeBag ==
  BagPlus(BagPlus(SeqBag([i \in 1..8 |-> BlockE(FBlocks[i], "f")]), SeqBag([i \in 1..4 |-> BlockE(GBlocks[i], "g")])),
  SeqBag(<<
    Edge("Jump", BE("f0", "f"), BS("f1", "f"), "c0", ""),
    Edge("Jump", BE("f0", "f"), BS("f2", "f"), "i0", "c0"),      \* hint f2 is listed twice: two edges
    Edge("Jump", BE("f0", "f"), BS("f2", "f"), "i0", "c0"),
    Edge("Jump", BE("f0", "f"), BS("f3", "f"), "i0", "c0"),
    Edge("CallCombine", BE("f1", "f"), CS("f1", "f", "f0", "f"), "k1", ""),
    Edge("Call", CS("f1", "f", "f0", "f"), BS("f0", "f"), "k1", ""),
    Edge("ExternCallStub", BE("f2", "f"), BS("f3", "f"), "k2", ""),
    Edge("Jump", BE("f3", "f"), BS("f4", "f"), "c3", ""),
    Edge("ExternCallStub", BE("f4", "f"), BS("f5", "f"), "k4", ""),
    Edge("CallCombine", BE("g0", "g"), CS("g0", "g", "f0", "f"), "kg0", ""),
    Edge("Call", CS("g0", "g", "f0", "f"), BS("f0", "f"), "kg0", ""),
    Edge("CallCombine", BE("g2", "g"), CS("g2", "g", "f0", "f"), "kg2", ""),
    Edge("Call", CS("g2", "g", "f0", "f"), BS("f0", "f"), "kg2", ""),
    \* f returns from f3 and f7 to the two calls that have a return site
    Edge("CrCallStub", CS("f1", "f", "f0", "f"), CR("f1", "f", "f3", "f"), "", ""),
    Edge("CrReturnStub", BE("f3", "f"), CR("f1", "f", "f3", "f"), "", ""),
    Edge("ReturnCombine", CR("f1", "f", "f3", "f"), BS("f2", "f"), "k1", ""),
    Edge("CrCallStub", CS("f1", "f", "f0", "f"), CR("f1", "f", "f7", "f"), "", ""),
    Edge("CrReturnStub", BE("f7", "f"), CR("f1", "f", "f7", "f"), "", ""),
    Edge("ReturnCombine", CR("f1", "f", "f7", "f"), BS("f2", "f"), "k1", ""),
    Edge("CrCallStub", CS("g2", "g", "f0", "f"), CR("g2", "g", "f3", "f"), "", ""),
    Edge("CrReturnStub", BE("f3", "f"), CR("g2", "g", "f3", "f"), "", ""),
    Edge("ReturnCombine", CR("g2", "g", "f3", "f"), BS("g1", "g"), "kg2", ""),
    Edge("CrCallStub", CS("g2", "g", "f0", "f"), CR("g2", "g", "f7", "f"), "", ""),
    Edge("CrReturnStub", BE("f7", "f"), CR("g2", "g", "f7", "f"), "", ""),
    Edge("ReturnCombine", CR("g2", "g", "f7", "f"), BS("g1", "g"), "kg2", "")>>))

(***************************************************************************)
(* H5: a conditional branch followed by a call-like instruction (a         *)
(* conditionally executed call).  p0: CBranch + internal Call with return  *)
(* site; p1: CBranch + extern Call; p2: CBranch + CallInd; p3: CBranch +   *)
(* CallOther (nothing for the CallOther); p4: CBranch + internal Call      *)
(* without return site; p5: CBranch + Return.  q returns from q0 (second   *)
(* position) and q1.  The untaken conditional is NOT recorded on call,     *)
(* stub or return edges.                                                   *)
(***************************************************************************)
H5 == Prog(<<S("p", <<B("p0", <<J("a0", "cbranch", "p1", ""), J("b0", "call", "q", "p2")>>, <<>>),
                      B("p1", <<J("a1", "cbranch", "p0", ""), J("b1", "call", "x", "p2")>>, <<>>),
                      B("p2", <<J("a2", "cbranch", "p3", ""), J("b2", "callind", "", "p3")>>, <<>>),
                      B("p3", <<J("a3", "cbranch", "p4", ""), J("b3", "callother", "", "p4")>>, <<>>),
                      B("p4", <<J("a4", "cbranch", "p5", ""), J("b4", "call", "q", "")>>, <<>>),
                      B("p5", <<J("a5", "cbranch", "p5", ""), J("b5", "return", "", "")>>, <<>>)>>),
             S("q", <<B("q0", <<J("c0", "cbranch", "q1", ""), J("d0", "return", "", "")>>, <<>>),
                      B("q1", <<J("d1", "return", "", "")>>, <<>>)>>)>>,
           <<X("x", FALSE)>>)
PBlocks == <<"p0", "p1", "p2", "p3", "p4", "p5">>
H5NodeBag ==
  BagPlus(BagPlus(SeqBag([i \in 1..6 |-> BS(PBlocks[i], "p")]), SeqBag([i \in 1..6 |-> BE(PBlocks[i], "p")])),
          SeqBag(<<BS("q0", "q"), BE("q0", "q"), BS("q1", "q"), BE("q1", "q"),
                   CS("p0", "p", "q0", "q"), CS("p4", "p", "q0", "q"),
                   CR("p0", "p", "q0", "q"), CR("p0", "p", "q1", "q")>>))
H5EdgeBag ==
  BagPlus(SeqBag([i \in 1..6 |-> BlockE(PBlocks[i], "p")]),
  SeqBag(<<
    BlockE("q0", "q"), BlockE("q1", "q"),
    Edge("Jump", BE("p0", "p"), BS("p1", "p"), "a0", ""),
    Edge("CallCombine", BE("p0", "p"), CS("p0", "p", "q0", "q"), "b0", ""),
    Edge("Call", CS("p0", "p", "q0", "q"), BS("q0", "q"), "b0", ""),
    Edge("Jump", BE("p1", "p"), BS("p0", "p"), "a1", ""),
    Edge("ExternCallStub", BE("p1", "p"), BS("p2", "p"), "b1", ""),
    Edge("Jump", BE("p2", "p"), BS("p3", "p"), "a2", ""),
    Edge("ExternCallStub", BE("p2", "p"), BS("p3", "p"), "b2", ""),
    Edge("Jump", BE("p3", "p"), BS("p4", "p"), "a3", ""),
    Edge("Jump", BE("p4", "p"), BS("p5", "p"), "a4", ""),
    Edge("CallCombine", BE("p4", "p"), CS("p4", "p", "q0", "q"), "b4", ""),
    Edge("Call", CS("p4", "p", "q0", "q"), BS("q0", "q"), "b4", ""),
    Edge("Jump", BE("p5", "p"), BS("p5", "p"), "a5", ""),
    Edge("Jump", BE("q0", "q"), BS("q1", "q"), "c0", ""),
    \* q returns from q0 and q1 to the one call that has a return site (b0, returns to p2)
    Edge("CrCallStub", CS("p0", "p", "q0", "q"), CR("p0", "p", "q0", "q"), "", ""),
    Edge("CrReturnStub", BE("q0", "q"), CR("p0", "p", "q0", "q"), "", ""),
    Edge("ReturnCombine", CR("p0", "p", "q0", "q"), BS("p2", "p"), "b0", ""),
    Edge("CrCallStub", CS("p0", "p", "q0", "q"), CR("p0", "p", "q1", "q"), "", ""),
    Edge("CrReturnStub", BE("q1", "q"), CR("p0", "p", "q1", "q"), "", ""),
    Edge("ReturnCombine", CR("p0", "p", "q1", "q"), BS("p2", "p"), "b0", "")>>))

HandDerived ==
  /\ NodeBag(H1) = SeqBag(H1Nodes) /\ EdgeBag(H1) = SeqBag(H1Edges) /\ EntryNodes(H1) = H1Entries
  /\ BagSize(NodeBag(H1)) = 16 /\ BagSize(EdgeBag(H1)) = 20         \* the numbers graph.rs asserts
  /\ ~WellFormed(H1) /\ UniqueTids(H1) /\ ~IntraInSameSub(H1)
  /\ NodeBag(H2) = SeqBag(H2Nodes) /\ EdgeBag(H2) = SeqBag(H2Edges) /\ WellFormed(H2)
  /\ BagSize(NodeBag(H2)) = 2 /\ BagSize(EdgeBag(H2)) = 2
  /\ NodeBag(H3) = SeqBag(H3Nodes) /\ EdgeBag(H3) = SeqBag(H3Edges) /\ WellFormed(H3) /\ GraphSane(H3)
  /\ EntryNodes(H3) = [t \in {"called_function", "caller_function"} |->
                         IF t = "called_function" THEN BS("callee block", "called_function")
                         ELSE BS("caller_block_1", "caller_function")]
  /\ NodeBag(H4) = H4NodeBag /\ EdgeBag(H4) = H4EdgeBag /\ WellFormed(H4) /\ GraphSane(H4)
  /\ BagSize(H4EdgeBag) = 37 /\ H4EdgeBag[Edge("Jump", BE("f0", "f"), BS("f2", "f"), "i0", "c0")] = 2
  /\ DOMAIN EntryNodes(H4) = {"f", "g"}
  /\ NodeBag(H5) = H5NodeBag /\ EdgeBag(H5) = H5EdgeBag /\ WellFormed(H5) /\ GraphSane(H5)
  /\ BagSize(H5EdgeBag) = 27 /\ BagSize(H5NodeBag) = 20
  /\ EntryNodes(H5) = [t \in {"p", "q"} |-> IF t = "p" THEN BS("p0", "p") ELSE BS("q0", "q")]
  /\ Succ(H4, BE("f0", "f"), IntraKinds) = {BS("f1", "f"), BS("f2", "f"), BS("f3", "f")}
  /\ ReachE(Edges(H4), {BS("g2", "g")}, IntraKinds) = {BS("g2", "g"), BE("g2", "g")}
ASSUME HandDerived

(***************************************************************************)
(* (2) all tiny programs                                                   *)
(***************************************************************************)
VARIABLES lay, ch        \* layout <<n1, n2>>; shapes chosen so far (one per block, f's blocks first)
NSubs(L) == IF L[2] < 0 THEN 1 ELSE 2
Total(L) == L[1] + (IF L[2] < 0 THEN 0 ELSE L[2])
SubName(s) == IF s = 1 THEN "f" ELSE "g"
BlkName(s, b) == <<"f1", "f2", "f3", "g1", "g2", "g3">>[(s - 1) * 3 + b]
JmpName(s, b, j) == <<"f1a", "f1b", "f2a", "f2b", "f3a", "f3b", "g1a", "g1b", "g2a", "g2b", "g3a", "g3b">>[((s - 1) * 3 + b - 1) * 2 + j]
\* A shape is a record [a |-> first jump or "", ...]; it is turned into a block for position (s, b)
\* of layout L.  Targets are block numbers of the same function, callees are function numbers
\* (3 = the extern symbol "x").
Shapes(L, s) ==
  LET n == L[s]
      blks == 1..n
      subs == 1..NSubs(L)
  IN  {<<"none">>, <<"return">>}
      \cup {<<"branch", t>> : t \in blks}
      \cup {<<"cbranch+branch", t, u>> : t \in blks, u \in blks}
      \cup {<<"cbranch+return", t>> : t \in blks}
      \cup {<<"branchind", h>> : h \in {<<>>} \cup {<<t>> : t \in blks} \cup {<<t, t>> : t \in blks} \cup {<<1, n>>}}
      \cup {<<"cbranch+branchind", t>> : t \in blks}
      \cup {<<"call", c, r>> : c \in subs \cup {3}, r \in blks \cup {0}}
      \cup {<<"callind", r>> : r \in blks \cup {0}}
      \cup {<<"callother", r>> : r \in {1}}
      \* conditionally executed calls (conditional branch to block 1, then a call-like instruction)
      \cup {<<"cbranch+call", c, n>> : c \in subs \cup {3}}
      \cup {<<"cbranch+callind", 1>>, <<"cbranch+callother", 1>>}
TidOrNone(s, r) == IF r = 0 THEN "" ELSE BlkName(s, r)
CalleeName(c) == IF c = 3 THEN "x" ELSE SubName(c)
MkBlock(s, b, sh) ==
  LET a == JmpName(s, b, 1)
      z == JmpName(s, b, 2)
      T(i) == BlkName(s, sh[i])
  IN CASE sh[1] = "none" -> B(BlkName(s, b), <<>>, <<>>)
       [] sh[1] = "return" -> B(BlkName(s, b), <<J(a, "return", "", "")>>, <<>>)
       [] sh[1] = "branch" -> B(BlkName(s, b), <<J(a, "branch", T(2), "")>>, <<>>)
       [] sh[1] = "cbranch+branch" -> B(BlkName(s, b), <<J(a, "cbranch", T(2), ""), J(z, "branch", T(3), "")>>, <<>>)
       [] sh[1] = "cbranch+return" -> B(BlkName(s, b), <<J(a, "cbranch", T(2), ""), J(z, "return", "", "")>>, <<>>)
       [] sh[1] = "branchind" -> B(BlkName(s, b), <<J(a, "branchind", "", "")>>, [i \in DOMAIN sh[2] |-> BlkName(s, sh[2][i])])
       [] sh[1] = "cbranch+branchind" -> B(BlkName(s, b), <<J(a, "cbranch", T(2), ""), J(z, "branchind", "", "")>>, <<BlkName(s, 1), T(2)>>)
       [] sh[1] = "call" -> B(BlkName(s, b), <<J(a, "call", CalleeName(sh[2]), TidOrNone(s, sh[3]))>>, <<>>)
       [] sh[1] = "callind" -> B(BlkName(s, b), <<J(a, "callind", "", TidOrNone(s, sh[2]))>>, <<>>)
       [] sh[1] = "callother" -> B(BlkName(s, b), <<J(a, "callother", "", TidOrNone(s, sh[2]))>>, <<>>)
       [] sh[1] = "cbranch+call" -> B(BlkName(s, b), <<J(a, "cbranch", BlkName(s, 1), ""), J(z, "call", CalleeName(sh[2]), TidOrNone(s, sh[3]))>>, <<>>)
       [] sh[1] = "cbranch+callind" -> B(BlkName(s, b), <<J(a, "cbranch", BlkName(s, 1), ""), J(z, "callind", "", TidOrNone(s, sh[2]))>>, <<>>)
       [] sh[1] = "cbranch+callother" -> B(BlkName(s, b), <<J(a, "cbranch", BlkName(s, 1), ""), J(z, "callother", "", TidOrNone(s, sh[2]))>>, <<>>)
\* position k (1..Total) -> (sub, block)
PosSub(L, k) == IF k <= L[1] THEN 1 ELSE 2
PosBlk(L, k) == IF k <= L[1] THEN k ELSE k - L[1]
MkProg(L, c) ==
  Prog([s \in 1..NSubs(L) |->
          S(SubName(s), [b \in 1..L[s] |-> MkBlock(s, b, c[(IF s = 1 THEN 0 ELSE L[1]) + b])])],
       <<X("x", FALSE)>>)

Init == lay \in Layouts /\ ch = <<>>
Next == /\ Len(ch) < Total(lay)
        /\ \E sh \in Shapes(lay, PosSub(lay, Len(ch) + 1)) : ch' = Append(ch, sh)
        /\ UNCHANGED lay
Complete == Len(ch) = Total(lay)
\* counting identities that follow from the property's wording
Counts(P, G) ==
  LET E == G.edges
      NB == G.nodes
      CountK(bag, k) == SumOver({e \in DOMAIN bag : e.k = k}, bag)
      nb == Cardinality(BlkRefs(P))
  IN
  /\ CountK(NB, "BlkStart") = nb /\ CountK(NB, "BlkEnd") = nb /\ CountK(E, "Block") = nb
  /\ CountK(E, "Call") = CountK(NB, "CallSource") /\ CountK(E, "CallCombine") = CountK(NB, "CallSource")
  /\ CountK(E, "CrCallStub") = CountK(NB, "CallReturn") /\ CountK(E, "CrReturnStub") = CountK(NB, "CallReturn")
  /\ CountK(E, "ReturnCombine") = CountK(NB, "CallReturn")
  /\ \A e \in DOMAIN E : e.k # "Jump" => e.untaken = ""
  /\ \A n \in DOMAIN NB : NB[n] = 1       \* unique TIDs: no node occurs twice
Sane == Complete => LET P == MkProg(lay, ch)
                        G == Graph(P)
                    IN  WellFormed(P) /\ GraphSaneG(G) /\ Counts(P, G)
=============================================================================
