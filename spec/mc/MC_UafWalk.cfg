SPECIFICATION Spec
INVARIANT HandDerived
INVARIANT Intermediate
CHECK_DEADLOCK FALSE
