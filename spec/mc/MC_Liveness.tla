----------------------------- MODULE MC_Liveness -----------------------------
(***************************************************************************)
(* Mode M for X03: the definitions of Liveness.tla against HAND-DERIVED     *)
(* liveness sets of the hand-written functions of LivenessPrograms.tla, and *)
(* against each other, for EVERY subset R of the assignments and loads of   *)
(* every function (Init enumerates (function, R)):                          *)
(*   HandLiveness   live-in / live-out sets and dead assignments of the     *)
(*                  function itself equal the hand-derived ones;            *)
(*   HandAccepted   R is judged acceptable iff it is in the hand-derived    *)
(*                  list;                                                   *)
(*   Fixpoint       the frontier iteration ends in a solution of the        *)
(*                  equations, and it is the LEAST one: it equals the       *)
(*                  round-robin Kleene iteration from the empty sets;       *)
(*   AssignOnly     for a set R of assignments the two formulations agree:  *)
(*                  "every Def of R is dead in the function WITHOUT R" iff  *)
(*                  "R is a subset of the dead assignments of the function  *)
(*                  itself";                                                *)
(*   Structure      OnlyRemoved accepts exactly "P without R" (and rejects  *)
(*                  a changed jump, a reordered block, a missing Def that   *)
(*                  is not in R, a removed Store).                          *)
(***************************************************************************)
EXTENDS Liveness, LivenessPrograms

VARIABLES k, R
vars == <<k, R>>

F(i) == Progs[i]
RemovableTids(f) == UNION {{f.blocks[b].defs[d].tid : d \in {x \in DOMAIN f.blocks[b].defs : Removable(f.blocks[b].defs[x])}} : b \in DOMAIN f.blocks}
AssignTids(f) == UNION {{f.blocks[b].defs[d].tid : d \in {x \in DOMAIN f.blocks[b].defs : f.blocks[b].defs[x].k = "assign"}} : b \in DOMAIN f.blocks}

\* (the enumeration is in Next: TLC computes initial states with one thread)
Init == k = 0 /\ R = {}
Next == /\ k = 0
        /\ k' \in DOMAIN Progs
        /\ R' \in SUBSET RemovableTids(F(k'))

\* project P without the Defs of S
Without(f, S) ==
  [f EXCEPT !.blocks = [b \in DOMAIN f.blocks |-> [f.blocks[b] EXCEPT !.defs = SelectSeq(@, LAMBDA d : d.tid \notin S)]]]

HandLivenessBody ==
  LET f == F(k)
      li == LiveIn(f, Phys)
      lo == LiveOut(f, Phys)
  IN  /\ \A b \in DOMAIN f.blocks : li[b] = ExpLiveIn[k][b] /\ lo[b] = ExpLiveOut[k][b]
      /\ DeadAssigns(f, Phys) = ExpDead[k]

HandAcceptedBody == (BadRemovalsOfSub(F(k), R, Phys) = {}) <=> (R \in ExpAccepted[k])

\* round-robin Kleene iteration (all blocks in every round) from the empty sets
RECURSIVE Kleene(_, _, _)
Kleene(f, S, LI) ==
  LET new == [i \in DOMAIN f.blocks |-> LiveInOf(f, S, i, LI, Phys)]
  IN  IF \A i \in DOMAIN f.blocks : new[i] = LI[i] THEN LI ELSE Kleene(f, S, new)
FixpointBody ==
  LET f == F(k)
      li == LiveInLFP(f, R, Phys)
      kl == Kleene(f, R, [i \in DOMAIN f.blocks |-> {}])
  IN  /\ IsFixpoint(f, R, Phys, li)
      /\ \A i \in DOMAIN f.blocks : li[i] = kl[i]

AssignOnlyBody ==
  R \subseteq AssignTids(F(k)) =>
    ((BadRemovalsOfSub(F(k), R, Phys) = {}) <=> (R \subseteq DeadAssigns(F(k), Phys)))

\* a store is never acceptable, whatever its position
StoreTids(f) == UNION {{f.blocks[b].defs[d].tid : d \in {x \in DOMAIN f.blocks[b].defs : f.blocks[b].defs[x].k = "store"}} : b \in DOMAIN f.blocks}
StructureBody ==
  LET f == F(k)
      pb == Proj(f)
      pa == Proj(Without(f, R))
      b1 == f.blocks[1]
      \* variations of the result that are NOT "P without R"
      otherJump == Proj([Without(f, R) EXCEPT !.blocks[1].jmps = <<Br("jx", "b0")>>])
      otherRegs == [pa EXCEPT !.regs = <<RAX>>]
      swapped == IF Len(b1.defs) >= 2 /\ {b1.defs[1].tid, b1.defs[2].tid} \cap R = {}
                   THEN Proj([f EXCEPT !.blocks[1].defs = <<b1.defs[2], b1.defs[1]>> \o SubSeq(b1.defs, 3, Len(b1.defs))])
                   ELSE otherJump
  IN  /\ OnlyRemoved(pb, pa, R)
      /\ (R # {} => ~OnlyRemoved(pb, pa, {}))                 \* a Def is missing that is not declared removed
      /\ (R # {} => ~OnlyRemoved(pb, pb, R))                  \* a Def declared removed is still there
      /\ ~OnlyRemoved(pb, otherJump, R)
      /\ ~OnlyRemoved(pb, otherRegs, R)
      /\ (R = {} => ~OnlyRemoved(pb, swapped, R))
      /\ ~OnlyRemoved(pb, pa, R \cup {"nosuchdef"})
      /\ \A s \in StoreTids(f) : s \in BadRemovalsOfSub(f, R \cup {s}, Phys)
      /\ Accept(pb, pa, R) <=> (R \in ExpAccepted[k])
HandLiveness == (k # 0 /\ R = {}) => HandLivenessBody      \* (independent of R)
HandAccepted == k # 0 => HandAcceptedBody
Fixpoint == k # 0 => FixpointBody
AssignOnly == k # 0 => AssignOnlyBody
Structure == k # 0 => StructureBody
=============================================================================
