INIT Init
NEXT Next
INVARIANT MemLaws ExprAgree DivTotal RewriteSanity PoisonLaws BlockRun Control
CHECK_DEADLOCK FALSE
