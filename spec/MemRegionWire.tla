--------------------------- MODULE MemRegionWire ---------------------------
(***************************************************************************)
(* Wire encoding of MemRegion.tla's values / regions / operations and the  *)
(* ONE dispatcher  Apply(e)  from an operation record to the action of     *)
(* MemRegion.tla.  Shared by the trace specification trace/T_C05 (events   *)
(* recorded from the real MemRegion<T>, impl -> spec) and by the history   *)
(* carrying instance mc/MC_MemRegion_hist (operation records produced by   *)
(* TLC and replayed on the real type, spec -> impl), so both directions    *)
(* bind the same actions through the same field names.                     *)
(*                                                                         *)
(* value   <<s, abs, top01>> \o rel     all integers (ABSENT = -2, BVTOP = -1) *)
(* cell    <<offset>> \o value                                             *)
(* region  sequence of cells (as iter() yields them)                       *)
(* state   <<region A, region B>>                                          *)
(* operation record e (JSON object), e.ev one of                           *)
(*   add{r,off,val,via} remove{r,off,n} wtop{r,off,s} mtop{r,a,b,s}        *)
(*   alltop{r} shift{r,k} merge{dst,src} copy{dst,src} newtop{r}           *)
(*   setvals{r,offs,val} cleartop{r}                                       *)
(***************************************************************************)
EXTENDS MemRegion

WVal(w) == [s |-> w[1], abs |-> w[2], rel |-> SubSeq(w, 4, Len(w)), top |-> w[3] = 1]
VW(v)   == <<v.s, v.abs, IF v.top THEN 1 ELSE 0>> \o v.rel

WRegion(seq) ==
  [o \in {seq[i][1] : i \in DOMAIN seq} |->
     LET i == CHOOSE i \in DOMAIN seq : seq[i][1] = o IN WVal(Tail(seq[i]))]
WState(st) == [r \in Regions |-> WRegion(IF r = "A" THEN st[1] ELSE st[2])]
RW(c) == LET it == Iter(c) IN [i \in DOMAIN it |-> <<it[i][1]>> \o VW(it[i][2])]

SeqSet(q) == {q[i] : i \in DOMAIN q}

Mutators == {"add", "remove", "wtop", "mtop", "alltop", "shift", "merge", "copy", "newtop",
             "setvals", "cleartop"}

\* the action of MemRegion.tla an operation record denotes
Apply(e) ==
  CASE e.ev = "add"      -> Add(e.r, e.off, WVal(e.val))
    [] e.ev = "remove"   -> Remove(e.r, e.off, e.n)
    [] e.ev = "wtop"     -> MergeWriteTop(e.r, e.off, e.s)
    [] e.ev = "mtop"     -> MarkIntervalTop(e.r, e.a, e.b, e.s)
    [] e.ev = "alltop"   -> MarkAllTop(e.r)
    [] e.ev = "shift"    -> Shift(e.r, e.k)
    [] e.ev = "merge"    -> Merge(e.dst, e.src)
    [] e.ev = "copy"     -> Copy(e.dst, e.src)
    [] e.ev = "newtop"   -> NewTop(e.r)
    [] e.ev = "setvals"  -> SetValues(e.r, SeqSet(e.offs), WVal(e.val))
    [] e.ev = "cleartop" -> ClearTop(e.r)

\* the region the operation writes, and its expected contents (diagnostics only)
Target(e) == IF e.ev \in {"merge", "copy"} THEN e.dst ELSE e.r
=============================================================================
