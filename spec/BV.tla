------------------------------- MODULE BV -------------------------------
(***************************************************************************)
(* Reference semantics of the P-Code integer operations on bit vectors.   *)
(*                                                                         *)
(* A bit vector of w bytes is a sequence of w bytes (0..255), LITTLE       *)
(* endian: a[1] is the least significant byte.  TLC integers are 32 bit,   *)
(* so all arithmetic is done on byte limbs.  Booleans produced by          *)
(* comparisons are the 1-byte vectors <<0>> and <<1>>.                     *)
(*                                                                         *)
(* This module is the oracle for C01 (constant folding) and the evaluator  *)
(* used by IR.tla / Pcode.tla.  It is cross-checked against the integer    *)
(* transcription BVInt.tla on all 1-byte operands by mc/MC_BV.             *)
(***************************************************************************)
EXTENDS Integers, Sequences
LOCAL INSTANCE Bitwise

\* result token of operations the analyzer does not evaluate (a bit vector is never empty)
BvUnknown == <<>>
BvZero(w) == [i \in 1..w |-> 0]
BvOnes(w) == [i \in 1..w |-> 255]
BvIsZero(a) == \A i \in 1..Len(a) : a[i] = 0
BvSign(a) == a[Len(a)] \div 128
BvBool(b) == IF b THEN <<1>> ELSE <<0>>
BvIsBv(a, w) == Len(a) = w /\ \A i \in 1..w : a[i] \in 0..255

Pow2(n) == 2 ^ n         \* only used for n <= 8

\* n < 2^31 ; bytes above the fourth are zero
BvFromNat(n, w) == [i \in 1..w |-> IF i > 4 THEN 0 ELSE (n \div (256 ^ (i-1))) % 256]
\* two's complement of a small integer -2^30 < n < 2^30
BvFromInt(n, w) ==
  IF n >= 0 THEN BvFromNat(n, w)
  ELSE LET m == (-n) - 1          \* ~m = n
       IN [i \in 1..w |-> 255 - (IF i > 4 THEN 0 ELSE (m \div (256 ^ (i-1))) % 256)]
\* value if < 2^16, else 65536  (used for shift amounts)
BvSmall(a) ==
  IF \E i \in 3..Len(a) : a[i] # 0 THEN 65536
  ELSE a[1] + (IF Len(a) >= 2 THEN 256 * a[2] ELSE 0)
\* exact natural value; only for vectors known to be < 2^30
BvToNat(a) ==
  LET RECURSIVE go(_)
      go(i) == IF i > Len(a) \/ i > 4 THEN 0 ELSE a[i] + 256 * go(i+1)
  IN go(1)

(***************************************************************************)
(* Addition / subtraction                                                  *)
(***************************************************************************)
BvAddC(a, b, cin) ==
  LET w == Len(a)
      c[i \in 0..w] == IF i = 0 THEN cin ELSE (a[i] + b[i] + c[i-1]) \div 256
  IN [v |-> [i \in 1..w |-> (a[i] + b[i] + c[i-1]) % 256], c |-> c[w]]

BvNot(a) == [i \in 1..Len(a) |-> 255 - a[i]]
BvAdd(a, b) == BvAddC(a, b, 0).v
BvSub(a, b) == BvAddC(a, BvNot(b), 1).v
BvNeg(a) == BvAddC(BvZero(Len(a)), BvNot(a), 1).v
BvCarry(a, b) == BvAddC(a, b, 0).c                    \* unsigned overflow of a+b
BvULt(a, b) == BvAddC(a, BvNot(b), 1).c = 0           \* borrow of a-b
BvULe(a, b) == ~BvULt(b, a)
BvFlipSign(a) == [a EXCEPT ![Len(a)] = (@ + 128) % 256]
BvSLt(a, b) == BvULt(BvFlipSign(a), BvFlipSign(b))
BvSLe(a, b) == ~BvSLt(b, a)
\* signed overflow of a+b / a-b (P-Code INT_SCARRY / INT_SBORROW)
BvSCarry(a, b) == IF BvSign(a) = BvSign(b) /\ BvSign(BvAdd(a, b)) # BvSign(a) THEN 1 ELSE 0
BvSBorrow(a, b) == IF BvSign(a) # BvSign(b) /\ BvSign(BvSub(a, b)) # BvSign(a) THEN 1 ELSE 0

(***************************************************************************)
(* Bitwise                                                                 *)
(***************************************************************************)
BvAnd(a, b) == [i \in 1..Len(a) |-> a[i] & b[i]]
BvOr(a, b)  == [i \in 1..Len(a) |-> a[i] | b[i]]
BvXor(a, b) == [i \in 1..Len(a) |-> a[i] ^^ b[i]]

(***************************************************************************)
(* Multiplication (schoolbook, truncated to the operand width)             *)
(***************************************************************************)
BvMul(a, b) ==
  LET w == Len(a)
      RECURSIVE colsum(_, _)
      colsum(k, i) == IF i > k THEN 0 ELSE a[i] * b[k - i + 1] + colsum(k, i + 1)
      carry[k \in 0..w] == IF k = 0 THEN 0 ELSE (colsum(k, 1) + carry[k-1]) \div 256
  IN [k \in 1..w |-> (colsum(k, 1) + carry[k-1]) % 256]

(***************************************************************************)
(* Shifts.  n is a natural number of bits.                                 *)
(***************************************************************************)
BvByteAt(a, i, fill) == IF i < 1 THEN 0 ELSE IF i > Len(a) THEN fill ELSE a[i]
BvShlN(a, n) ==
  IF n >= 8 * Len(a) THEN BvZero(Len(a))
  ELSE LET k == n \div 8  s == n % 8
       IN [i \in 1..Len(a) |->
             ((BvByteAt(a, i - k, 0) * Pow2(s)) % 256) + (BvByteAt(a, i - k - 1, 0) \div Pow2(8 - s))]
\* logical (fill = 0) or arithmetic (fill = 255 if negative) right shift
BvShrFill(a, n, fill) ==
  IF n >= 8 * Len(a) THEN [i \in 1..Len(a) |-> fill]
  ELSE LET k == n \div 8  s == n % 8
       IN [i \in 1..Len(a) |->
             (BvByteAt(a, i + k, fill) \div Pow2(s)) + ((BvByteAt(a, i + k + 1, fill) * Pow2(8 - s)) % 256)]
BvShrN(a, n) == BvShrFill(a, n, 0)
BvSarN(a, n) == BvShrFill(a, n, IF BvSign(a) = 1 THEN 255 ELSE 0)
BvShl(a, b) == BvShlN(a, BvSmall(b))
BvShr(a, b) == BvShrN(a, BvSmall(b))
BvSar(a, b) == BvSarN(a, BvSmall(b))

(***************************************************************************)
(* Division (restoring long division on bits); b # 0                       *)
(***************************************************************************)
BvBit(a, j) == (a[(j \div 8) + 1] \div Pow2(j % 8)) % 2      \* bit j, 0-based
BvUDivRem(a, b) ==
  LET w == Len(a)
      bx == b \o <<0>>                          \* remainder kept one byte wider
      Shl1In(r, bit) == [i \in 1..w+1 |-> ((2 * r[i]) % 256) + (IF i = 1 THEN bit ELSE r[i-1] \div 128)]
      RECURSIVE go(_, _, _)
      go(j, q, r) ==
        IF j < 0 THEN [q |-> q, r |-> SubSeq(r, 1, w)]
        ELSE LET r1 == Shl1In(r, BvBit(a, j))
             IN IF BvULe(bx, r1)
                THEN go(j - 1, [q EXCEPT ![(j \div 8) + 1] = @ + Pow2(j % 8)], BvSub(r1, bx))
                ELSE go(j - 1, q, r1)
  IN go(8 * w - 1, BvZero(w), BvZero(w + 1))
BvUDiv(a, b) == BvUDivRem(a, b).q
BvURem(a, b) == BvUDivRem(a, b).r
BvAbs(a) == IF BvSign(a) = 1 THEN BvNeg(a) ELSE a
\* truncating signed division; min / -1 wraps to min
BvSDiv(a, b) == LET q == BvUDiv(BvAbs(a), BvAbs(b)) IN IF BvSign(a) # BvSign(b) THEN BvNeg(q) ELSE q
\* remainder has the sign of the dividend
BvSRem(a, b) == LET r == BvURem(BvAbs(a), BvAbs(b)) IN IF BvSign(a) = 1 THEN BvNeg(r) ELSE r

(***************************************************************************)
(* Size changing operations                                                *)
(***************************************************************************)
BvPiece(hi, lo) == lo \o hi
BvSubpiece(a, low, size) == SubSeq(a, low + 1, low + size)
BvZExt(a, s) == [i \in 1..s |-> IF i <= Len(a) THEN a[i] ELSE 0]
BvSExt(a, s) == [i \in 1..s |-> IF i <= Len(a) THEN a[i] ELSE (IF BvSign(a) = 1 THEN 255 ELSE 0)]
BvResizeU(a, s) == IF s <= Len(a) THEN SubSeq(a, 1, s) ELSE BvZExt(a, s)
BvResizeS(a, s) == IF s <= Len(a) THEN SubSeq(a, 1, s) ELSE BvSExt(a, s)
BytePop(x) == LET RECURSIVE p(_) p(y) == IF y = 0 THEN 0 ELSE (y % 2) + p(y \div 2) IN p(x)
BvPopCountN(a) == LET RECURSIVE s(_) s(i) == IF i > Len(a) THEN 0 ELSE BytePop(a[i]) + s(i+1) IN s(1)
ByteLz(x) == LET RECURSIVE z(_, _) z(y, n) == IF y = 0 THEN n ELSE z(y \div 2, n - 1) IN z(x, 8)
BvLzCountN(a) ==
  LET RECURSIVE s(_) s(i) == IF i < 1 THEN 0 ELSE IF a[i] = 0 THEN 8 + s(i-1) ELSE ByteLz(a[i])
  IN s(Len(a))
BvPopCount(a, s) == BvFromNat(BvPopCountN(a), s)
BvLzCount(a, s) == BvFromNat(BvLzCountN(a), s)
BvBoolNegate(a) == IF BvIsZero(a) THEN <<1>> ELSE <<0>>

(***************************************************************************)
(* Dispatch by the operation names of the IR (serde names of BinOpType,    *)
(* UnOpType, CastOpType).  BvUnknown marks operations the analyzer does    *)
(* not evaluate: floating point, mul/div/rem wider than 8 bytes, division  *)
(* by zero.                                                                *)
(***************************************************************************)
FloatBinOps == {"FloatEqual", "FloatNotEqual", "FloatLess", "FloatLessEqual",
                "FloatAdd", "FloatSub", "FloatMult", "FloatDiv"}
FloatUnOps == {"FloatNegate", "FloatAbs", "FloatSqrt", "FloatCeil", "FloatFloor", "FloatRound", "FloatNaN"}
FloatCastOps == {"Int2Float", "Float2Float", "Trunc"}
BoolResultOps == {"IntEqual", "IntNotEqual", "IntLess", "IntSLess", "IntLessEqual", "IntSLessEqual",
                  "IntCarry", "IntSCarry", "IntSBorrow", "BoolXOr", "BoolOr", "BoolAnd",
                  "FloatEqual", "FloatNotEqual", "FloatLess", "FloatLessEqual"}
MulDivOps == {"IntMult", "IntDiv", "IntSDiv", "IntRem", "IntSRem"}
DivOps == {"IntDiv", "IntSDiv", "IntRem", "IntSRem"}

BvBinOp(op, a, b) ==
  IF op \in FloatBinOps THEN BvUnknown
  ELSE IF op \in MulDivOps /\ Len(a) > 8 THEN BvUnknown
  ELSE IF op \in DivOps /\ BvIsZero(b) THEN BvUnknown
  ELSE CASE op = "Piece" -> BvPiece(a, b)
         [] op = "IntAdd" -> BvAdd(a, b)
         [] op = "IntSub" -> BvSub(a, b)
         [] op = "IntCarry" -> <<BvCarry(a, b)>>
         [] op = "IntSCarry" -> <<BvSCarry(a, b)>>
         [] op = "IntSBorrow" -> <<BvSBorrow(a, b)>>
         [] op = "IntMult" -> BvMul(a, b)
         [] op = "IntDiv" -> BvUDiv(a, b)
         [] op = "IntSDiv" -> BvSDiv(a, b)
         [] op = "IntRem" -> BvURem(a, b)
         [] op = "IntSRem" -> BvSRem(a, b)
         [] op = "IntLeft" -> BvShl(a, b)
         [] op = "IntRight" -> BvShr(a, b)
         [] op = "IntSRight" -> BvSar(a, b)
         [] op \in {"IntAnd", "BoolAnd"} -> BvAnd(a, b)
         [] op \in {"IntOr", "BoolOr"} -> BvOr(a, b)
         [] op \in {"IntXOr", "BoolXOr"} -> BvXor(a, b)
         [] op = "IntEqual" -> BvBool(a = b)
         [] op = "IntNotEqual" -> BvBool(a # b)
         [] op = "IntLess" -> BvBool(BvULt(a, b))
         [] op = "IntLessEqual" -> BvBool(BvULe(a, b))
         [] op = "IntSLess" -> BvBool(BvSLt(a, b))
         [] op = "IntSLessEqual" -> BvBool(BvSLe(a, b))

BvUnOp(op, a) ==
  IF op \in FloatUnOps THEN BvUnknown
  ELSE CASE op = "Int2Comp" -> BvNeg(a)
         [] op = "IntNegate" -> BvNot(a)
         [] op = "BoolNegate" -> BvBoolNegate(a)

BvCast(op, a, size) ==
  IF op \in FloatCastOps THEN BvUnknown
  ELSE CASE op = "IntZExt" -> BvZExt(a, size)
         [] op = "IntSExt" -> BvSExt(a, size)
         [] op = "PopCount" -> BvPopCount(a, size)
         [] op = "LzCount" -> BvLzCount(a, size)

\* Result width per the P-Code manual
BinResultSize(op, wa, wb) ==
  IF op = "Piece" THEN wa + wb ELSE IF op \in BoolResultOps THEN 1 ELSE wa
UnResultSize(op, wa) == IF op = "FloatNaN" THEN 1 ELSE wa
=============================================================================
