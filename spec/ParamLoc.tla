------------------------------ MODULE ParamLoc ------------------------------
(***************************************************************************)
(* X04 - parameter locations of the variadic arguments of a call.          *)
(*                                                                         *)
(* STATEMENT (what must always hold, over which inputs).  For every        *)
(* calling convention with NI integer and NF float parameter registers,    *)
(* every architecture (x86 family: the return address occupies the first   *)
(* pointer-sized stack slot at the call; every other architecture: it does *)
(* not), every extern symbol whose k fixed parameters are integer-class    *)
(* parameters placed as the convention places them (the first min(k,NI) in *)
(* the integer parameter registers in order, the others in ascending,      *)
(* non-overlapping stack slots behind the return address) and every list   *)
(* of variadic arguments (type in Integer, Pointer, Char, Double - the     *)
(* locatable types of the format-string grammar FormatString.tla - with    *)
(* its passed size), utils::arguments::calculate_parameter_locations       *)
(* returns, in order, for each variadic argument the location below,       *)
(* tagged with the argument's data type:                                   *)
(*   * integer class (Integer, Pointer, Char): the next unused INTEGER     *)
(*     parameter register, if one is left;                                 *)
(*   * float class (Double): the next unused FLOAT parameter register, if  *)
(*     one is left.  Integer and float registers are counted separately:   *)
(*     a float argument never consumes an integer register and vice versa  *)
(*     (unit test "Test Case 1: the string parameter is still written in   *)
(*     the RCX register since 'f' is contained in the float register");    *)
(*     fixed parameters consume integer registers only;                    *)
(*   * otherwise the next free stack slot: a slot of exactly the           *)
(*     argument's passed size (char already promoted to int by the         *)
(*     parser; NO rounding to the pointer size or stack alignment - the    *)
(*     code documents "a stack parameter given a size, stack offset and    *)
(*     data type" and nothing else) at SP + off, where off starts at the   *)
(*     first offset behind the fixed stack parameters, at least behind the *)
(*     return address (x86: pointer size; others: 0), and advances by the  *)
(*     slot size.  An argument placed in a register consumes no stack      *)
(*     space and an argument placed on the stack consumes no register      *)
(*     ("register and stack assignment are independent").                  *)
(* get_variable_parameters composes this with the format-string grammar:   *)
(* for a format string stored NUL-terminated in a read-only segment of the *)
(* memory image and addressed by a constant pointer in the symbol's        *)
(* format-string parameter it returns the locations of Expect(tokens) with *)
(* the sizes of the project's data types (an error iff the format is       *)
(* rejected); it returns an error when the format-string parameter does    *)
(* not exist, is not a constant pointer, or no string can be read there.   *)
(*                                                                         *)
(* NOT demanded (the code does not document it): ABI slot rounding         *)
(* (x86-64 / AArch64 pass every variadic stack argument in an 8-byte       *)
(* slot), 8-byte alignment of doubles on 32-bit RISC stacks, variadic      *)
(* doubles in integer registers (AAPCS, MIPS o32).  SlotSize is the single *)
(* place where a rounding rule would enter (constant function here).       *)
(*                                                                         *)
(* The module is a GENERATIVE state machine allocating argument by         *)
(* argument - state (next integer register, next float register, next      *)
(* stack offset) - plus an independent closed form (Locate) that           *)
(* mc/MC_ParamLoc checks against the machine, and design invariants        *)
(* (no two parameters share a register or overlapping stack bytes, the     *)
(* return address is never overlapped, registers are used in order).       *)
(*                                                                         *)
(* Abstract values                                                         *)
(*   location  [k |-> "ireg"|"freg", i |-> index (1-based), off |-> 0, size |-> 0] *)
(*             [k |-> "stack", i |-> 0, off |-> offset to SP, size |-> bytes]      *)
(*   call configuration                                                    *)
(*             [ni |-> NI, nf |-> NF, base |-> size of the return address  *)
(*              slot (0 if none), fixed |-> <<location of fixed param>>]   *)
(*   argument  [t |-> type name, s |-> passed size in bytes]               *)
(***************************************************************************)
EXTENDS Integers, Sequences, FiniteSets

IntClass == {"Integer", "Pointer", "Char"}
FloatClass == {"Double"}
Locatable == IntClass \cup FloatClass

IReg(i) == [k |-> "ireg", i |-> i, off |-> 0, size |-> 0]
FReg(i) == [k |-> "freg", i |-> i, off |-> 0, size |-> 0]
Slot(off, size) == [k |-> "stack", i |-> 0, off |-> off, size |-> size]

\* architectures whose call instruction pushes the return address ("On x86, this removes the return
\* address from the stack (other architectures pass the return address in a register, not on the stack)")
X86Family == {"x86", "x86_32", "x86_64"}
RetAddrSlot(arch, ptrsize) == IF arch \in X86Family THEN ptrsize ELSE 0

Max(S) == CHOOSE x \in S : \A y \in S : y <= x
Min2(a, b) == IF a <= b THEN a ELSE b

(***************************************************************************)
(* The input class: fixed parameters placed as the convention places       *)
(* integer-class parameters.                                               *)
(***************************************************************************)
FixedRegs(c) == {j \in 1..Len(c.fixed) : c.fixed[j].k = "ireg"}
FixedSlots(c) == {j \in 1..Len(c.fixed) : c.fixed[j].k = "stack"}
Conforming(c) ==
  LET k == Len(c.fixed)
      m == Min2(k, c.ni)
  IN /\ c.ni >= 0 /\ c.nf >= 0 /\ c.base >= 0
     /\ \A j \in 1..m : c.fixed[j] = IReg(j)
     /\ \A j \in (m + 1)..k : /\ c.fixed[j].k = "stack"
                              /\ c.fixed[j].size > 0
                              /\ c.fixed[j].off >= c.base
     /\ \A j \in (m + 1)..(k - 1) : c.fixed[j].off + c.fixed[j].size <= c.fixed[j + 1].off

\* the state before the first variadic argument
IntRegsUsed(c) == Max({0} \cup {c.fixed[j].i : j \in FixedRegs(c)})     \* registers are used in order
FirstFreeOffset(c) == Max({c.base} \cup {c.fixed[j].off + c.fixed[j].size : j \in FixedSlots(c)})

\* the slot a stack argument of the given passed size occupies (documented rule: its size)
SlotSize(size) == size

(***************************************************************************)
(* The allocation machine                                                  *)
(***************************************************************************)
VARIABLES cfg,      \* call configuration (constant during a behaviour)
          args,     \* variadic arguments placed so far
          ni,       \* number of integer parameter registers in use
          nf,       \* number of float parameter registers in use
          off,      \* next free stack offset (relative to SP at the call)
          locs      \* locations of args, in order
pvars == <<cfg, args, ni, nf, off, locs>>

Start(c) == /\ cfg = c
            /\ args = <<>>
            /\ ni = IntRegsUsed(c)
            /\ nf = 0
            /\ off = FirstFreeOffset(c)
            /\ locs = <<>>

ToStack(a) == /\ locs' = Append(locs, Slot(off, SlotSize(a.s)))
              /\ off' = off + SlotSize(a.s)
\* an integer-class argument: the next integer register ...
IntToReg(a) == /\ a.t \in IntClass /\ a.s > 0
               /\ ni < cfg.ni
               /\ args' = Append(args, a)
               /\ locs' = Append(locs, IReg(ni + 1)) /\ ni' = ni + 1
               /\ UNCHANGED <<cfg, nf, off>>
\* ... else the stack
IntToStack(a) == /\ a.t \in IntClass /\ a.s > 0
                 /\ ni >= cfg.ni
                 /\ args' = Append(args, a)
                 /\ ToStack(a)
                 /\ UNCHANGED <<cfg, ni, nf>>
\* a float-class argument: the next float register ...
FloatToReg(a) == /\ a.t \in FloatClass /\ a.s > 0
                 /\ nf < cfg.nf
                 /\ args' = Append(args, a)
                 /\ locs' = Append(locs, FReg(nf + 1)) /\ nf' = nf + 1
                 /\ UNCHANGED <<cfg, ni, off>>
\* ... else the stack
FloatToStack(a) == /\ a.t \in FloatClass /\ a.s > 0
                   /\ nf >= cfg.nf
                   /\ args' = Append(args, a)
                   /\ ToStack(a)
                   /\ UNCHANGED <<cfg, ni, nf>>
IntArg(a) == IntToReg(a) \/ IntToStack(a)
FloatArg(a) == FloatToReg(a) \/ FloatToStack(a)
Place(a) == IntArg(a) \/ FloatArg(a)

(***************************************************************************)
(* Closed form, written without the machine: the location of argument p    *)
(* as a function of the arguments before it.                               *)
(***************************************************************************)
IntBefore(as, p) == Cardinality({q \in 1..(p - 1) : as[q].t \in IntClass})
FloatBefore(as, p) == Cardinality({q \in 1..(p - 1) : as[q].t \in FloatClass})
InIntReg(c, as, p) == as[p].t \in IntClass /\ IntRegsUsed(c) + IntBefore(as, p) < c.ni
InFloatReg(c, as, p) == as[p].t \in FloatClass /\ FloatBefore(as, p) < c.nf
OnStack(c, as, p) == ~InIntReg(c, as, p) /\ ~InFloatReg(c, as, p)
RECURSIVE StackBytesBefore(_, _, _)
StackBytesBefore(c, as, p) ==
  IF p <= 1 THEN 0
  ELSE StackBytesBefore(c, as, p - 1) + (IF OnStack(c, as, p - 1) THEN SlotSize(as[p - 1].s) ELSE 0)
LocOf(c, as, p) ==
  IF InIntReg(c, as, p) THEN IReg(IntRegsUsed(c) + IntBefore(as, p) + 1)
  ELSE IF InFloatReg(c, as, p) THEN FReg(FloatBefore(as, p) + 1)
  ELSE Slot(FirstFreeOffset(c) + StackBytesBefore(c, as, p), SlotSize(as[p].s))
Locate(c, as) == [p \in 1..Len(as) |-> LocOf(c, as, p)]
ArgsOK(as) == \A p \in 1..Len(as) : as[p].t \in Locatable /\ as[p].s > 0

\* Start followed by Place(as[1]) ... Place(as[n]) as ONE macro step (trace validation: one call
\* of the real function per step); invariant ClosedFormAgrees of mc/MC_ParamLoc: the single steps
\* reach exactly this state
RECURSIVE Fold(_, _, _)
Fold(st, c, as) ==
  IF as = <<>> THEN st
  ELSE LET a == Head(as)
           reg == IF a.t \in IntClass THEN st.ni < c.ni ELSE st.nf < c.nf
           nxt == IF reg
                  THEN IF a.t \in IntClass
                       THEN [st EXCEPT !.ni = @ + 1, !.locs = Append(@, IReg(st.ni + 1))]
                       ELSE [st EXCEPT !.nf = @ + 1, !.locs = Append(@, FReg(st.nf + 1))]
                  ELSE [st EXCEPT !.off = @ + SlotSize(a.s), !.locs = Append(@, Slot(st.off, SlotSize(a.s)))]
       IN Fold(nxt, c, Tail(as))
RunState(c, as) == Fold([ni |-> IntRegsUsed(c), nf |-> 0, off |-> FirstFreeOffset(c), locs |-> <<>>], c, as)
Run(c, as) == \E st \in {RunState(c, as)} :
                /\ cfg' = c /\ args' = as
                /\ ni' = st.ni /\ nf' = st.nf /\ off' = st.off /\ locs' = st.locs

(***************************************************************************)
(* Design invariants of the allocation (checked by mc/MC_ParamLoc on the   *)
(* machine; they are consequences of the rule, not additional demands)     *)
(***************************************************************************)
AllLocs == cfg.fixed \o locs                   \* fixed parameters first, then the variadic ones
Overlap(a, b) == a.off < b.off + b.size /\ b.off < a.off + a.size
\* no two parameters of the call share a register or a byte of the stack
NoSharing ==
  \A p, q \in 1..Len(AllLocs) : p < q =>
     LET a == AllLocs[p]
         b == AllLocs[q]
     IN IF a.k = "stack" /\ b.k = "stack" THEN ~Overlap(a, b)
        ELSE IF a.k = b.k THEN a.i # b.i ELSE TRUE
\* only registers the convention has; the return address slot [0, base) is never a parameter
InBounds ==
  \A p \in 1..Len(locs) :
     CASE locs[p].k = "ireg" -> locs[p].i \in 1..cfg.ni
       [] locs[p].k = "freg" -> locs[p].i \in 1..cfg.nf
       [] locs[p].k = "stack" -> locs[p].off >= cfg.base /\ locs[p].size > 0
\* registers of a class are handed out in order and never again after the class spilled to the stack;
\* stack offsets grow in argument order
InOrder ==
  \A p, q \in 1..Len(locs) : p < q =>
     /\ (locs[p].k = locs[q].k /\ locs[p].k # "stack") => locs[p].i < locs[q].i
     /\ (locs[p].k = "stack" /\ locs[q].k = "stack") => locs[p].off + locs[p].size <= locs[q].off
     /\ (locs[p].k = "stack" /\ locs[q].k # "stack") =>
          ((args[p].t \in IntClass) # (args[q].t \in IntClass))
\* the machine's counters are the counts of its own output
Counters ==
  /\ ni = IntRegsUsed(cfg) + Cardinality({p \in 1..Len(locs) : locs[p].k = "ireg"})
  /\ nf = Cardinality({p \in 1..Len(locs) : locs[p].k = "freg"})
  /\ ni <= Max({cfg.ni, IntRegsUsed(cfg)}) /\ nf <= cfg.nf
  /\ Len(locs) = Len(args)
=============================================================================
