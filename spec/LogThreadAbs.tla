---------------------------- MODULE LogThreadAbs ----------------------------
(* Abstraction of LogThread.tla in which the collector does not appear: the  *)
(* state carries  fold = Fold(Prefix(chan))  - what the collector WILL have  *)
(* folded when it reaches Terminate - instead of the channel, the read index *)
(* and the collector's variables.  Sound because the channel is FIFO with a  *)
(* single consumer: the returned value is a function of the messages in      *)
(* front of Terminate, in channel order.  MC_LogThread checks that every     *)
(* step of LogThread is a step of this machine (or stutters) under the       *)
(* mapping                                                                   *)
(*     fold <- Fold(Prefix(chan)),  termd <- HasTerm(chan),                  *)
(*     spc, cur, opc, result <- the same variables.                          *)
(*                                                                           *)
(* This is the machine the trace specification T_C25 binds the real code to: *)
(*   observable (logged) actions  SendStart(s, m)  SendEnd(s)  CollectStart  *)
(*                                CollectEnd(res)  DropStart  DropEnd        *)
(*   internal actions (placed by TLC)  Enqueue(s)  SendTerminate             *)
(* There are no constants: sender ids are DOMAIN spc, messages are action    *)
(* parameters.                                                               *)
EXTENDS LogMsg

VARIABLES
  spc,     \* spc[s] \in {"idle", "sending", "enqueued"}
  cur,     \* cur[s] message of the send in progress
  fold,    \* Fold of the messages enqueued in front of Terminate so far
  termd,   \* Terminate has been enqueued
  opc,     \* owner, as in LogThread
  result   \* what collect() returned

avars == <<spc, cur, fold, termd, opc, result>>
NoResult == [logs |-> <<>>, cwes |-> <<>>]

InitWith(S) ==
  /\ spc = [s \in S |-> "idle"]
  /\ cur = [s \in S |-> NoMsg]
  /\ fold = EmptyFold /\ termd = FALSE /\ opc = "idle" /\ result = NoResult

\* a fresh LogThread is spawned (trace validation: many independent runs in one behaviour)
Reset(S) ==
  /\ spc' = [s \in S |-> "idle"]
  /\ cur' = [s \in S |-> NoMsg]
  /\ fold' = EmptyFold /\ termd' = FALSE /\ opc' = "idle" /\ result' = NoResult

SendStart(s, m) ==
  /\ spc[s] = "idle"
  /\ spc' = [spc EXCEPT ![s] = "sending"]
  /\ cur' = [cur EXCEPT ![s] = m]
  /\ UNCHANGED <<fold, termd, opc, result>>

\* linearisation point of send: in front of Terminate it is folded, behind it it is dropped
Enqueue(s) ==
  /\ spc[s] = "sending"
  /\ spc' = [spc EXCEPT ![s] = "enqueued"]
  /\ fold' = IF termd THEN fold ELSE FoldStep(fold, cur[s])
  /\ UNCHANGED <<cur, termd, opc, result>>

\* a send returns only after its message has been enqueued: this is what makes "completed
\* before collection was requested" imply "in front of Terminate" (clause 1 of C25)
SendEnd(s) ==
  /\ spc[s] = "enqueued"
  /\ spc' = [spc EXCEPT ![s] = "idle"]
  /\ cur' = [cur EXCEPT ![s] = NoMsg]
  /\ UNCHANGED <<fold, termd, opc, result>>

CollectStart == opc = "idle" /\ opc' = "requested" /\ UNCHANGED <<spc, cur, fold, termd, result>>
DropStart    == opc = "idle" /\ opc' = "dropreq"   /\ UNCHANGED <<spc, cur, fold, termd, result>>

SendTerminate ==
  /\ opc \in {"requested", "dropreq"}
  /\ termd' = TRUE
  /\ opc' = IF opc = "requested" THEN "joining" ELSE "dropjoin"
  /\ UNCHANGED <<spc, cur, fold, result>>

\* collect() returns res.  Required of res: the three clauses of C25 (ResultMatches); the order
\* among the warnings / among the addressed logs is left open.
CollectEnd(res) ==
  /\ opc = "joining"
  /\ ResultMatches(fold, res)
  /\ opc' = "collected" /\ result' = res
  /\ UNCHANGED <<spc, cur, fold, termd>>
\* what the code does: key order
CollectEndExact == CollectEnd(Returned(fold))

DropEnd == opc = "dropjoin" /\ opc' = "dropped" /\ UNCHANGED <<spc, cur, fold, termd, result>>
=============================================================================
