------------------------------ MODULE MemRegion ------------------------------
(***************************************************************************)
(* C05 - the abstract memory region (abstract_domain/mem_region.rs) as a   *)
(* deterministic state machine: a store of NON-OVERLAPPING TYPED CELLS.    *)
(*                                                                         *)
(* A region is a finite partial function  offset |-> value ; a value       *)
(* carries its byte size, so the cell at offset o occupies the bytes       *)
(* [o, o + v.s).  Two regions "A" and "B" are modelled so that merge and   *)
(* clone have a partner.  One action per public mutator of MemRegion<T>:   *)
(*                                                                         *)
(*   Add(r,o,v)             add / insert_at_byte_index                     *)
(*   Remove(r,o,n)          remove                                         *)
(*   MergeWriteTop(r,o,s)   merge_write_top                                *)
(*   MarkIntervalTop(r,a,b,s) mark_interval_values_as_top                  *)
(*   MarkAllTop(r)          mark_all_values_as_top                         *)
(*   Shift(r,k)             add_offset_to_all_indices                      *)
(*   Merge(dst,src)         dst := dst.merge(&src)   (AbstractDomain)      *)
(*   Copy(dst,src)          dst := src.clone()       (Arc copy-on-write)   *)
(*   NewTop(r)              r := r.top()             (the empty region)    *)
(*   SetValues(r,S,w)       values_mut() overwriting the cells at the      *)
(*                          offsets S, followed by clear_top_values()      *)
(*   ClearTop(r)            clear_top_values()                             *)
(*                                                                         *)
(* and the observers Read (get), ReadUnsized (get_unsized), Iter (iter /   *)
(* values / entry_map), IsTopRegion (is_top).                              *)
(*                                                                         *)
(* The module is parameterised by the VALUE DOMAIN through the state       *)
(* variable `dom` (a variable, not a constant, so that one TLC run - a     *)
(* model-checking instance or a trace with many reset-separated cases -    *)
(* covers both instances):                                                 *)
(*   "flat"    BitvectorDomain: a known bit vector or Top; merge of two    *)
(*             different elements is Top, so merging with Top is Top and   *)
(*             every top-write deletes the cell;                           *)
(*   "flagged" DataDomain<BitvectorDomain>: an optional absolute value,    *)
(*             optional offsets relative to abstract identifiers and the   *)
(*             flag contains_top_values; merge is component-wise and       *)
(*             merging with Top keeps the value and sets the flag; the     *)
(*             domain's Top is "nothing but the flag".                     *)
(* Everything the region machine needs from a value domain is  IsTop,      *)
(* TopOf, MergeV  and the size field  .s  - other modules can add further  *)
(* domains by extending these three operators.                             *)
(*                                                                         *)
(* Definitions and actions only; bounded instances are in mc/MC_MemRegion, *)
(* the binding to the real code in trace/T_C05.                            *)
(***************************************************************************)
EXTENDS Integers, FiniteSets, Sequences

VARIABLES
  dom,     \* value domain of the current run: "flat" | "flagged"
  cells    \* [Regions -> region]; region = [finite set of Int -> value]
vars == <<dom, cells>>

Regions == {"A", "B"}
Domains == {"flat", "flagged"}
Other(r) == IF r = "A" THEN "B" ELSE "A"

-----------------------------------------------------------------------------
(* VALUE DOMAINS.  One record shape for both domains (TLC compares only     *)
(* values of one shape):                                                   *)
(*   [s |-> byte size, abs |-> b, rel |-> <<b_1 .. b_NIds>>, top |-> flag] *)
(* where every b is an element of the BitvectorDomain of that size:        *)
(* a natural number = Value(n), BVTOP = Top(size), ABSENT = no entry       *)
(* (Option::None / identifier not in the map).  Flat values are            *)
(* [s, abs, rel |-> <<>>, top |-> FALSE] with abs # ABSENT.                *)
ABSENT == -2
BVTOP  == -1
NIds   == 2              \* abstract identifiers a flagged value may refer to
NoRel  == [i \in 1..NIds |-> ABSENT]

FlatVal(s, a)         == [s |-> s, abs |-> a, rel |-> <<>>, top |-> FALSE]
FlagVal(s, a, rel, t) == [s |-> s, abs |-> a, rel |-> rel, top |-> t]

\* BitvectorDomain::merge - equal elements stay, everything else is Top
BvMerge(a, b)  == IF a = b THEN a ELSE BVTOP
\* merge of two optional BitvectorDomain elements as DataDomain::merge does it
OptMerge(a, b) == IF a = ABSENT THEN b ELSE IF b = ABSENT THEN a ELSE BvMerge(a, b)

\* SizedDomain::new_top / HasTop::top
TopOf(D, s) == IF D = "flat" THEN FlatVal(s, BVTOP) ELSE FlagVal(s, ABSENT, NoRel, TRUE)

\* AbstractDomain::is_top
IsTop(D, v) ==
  IF D = "flat" THEN v.abs = BVTOP
  ELSE v.abs = ABSENT /\ v.top /\ \A i \in DOMAIN v.rel : v.rel[i] = ABSENT

\* AbstractDomain::merge of two values of the same size
MergeV(D, a, b) ==
  IF D = "flat" THEN FlatVal(a.s, BvMerge(a.abs, b.abs))
  ELSE FlagVal(a.s, OptMerge(a.abs, b.abs),
               [i \in DOMAIN a.rel |-> OptMerge(a.rel[i], b.rel[i])],
               a.top \/ b.top)

\* "merge it with a Top element": v.merge(&v.top())
WithTop(D, v) == MergeV(D, v, TopOf(D, v.s))

\* the same abstract content at another byte size (used by SetValues only)
Resize(v, s) == [v EXCEPT !.s = s]

-----------------------------------------------------------------------------
(* REGIONS as values: operators on one region c.                           *)
EmptyRegion == [p \in {} |-> 0]
Restrict(c, S) == [p \in S |-> c[p]]
Put(c, o, v) == [p \in DOMAIN c \cup {o} |-> IF p = o THEN v ELSE c[p]]

\* offsets of the cells that share a byte with [o, o+n)
Overlapping(c, o, n) == {p \in DOMAIN c : p < o + n /\ o < p + c[p].s}

\* clear_interval: drop every cell that shares a byte with [o, o+n)
ClearRange(c, o, n) == Restrict(c, DOMAIN c \ Overlapping(c, o, n))

\* clear_top_values
DropTop(D, c) == Restrict(c, {p \in DOMAIN c : ~IsTop(D, c[p])})

\* merge the cells at the offsets S with Top; a cell that becomes Top is dropped
TopMerge(D, c, S) ==
  LET T == S \cap DOMAIN c
      gone == {p \in T : IsTop(D, WithTop(D, c[p]))}
  IN [p \in DOMAIN c \ gone |-> IF p \in T THEN WithTop(D, c[p]) ELSE c[p]]

RAdd(D, c, o, v) ==                         \* add / insert_at_byte_index
  LET c1 == ClearRange(c, o, v.s)
  IN IF IsTop(D, v) THEN c1                 \* a Top value is never stored
     ELSE Put(c1, o, v)

RRemove(c, o, n) == ClearRange(c, o, n)     \* remove

RWriteTop(D, c, o, s) ==                    \* merge_write_top
  IF o \in DOMAIN c /\ c[o].s = s
    THEN TopMerge(D, c, {o})                \* exactly this cell: merge it with Top
    ELSE ClearRange(c, o, s)                \* anything else in the way is cleared

\* mark_interval_values_as_top(a, b, s): a write of s bytes somewhere in [a, b]
\* touches the bytes [a, b+s)
RMarkInterval(D, c, a, b, s) == TopMerge(D, c, Overlapping(c, a, b + s - a))

RMarkAll(D, c) == DropTop(D, TopMerge(D, c, DOMAIN c))   \* mark_all_values_as_top

RShift(c, k) == [p \in {q + k : q \in DOMAIN c} |-> c[p - k]]   \* add_offset_to_all_indices

\* values_mut() writing w (at the size of the cell) into the cells at offsets S,
\* then clear_top_values()
RSetValues(D, c, S, w) ==
  DropTop(D, [p \in DOMAIN c |-> IF p \in S THEN Resize(w, c[p].s) ELSE c[p]])

(* merge of two regions.  A candidate offset p (a cell of c1 or of c2) is   *)
(* in exactly one of four cases:                                           *)
(*   "both"    both regions hold a cell at p and the sizes agree;          *)
(*   "sizes"   both hold a cell at p, the sizes differ;                    *)
(*   "single"  only one region holds a cell at p and that cell shares no   *)
(*             byte with any cell of the other region;                     *)
(*   "overlap" only one region holds a cell at p, and it shares a byte     *)
(*             with some cell of the other region.                         *)
(* Only "both" (the merged value) and "single" (the value merged with Top) *)
(* are kept, and only if the resulting value is not Top.                   *)
MergeCase(c1, c2, p) ==
  IF p \in DOMAIN c1 /\ p \in DOMAIN c2
    THEN IF c1[p].s = c2[p].s THEN "both" ELSE "sizes"
    ELSE LET mine   == IF p \in DOMAIN c1 THEN c1 ELSE c2
             theirs == IF p \in DOMAIN c1 THEN c2 ELSE c1
         IN IF Overlapping(theirs, p, mine[p].s) = {} THEN "single" ELSE "overlap"

MergeCand(D, c1, c2, p) ==      \* defined for the cases "both" and "single"
  IF p \in DOMAIN c1 /\ p \in DOMAIN c2 THEN MergeV(D, c1[p], c2[p])
  ELSE IF p \in DOMAIN c1 THEN WithTop(D, c1[p])
  ELSE WithTop(D, c2[p])

RMerge(D, c1, c2) ==
  LET keep == {p \in DOMAIN c1 \cup DOMAIN c2 :
                 /\ MergeCase(c1, c2, p) \in {"both", "single"}
                 /\ ~IsTop(D, MergeCand(D, c1, c2, p))}
  IN [p \in keep |-> MergeCand(D, c1, c2, p)]

\* m consists of cells of c only (used to state "a merge keeps ONLY ...")
SubRegion(m, c) == DOMAIN m \subseteq DOMAIN c /\ \A p \in DOMAIN m : m[p] = c[p]

-----------------------------------------------------------------------------
(* OBSERVERS                                                               *)
\* get(o, s): the value stored at o with exactly the size s, else Top
Read(D, c, o, s) == IF o \in DOMAIN c /\ c[o].s = s THEN c[o] ELSE TopOf(D, s)
\* get_unsized(o): Option as a sequence of length 0 or 1
ReadUnsized(c, o) == IF o \in DOMAIN c THEN <<c[o]>> ELSE <<>>
\* is_top(): the empty region is the Top region
IsTopRegion(c) == DOMAIN c = {}
\* iter(): the cells in ascending offset order, as <<offset, value>> pairs
RECURSIVE IterFrom(_, _)
IterFrom(c, S) ==
  IF S = {} THEN <<>>
  ELSE LET m == CHOOSE x \in S : \A y \in S : x <= y
       IN <<<<m, c[m]>>>> \o IterFrom(c, S \ {m})
Iter(c) == IterFrom(c, DOMAIN c)

-----------------------------------------------------------------------------
(* THE STATE MACHINE                                                       *)
Init == dom \in Domains /\ cells = [r \in Regions |-> EmptyRegion]

Upd(r, c) == cells' = [cells EXCEPT ![r] = c] /\ UNCHANGED dom

Add(r, o, v)                == r \in Regions /\ v.s > 0 /\ Upd(r, RAdd(dom, cells[r], o, v))
Remove(r, o, n)             == r \in Regions /\ n > 0 /\ Upd(r, RRemove(cells[r], o, n))
MergeWriteTop(r, o, s)      == r \in Regions /\ s > 0 /\ Upd(r, RWriteTop(dom, cells[r], o, s))
MarkIntervalTop(r, a, b, s) == r \in Regions /\ a <= b /\ s > 0 /\ Upd(r, RMarkInterval(dom, cells[r], a, b, s))
MarkAllTop(r)               == r \in Regions /\ Upd(r, RMarkAll(dom, cells[r]))
Shift(r, k)                 == r \in Regions /\ Upd(r, RShift(cells[r], k))
Merge(dst, src)             == dst \in Regions /\ src \in Regions /\ Upd(dst, RMerge(dom, cells[dst], cells[src]))
Copy(dst, src)              == dst \in Regions /\ src \in Regions /\ Upd(dst, cells[src])
NewTop(r)                   == r \in Regions /\ Upd(r, EmptyRegion)
SetValues(r, S, w)          == r \in Regions /\ Upd(r, RSetValues(dom, cells[r], S, w))
ClearTop(r)                 == r \in Regions /\ Upd(r, DropTop(dom, cells[r]))

\* start of a new independent run (trace validation: one JVM, many cases)
Reset(D) == dom' = D /\ cells' = [r \in Regions |-> EmptyRegion]

-----------------------------------------------------------------------------
(* INVARIANTS (state predicates over all regions)                          *)
NoOverlapR(c) == \A p, q \in DOMAIN c : p < q => p + c[p].s <= q
NoTopStoredR(D, c) == \A p \in DOMAIN c : ~IsTop(D, c[p])
SizesPositiveR(c) == \A p \in DOMAIN c : c[p].s > 0

NoOverlap   == \A r \in Regions : NoOverlapR(cells[r])
NoTopStored == \A r \in Regions : NoTopStoredR(dom, cells[r])
SizesPositive == \A r \in Regions : SizesPositiveR(cells[r])

(* THE READ / MERGE CLAUSES OF THE PROPERTY.                                *)
(* Every mutator is a function of (state, arguments), so each clause is    *)
(* stated twice: as a predicate  ...At(D, c, ...)  on ONE region value and *)
(* all arguments from finite sets (an instance checks it as a state        *)
(* invariant: cheap, evaluated once per reachable state), and as a         *)
(* predicate on a step (checked as the action property [][P]_vars).        *)

Disjoint(p, s, o, n) == p + s <= o \/ o + n <= p      \* byte ranges [p,p+s) and [o,o+n)

\* (1) a write can be read back with exactly its offset and size
ReadAfterWriteAt(D, c, Offs, Vals) ==
  \A o \in Offs, v \in Vals : ~IsTop(D, v) => Read(D, RAdd(D, c, o, v), o, v.s) = v

\* (2) a read (p, s) whose bytes are disjoint from the bytes touched by a write / removal /
\* top-write still returns what it returned before ("the value last written there")
FrameAt(D, c, Offs, Vals, Sz) ==
  \A o \in Offs :
    /\ \A v \in Vals : LET c2 == RAdd(D, c, o, v) IN
         \A p \in Offs, s \in Sz : Disjoint(p, s, o, v.s) => Read(D, c2, p, s) = Read(D, c, p, s)
    /\ \A n \in Sz : LET c2 == RRemove(c, o, n)  c3 == RWriteTop(D, c, o, n) IN
         \A p \in Offs, s \in Sz : Disjoint(p, s, o, n) =>
             Read(D, c2, p, s) = Read(D, c, p, s) /\ Read(D, c3, p, s) = Read(D, c, p, s)
    /\ \A b \in Offs, n \in Sz : b >= o => LET c2 == RMarkInterval(D, c, o, b, n) IN
         \A p \in Offs, s \in Sz : Disjoint(p, s, o, b + n - o) => Read(D, c2, p, s) = Read(D, c, p, s)

\* (3) "... and the unknown value otherwise": after a write / removal every read that shares a
\* touched byte - except the read of the written cell itself - is unknown; after a top-write
\* it is the old value merged with Top (which is the unknown value in the flat domain)
TouchedAt(D, c, Offs, Vals, Sz) ==
  \A o \in Offs :
    /\ \A v \in Vals : LET c2 == RAdd(D, c, o, v) IN
         \A p \in Offs, s \in Sz :
           ~Disjoint(p, s, o, v.s) /\ ~(p = o /\ s = v.s /\ ~IsTop(D, v)) => Read(D, c2, p, s) = TopOf(D, s)
    /\ \A n \in Sz : LET c2 == RRemove(c, o, n)  c3 == RWriteTop(D, c, o, n) IN
         \A p \in Offs, s \in Sz : ~Disjoint(p, s, o, n) =>
           /\ Read(D, c2, p, s) = TopOf(D, s)
           /\ Read(D, c3, p, s) = (IF p = o /\ s = n /\ p \in DOMAIN c /\ c[p].s = s
                                    THEN WithTop(D, c[p]) ELSE TopOf(D, s))
    /\ \A b \in Offs, n \in Sz : b >= o => LET c2 == RMarkInterval(D, c, o, b, n) IN
         \A p \in Offs, s \in Sz : ~Disjoint(p, s, o, b + n - o) =>
           Read(D, c2, p, s) = (IF p \in DOMAIN c /\ c[p].s = s THEN WithTop(D, c[p]) ELSE TopOf(D, s))

\* (4) a merge keeps only cells that both inputs hold at the same offset with the same size
\* (merged) or that overlap nothing in the other input; it is symmetric
MergeKeepsOnlyAt(D, c1, c2) ==
  LET m == RMerge(D, c1, c2) IN
  /\ \A p \in DOMAIN m :
       \/ /\ p \in DOMAIN c1 /\ p \in DOMAIN c2 /\ c1[p].s = c2[p].s
          /\ m[p] = MergeV(D, c1[p], c2[p])
       \/ /\ p \in DOMAIN c1 /\ p \notin DOMAIN c2 /\ Overlapping(c2, p, c1[p].s) = {}
          /\ m[p] = WithTop(D, c1[p])
       \/ /\ p \in DOMAIN c2 /\ p \notin DOMAIN c1 /\ Overlapping(c1, p, c2[p].s) = {}
          /\ m[p] = WithTop(D, c2[p])
  /\ m = RMerge(D, c2, c1)

(* Clauses (1) and (4) as predicates on a step of the machine.             *)
ReadAfterWriteOn(Rs, Offs, Vals) ==
  \A r \in Rs, o \in Offs, v \in Vals :
    Add(r, o, v) /\ ~IsTop(dom, v) => Read(dom, cells'[r], o, v.s) = v
MergeKeepsOnlyOn(Rs) ==
  \A dst \in Rs : Merge(dst, Other(dst)) =>
    /\ MergeKeepsOnlyAt(dom, cells[dst], cells[Other(dst)])
    /\ SubRegion(cells'[dst], RMerge(dom, cells[Other(dst)], cells[dst]))
=============================================================================
