------------------------------ MODULE CfgObs ------------------------------
(* Binding of a RECORDED graph (harness/src/cfgenc.rs) to Cfg.tla; shared  *)
(* by the trace specifications that observe get_program_cfg (C08, C09).    *)
(* nodes: <<node>> in petgraph index order; edges: <<[k, s, d, jmp,        *)
(* untaken]>> with 1-based indices s, d into nodes; entries: <<[sub, n]>>. *)
EXTENDS Cfg
ObsEdges(nodes, edges) ==
  [i \in DOMAIN edges |-> Edge(edges[i].k, nodes[edges[i].s], nodes[edges[i].d], edges[i].jmp, edges[i].untaken)]
ObsEntries(nodes, entries) == {<<entries[i].sub, nodes[entries[i].n]>> : i \in DOMAIN entries}

\* the recorded graph is exactly the graph of program P: same node bag, same edge bag (edges
\* compared by the nodes they connect), same entry-node map
GraphMatches(nodes, edges, entries, P) ==
  LET G == Graph(P)
      EN == EntryNodes(P)
  IN  /\ SeqBag(nodes) = G.nodes
      /\ SeqBag(ObsEdges(nodes, edges)) = G.edges
      /\ Cardinality(ObsEntries(nodes, entries)) = Len(entries)
      /\ ObsEntries(nodes, entries) = {<<t, EN[t]>> : t \in DOMAIN EN}
\* "" if the recorded graph matches, else which part differs first
GraphDiff(nodes, edges, entries, P) ==
  LET G == Graph(P)
      EN == EntryNodes(P)
  IN  IF SeqBag(nodes) # G.nodes THEN "node bag differs from Cfg!Graph"
      ELSE IF SeqBag(ObsEdges(nodes, edges)) # G.edges THEN "edge bag differs from Cfg!Graph"
      ELSE IF Cardinality(ObsEntries(nodes, entries)) # Len(entries)
              \/ ObsEntries(nodes, entries) # {<<t, EN[t]>> : t \in DOMAIN EN} THEN "entry nodes differ from Cfg!EntryNodes"
      ELSE ""
=============================================================================
