---------------------------- MODULE EquivMonitor ----------------------------
(***************************************************************************)
(* Product machine for translation validation of a function-to-function   *)
(* program transformation (C10: Project::normalize_optimize and each of    *)
(* its passes).                                                            *)
(*                                                                         *)
(* Two copies of the IR machine (IR.tla) run the function before (p1) and  *)
(* after (p2) the transformation from the same initial state.  The         *)
(* specification of "p2 behaves observably like p1" is the invariant       *)
(*                                                                         *)
(*   ObsPrefix:  one observation sequence is a prefix of the other; a copy *)
(*               that has ended has seen everything the other one emitted  *)
(*               (so at joint termination the sequences are equal).        *)
(*                                                                         *)
(* Observations (IR.tla): every memory read and write with address, size   *)
(* and value; every call with its target (TID or runtime value), every     *)
(* return with its target value and every dead end, each with the values   *)
(* of all physical registers and the written memory; every indirect jump   *)
(* with its target value.  Temporaries are not observable.                 *)
(*                                                                         *)
(* Next advances the copy with the shorter pending observation sequence    *)
(* (ties: copy 1) by ONE BLOCK (IR!StepBlock); the common prefix of the    *)
(* two observation sequences is dropped after every step, so the state     *)
(* carries no history.  Every behaviour is deterministic; TLC explores one *)
(* behaviour per (case, initial state) chosen by Init.  Fuel bounds the    *)
(* number of block steps per copy (loops).                                 *)
(*                                                                         *)
(* A case is a record                                                      *)
(*   [p1, p2    sub records (irenc.rs) with field blocks; entry = blocks[1] *)
(*    sp, physregs, le, seed   the IR environment                          *)
(*    inits     sequence of initial register files (seq of [n, v])]        *)
(* plus fields that are only reported (pass, features, generator index).   *)
(*                                                                         *)
(* The sequence of cases is a PARAMETER C of Init and Next (not a          *)
(* CONSTANT): the binding module passes a cached constant definition, e.g. *)
(* the deserialised ndjson file, so that it is evaluated once.             *)
(*                                                                         *)
(* Reporting: a step into a state violating ObsPrefix prints               *)
(*   <<"BAD", case, init, kind of copy 1's / copy 2's first unmatched obs>>*)
(* and that state has no successors, so ONE run reports every diverging    *)
(* (case, initial state).  With INVARIANT ObsPrefix (T_C10_cex.cfg) TLC    *)
(* stops at the first one and prints its counterexample: the concrete      *)
(* execution, block by block, up to the divergence.                        *)
(***************************************************************************)
EXTENDS IR, TLC
CONSTANTS Fuel
VARIABLES cs,        \* index of the case
          ini,       \* index of the initial state
          m1, m2,    \* IR machine states of the two copies (obs = unmatched observations)
          k1, k2     \* block steps taken
vars == <<cs, ini, m1, m2, k1, k2>>

EnvOf(case, i) == [seed |-> (case.seed + 37 * i) % 65521, le |-> case.le,
                   sp |-> case.sp, physregs |-> case.physregs]
Entry(sub) == IF Len(sub.blocks) = 0 THEN "" ELSE sub.blocks[1].tid

Init(C) == \E c \in 1..Len(C) : \E i \in 1..Len(C[c].inits) :
          /\ cs = c /\ ini = i /\ k1 = 0 /\ k2 = 0
          /\ m1 = Start(Entry(C[c].p1), C[c].inits[i], EnvOf(C[c], i))
          /\ m2 = Start(Entry(C[c].p2), C[c].inits[i], EnvOf(C[c], i))

\* length of the common prefix of two sequences
CommonLen(o1, o2) ==
  LET RECURSIVE go(_)
      go(i) == IF i <= Len(o1) /\ i <= Len(o2) /\ o1[i] = o2[i] THEN go(i + 1) ELSE i - 1
  IN go(1)
DropObs(s, n) == [s EXCEPT !.obs = SubSeq(@, n + 1, Len(@))]

ObsPrefixOf(s1, s2) ==
  LET n == CommonLen(s1.obs, s2.obs)
  IN /\ (n = Len(s1.obs) \/ n = Len(s2.obs))          \* one is a prefix of the other
     /\ (~Running(s1) => n = Len(s2.obs))             \* copy 1 has ended: copy 2 emitted nothing more
     /\ (~Running(s2) => n = Len(s1.obs))
ObsPrefix == ObsPrefixOf(m1, m2)

Turn == IF ~Running(m1) THEN 2
        ELSE IF ~Running(m2) THEN 1
        ELSE IF Len(m1.obs) <= Len(m2.obs) THEN 1 ELSE 2

FirstKind(s) == IF Len(s.obs) = 0 THEN (IF Running(s) THEN "-" ELSE "ended") ELSE s.obs[1].k

Step(case) ==
  LET env == EnvOf(case, ini)
      n1 == IF Turn = 1 THEN StepBlock(case.p1.blocks, m1, env) ELSE m1
      n2 == IF Turn = 2 THEN StepBlock(case.p2.blocks, m2, env) ELSE m2
      n == CommonLen(n1.obs, n2.obs)
  IN /\ m1' = DropObs(n1, n)
     /\ m2' = DropObs(n2, n)
     /\ k1' = IF Turn = 1 THEN k1 + 1 ELSE k1
     /\ k2' = IF Turn = 2 THEN k2 + 1 ELSE k2
     /\ UNCHANGED <<cs, ini>>

\* (state predicates are written as `P = TRUE': TLC would otherwise split their inner disjunctions
\* into several identical successor computations)
Next(C) ==
        /\ ObsPrefix = TRUE                           \* a diverged pair stops
        /\ (Running(m1) \/ Running(m2)) = TRUE
        /\ (IF Turn = 1 THEN k1 ELSE k2) < Fuel
        /\ Step(C[cs])
        /\ IF ObsPrefixOf(m1', m2') THEN TRUE
           ELSE PrintT(<<"BAD", cs, ini, FirstKind(m1'), FirstKind(m2')>>)

Spec(C) == Init(C) /\ [][Next(C)]_vars
=============================================================================
