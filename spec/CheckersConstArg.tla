-------------------------- MODULE CheckersConstArg --------------------------
(***************************************************************************)
(* Specification of the constant-argument checkers (C18):                  *)
(*   CWE560 (umask with chmod-style argument) and                          *)
(*   CWE467 (sizeof on a pointer type).                                    *)
(* Both look at ONE basic block that ends in a call to an extern symbol    *)
(* and decide on the value of the call's parameter(s).  The specification  *)
(* obtains that value by RUNNING the block in the IR reference semantics   *)
(* (IR.tla: RunDefs = the Def part of RunBlock, i.e. the machine state in  *)
(* which the call is taken) from an arbitrary initial state:               *)
(*   register parameter  -> value of the parameter expression,             *)
(*   stack parameter     -> the bytes at the evaluated address.            *)
(* "Computed from constants alone" is a semantic notion here: the value is *)
(* defined (not Poison) and is the same from two unrelated initial states  *)
(* (different registers, different background memory).                     *)
(*   W560  <=>  the unique parameter is such a constant v with             *)
(*              v > 0o177 and v # 0o777 (unsigned)                         *)
(*   W467  <=>  some parameter is such a constant equal to the pointer size*)
(* args are the irenc.rs records [k |-> "reg", e] | [k |-> "stack", a, s]. *)
(***************************************************************************)
EXTENDS IR

ParamValue(arg, st, env) ==
  IF arg.k = "reg" THEN EvalExpr(arg.e, st.regs)
  ELSE LET a == EvalExpr(arg.a, st.regs)
       IN IF IsPoison(a) THEN Poison ELSE LoadBytes(st.mem, a, arg.s, env)

\* machine state in which the call at the end of blk is taken
AtCall(blk, init, env) == RunDefs(blk.defs, Start(blk.tid, init, env), env)

\* value of parameter arg at the call, from initial state init
ArgAtCall(blk, arg, init, env) == ParamValue(arg, AtCall(blk, init, env), env)

\* v as an unsigned number compared with a small natural n
UGtNat(v, n) == BvULt(BvFromNat(n, Len(v)), v)
EqNat(v, n) == v = BvFromNat(n, Len(v))

ChmodStyle(v) == UGtNat(v, 127) /\ ~EqNat(v, 511)            \* > 0o177 and # 0o777
PointerSized(v, ptr) == EqNat(v, ptr)
=============================================================================
