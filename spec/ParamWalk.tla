------------------------------ MODULE ParamWalk ------------------------------
(***************************************************************************)
(* C14: function signatures (analysis/function_signature) never miss a     *)
(* register parameter:                                                     *)
(*   every parameter register of a function's calling convention whose     *)
(*   ENTRY VALUE can be read on some path from the function entry before   *)
(*   the register is overwritten is reported as a parameter.               *)
(* ONE direction only:   MustBeParam(C, f) \subseteq Reported(f).          *)
(* (MustBeParam = MustBeParamFull, see note 2 below.)                      *)
(* Extra reported parameters (the analysis tracks values, not registers,   *)
(* and over-approximates) never raise an alarm.                            *)
(*                                                                         *)
(* MustBeParam is a reachability fixpoint of a nondeterministic WALKER     *)
(* over the edges of the Cfg.tla graph that belong to one function, with   *)
(* state  [n |-> node, W |-> convention parameter registers already        *)
(* overwritten on this path].                                              *)
(*                                                                         *)
(*   Reads (of a register not in W):                                       *)
(*     Block edge   per Def: assigned value, load address, store address   *)
(*                  and stored value (see modelled deviation 1)            *)
(*     Jump edge    condition of the conditional jump taken / of the       *)
(*                  untaken conditional before it; target expression of an *)
(*                  indirect jump (an indirect jump has edges only for its *)
(*                  target hints; a Return expression has no edge and is   *)
(*                  not a read)                                            *)
(*     extern call  the plain-register declared parameters of the symbol   *)
(*                  and the address expressions of its stack parameters    *)
(*     indirect call the target expression and the integer parameter       *)
(*                  registers of the standard convention                   *)
(*     internal call (with return site) the parameter registers the CALLEE *)
(*                  reads before overwriting them on a path to the         *)
(*                  returning block the walker comes back from             *)
(*                  (RetParams: least fixpoint over the call graph)        *)
(*   Writes: assigned / loaded register; at a call every register that is  *)
(*     not callee-saved in the callee's convention, and its return         *)
(*     registers.                                                          *)
(*                                                                         *)
(* MODELLED DEVIATIONS (all documented in the code, all make the           *)
(* requirement weaker, never stronger):                                    *)
(*  1. A plain `Store [stack address] := reg` is not a read of reg         *)
(*     ("prevent flagging callee-saved registers as parameters",           *)
(*     context/mod.rs update_def).  Stack addresses are recognised          *)
(*     syntactically (the address expression reads the stack pointer); the  *)
(*     input class keeps stack addresses out of other registers.           *)
(*  2. (NOT a deviation any more -- decided as the property is stated.)    *)
(*     The analysis treats a call that does not return as a dead end        *)
(*     (update_call_stub) and transfers callee reads to the caller only at  *)
(*     a return (update_return).  The property demands these reads all the  *)
(*     same, so the specification computes TWO sets per function:           *)
(*       MustBeParamReturning  the reads along edges on which the analysis  *)
(*                             propagates a state (returning calls only);   *)
(*       MustBeParamFull       additionally, at every call jump of a        *)
(*                             reached block: the declared parameters of    *)
(*                             the extern symbol (also a noreturn one, also *)
(*                             without return site), the standard           *)
(*                             parameters of an indirect call, and the      *)
(*                             callee's own MustBeParamFull for an internal *)
(*                             call (least fixpoint over the call graph) -- *)
(*                             whether or not the call returns.             *)
(*     The REQUIREMENT is MustBeParamFull(f) \subseteq Reported(f).  A     *)
(*     register that is only in Full is missed for one of the reason        *)
(*     classes of MissReasons (recorded defects of the implementation).     *)
(*  3. A declared parameter / float parameter that is a sub-register        *)
(*     expression is evaluated as a value (loses the identifier): only      *)
(*     plain-register parameters are required.                             *)
(* Definitions only; T_C14 binds them to recorded runs.                     *)
(***************************************************************************)
EXTENDS WalkBase

SpName(PJ) == PJ.sp.n
\* per project: lookup tables, the nodes at which the analysis has a state, control successors
NodeSet(E) == {e.src : e \in E} \cup {e.dst : e \in E}

\* May the analysis propagate a state along edge e (given that it has one at e.src)?
\* Call edges transfer nothing (update_call = None); stubs of noreturn symbols are dead ends.
PlainPass(jmp, ext, e) ==
  CASE e.k \in {"Block", "Jump", "CallCombine", "CrCallStub", "CrReturnStub", "ReturnCombine"} -> TRUE
    [] e.k = "ExternCallStub" -> LET j == jmp[e.jmp] IN IF j.k = "call" THEN ~ext[j.t].noret ELSE TRUE
    [] OTHER -> FALSE       \* Call

\* Nodes at which the fixpoint has a (complete) value: least set containing every function entry,
\* closed under passing edges, where a CallReturn node needs BOTH its inputs (the caller's state via
\* CrCallStub and the callee's state at the returning block via CrReturnStub).
RECURSIVE LiveClosure(_, _, _, _)
LiveClosure(E, jmp, ext, L) ==
  LET cand == {e.dst : e \in {x \in E : x.src \in L /\ PlainPass(jmp, ext, x)}} \ L
      ok == {n \in cand : n.k = "CallReturn" => \A e \in E : e.dst = n => e.src \in L}
  IN  IF ok = {} THEN L ELSE LiveClosure(E, jmp, ext, L \cup ok)

Context(PJ) ==
  LET P == PJ.program
      E == DOMAIN Graph(P).edges
      jmp == JmpTable(P)
      ext == ExternTable(P)
      entries == EntryNodes(P)
      live == LiveClosure(E, jmp, ext, {entries[t] : t \in DOMAIN entries})
      \* the edges the walker may take: passing edges between live nodes, never into another function
      WE == {e \in E : /\ e.src \in live /\ e.dst \in live /\ PlainPass(jmp, ext, e) /\ e.k # "CrReturnStub"}
  IN  [PJ |-> PJ, P |-> P, E |-> E, jmp |-> jmp, ext |-> ext, entries |-> entries, live |-> live,
       wout |-> Table([n \in live |-> {e \in WE : e.src = n}]),
       wsucc |-> Table([n \in live |-> {e.dst : e \in {x \in WE : x.src = n}}]),
       \* per function TID: its convention, its tracked parameter registers (not the stack pointer)
       cc |-> Table([t \in SubTids(P) |-> SubCconv(PJ, t)]),
       pr |-> Table([t \in SubTids(P) |-> ParamRegs(SubCconv(PJ, t)) \ {SpName(PJ)}]),
       \* defs / jumps of the block behind every live BlkStart / BlkEnd node
       defs |-> Table([n \in {x \in live : x.k = "BlkStart"} |-> BlkOfNode(P, n).defs]),
       jmps |-> Table([n \in {x \in live : x.k = "BlkEnd"} |-> BlkOfNode(P, n).jmps])]

\* the parameter registers tracked for the function with TID t (the stack pointer is not tracked)
PR(C, t) == C.pr[t]

(***************************************************************************)
(* One walker step.  RP is the current approximation of RetParams:         *)
(* a function  CallReturn node -> registers the callee reads on the way to *)
(* that returning block.                                                   *)
(***************************************************************************)
St(n, W) == [n |-> n, W |-> W]
Acc(R, W) == [R |-> R, W |-> W]
PlainRegArgs(args) == {args[i].e.v.n : i \in {x \in DOMAIN args : args[x].k = "reg" /\ args[x].e.k = "var"}}

RECURSIVE RunDefs(_, _, _, _)
\* a = [R |-> registers read so far while not overwritten, W |-> overwritten]; pr = tracked registers
RunDefs(defs, i, a, sp) ==
  IF i > Len(defs) THEN a
  ELSE LET d == defs[i] IN
       CASE d.k = "assign" -> RunDefs(defs, i + 1, Acc(a.R \cup (InputVars(d.e) \ a.W), a.W \cup {d.v.n}), sp)
         [] d.k = "load" -> RunDefs(defs, i + 1, Acc(a.R \cup (InputVars(d.a) \ a.W), a.W \cup {d.v.n}), sp)
         [] d.k = "store" ->
              LET spill == d.e.k = "var" /\ sp \in InputVars(d.a)        \* deviation 1
                  rd == InputVars(d.a) \cup (IF spill THEN {} ELSE InputVars(d.e))
              IN  RunDefs(defs, i + 1, Acc(a.R \cup (rd \ a.W), a.W), sp)

CondVars(C, t) == IF t # NoTid /\ C.jmp[t].k = "cbranch" THEN InputVars(C.jmp[t].c) ELSE {}

\* Result of taking walker edge e from state s in function f (TID): [R |-> registers read (not yet
\* restricted to PR), W |-> new overwritten set]
EdgeEffect(C, RP, f, s, e) ==
  CASE e.k = "Block" -> RunDefs(C.defs[s.n], 1, Acc({}, s.W), SpName(C.PJ))
    [] e.k = "Jump" ->
         Acc((CondVars(C, e.jmp) \cup CondVars(C, e.untaken)
              \cup (IF C.jmp[e.jmp].k = "branchind" THEN InputVars(C.jmp[e.jmp].e) ELSE {})) \ s.W, s.W)
    [] e.k = "ExternCallStub" ->
         LET j == C.jmp[e.jmp] IN
         IF j.k = "call"
         THEN LET x == C.ext[j.t]
                  cc == ExternCconv(C.PJ, x)
              IN  Acc((PlainRegArgs(x.params) \cup StackArgAddrVars(x.params)) \ s.W,
                      s.W \cup (PR(C, f) \ SavedRegs(cc)) \cup RegArgVars(x.rets) \cup AllRetRegs(cc))
         ELSE LET cc == StdCconv(C.PJ)
              IN  Acc((InputVars(j.e) \cup VarNames(cc.params)) \ s.W,
                      s.W \cup (PR(C, f) \ SavedRegs(cc)) \cup AllRetRegs(cc))
    [] e.k \in {"CallCombine", "CrCallStub"} -> Acc({}, s.W)
    [] e.k = "ReturnCombine" ->        \* s.n = CallReturn(call site in f, returning block of callee sub2)
         LET cc == C.cc[s.n.sub2]
         IN  Acc((IF s.n \in DOMAIN RP THEN RP[s.n] ELSE {}) \ s.W,
                 s.W \cup (PR(C, f) \ SavedRegs(cc)) \cup AllRetRegs(cc))

\* [reads |-> {<<node, reg>>}, next |-> successor states] of state s
Step(C, RP, f, s) ==
  LET pr == PR(C, f)
      effs == {<<e, EdgeEffect(C, RP, f, s, e)>> : e \in C.wout[s.n]}
  IN  [reads |-> UNION {{<<x[1].dst, p>> : p \in x[2].R \cap pr} : x \in effs},
       next |-> {St(x[1].dst, x[2].W \cap pr) : x \in effs}]

RECURSIVE Explore(_, _, _, _, _, _)
Explore(C, RP, f, visited, frontier, reads) ==
  IF frontier = {} THEN [reads |-> reads, states |-> visited]
  ELSE LET rs == {Step(C, RP, f, s) : s \in frontier}
           new == UNION {r.next : r \in rs} \ visited
       IN  Explore(C, RP, f, visited \cup new, new, reads \cup UNION {r.reads : r \in rs})

\* the walk of the function with TID f: [reads |-> read events <<node after the reading edge,
\* register>>, states |-> all walker states reached]
Walk(C, RP, f) == LET s0 == St(C.entries[f], {}) IN Explore(C, RP, f, {s0}, {s0}, {})
ReadEvents(C, RP, f) == Walk(C, RP, f).reads

(***************************************************************************)
(* RetParams: least fixpoint over the call graph                           *)
(***************************************************************************)
RECURSIVE CtlClosure(_, _, _)
CtlClosure(succ, visited, frontier) ==
  IF frontier = {} THEN visited
  ELSE LET new == UNION {succ[n] : n \in frontier} \ visited
       IN  CtlClosure(succ, visited \cup new, new)
\* live CallReturn nodes = (call with return site, returning block blk2 of callee sub2)
CallReturnNodes(C) == {n \in C.live : n.k = "CallReturn"}
FunTids(C) == DOMAIN C.entries

\* registers of `events` read at a node from which `target` is control-reachable
ReadsReaching(C, events, target) ==
  {ev[2] : ev \in {x \in events : target \in CtlClosure(C.wsucc, {x[1]}, {x[1]})}}

NextRP(C, RP) ==
  LET evs == Table([f \in FunTids(C) |-> ReadEvents(C, RP, f)])
  IN  Table([n \in CallReturnNodes(C) |->
         ReadsReaching(C, evs[n.sub2], Node("BlkEnd", n.blk2, n.sub2, NoTid, NoTid))])
RECURSIVE RPFix(_, _)
RPFix(C, RP) == LET N == NextRP(C, RP) IN IF N = RP THEN RP ELSE RPFix(C, N)
RetParams(C) == RPFix(C, Table([n \in CallReturnNodes(C) |-> {}]))

(***************************************************************************)
(* The two parameter sets (function TID -> set of register names)          *)
(***************************************************************************)
\* registers read by the call jump j itself (declared / convention parameters, callee's reads);
\* MF = current approximation of MustBeParamFull
CallReadsOf(C, MF, j) ==
  CASE j.k = "call" /\ j.t \in DOMAIN C.ext ->
         PlainRegArgs(C.ext[j.t].params) \cup StackArgAddrVars(C.ext[j.t].params)
    [] j.k = "call" /\ j.t \in DOMAIN MF -> MF[j.t]          \* internal call to a function with blocks
    [] j.k = "callind" -> InputVars(j.e) \cup VarNames(StdCconv(C.PJ).params)
    [] OTHER -> {}
\* walker states of f standing at the end of a block, paired with the call jumps of that block
CallPoints(C, V, f) ==
  UNION {{<<s, C.jmps[s.n][i]>> : i \in DOMAIN C.jmps[s.n]} : s \in {x \in V[f] : x.n.k = "BlkEnd"}}
NextMF(C, V, MR, MF) ==
  Table([f \in FunTids(C) |->
     MR[f] \cup UNION {(CallReadsOf(C, MF, cp[2]) \ cp[1].W) \cap C.pr[f] : cp \in CallPoints(C, V, f)}])
RECURSIVE MFFix(_, _, _, _)
MFFix(C, V, MR, MF) == LET N == NextMF(C, V, MR, MF) IN IF N = MF THEN MF ELSE MFFix(C, V, MR, N)

\* why the implementation may miss a register that is read by call jump j only
ReasonOf(C, j) ==
  IF j.k = "call" /\ j.t \in DOMAIN C.ext /\ C.ext[j.t].noret THEN "noreturn-call-read"
  ELSE IF j.ret = NoTid THEN "call-without-return-site"
  ELSE "callee-nonreturning-path"

\* Everything about one project: [ret |-> MustBeParamReturning, full |-> MustBeParamFull,
\* states |-> walker states per function]
Analysis(C) ==
  LET RP == RetParams(C)
      W == Table([f \in FunTids(C) |-> Walk(C, RP, f)])
      MR == Table([f \in FunTids(C) |-> {ev[2] : ev \in W[f].reads}])
      V == Table([f \in FunTids(C) |-> W[f].states])
  IN  [ret |-> MR, full |-> MFFix(C, V, MR, MR), states |-> V]
\* the reason classes for which register r of function f is in Full (given A = Analysis(C))
MissReasons(C, A, f, r) ==
  {ReasonOf(C, cp[2]) : cp \in {x \in CallPoints(C, A.states, f) : r \in CallReadsOf(C, A.full, x[2]) \ x[1].W}}

MustBeParamReturningAll(C) == Analysis(C).ret
MustBeParamFullAll(C) == Analysis(C).full
MustBeParamAll(C) == MustBeParamFullAll(C)
MustBeParam(C, f) == MustBeParamAll(C)[f]
=============================================================================
